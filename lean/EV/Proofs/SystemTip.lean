import EV.Proofs.System

/-!
The tip part of the coherence model: `hsub_results`, `notified_height`, the header reads of
`_refresh_hsub_results`, header subscriptions.  Independent of the status part
(`EV/Proofs/System.lean`): the loops of `_notify_inner` do not touch these fields.
-/
namespace EV.System

/-- the tip-related fields are the same -/
structure TipEq (st st' : St) : Prop where
  chain : st'.chain = st.chain
  seen : st'.seen = st.seen
  hsub : st'.hsub = st.hsub
  nh : st'.notifiedHeight = st.notifiedHeight
  tipDone : st'.tipDone = st.tipDone
  hreads : st'.hreads = st.hreads
  hdrSub : st'.hdrSub = st.hdrSub
  heldHdr : st'.heldHdr = st.heldHdr
  alive : st'.alive = st.alive
  subsLen : st'.subs.length = st.subs.length

theorem TipEq.refl (st : St) : TipEq st st := ⟨rfl, rfl, rfl, rfl, rfl, rfl, rfl, rfl, rfl, rfl⟩

theorem TipEq.trans {a b c : St} (h1 : TipEq a b) (h2 : TipEq b c) : TipEq a c :=
  ⟨h2.chain.trans h1.chain, h2.seen.trans h1.seen, h2.hsub.trans h1.hsub, h2.nh.trans h1.nh,
   h2.tipDone.trans h1.tipDone, h2.hreads.trans h1.hreads, h2.hdrSub.trans h1.hdrSub,
   h2.heldHdr.trans h1.heldHdr, h2.alive.trans h1.alive, h2.subsLen.trans h1.subsLen⟩

theorem tipEq_send (st : St) (s hx : Nat) (v : Status) :
    TipEq st (deliver (setMs st s hx v) s hx v) := ⟨rfl, rfl, rfl, rfl, rfl, rfl, rfl, rfl, rfl, rfl⟩

theorem tipEq_flush (st : St) (s : Nat) (ch : List (Nat × Status)) : TipEq st (flushChanged st s ch) := by
  unfold flushChanged
  induction ch generalizing st with
  | nil => exact TipEq.refl st
  | cons e r ih =>
    rw [List.foldl_cons]
    exact (show TipEq st (deliver st s e.1 e.2) from ⟨rfl, rfl, rfl, rfl, rfl, rfl, rfl, rfl, rfl, rfl⟩).trans (ih _)

theorem tipEq_visit1 (f : Flags) (st : St) (s hx c : Nat) (ch : List (Nat × Status)) :
    TipEq st (visit1 f st s hx c ch).1 := by
  unfold visit1
  split
  · exact ⟨rfl, rfl, rfl, rfl, rfl, rfl, rfl, rfl, rfl, rfl⟩
  · exact tipEq_send st s hx _

theorem tipEq_visit2 (f : Flags) (st : St) (s hx c : Nat) (old : Status) (ch : List (Nat × Status)) :
    TipEq st (visit2 f st s hx c old ch).1 := by
  unfold visit2
  split
  · exact tipEq_visit1 f st s hx c ch
  · exact ⟨rfl, rfl, rfl, rfl, rfl, rfl, rfl, rfl, rfl, rfl⟩

theorem tipEq_notifyGo2 (f : Flags) (s : Nat) (todo : List (Nat × Status)) (st : St) (ch : List (Nat × Status)) :
    TipEq st (notifyGo2 f st s todo ch) := by
  induction todo generalizing st ch with
  | nil => exact tipEq_flush st s ch
  | cons e rest ih =>
    obtain ⟨x, old⟩ := e
    rw [notifyGo2]
    split
    · exact ih st ch
    · split
      · exact (tipEq_visit2 f st s x _ old ch).trans (ih _ _)
      · exact ⟨rfl, rfl, rfl, rfl, rfl, rfl, rfl, rfl, rfl, rfl⟩

theorem tipEq_notifyGo (f : Flags) (s : Nat) (todo : List Nat) (st : St) (ch : List (Nat × Status)) :
    TipEq st (notifyGo f st s todo ch) := by
  induction todo generalizing st ch with
  | nil =>
    rw [notifyGo]
    split
    · exact tipEq_notifyGo2 f s _ st ch
    · exact tipEq_flush st s ch
  | cons x rest ih =>
    rw [notifyGo]
    split
    · exact ih st ch
    · split
      · exact (tipEq_visit1 f st s x _ ch).trans (ih _ _)
      · exact ⟨rfl, rfl, rfl, rfl, rfl, rfl, rfl, rfl, rfl, rfl⟩

theorem tipEq_resume (f : Flags) (st : St) (hx c : Nat) (k : Cont) : TipEq st (resume f st hx c k) := by
  cases k with
  | sub s x => exact ⟨rfl, rfl, rfl, rfl, rfl, rfl, rfl, rfl, rfl, by simp [resume, length_modifyAt]⟩
  | query => exact TipEq.refl st
  | notify s rest ch => exact (tipEq_visit1 f st s hx c ch).trans (tipEq_notifyGo f s rest _ _)
  | notify2 s old rest ch => exact (tipEq_visit2 f st s hx c old ch).trans (tipEq_notifyGo2 f s rest _ _)

theorem tipEq_startRead (f : Flags) (st : St) (hx : Nat) (k : Cont) : TipEq st (startRead f st hx k) := by
  unfold startRead
  split
  · exact tipEq_resume f st hx _ k
  · exact ⟨rfl, rfl, rfl, rfl, rfl, rfl, rfl, rfl, rfl, rfl⟩

/-! ### the invariant -/

structure TipBase (st : St) : Prop where
  chainNe : st.chain ≠ []
  lenSub : st.hdrSub.length = st.subs.length
  lenHeld : st.heldHdr.length = st.subs.length
  /-- `seen` records every (height, header) the DB has held -/
  seenChain : ∀ h d, st.chain[h]? = some d → (h, d) ∈ st.seen
  hsubSeen : st.hsub ∈ st.seen
  readsSeen : ∀ r ∈ st.hreads, ∀ d, r.value = some (some d) → (r.h, d) ∈ st.seen
  heldSeen : ∀ s v, heldHdrOf st s = some v → v ∈ st.seen
  done : st.tipDone = true → (∀ r ∈ st.hreads, goodRead st r = true) ∧
    (st.hreads = [] → st.hsub = tipOf st ∧ st.notifiedHeight = dbHeight st)

structure TipInv (st : St) : Prop extends TipBase st where
  /-- a connected headers-subscriber's last header is `hsub_results` -/
  heldCur : ∀ s, aliveOf st s = true → hdrSubOf st s = true → heldHdrOf st s = some st.hsub

theorem tipInv_init (n m : Nat) : TipInv (init n m) := by
  refine ⟨⟨by simp [init], by simp [init], by simp [init], ?_, by simp [init], ?_, ?_, ?_⟩, ?_⟩
  · intro h d hh
    have : (init n m).chain = [0] := rfl
    rw [this] at hh
    cases h with
    | zero => simp at hh; subst hh; simp [init]
    | succ k => simp at hh
  · intro r hr; simp [init] at hr
  · intro s v hv
    simp only [heldHdrOf, init, List.getD_eq_getElem?_getD, List.getElem?_replicate] at hv
    split at hv <;> simp at hv
  · intro _
    refine ⟨fun r hr => by simp [init] at hr, fun _ => ?_⟩
    simp [init, tipOf, dbHeight]
  · intro s _ hs
    simp only [hdrSubOf, init, List.getD_eq_getElem?_getD, List.getElem?_replicate] at hs
    split at hs <;> simp at hs

/-- the tip-related fields except the contents of `heldHdr` are the same -/
structure TipEqB (st st' : St) : Prop where
  chain : st'.chain = st.chain
  seen : st'.seen = st.seen
  hsub : st'.hsub = st.hsub
  nh : st'.notifiedHeight = st.notifiedHeight
  tipDone : st'.tipDone = st.tipDone
  hreads : st'.hreads = st.hreads
  hdrSub : st'.hdrSub = st.hdrSub
  alive : st'.alive = st.alive
  subsLen : st'.subs.length = st.subs.length
  heldLen : st'.heldHdr.length = st.heldHdr.length

theorem TipEq.toB {st st' : St} (e : TipEq st st') : TipEqB st st' :=
  ⟨e.chain, e.seen, e.hsub, e.nh, e.tipDone, e.hreads, e.hdrSub, e.alive, e.subsLen, by rw [e.heldHdr]⟩

theorem TipEqB.refl (st : St) : TipEqB st st := (TipEq.refl st).toB

theorem TipEqB.trans {a b c : St} (h1 : TipEqB a b) (h2 : TipEqB b c) : TipEqB a c :=
  ⟨h2.chain.trans h1.chain, h2.seen.trans h1.seen, h2.hsub.trans h1.hsub, h2.nh.trans h1.nh,
   h2.tipDone.trans h1.tipDone, h2.hreads.trans h1.hreads, h2.hdrSub.trans h1.hdrSub,
   h2.alive.trans h1.alive, h2.subsLen.trans h1.subsLen, h2.heldLen.trans h1.heldLen⟩

/-- transfer of the invariant when every last-held header stays, or becomes `hsub_results` -/
theorem TipBase.of_tipEqB {st st' : St} (h : TipBase st) (e : TipEqB st st')
    (hheld : ∀ s, heldHdrOf st' s = heldHdrOf st s ∨ heldHdrOf st' s = some st.hsub)
    (hcur : ∀ s, aliveOf st s = true → hdrSubOf st s = true → heldHdrOf st' s = some st.hsub) : TipInv st' := by
  refine ⟨⟨by rw [e.chain]; exact h.chainNe, by rw [e.hdrSub, e.subsLen]; exact h.lenSub,
    by rw [e.heldLen, e.subsLen]; exact h.lenHeld, ?_, by rw [e.hsub, e.seen]; exact h.hsubSeen, ?_, ?_, ?_⟩, ?_⟩
  · intro hh d hd; rw [e.chain] at hd; rw [e.seen]; exact h.seenChain hh d hd
  · intro r hr d hv; rw [e.hreads] at hr; rw [e.seen]; exact h.readsSeen r hr d hv
  · intro s v hv
    rw [e.seen]
    rcases hheld s with hs | hs
    · rw [hs] at hv; exact h.heldSeen s v hv
    · rw [hs] at hv; cases hv; exact h.hsubSeen
  · intro hd
    rw [e.tipDone] at hd
    obtain ⟨h1, h2⟩ := h.done hd
    simp only [e.hreads, e.hsub, e.nh, tipOf, dbHeight, goodRead, e.chain]
    exact ⟨h1, h2⟩
  · intro s ha hs
    simp only [aliveOf, e.alive] at ha
    simp only [hdrSubOf, e.hdrSub] at hs
    rw [e.hsub]
    exact hcur s ha hs

theorem TipInv.of_tipEq {st st' : St} (h : TipInv st) (e : TipEq st st') : TipInv st' :=
  h.toTipBase.of_tipEqB e.toB (fun s => Or.inl (by simp only [heldHdrOf, e.heldHdr]))
    (fun s ha hs => by simp only [heldHdrOf, e.heldHdr]; exact h.heldCur s ha hs)

/-! ### the session loop -/

theorem tip_sessionNotify (f : Flags) (st : St) (s : Nat) (xs : List Nat) (hc : Bool) :
    TipEq (if aliveOf st s = true then hdrNotify st s hc else st) (sessionNotify f st s xs hc) := by
  unfold sessionNotify
  by_cases ha : aliveOf st s = true
  · simp only [ha, Bool.not_true, Bool.false_eq_true, if_false, if_true]
    split
    · exact tipEq_notifyGo f s _ _ _
    · exact TipEq.refl _
  · have ha' : aliveOf st s = false := by
      cases h : aliveOf st s
      · rfl
      · exact absurd h ha
    simp only [ha', Bool.not_false, if_true, Bool.false_eq_true, if_false]
    exact TipEq.refl _

theorem tip_hdrNotify (st : St) (s : Nat) (hc : Bool) :
    TipEqB st (hdrNotify st s hc) ∧
    ∀ s', heldHdrOf (hdrNotify st s hc) s' =
      if s' = s ∧ hc = true ∧ hdrSubOf st s = true ∧ s < st.heldHdr.length then some st.hsub
      else heldHdrOf st s' := by
  unfold hdrNotify
  by_cases hcond : (hc && hdrSubOf st s) = true
  · rw [if_pos hcond]
    simp only [Bool.and_eq_true] at hcond
    refine ⟨⟨rfl, rfl, rfl, rfl, rfl, rfl, rfl, rfl, rfl, by simp [length_modifyAt]⟩, ?_⟩
    intro s'
    simp only [heldHdrOf, getD_modifyAt]
    by_cases h1 : s' = s ∧ s < st.heldHdr.length
    · rw [if_pos h1, if_pos ⟨h1.1, hcond.1, hcond.2, h1.2⟩]
    · rw [if_neg h1, if_neg (fun h => h1 ⟨h.1, h.2.2.2⟩)]
  · rw [if_neg hcond]
    refine ⟨TipEqB.refl st, ?_⟩
    intro s'
    rw [if_neg]
    intro h
    apply hcond
    simp [h.2.1, h.2.2.1]

/-- the session loop: the connected headers-subscribers among `ss` are sent `hsub_results` -/
theorem tip_fold (f : Flags) (xs : List Nat) (hc : Bool) (ss : List Nat) (st : St) :
    TipEqB st (ss.foldl (fun acc s => sessionNotify f acc s xs hc) st) ∧
    ∀ s', heldHdrOf (ss.foldl (fun acc s => sessionNotify f acc s xs hc) st) s' =
      if s' ∈ ss ∧ aliveOf st s' = true ∧ hc = true ∧ hdrSubOf st s' = true ∧ s' < st.heldHdr.length
      then some st.hsub else heldHdrOf st s' := by
  induction ss generalizing st with
  | nil => exact ⟨TipEqB.refl st, fun s' => by simp⟩
  | cons s0 ss ih =>
    rw [List.foldl_cons]
    have E1 := tip_sessionNotify f st s0 xs hc
    obtain ⟨B0, H0⟩ := tip_hdrNotify st s0 hc
    -- the state after session s0
    have B1 : TipEqB st (sessionNotify f st s0 xs hc) := by
      by_cases ha : aliveOf st s0 = true
      · rw [if_pos ha] at E1; exact B0.trans E1.toB
      · rw [if_neg ha] at E1; exact E1.toB
    have H1 : ∀ s', heldHdrOf (sessionNotify f st s0 xs hc) s' =
        if s' = s0 ∧ aliveOf st s0 = true ∧ hc = true ∧ hdrSubOf st s0 = true ∧ s0 < st.heldHdr.length
        then some st.hsub else heldHdrOf st s' := by
      intro s'
      by_cases ha : aliveOf st s0 = true
      · rw [if_pos ha] at E1
        simp only [heldHdrOf, E1.heldHdr]
        have := H0 s'
        simp only [heldHdrOf] at this
        rw [this]
        by_cases hh : s' = s0 ∧ hc = true ∧ hdrSubOf st s0 = true ∧ s0 < st.heldHdr.length
        · rw [if_pos hh, if_pos ⟨hh.1, ha, hh.2⟩]
        · rw [if_neg hh, if_neg (fun h => hh ⟨h.1, h.2.2⟩)]
      · rw [if_neg ha] at E1
        simp only [heldHdrOf, E1.heldHdr]
        rw [if_neg (fun h => ha h.2.1)]
    obtain ⟨B2, H2⟩ := ih (sessionNotify f st s0 xs hc)
    refine ⟨B1.trans B2, ?_⟩
    intro s'
    rw [H2 s', H1 s']
    simp only [aliveOf, hdrSubOf, B1.alive, B1.hdrSub, B1.hsub, B1.heldLen, List.mem_cons]
    by_cases hs : s' = s0
    · subst hs
      by_cases hc1 : st.alive.getD s' false = true ∧ hc = true ∧ st.hdrSub.getD s' false = true ∧ s' < st.heldHdr.length
      · rw [if_pos (show (s' = s' ∨ s' ∈ ss) ∧ _ from ⟨Or.inl rfl, hc1⟩)]
        split
        · rfl
        · exact if_pos ⟨rfl, hc1⟩
      · by_cases hm : s' ∈ ss
        · simp only [hm, true_and, true_or, if_neg hc1]
        · simp only [hm, false_and, if_false, or_false, true_and, if_neg hc1]
    · simp only [hs, false_and, if_false, false_or]

/-- `_notify_sessions` from the invalidation on: with `height_changed` every connected
    headers-subscriber is sent `hsub_results`; otherwise nothing tip-related changes -/
theorem tipInv_finishNotify (f : Flags) (st : St) (xs : List Nat) (hc : Bool) (h : TipBase st)
    (hcur : hc = true ∨ ∀ s, aliveOf st s = true → hdrSubOf st s = true → heldHdrOf st s = some st.hsub) :
    TipInv (finishNotify f st xs hc) := by
  unfold finishNotify
  obtain ⟨B, H⟩ := tip_fold f xs hc (List.range st.subs.length)
    { st with cache := st.cache.filter (fun e => !xs.contains e.1) }
  have hb : TipBase { st with cache := st.cache.filter (fun e => !xs.contains e.1) } :=
    ⟨h.chainNe, h.lenSub, h.lenHeld, h.seenChain, h.hsubSeen, h.readsSeen, h.heldSeen, h.done⟩
  apply hb.of_tipEqB B
  · intro s
    rw [H s]
    split
    · exact Or.inr rfl
    · exact Or.inl rfl
  · intro s ha hs
    rw [H s]
    rcases hcur with hcur | hcur
    · have hlt : s < st.hdrSub.length := by
        apply Classical.byContradiction
        intro hn
        have : st.hdrSub[s]? = none := List.getElem?_eq_none (by omega)
        have hs' : hdrSubOf st s = true := hs
        simp [hdrSubOf, List.getD_eq_getElem?_getD, this] at hs'
      rw [if_pos]
      refine ⟨List.mem_range.mpr (by rw [← h.lenSub]; exact hlt), ha, hcur, hs, ?_⟩
      show s < st.heldHdr.length
      rw [h.lenHeld, ← h.lenSub]; exact hlt
    · split
      · rfl
      · exact hcur s ha hs

/-! ### the events -/

theorem tipInv_advance (f : Flags) (st : St) (d : Nat) (h : TipInv st) : TipInv (step f st (.advance d)) := by
  simp only [step]
  refine ⟨⟨by simp, h.lenSub, h.lenHeld, ?_, List.mem_append_left _ h.hsubSeen, ?_, ?_, ?_⟩, h.heldCur⟩
  · intro hh d' hd
    simp only at hd
    by_cases hlt : hh < st.chain.length
    · rw [List.getElem?_append_left hlt] at hd
      exact List.mem_append_left _ (h.seenChain hh d' hd)
    · rw [List.getElem?_append_right (by omega)] at hd
      have : hh - st.chain.length = 0 := by
        cases hk : hh - st.chain.length with
        | zero => rfl
        | succ k => rw [hk] at hd; simp at hd
      rw [this] at hd
      simp at hd
      subst hd
      have : hh = st.chain.length := by omega
      subst this
      exact List.mem_append_right _ (List.mem_singleton.mpr rfl)
  · intro r hr d' hv; exact List.mem_append_left _ (h.readsSeen r hr d' hv)
  · intro s v hv; exact List.mem_append_left _ (h.heldSeen s v hv)
  · intro hd; cases hd

theorem tipInv_backup (f : Flags) (st : St) (h : TipInv st) : TipInv (step f st .backup) := by
  simp only [step]
  split
  · exact h
  · next hlen =>
    refine ⟨⟨?_, h.lenSub, h.lenHeld, ?_, h.hsubSeen, h.readsSeen, h.heldSeen, ?_⟩, h.heldCur⟩
    · intro he
      have := congrArg List.length he
      simp only [List.length_dropLast, List.length_nil] at this
      omega
    · intro hh d' hd
      simp only [List.getElem?_dropLast] at hd
      split at hd
      · exact h.seenChain hh d' hd
      · cases hd
    · intro hd; cases hd

theorem goodRead_congr {st st' : St} (e : st'.chain = st.chain) (r : HRead) : goodRead st' r = goodRead st r := by
  simp only [goodRead, dbHeight, tipOf, e]

theorem chain_tip {st : St} (h : st.chain ≠ []) : st.chain[dbHeight st]? = some (tipOf st).2 := by
  have hl : dbHeight st < st.chain.length := by
    unfold dbHeight
    cases hc : st.chain with
    | nil => exact absurd hc h
    | cons a r => simp
  rw [List.getElem?_eq_getElem hl]
  simp [tipOf, List.getD_eq_getElem?_getD, List.getElem?_eq_getElem hl]

theorem tipInv_notify (f : Flags) (st : St) (ht : Nat) (xs : List Nat) (h : TipInv st) :
    TipInv (step f st (.notify ht xs)) := by
  simp only [step]
  split
  · refine ⟨⟨h.chainNe, h.lenSub, h.lenHeld, h.seenChain, h.hsubSeen, ?_, h.heldSeen, ?_⟩, h.heldCur⟩
    · intro r hr d' hv
      rcases List.mem_append.mp hr with hr | hr
      · exact h.readsSeen r hr d' hv
      · rw [List.mem_singleton] at hr; subst hr; cases hv
    · intro hd
      simp only [Bool.and_eq_true, decide_eq_true_eq, List.all_eq_true] at hd
      refine ⟨?_, fun he => by simp at he⟩
      intro r hr
      show goodRead st r = true
      rcases List.mem_append.mp hr with hr | hr
      · exact hd.2 r hr
      · rw [List.mem_singleton] at hr; subst hr
        simp [goodRead, Nat.min_eq_right hd.1]
  · exact tipInv_finishNotify f _ xs false
      ⟨h.chainNe, h.lenSub, h.lenHeld, h.seenChain, h.hsubSeen, h.readsSeen, h.heldSeen, h.done⟩
      (Or.inr h.heldCur)

theorem tipInv_hdrDo (f : Flags) (st : St) (i : Nat) (h : TipInv st) : TipInv (step f st (.hdrDo i)) := by
  simp only [step]
  cases nthIdxH st.hreads false i with
  | none => exact h
  | some j =>
    simp only
    refine ⟨⟨h.chainNe, h.lenSub, h.lenHeld, h.seenChain, h.hsubSeen, ?_, h.heldSeen, ?_⟩, h.heldCur⟩
    · intro r hr d' hv
      rcases mem_modifyAt (show r ∈ modifyAt st.hreads j (fun r => { r with value := some st.chain[r.h]? }) from hr) with hm | ⟨b, hb, rfl⟩
      · exact h.readsSeen r hm d' hv
      · simp only [Option.some.injEq] at hv
        exact h.seenChain b.h d' hv
    · intro hd
      obtain ⟨h1, h2⟩ := h.done hd
      refine ⟨?_, ?_⟩
      · intro r hr
        show goodRead st r = true
        rcases mem_modifyAt (show r ∈ modifyAt st.hreads j (fun r => { r with value := some st.chain[r.h]? }) from hr) with hm | ⟨b, hb, rfl⟩
        · exact h1 r hm
        · have hg := h1 b hb
          simp only [goodRead, Bool.and_eq_true, beq_iff_eq] at hg ⊢
          refine ⟨hg.1, ?_⟩
          rw [hg.1, chain_tip h.chainNe]
          simp
      · intro he
        have : st.hreads = [] := by
          have hl := congrArg List.length he
          simp only [length_modifyAt, List.length_nil] at hl
          exact List.eq_nil_of_length_eq_zero hl
        exact h2 this

theorem tipInv_hdrFinish (f : Flags) (st : St) (i : Nat) (h : TipInv st) : TipInv (step f st (.hdrFinish i)) := by
  simp only [step]
  cases nthIdxH st.hreads true i with
  | none => exact h
  | some j =>
    simp only
    cases hj : st.hreads[j]? with
    | none => exact h
    | some r =>
      simp only
      have hrm : r ∈ st.hreads := List.mem_iff_getElem?.mpr ⟨j, hj⟩
      cases hval : r.value with
      | none => exact h
      | some v =>
        cases v with
        | some d =>
          simp only
          apply tipInv_finishNotify f _ r.xs true _ (Or.inl rfl)
          refine ⟨h.chainNe, h.lenSub, h.lenHeld, h.seenChain, h.readsSeen r hrm d hval, ?_, h.heldSeen, ?_⟩
          · intro r' hr' d' hv
            exact h.readsSeen r' (List.mem_of_mem_eraseIdx hr') d' hv
          · intro hd
            obtain ⟨h1, _⟩ := h.done hd
            refine ⟨fun r' hr' => ?_, fun _ => ?_⟩
            · show goodRead st r' = true
              exact h1 r' (List.mem_of_mem_eraseIdx hr')
            · have hg := h1 r hrm
              simp only [goodRead, hval, Bool.and_eq_true, beq_iff_eq, Bool.or_eq_true] at hg
              obtain ⟨hg1, hg2⟩ := hg
              rcases hg2 with hg2 | hg2
              · cases hg2
              · simp only [Option.some.injEq] at hg2
                show (r.h, d) = tipOf st ∧ r.h = dbHeight st
                exact ⟨by rw [hg1, hg2]; rfl, hg1⟩
        | none =>
          simp only
          have hnd : st.tipDone = false := by
            cases hd : st.tipDone
            · rfl
            · have hg := (h.done hd).1 r hrm
              simp [goodRead, hval] at hg
          split
          · refine ⟨⟨h.chainNe, h.lenSub, h.lenHeld, h.seenChain, h.hsubSeen, ?_, h.heldSeen, ?_⟩, h.heldCur⟩
            · intro r' hr' d' hv
              exact h.readsSeen r' (List.mem_of_mem_eraseIdx hr') d' hv
            · intro hd; rw [hnd] at hd; cases hd
          · refine ⟨⟨h.chainNe, h.lenSub, h.lenHeld, h.seenChain, h.hsubSeen, ?_, h.heldSeen, ?_⟩, h.heldCur⟩
            · intro r' hr' d' hv
              rcases List.mem_append.mp hr' with hr' | hr'
              · exact h.readsSeen r' (List.mem_of_mem_eraseIdx hr') d' hv
              · rw [List.mem_singleton] at hr'; subst hr'; cases hv
            · intro hd; rw [hnd] at hd; cases hd

theorem tipInv_subscribeHeaders (f : Flags) (st : St) (s : Nat) (h : TipInv st) :
    TipInv (step f st (.subscribeHeaders s)) := by
  simp only [step]
  have hH : ∀ s', heldHdrOf ({ st with hdrSub := modifyAt st.hdrSub s (fun _ => true), heldHdr := modifyAt st.heldHdr s (fun _ => some st.hsub) } : St) s' =
      if s' = s ∧ s < st.heldHdr.length then some st.hsub else heldHdrOf st s' := by
    intro s'; simp only [heldHdrOf, getD_modifyAt]
  refine ⟨⟨h.chainNe, by simp only [length_modifyAt]; exact h.lenSub,
    by simp only [length_modifyAt]; exact h.lenHeld, h.seenChain, h.hsubSeen, h.readsSeen, ?_, h.done⟩, ?_⟩
  · intro s' v hv
    rw [hH] at hv
    split at hv
    · cases hv; exact h.hsubSeen
    · exact h.heldSeen s' v hv
  · intro s' ha hs
    rw [hH]
    split
    · rfl
    · next hn =>
      have hs' : hdrSubOf st s' = true := by
        simp only [hdrSubOf, getD_modifyAt] at hs
        split at hs
        · next hc => exact absurd ⟨hc.1, by rw [h.lenHeld, ← h.lenSub]; exact hc.2⟩ hn
        · exact hs
      exact h.heldCur s' ha hs'

theorem tipInv_closeSession (f : Flags) (st : St) (s : Nat) (h : TipInv st) :
    TipInv (step f st (.closeSession s)) := by
  simp only [step]
  refine ⟨⟨h.chainNe, h.lenSub, h.lenHeld, h.seenChain, h.hsubSeen, h.readsSeen, h.heldSeen, h.done⟩, ?_⟩
  intro s' ha hs
  apply h.heldCur s' _ hs
  simp only [aliveOf, getD_modifyAt] at ha
  split at ha
  · cases ha
  · exact ha

/-- every event preserves the tip invariant, whatever the flags -/
theorem tipInv_step (f : Flags) (st : St) (ev : Ev) (h : TipInv st) : TipInv (step f st ev) := by
  cases ev with
  | change x => exact h.of_tipEq ⟨rfl, rfl, rfl, rfl, rfl, rfl, rfl, rfl, rfl, rfl⟩
  | mpChange x m => exact h.of_tipEq ⟨rfl, rfl, rfl, rfl, rfl, rfl, rfl, rfl, rfl, rfl⟩
  | flip x m =>
    simp only [step]
    split
    · exact h.of_tipEq ⟨rfl, rfl, rfl, rfl, rfl, rfl, rfl, rfl, rfl, rfl⟩
    · exact h
  | advance d => exact tipInv_advance f st d h
  | backup => exact tipInv_backup f st h
  | reorgSignal => exact h.of_tipEq ⟨rfl, rfl, rfl, rfl, rfl, rfl, rfl, rfl, rfl, rfl⟩
  | notify ht xs => exact tipInv_notify f st ht xs h
  | subscribe s x => exact h.of_tipEq (tipEq_startRead f st x _)
  | unsubscribe s x =>
    exact h.of_tipEq ⟨rfl, rfl, rfl, rfl, rfl, rfl, rfl, rfl, rfl, by simp [step, length_modifyAt]⟩
  | closeSession s => exact tipInv_closeSession f st s h
  | subscribeHeaders s => exact tipInv_subscribeHeaders f st s h
  | getHistory s x => exact h.of_tipEq (tipEq_startRead f st x _)
  | evict x => exact h.of_tipEq ⟨rfl, rfl, rfl, rfl, rfl, rfl, rfl, rfl, rfl, rfl⟩
  | readDo i =>
    simp only [step]
    cases nthIdx st.tasks false i with
    | none => exact h
    | some j => exact h.of_tipEq ⟨rfl, rfl, rfl, rfl, rfl, rfl, rfl, rfl, rfl, rfl⟩
  | readFinish i =>
    simp only [step]
    cases nthIdx st.tasks true i with
    | none => exact h
    | some j =>
      simp only
      cases st.tasks[j]? with
      | none => exact h
      | some t =>
        simp only
        cases t.value with
        | none => exact h
        | some v =>
          simp only
          split
          · exact h.of_tipEq ⟨rfl, rfl, rfl, rfl, rfl, rfl, rfl, rfl, rfl, rfl⟩
          · exact h.of_tipEq ((show TipEq st { st with tasks := st.tasks.eraseIdx j, cache := put t.hx v st.cache }
              from ⟨rfl, rfl, rfl, rfl, rfl, rfl, rfl, rfl, rfl, rfl⟩).trans (tipEq_resume f _ _ _ _))
  | hdrDo i => exact tipInv_hdrDo f st i h
  | hdrFinish i => exact tipInv_hdrFinish f st i h

theorem tipInv_run (f : Flags) (st : St) (evs : List Ev) (h : TipInv st) : TipInv (run f st evs) := by
  induction evs generalizing st with
  | nil => exact h
  | cons ev evs ih => exact ih (step f st ev) (tipInv_step f st ev h)

/-- at rest `hsub_results` is the tip, `notified_height` the DB height, and every connected
    headers-subscriber's last header is the tip -/
theorem quiescent_tip (st : St) (h : TipInv st) (hd : st.tipDone = true) (hr : st.hreads = []) :
    st.hsub = tipOf st ∧ st.notifiedHeight = dbHeight st ∧
    ∀ s, aliveOf st s = true → hdrSubOf st s = true → heldHdrOf st s = some (tipOf st) := by
  obtain ⟨h1, h2⟩ := (h.done hd).2 hr
  exact ⟨h1, h2, fun s ha hs => by rw [← h1]; exact h.heldCur s ha hs⟩

/-! ### what `seen` means -/

theorem seen_finishNotify (f : Flags) (st : St) (xs : List Nat) (hc : Bool) :
    (finishNotify f st xs hc).seen = st.seen ∧ (finishNotify f st xs hc).chain = st.chain := by
  unfold finishNotify
  obtain ⟨B, _⟩ := tip_fold f xs hc (List.range st.subs.length)
    { st with cache := st.cache.filter (fun e => !xs.contains e.1) }
  exact ⟨B.seen, B.chain⟩

/-- `seen` only grows, and only by `advance d`, which records the new (height, header) -/
theorem seen_step (f : Flags) (st : St) (ev : Ev) :
    (step f st ev).seen = st.seen ∨ ∃ d, ev = .advance d ∧ (step f st ev).seen = st.seen ++ [(st.chain.length, d)] := by
  cases ev with
  | advance d => exact Or.inr ⟨d, rfl, rfl⟩
  | change x => exact Or.inl rfl
  | mpChange x m => exact Or.inl rfl
  | flip x m => simp only [step]; split <;> exact Or.inl rfl
  | backup => simp only [step]; split <;> exact Or.inl rfl
  | reorgSignal => exact Or.inl rfl
  | notify ht xs =>
    simp only [step]
    split
    · exact Or.inl rfl
    · exact Or.inl (seen_finishNotify f _ xs false).1
  | subscribe s x => exact Or.inl (tipEq_startRead f st x _).seen
  | unsubscribe s x => exact Or.inl rfl
  | closeSession s => exact Or.inl rfl
  | subscribeHeaders s => exact Or.inl rfl
  | getHistory s x => exact Or.inl (tipEq_startRead f st x _).seen
  | evict x => exact Or.inl rfl
  | readDo i =>
    simp only [step]
    cases nthIdx st.tasks false i <;> exact Or.inl rfl
  | readFinish i =>
    simp only [step]
    cases nthIdx st.tasks true i with
    | none => exact Or.inl rfl
    | some j =>
      simp only
      cases st.tasks[j]? with
      | none => exact Or.inl rfl
      | some t =>
        simp only
        cases t.value with
        | none => exact Or.inl rfl
        | some v =>
          simp only
          split
          · exact Or.inl rfl
          · exact Or.inl (tipEq_resume f _ _ _ _).seen
  | hdrDo i =>
    simp only [step]
    cases nthIdxH st.hreads false i <;> exact Or.inl rfl
  | hdrFinish i =>
    simp only [step]
    cases nthIdxH st.hreads true i with
    | none => exact Or.inl rfl
    | some j =>
      simp only
      cases st.hreads[j]? with
      | none => exact Or.inl rfl
      | some r =>
        simp only
        cases r.value with
        | none => exact Or.inl rfl
        | some v =>
          cases v with
          | some d => exact Or.inl (seen_finishNotify f _ r.xs true).1
          | none => simp only; split <;> exact Or.inl rfl

theorem seen_sound_from (f : Flags) (st : St) (evs : List Ev) (p : Nat × Nat)
    (hp : p ∈ (run f st evs).seen) :
    p ∈ st.seen ∨ ∃ pre post, evs = pre ++ .advance p.2 :: post ∧ (run f st pre).chain.length = p.1 := by
  induction evs generalizing st with
  | nil => exact Or.inl hp
  | cons ev evs ih =>
    have hrun : run f st (ev :: evs) = run f (step f st ev) evs := rfl
    rw [hrun] at hp
    rcases ih (step f st ev) hp with h | ⟨pre, post, h1, h2⟩
    · rcases seen_step f st ev with he | ⟨d, rfl, he⟩
      · rw [he] at h; exact Or.inl h
      · rw [he] at h
        rcases List.mem_append.mp h with h | h
        · exact Or.inl h
        · rw [List.mem_singleton] at h
          subst h
          exact Or.inr ⟨[], evs, rfl, rfl⟩
    · exact Or.inr ⟨ev :: pre, post, by rw [h1]; rfl, h2⟩

/-- every pair in `seen` is the genesis block or (height, header) of a block at the moment an
    `advance` made it readable -/
theorem seen_sound (f : Flags) (n m : Nat) (evs : List Ev) (p : Nat × Nat)
    (hp : p ∈ (run f (init n m) evs).seen) :
    p = (0, 0) ∨ ∃ pre post, evs = pre ++ .advance p.2 :: post ∧
      (run f (init n m) pre).chain.length = p.1 := by
  rcases seen_sound_from f (init n m) evs p hp with h | h
  · left; simpa [init] using h
  · exact Or.inr h

end EV.System

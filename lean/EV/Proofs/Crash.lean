import EV.Model.Crash
import EV.Proofs.IndexUndo

/-!
# Crash layer, part 1: cuts, file writes, what `_open_dbs` does to a store

* `cuts`: membership lemmas (`cutAt es k j ∈ cuts es` ties the driver's `CUT k j` to the model's
  quantifier; `mem_cuts_append` splits the cuts of a concatenation).
* `fileWrite`: a write at an offset at or beyond `n` leaves the first `n` records alone.
* `History.clear_excess` as a filter; the fields of `openStore1` / `openStore`.
-/
namespace EV.Index

/-! ### cuts -/

theorem nil_mem_cuts (es : List Effect) : [] ∈ cuts es := by
  cases es <;> simp [cuts]

theorem self_mem_cuts (es : List Effect) : es ∈ cuts es := by
  induction es with
  | nil => simp [cuts]
  | cons e es ih =>
    simp only [cuts, List.mem_cons, List.mem_append, List.mem_map]
    exact Or.inr (Or.inr ⟨es, ih, rfl⟩)

theorem cons_mem_cuts {e : Effect} {es c : List Effect} (h : c ∈ cuts es) : e :: c ∈ cuts (e :: es) := by
  simp only [cuts, List.mem_cons, List.mem_append, List.mem_map]
  exact Or.inr (Or.inr ⟨c, h, rfl⟩)

theorem torn_mem_cuts {e t : Effect} (es : List Effect) (h : t ∈ tornPrefixes e) : [t] ∈ cuts (e :: es) := by
  simp only [cuts, List.mem_cons, List.mem_append, List.mem_map]
  exact Or.inr (Or.inl ⟨t, h, rfl⟩)

theorem tornAt_mem {j : Nat} {e t : Effect} (h : tornAt j e = some t) : t ∈ tornPrefixes e := by
  cases e <;> simp only [tornAt] at h
  all_goals first
    | (split at h
       · simp only [Option.some.injEq] at h
         subst h
         simp only [tornPrefixes, List.mem_map, List.mem_range]
         exact ⟨j, by assumption, rfl⟩
       · simp at h)
    | simp at h

/-- the cut the harness names `(k, j)` (driver command `CUT k j`) is one of the model's cuts -/
theorem cutAt_mem_cuts (es : List Effect) (k j : Nat) : cutAt es k j ∈ cuts es := by
  induction es generalizing k with
  | nil => simp [cutAt, cuts]
  | cons e es ih =>
    cases k with
    | zero =>
      simp only [cutAt, List.take_zero, List.nil_append, List.getElem?_cons_zero]
      cases h : tornAt j e with
      | none => simpa using nil_mem_cuts (e :: es)
      | some t => simpa using torn_mem_cuts es (tornAt_mem h)
    | succ k =>
      have := cons_mem_cuts (e := e) (ih k)
      simpa [cutAt] using this

/-- a cut of `a ++ b` is a cut of `a`, or all of `a` followed by a cut of `b` -/
theorem mem_cuts_append {a b c : List Effect} (h : c ∈ cuts (a ++ b)) :
    c ∈ cuts a ∨ ∃ c' ∈ cuts b, c = a ++ c' := by
  induction a generalizing c with
  | nil => exact Or.inr ⟨c, by simpa using h, by simp⟩
  | cons e a ih =>
    simp only [List.cons_append, cuts, List.mem_cons, List.mem_append, List.mem_map] at h
    rcases h with rfl | ⟨t, ht, rfl⟩ | ⟨c0, hc0, rfl⟩
    · exact Or.inl (nil_mem_cuts _)
    · exact Or.inl (torn_mem_cuts a ht)
    · rcases ih hc0 with h1 | ⟨c', hc', rfl⟩
      · exact Or.inl (cons_mem_cuts h1)
      · exact Or.inr ⟨c', hc', rfl⟩

/-- batches and single puts are atomic: their only cuts are "nothing" and "all" -/
theorem cuts_atomic2 (e1 e2 : Effect) (h1 : tornPrefixes e1 = []) (h2 : tornPrefixes e2 = []) :
    cuts [e1, e2] = [[], [e1], [e1, e2]] := by
  simp [cuts, h1, h2]

/-! ### file writes -/

theorem take_fileWrite {α : Type} (file : List α) (off : Nat) (data : List α) (n : Nat)
    (h1 : n ≤ off) (h2 : n ≤ file.length) : (fileWrite file off data).take n = file.take n := by
  unfold fileWrite
  rw [List.append_assoc, List.take_append_of_le_length (by simp; omega), List.take_take]
  congr 1
  omega

theorem length_of_take_eq {α : Type} {a b : List α} {n : Nat} (h : a.take n = b.take n)
    (hb : n ≤ b.length) : n ≤ a.length := by
  have := congrArg List.length h
  simp only [List.length_take] at this
  omega

/-! ### `History.clear_excess` as a filter -/

theorem foldl_aerase_eq_filter {κ ν : Type} [DecidableEq κ] (ks : List κ) (l : List (κ × ν)) :
    ks.foldl (fun t k => aerase k t) l = l.filter (fun e => !ks.contains e.1) := by
  induction ks generalizing l with
  | nil =>
    simp only [List.foldl_nil, List.contains_nil, Bool.not_false]
    rw [List.filter_eq_self.mpr]; intro a _; rfl
  | cons k ks ih =>
    rw [List.foldl_cons, ih, aerase, List.filter_filter]
    apply List.filter_congr
    intro e _
    by_cases h : e.1 = k <;> simp [h]

/-- deleting the keys of all rows with flush id above `u0` keeps exactly the rows with id `≤ u0` -/
theorem clearExcess_filter (hist : List ((HashX × Nat) × List Nat)) (u0 : Nat) :
    ((hist.filter (fun e => decide (e.1.2 > u0))).map (·.1)).foldl (fun hs k => aerase k hs) hist =
      hist.filter (fun e => decide (e.1.2 ≤ u0)) := by
  rw [foldl_aerase_eq_filter]
  apply List.filter_congr
  intro e he
  by_cases h : e.1.2 ≤ u0
  · have : ¬ e.1 ∈ (hist.filter (fun e => decide (e.1.2 > u0))).map (·.1) := by
      simp only [List.mem_map, List.mem_filter, decide_eq_true_eq, not_exists, not_and, and_imp]
      intro e' _ h2 h3
      rw [h3] at h2
      omega
    simp [h, this]
  · have : e.1 ∈ (hist.filter (fun e => decide (e.1.2 > u0))).map (·.1) :=
      List.mem_map.mpr ⟨e, List.mem_filter.mpr ⟨he, by simp; omega⟩, rfl⟩
    simp [h, this]

/-- rows with id `≤ u0` only -/
def histUpTo (hist : List ((HashX × Nat) × List Nat)) (u0 : Nat) : List ((HashX × Nat) × List Nat) :=
  hist.filter (fun e => decide (e.1.2 ≤ u0))

theorem histUpTo_self {hist : List ((HashX × Nat) × List Nat)} {u0 : Nat}
    (h : ∀ e ∈ hist, e.1.2 ≤ u0) : histUpTo hist u0 = hist := by
  unfold histUpTo
  rw [List.filter_eq_self]
  intro e he
  simpa using h e he

theorem histUpTo_aerase_above (hist : List ((HashX × Nat) × List Nat)) (u0 : Nat) (k : HashX × Nat)
    (hk : u0 < k.2) : histUpTo (aerase k hist) u0 = histUpTo hist u0 := by
  unfold histUpTo aerase
  rw [List.filter_filter]
  apply List.filter_congr
  intro e _
  by_cases h : e.1 = k
  · have : ¬ e.1.2 ≤ u0 := by rw [h]; omega
    simp [this]
  · simp [h]

/-- rows written under flush ids above `u0` do not show below it -/
theorem histUpTo_foldl_ainsert_above (puts : List ((HashX × Nat) × List Nat))
    (hist : List ((HashX × Nat) × List Nat)) (u0 : Nat) (hp : ∀ e ∈ puts, u0 < e.1.2) :
    histUpTo (puts.foldl (fun hs (k, v) => ainsert k v hs) hist) u0 = histUpTo hist u0 := by
  induction puts generalizing hist with
  | nil => rfl
  | cons e puts ih =>
    obtain ⟨k, v⟩ := e
    rw [List.foldl_cons, ih _ (fun e he => hp e (List.mem_cons_of_mem _ he))]
    have hk : u0 < k.2 := hp (k, v) (List.mem_cons_self ..)
    have : ¬ k.2 ≤ u0 := by omega
    show histUpTo ((k, v) :: aerase k hist) u0 = _
    rw [histUpTo, List.filter_cons]
    simp only [this, decide_false, Bool.false_eq_true, if_false]
    exact histUpTo_aerase_above hist u0 k hk

/-! ### the fields of `openStore1` (`History.open_db`) and `openStore` -/

theorem openStore1_of_le {p : Store}
    (h : (p.hstate.getD {}).flushCount ≤ (p.ustate.getD {}).flushCount) : openStore1 p = p := by
  simp [openStore1, clearExcessEffect, h, applyEffects]

theorem openStore1_of_gt {p : Store}
    (h : (p.ustate.getD {}).flushCount < (p.hstate.getD {}).flushCount) :
    openStore1 p = { p with hist := histUpTo p.hist (p.ustate.getD {}).flushCount,
                            hstate := some { (p.hstate.getD {}) with
                                             flushCount := (p.ustate.getD {}).flushCount } } := by
  have : ¬ (p.hstate.getD {}).flushCount ≤ (p.ustate.getD {}).flushCount := by omega
  simp only [openStore1, clearExcessEffect, this, if_false, Option.toList_some, applyEffects,
    List.foldl_cons, List.foldl_nil, applyEffect]
  rw [clearExcess_filter]
  rfl

theorem openStore1_rest (p : Store) :
    (openStore1 p).h = p.h ∧ (openStore1 p).u = p.u ∧ (openStore1 p).undo = p.undo ∧
    (openStore1 p).ustate = p.ustate ∧ (openStore1 p).headers = p.headers ∧
    (openStore1 p).txcounts = p.txcounts ∧ (openStore1 p).hashes = p.hashes := by
  by_cases h : (p.hstate.getD {}).flushCount ≤ (p.ustate.getD {}).flushCount
  · rw [openStore1_of_le h]; simp
  · rw [openStore1_of_gt (by omega)]; simp

/-- `clear_excess_undo_info` changes the undo table only -/
theorem openStore_eq (cfg : Cfg) (p : Store) :
    openStore cfg p = { openStore1 p with
      undo := undoAfterOpen p.undo ((p.ustate.getD {}).height - cfg.reorgLimit + 1) } := by
  have hu := (openStore1_rest p).2.2.1
  simp only [openStore, openUndoEffects, hu, undoAfterOpen]
  split
  · next hempty =>
    simp only [List.isEmpty_iff] at hempty
    simp only [applyEffects, hempty, List.foldl_nil]
    rw [← hu]
  · simp [applyEffects, applyEffect, hu]

end EV.Index

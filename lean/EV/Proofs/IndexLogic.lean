import EV.Proofs.AList
import EV.Spec.Chain

/-!
The transaction loops of `advance_block` run over a plain map (`mapOps`) compute exactly the
specification's fold (`Spec.applyTx`), for every valid block.  Layer (logic) of the index proof.
-/
namespace EV.Index
open EV.Spec

def cvOf (u : Utxo) : CacheVal := ⟨u.hx, u.txnum, u.value⟩
def opOf (u : Utxo) : Hash × Nat := (u.txid, u.idx)

theorem names_eq (i : TxIn) (u : Utxo) : names i u = decide (opOf u = (i.prev, i.idx)) := by
  rw [Bool.eq_iff_iff]
  simp only [names, Bool.and_eq_true, beq_iff_eq, decide_eq_true_eq, opOf, Prod.mk.injEq]
  constructor
  · rintro ⟨h1, h2⟩; exact ⟨h1.symm, h2.symm⟩
  · rintro ⟨h1, h2⟩; exact ⟨h1.symm, h2.symm⟩

/-! ### list facts -/

theorem find?_filter_ne (U : List Utxo) (op op' : Hash × Nat) :
    (U.filter (fun u => !decide (opOf u = op))).find? (fun u => decide (opOf u = op')) =
      if op = op' then none else U.find? (fun u => decide (opOf u = op')) := by
  induction U with
  | nil => simp
  | cons u U ih =>
    by_cases h1 : opOf u = op
    · simp only [List.filter_cons, h1, decide_true, Bool.not_true]
      rw [if_neg (by simp), ih]
      by_cases h2 : op = op'
      · simp [h2]
      · simp only [h2, if_false, List.find?_cons, h1, decide_false]
    · simp only [List.filter_cons, h1, decide_false, Bool.not_false, if_true, List.find?_cons]
      by_cases h3 : opOf u = op'
      · have : op ≠ op' := fun h => h1 (h3.trans h.symm)
        simp [h3, this]
      · simp only [h3, decide_false, ih]

theorem filter_eq_singleton {U : List Utxo} (hn : (U.map opOf).Nodup) {u : Utxo} (hu : u ∈ U) :
    U.filter (fun x => decide (opOf x = opOf u)) = [u] := by
  induction U with
  | nil => simp at hu
  | cons x U ih =>
    simp only [List.map_cons, List.nodup_cons] at hn
    rcases List.mem_cons.mp hu with rfl | hu'
    · simp only [List.filter_cons, decide_true, if_true]
      congr 1
      apply List.filter_eq_nil_iff.mpr
      intro y hy
      simp only [decide_eq_true_eq]
      intro heq
      exact hn.1 (heq ▸ List.mem_map.mpr ⟨y, hy, rfl⟩)
    · have hne : opOf x ≠ opOf u := by
        intro heq
        exact hn.1 (heq ▸ List.mem_map.mpr ⟨u, hu', rfl⟩)
      simp only [List.filter_cons, hne, decide_false]
      exact ih hn.2 hu'

theorem find?_of_mem_nodup {U : List Utxo} (hn : (U.map opOf).Nodup) {u : Utxo} (hu : u ∈ U) :
    U.find? (fun x => decide (opOf x = opOf u)) = some u := by
  induction U with
  | nil => simp at hu
  | cons x U ih =>
    simp only [List.map_cons, List.nodup_cons] at hn
    rcases List.mem_cons.mp hu with rfl | hu'
    · simp
    · have hne : opOf x ≠ opOf u := by
        intro heq
        exact hn.1 (heq ▸ List.mem_map.mpr ⟨u, hu', rfl⟩)
      simp only [List.find?_cons, hne, decide_false]
      exact ih hn.2 hu'

/-! ### the representation interface

The loops are proved correct for *any* UTXO store `ops : UOps σ` together with a relation
`RepS s U` ("store `s` represents the UTXO list `U`") that satisfies four facts.  They are
established for the plain map below and for the concrete system (cache + rows + queued deletes,
with prefix collisions) in `IndexStore.lean`. -/

structure RepIface {σ : Type} (ops : UOps σ) (RepS : σ → List Utxo → Prop) : Prop where
  nodup : ∀ {s U}, RepS s U → (U.map opOf).Nodup
  perm : ∀ {s U U'}, RepS s U → U.Perm U' → RepS s U'
  spend : ∀ {s U u}, RepS s U → u ∈ U →
    ∃ s', ops.spend s u.txid u.idx = .ok (cvOf u, s') ∧
          RepS s' (U.filter (fun x => !decide (opOf x = opOf u)))
  add : ∀ {s U} (u : Utxo), RepS s U → (∀ x ∈ U, opOf x ≠ opOf u) →
    RepS (ops.add s u.txid u.idx (cvOf u)) (U ++ [u])

/-! ### spending inputs -/

/-- remaining UTXOs and the spent ones, in input order -/
def spendAll : List Utxo → List TxIn → List Utxo × List Utxo
  | U, [] => (U, [])
  | U, i :: r =>
    if i.isGen then spendAll U r
    else ((spendAll (U.filter (fun u => !names i u)) r).1,
          U.filter (names i) ++ (spendAll (U.filter (fun u => !names i u)) r).2)

theorem foldl_spendInput (ins : List TxIn) (U : List Utxo) (acc : List HashX) :
    ins.foldl spendInput (U, acc) = ((spendAll U ins).1, acc ++ (spendAll U ins).2.map (·.hx)) := by
  induction ins generalizing U acc with
  | nil => simp [spendAll]
  | cons i r ih =>
    simp only [List.foldl_cons, spendInput, spendAll]
    by_cases hg : i.isGen
    · simp [hg, ih]
    · simp [hg, ih, List.append_assoc]

/-- every non-generation input names a UTXO that is still there when its turn comes -/
def InputsOK : List Utxo → List TxIn → Prop
  | _, [] => True
  | U, i :: r =>
    if i.isGen then InputsOK U r
    else (∃ u ∈ U, opOf u = (i.prev, i.idx)) ∧ InputsOK (U.filter (fun u => !names i u)) r

theorem spendInputs_spec {σ : Type} {ops : UOps σ} {RepS : σ → List Utxo → Prop}
    (I : RepIface ops RepS) (ins : List TxIn) (U : List Utxo) (a : Acc σ) (hxs : List HashX)
    (hrep : RepS a.s U) (hok : InputsOK U ins) :
    ∃ s', RepS s' (spendAll U ins).1 ∧
      spendInputs ops ins a hxs =
        .ok ({ a with s := s', undo := a.undo ++ (spendAll U ins).2.map cvOf,
                      delta := a.delta - ((spendAll U ins).2.length : Int) },
             hxs ++ (spendAll U ins).2.map (·.hx)) := by
  induction ins generalizing U a hxs with
  | nil => exact ⟨a.s, hrep, by simp [spendInputs, spendAll]⟩
  | cons i r ih =>
    simp only [InputsOK] at hok
    by_cases hg : i.isGen
    · simp only [hg, if_true] at hok
      obtain ⟨s', h1, h2⟩ := ih U a hxs hrep hok
      exact ⟨s', by simpa [spendAll, hg] using h1, by simp only [spendInputs, hg, if_true, spendAll]; exact h2⟩
    · simp only [hg] at hok
      obtain ⟨⟨u, hu, hop⟩, hrest⟩ := hok
      have hnames : (fun x => names i x) = (fun x => decide (opOf x = opOf u)) := by
        funext x; rw [names_eq, hop]
      have hnames' : (fun x => !names i x) = (fun x => !decide (opOf x = opOf u)) := by
        funext x; rw [names_eq, hop]
      have hfilt : U.filter (names i) = [u] := by
        show U.filter (fun x => names i x) = [u]
        rw [hnames]; exact filter_eq_singleton (I.nodup hrep) hu
      obtain ⟨s1, hsp, hrep1⟩ := I.spend hrep hu
      have hsp' : ops.spend a.s i.prev i.idx = .ok (cvOf u, s1) := by
        have h1 : i.prev = u.txid := (congrArg Prod.fst hop).symm
        have h2 : i.idx = u.idx := (congrArg Prod.snd hop).symm
        rw [h1, h2]; exact hsp
      have hrep' : RepS s1 (U.filter (fun x => !names i x)) := by
        rw [hnames']; exact hrep1
      obtain ⟨s', h1, h2⟩ := ih (U.filter (fun x => !names i x))
        { a with s := s1, undo := a.undo ++ [cvOf u], delta := a.delta - 1 }
        (hxs ++ [(cvOf u).hx]) hrep' hrest
      refine ⟨s', by simpa [spendAll, hg] using h1, ?_⟩
      simp only [spendInputs, hg, hsp', spendAll, hfilt, Bool.false_eq_true, if_false]
      rw [h2]
      simp only [cvOf, List.singleton_append, List.map_cons, List.length_cons, List.append_assoc]
      congr 2
      · congr 1; omega

/-! ### adding outputs -/

theorem addOutputs_spec {σ : Type} {ops : UOps σ} {RepS : σ → List Utxo → Prop}
    (I : RepIface ops RepS) (cfg : Cfg) (height : Nat) (txid : Hash) (n : Nat) (outs : List TxOut)
    (idx : Nat) (U : List Utxo) (a : Acc σ) (hxs : List HashX) (hrep : RepS a.s U)
    (hfresh : ∀ x ∈ U, x.txid = txid → x.idx < idx) :
    ∃ s', RepS s' (U ++ newUtxos cfg.act height n txid outs idx) ∧
      addOutputs ops cfg height txid n outs idx a hxs =
        ({ a with s := s',
                  delta := a.delta + ((newUtxos cfg.act height n txid outs idx).length : Int) },
         hxs ++ (newUtxos cfg.act height n txid outs idx).map (·.hx)) := by
  induction outs generalizing idx U a hxs with
  | nil => exact ⟨a.s, by simpa [newUtxos] using hrep, by simp [addOutputs, newUtxos]⟩
  | cons o r ih =>
    by_cases hun : unspendable cfg.act height o.kind
    · obtain ⟨s', h1, h2⟩ := ih (idx + 1) U a hxs hrep (fun x hx ht => Nat.lt_succ_of_lt (hfresh x hx ht))
      exact ⟨s', by simpa [newUtxos, hun] using h1, by simp only [addOutputs, hun, if_true, newUtxos]; exact h2⟩
    · have hrep' : RepS (ops.add a.s txid idx ⟨o.hx, n, o.value⟩)
          (U ++ [⟨txid, idx, n, height, o.value, o.hx⟩]) :=
        I.add ⟨txid, idx, n, height, o.value, o.hx⟩ hrep (by
          intro x hx heq
          simp only [opOf, Prod.mk.injEq] at heq
          have := hfresh x hx heq.1
          omega)
      obtain ⟨s', h1, h2⟩ := ih (idx + 1) (U ++ [⟨txid, idx, n, height, o.value, o.hx⟩])
        { a with s := ops.add a.s txid idx ⟨o.hx, n, o.value⟩, delta := a.delta + 1 }
        (hxs ++ [o.hx]) hrep' (by
          intro x hx ht
          rcases List.mem_append.mp hx with hx | hx
          · exact Nat.lt_succ_of_lt (hfresh x hx ht)
          · simp at hx; subst hx; simp)
      refine ⟨s', by simpa [newUtxos, hun, List.append_assoc] using h1, ?_⟩
      simp only [addOutputs, hun, newUtxos, Bool.false_eq_true, if_false]
      rw [h2]
      simp only [List.map_cons, List.length_cons, List.append_assoc, List.singleton_append]
      have harith : a.delta + 1 + ((newUtxos cfg.act height n txid r (idx + 1)).length : Int)
          = a.delta + (((newUtxos cfg.act height n txid r (idx + 1)).length + 1 : Nat) : Int) := by omega
      rw [harith]

/-! ### a whole block -/

/-- validity of a list of txs on top of a spec state: inputs exist when consumed, txids are new -/
def ValidTxs (act height : Nat) : St → List Tx → Prop
  | _, [] => True
  | S, tx :: r =>
    InputsOK S.utxos tx.ins ∧ (∀ u ∈ S.utxos, u.txid ≠ tx.id) ∧
    ValidTxs act height (applyTx act height S tx) r

/-- the undo list of a block: spent cache values in spend order -/
def blockUndo (act height : Nat) : St → List Tx → List CacheVal
  | _, [] => []
  | S, tx :: r =>
    (spendAll S.utxos tx.ins).2.map cvOf ++ blockUndo act height (applyTx act height S tx) r

/-- net change of the UTXO count over a block -/
def blockDelta (act height : Nat) : St → List Tx → Int
  | _, [] => 0
  | S, tx :: r =>
    ((newUtxos act height S.txs.length tx.id tx.outs 0).length : Int)
      - ((spendAll S.utxos tx.ins).2.length : Int) + blockDelta act height (applyTx act height S tx) r

theorem applyTx_eq (act height : Nat) (S : St) (tx : Tx) :
    applyTx act height S tx =
      { utxos := (spendAll S.utxos tx.ins).1 ++ newUtxos act height S.txs.length tx.id tx.outs 0,
        touched := S.touched ++ [(spendAll S.utxos tx.ins).2.map (·.hx) ++
                     (newUtxos act height S.txs.length tx.id tx.outs 0).map (·.hx)],
        txs := S.txs ++ [(tx.id, height)] } := by
  simp [applyTx, foldl_spendInput]

theorem spendAll_sub (U : List Utxo) (ins : List TxIn) : ∀ u ∈ (spendAll U ins).1, u ∈ U := by
  induction ins generalizing U with
  | nil => intro u hu; simpa [spendAll] using hu
  | cons i r ih =>
    intro u hu
    simp only [spendAll] at hu
    by_cases hg : i.isGen
    · simp only [hg, if_true] at hu; exact ih U u hu
    · simp only [hg] at hu
      exact (List.mem_filter.mp (ih _ u hu)).1

/-- the per-tx touched lists of a block -/
def blockTouched (act height : Nat) : St → List Tx → List (List HashX)
  | _, [] => []
  | S, tx :: r =>
    ((spendAll S.utxos tx.ins).2.map (·.hx) ++
        (newUtxos act height S.txs.length tx.id tx.outs 0).map (·.hx)) ::
      blockTouched act height (applyTx act height S tx) r

theorem foldl_touched (act height : Nat) (S : St) (txs : List Tx) :
    (txs.foldl (applyTx act height) S).touched = S.touched ++ blockTouched act height S txs := by
  induction txs generalizing S with
  | nil => simp [blockTouched]
  | cons tx r ih =>
    simp only [List.foldl_cons, ih, blockTouched]
    rw [applyTx_eq]
    simp

theorem foldl_txs (act height : Nat) (S : St) (txs : List Tx) :
    (txs.foldl (applyTx act height) S).txs = S.txs ++ txs.map (fun t => (t.id, height)) := by
  induction txs generalizing S with
  | nil => simp
  | cons tx r ih =>
    simp only [List.foldl_cons, ih, List.map_cons]
    rw [applyTx_eq]
    simp

/-- **Logic layer.**  On a valid block, the loop of `advance_block` over a store that represents
the spec's UTXO set succeeds and yields: a store representing the spec's UTXO set after the block,
the spec's touched lists as `hashXs_by_tx`, the block's txids, the undo list, and the counters. -/
theorem advanceTxs_spec {σ : Type} {ops : UOps σ} {RepS : σ → List Utxo → Prop}
    (I : RepIface ops RepS) (cfg : Cfg) (height : Nat) (txs : List Tx) (S : St) (a : Acc σ)
    (hrep : RepS a.s S.utxos) (hn : a.txNum = S.txs.length)
    (hv : ValidTxs cfg.act height S txs) :
    ∃ a', advanceTxs ops cfg height txs a = .ok a' ∧
      RepS a'.s (txs.foldl (applyTx cfg.act height) S).utxos ∧
      a'.txNum = S.txs.length + txs.length ∧
      a'.hashXsByTx = a.hashXsByTx ++ blockTouched cfg.act height S txs ∧
      a'.txHashes = a.txHashes ++ txs.map (·.id) ∧
      a'.undo = a.undo ++ blockUndo cfg.act height S txs ∧
      a'.delta = a.delta + blockDelta cfg.act height S txs ∧
      a'.touched = a.touched ++ (blockTouched cfg.act height S txs).flatten := by
  induction txs generalizing S a with
  | nil => exact ⟨a, by simp [advanceTxs, blockUndo, blockDelta, blockTouched, hrep, hn]⟩
  | cons tx r ih =>
    obtain ⟨hin, hfresh, hrest⟩ := hv
    obtain ⟨s1, hrep1, hs1⟩ := spendInputs_spec I tx.ins S.utxos a [] hrep hin
    obtain ⟨s2, hrep2, hs2⟩ := addOutputs_spec I cfg height tx.id a.txNum tx.outs 0
      (spendAll S.utxos tx.ins).1
      { a with s := s1, undo := a.undo ++ (spendAll S.utxos tx.ins).2.map cvOf,
               delta := a.delta - ((spendAll S.utxos tx.ins).2.length : Int) }
      ([] ++ (spendAll S.utxos tx.ins).2.map (·.hx)) hrep1
      (fun x hx ht => absurd ht (hfresh x (spendAll_sub _ _ x hx)))
    have hS : applyTx cfg.act height S tx =
        { utxos := (spendAll S.utxos tx.ins).1 ++ newUtxos cfg.act height a.txNum tx.id tx.outs 0,
          touched := S.touched ++ [(spendAll S.utxos tx.ins).2.map (·.hx) ++
                       (newUtxos cfg.act height a.txNum tx.id tx.outs 0).map (·.hx)],
          txs := S.txs ++ [(tx.id, height)] } := by
      rw [applyTx_eq, hn]
    simp only [advanceTxs, hs1]
    rw [hs2]
    have hrep3 : RepS (finishTx
        ({ a with s := s2, undo := a.undo ++ (spendAll S.utxos tx.ins).2.map cvOf,
                  delta := a.delta - ((spendAll S.utxos tx.ins).2.length : Int)
                    + ((newUtxos cfg.act height a.txNum tx.id tx.outs 0).length : Int) },
         [] ++ (spendAll S.utxos tx.ins).2.map (·.hx) ++
           (newUtxos cfg.act height a.txNum tx.id tx.outs 0).map (·.hx)) tx.id).s
        (applyTx cfg.act height S tx).utxos := by
      rw [hS]; exact hrep2
    obtain ⟨a', h1, h2, h3, h4, h5, h6, h7, h8⟩ := ih (applyTx cfg.act height S tx) _ hrep3
      (by rw [hS]; simp [finishTx, hn]) hrest
    refine ⟨a', h1, by simpa using h2, ?_, ?_, ?_, ?_, ?_, ?_⟩
    · rw [h3, hS]; simp; omega
    · rw [h4]; simp [finishTx, blockTouched, hn]
    · rw [h5]; simp [finishTx]
    · rw [h6]; simp [finishTx, blockUndo, List.append_assoc]
    · rw [h7]; simp only [finishTx, blockDelta, hn]; omega
    · rw [h8]; simp [finishTx, blockTouched, hn, List.append_assoc]

end EV.Index

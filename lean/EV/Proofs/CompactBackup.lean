import EV.Proofs.CompactIndex

/-!
`History.backup(hashXs, tx_count)` on any table with distinct keys (compacted, partly compacted
or not): for every touched hashX whose history is in ascending order, the history afterwards is the
old one cut at the first tx number `≥ tx_count`; every other hashX is untouched.  It only relies on
key order being chronological order - which compaction preserves (histories are unchanged).
Core only.
-/
namespace EV.Compact
open EV.Index

/-! ### small list facts -/

theorem nodup_eraseDups_aux (n : Nat) : ∀ l : List Nat, l.length ≤ n → l.eraseDups.Nodup := by
  induction n with
  | zero =>
    intro l hl
    have : l = [] := List.length_eq_zero_iff.mp (by omega)
    subst this; simp
  | succ n ih =>
    intro l hl
    cases l with
    | nil => simp
    | cons a as =>
      rw [List.eraseDups_cons, List.nodup_cons]
      refine ⟨?_, ih _ ?_⟩
      · intro hm
        have := List.mem_eraseDups.mp hm
        have := (List.mem_filter.mp this).2
        simp at this
      · have := List.length_filter_le (fun b => !b == a) as
        simp only [List.length_cons] at hl
        omega

theorem nodup_eraseDups (l : List Nat) : l.eraseDups.Nodup := nodup_eraseDups_aux l.length l (Nat.le_refl _)

theorem take_bisectLeft (l : List Nat) (x : Nat) :
    l.take (bisectLeft l x) = l.takeWhile (fun n => decide (n < x)) := by
  induction l with
  | nil => simp [bisectLeft]
  | cons a r ih =>
    simp only [bisectLeft]
    by_cases h : a < x
    · rw [if_pos h, Nat.add_comm, List.take_succ_cons, ih, List.takeWhile_cons_of_pos (by simpa using h)]
    · rw [if_neg h, List.take_zero, List.takeWhile_cons_of_neg (by simpa using h)]

theorem bisectLeft_pos_head {l : List Nat} {x : Nat} (h : 0 < bisectLeft l x) :
    ∃ a r, l = a :: r ∧ a < x := by
  cases l with
  | nil => simp [bisectLeft] at h
  | cons a r =>
    simp only [bisectLeft] at h
    by_cases ha : a < x
    · exact ⟨a, r, rfl, ha⟩
    · rw [if_neg ha] at h; omega

/-! ### rows in descending order -/

theorem histRowsDesc_eq {hist : List Row} (hn : NodupKeys hist) (hx : HashX) :
    histRowsDesc hist hx = (rowsOf hist hx).reverse := by
  apply List.Perm.eq_of_pairwise (le := fun a b => a.1.2 ≥ b.1.2)
  · intro a b ha hb hab hba
    have ha' : a ∈ hist ∧ a.1.1 = hx := by
      unfold histRowsDesc at ha
      have := List.mem_filter.mp (List.mem_mergeSort.mp ha)
      exact ⟨this.1, by simpa using this.2⟩
    have hb' := mem_rowsOf.mp (List.mem_reverse.mp hb)
    apply eq_of_key_eq hn ha'.1 hb'.1
    apply Prod.ext
    · rw [ha'.2, hb'.2]
    · omega
  · have h := List.pairwise_mergeSort (le := fun (a b : Row) => decide (a.1.2 ≥ b.1.2))
      (by intro a b c; simp only [decide_eq_true_eq]; omega)
      (by intro a b; simp only [Bool.or_eq_true, decide_eq_true_eq]; omega)
      (hist.filter (fun e => e.1.1 == hx))
    exact h.imp (by intro a b hab; simpa using hab)
  · rw [List.pairwise_reverse]
    exact (rowsOf_pairwise_le hist hx).imp (by intro a b h; exact h)
  · unfold histRowsDesc rowsOf
    exact (List.mergeSort_perm _ _).trans ((List.reverse_perm _).trans (List.mergeSort_perm _ _)).symm

/-! ### one hashX -/

/-- the rows of the hashX after `backup`, newest first -/
def truncDesc (tc : Nat) : List Row → List Row
  | [] => []
  | r :: rest =>
    if bisectLeft r.2 tc > 0 then (r.1, r.2.take (bisectLeft r.2 tc)) :: rest else truncDesc tc rest

theorem histBackupOne_spec (tc : Nat) (dl : List Row) (hn : NodupKeys dl) :
    (∀ e : Row, (e ∈ (histBackupOne tc dl).2 ∨
        (e ∈ dl ∧ e.1 ∉ (histBackupOne tc dl).1 ∧ e.1 ∉ (histBackupOne tc dl).2.map (·.1))) ↔
      e ∈ truncDesc tc dl) ∧
    (∀ k ∈ (histBackupOne tc dl).1, k ∈ dl.map (·.1)) ∧
    (∀ e ∈ (histBackupOne tc dl).2, e.1 ∈ dl.map (·.1)) ∧
    NodupKeys (histBackupOne tc dl).2 := by
  induction dl with
  | nil => simp [histBackupOne, truncDesc, NodupKeys]
  | cons r rest ih =>
    have hn' : NodupKeys rest := by unfold NodupKeys at *; exact (List.nodup_cons.mp hn).2
    have hr : r.1 ∉ rest.map (·.1) := by unfold NodupKeys at hn; exact (List.nodup_cons.mp hn).1
    have hrest : ∀ e ∈ rest, e.1 ≠ r.1 := by
      intro e he heq; exact hr (List.mem_map.mpr ⟨e, he, heq⟩)
    obtain ⟨i1, i2, i3, i4⟩ := ih hn'
    obtain ⟨k, nums⟩ := r
    by_cases hidx : bisectLeft nums tc > 0
    · have hone : histBackupOne tc ((k, nums) :: rest) = ([], [(k, nums.take (bisectLeft nums tc))]) := by
        simp only [histBackupOne]; rw [if_pos hidx]
      have htr : truncDesc tc ((k, nums) :: rest) = (k, nums.take (bisectLeft nums tc)) :: rest := by
        simp only [truncDesc]; rw [if_pos hidx]
      rw [hone, htr]
      refine ⟨?_, by simp, by simp, by simp [NodupKeys]⟩
      intro e
      simp only [List.mem_cons, List.not_mem_nil, not_false_eq_true, true_and,
        List.map_cons, List.map_nil, or_false]
      constructor
      · rintro (h | ⟨h | h, h2⟩)
        · exact Or.inl h
        · subst h; exact absurd rfl h2
        · exact Or.inr h
      · rintro (h | h)
        · exact Or.inl h
        · exact Or.inr ⟨Or.inr h, hrest e h⟩
    · have hone : histBackupOne tc ((k, nums) :: rest) =
          (k :: (histBackupOne tc rest).1, (histBackupOne tc rest).2) := by
        simp only [histBackupOne]; rw [if_neg hidx]
      have htr : truncDesc tc ((k, nums) :: rest) = truncDesc tc rest := by
        simp only [truncDesc]; rw [if_neg hidx]
      rw [hone, htr]
      refine ⟨?_, ?_, ?_, i4⟩
      · intro e
        rw [← i1 e]
        simp only [List.mem_cons, not_or]
        constructor
        · rintro (h | ⟨h | h, ⟨h2, h3⟩, h4⟩)
          · exact Or.inl h
          · subst h; exact absurd rfl h2
          · exact Or.inr ⟨h, h3, h4⟩
        · rintro (h | ⟨h, h3, h4⟩)
          · exact Or.inl h
          · exact Or.inr ⟨Or.inr h, ⟨hrest e h, h3⟩, h4⟩
      · intro k' hk'
        simp only [List.map_cons, List.mem_cons] at hk' ⊢
        rcases hk' with rfl | hk'
        · exact Or.inl rfl
        · exact Or.inr (i2 k' hk')
      · intro e he
        simp only [List.map_cons, List.mem_cons]
        exact Or.inr (i3 e he)

theorem truncDesc_pairwise (tc : Nat) (dl : List Row) (h : dl.Pairwise (fun a b => a.1.2 > b.1.2)) :
    (truncDesc tc dl).Pairwise (fun a b => a.1.2 > b.1.2) := by
  induction dl with
  | nil => simp [truncDesc]
  | cons r rest ih =>
    simp only [truncDesc]
    split
    · rw [List.pairwise_cons] at h ⊢
      exact ⟨fun b hb => h.1 b hb, h.2⟩
    · exact ih (List.pairwise_cons.mp h).2

theorem truncDesc_hx (tc : Nat) (dl : List Row) (hx : HashX) (h : ∀ e ∈ dl, e.1.1 = hx) :
    ∀ e ∈ truncDesc tc dl, e.1.1 = hx := by
  induction dl with
  | nil => simp [truncDesc]
  | cons r rest ih =>
    simp only [truncDesc]
    split
    · intro e he
      rcases List.mem_cons.mp he with rfl | he
      · exact h r List.mem_cons_self
      · exact h e (List.mem_cons_of_mem _ he)
    · exact ih (fun e he => h e (List.mem_cons_of_mem _ he))

/-- the entries that survive: the old history up to the first tx number `≥ tx_count` -/
theorem truncDesc_flat (tc : Nat) (dl : List Row)
    (hs : (dl.reverse.flatMap (·.2)).Pairwise (· ≤ ·)) :
    (truncDesc tc dl).reverse.flatMap (·.2) =
      (dl.reverse.flatMap (·.2)).takeWhile (fun n => decide (n < tc)) := by
  induction dl with
  | nil => simp [truncDesc]
  | cons r rest ih =>
    simp only [List.reverse_cons, List.flatMap_append, List.flatMap_cons, List.flatMap_nil,
      List.append_nil] at hs ⊢
    have hsA : (rest.reverse.flatMap (·.2)).Pairwise (· ≤ ·) := (List.pairwise_append.mp hs).1
    simp only [truncDesc]
    split
    · next hidx =>
      simp only [List.reverse_cons, List.flatMap_append, List.flatMap_cons, List.flatMap_nil, List.append_nil]
      obtain ⟨a, t, hat, halt⟩ := bisectLeft_pos_head hidx
      have hall : ∀ x ∈ rest.reverse.flatMap (·.2), (fun n => decide (n < tc)) x = true := by
        intro x hx
        have := (List.pairwise_append.mp hs).2.2 x hx a (by rw [hat]; exact List.mem_cons_self)
        simp only [decide_eq_true_eq]; omega
      rw [List.takeWhile_append_of_pos hall, take_bisectLeft]
    · next hidx =>
      rw [ih hsA, List.takeWhile_append]
      split
      · next hlen =>
        have hpre : (rest.reverse.flatMap (·.2)).takeWhile (fun n => decide (n < tc)) =
            rest.reverse.flatMap (·.2) :=
          (List.takeWhile_prefix _).eq_of_length hlen
        have h0 : bisectLeft r.2 tc = 0 := by omega
        have : r.2.takeWhile (fun n => decide (n < tc)) = [] := by
          rw [← take_bisectLeft, h0]; rfl
        rw [this, List.append_nil, hpre]
      · rfl

/-! ### the whole batch -/

/-- the hashXs `backup` loops over: `sorted(hashXs)` of a set -/
def backupHxs (touched : List HashX) : List HashX :=
  (touched.eraseDups).mergeSort (fun a b => decide (a ≤ b))

theorem mem_backupHxs {touched : List HashX} {hx : HashX} : hx ∈ backupHxs touched ↔ hx ∈ touched := by
  unfold backupHxs; rw [List.mem_mergeSort, List.mem_eraseDups]

theorem nodup_backupHxs (touched : List HashX) : (backupHxs touched).Nodup := by
  unfold backupHxs
  exact (List.mergeSort_perm _ _).nodup_iff.mpr (nodup_eraseDups touched)

def backupDels (hist : List Row) (tc : Nat) (hxs : List HashX) : List (HashX × Nat) :=
  hxs.flatMap (fun hx => (histBackupOne tc (histRowsDesc hist hx)).1)

def backupPuts (hist : List Row) (tc : Nat) (hxs : List HashX) : List Row :=
  hxs.flatMap (fun hx => (histBackupOne tc (histRowsDesc hist hx)).2)

theorem histBackupEffect_eq (s : Sys) (touched : List HashX) (tc : Nat) :
    histBackupEffect s touched tc =
      .histBatch (backupDels s.p.hist tc (backupHxs touched)) (backupPuts s.p.hist tc (backupHxs touched))
        { hstateOf s.m with flushCount := s.m.histFlush + 1 } := by
  unfold histBackupEffect backupDels backupPuts backupHxs
  simp only [List.flatMap_map]

theorem mem_histRowsDesc {hist : List Row} {hx : HashX} {e : Row} :
    e ∈ histRowsDesc hist hx ↔ e ∈ hist ∧ e.1.1 = hx := by
  simp [histRowsDesc, List.mem_filter]

theorem nodupKeys_histRowsDesc {hist : List Row} (h : NodupKeys hist) (hx : HashX) :
    NodupKeys (histRowsDesc hist hx) := by
  rw [histRowsDesc_eq h]
  unfold NodupKeys
  rw [List.map_reverse]
  exact (List.reverse_perm _).nodup_iff.mpr (nodupKeys_rowsOf h hx)

theorem backupDels_hx {hist : List Row} (hn : NodupKeys hist) {tc : Nat} {hxs : List HashX} {k : HashX × Nat}
    (h : k ∈ backupDels hist tc hxs) :
    ∃ hx ∈ hxs, k.1 = hx ∧ k ∈ (histBackupOne tc (histRowsDesc hist hx)).1 := by
  obtain ⟨hx, hhx, hk⟩ := List.mem_flatMap.mp h
  refine ⟨hx, hhx, ?_, hk⟩
  have := (histBackupOne_spec tc _ (nodupKeys_histRowsDesc hn hx)).2.1 k hk
  obtain ⟨e, he, rfl⟩ := List.mem_map.mp this
  exact (mem_histRowsDesc.mp he).2

theorem backupPuts_hx {hist : List Row} (hn : NodupKeys hist) {tc : Nat} {hxs : List HashX} {e : Row}
    (h : e ∈ backupPuts hist tc hxs) :
    ∃ hx ∈ hxs, e.1.1 = hx ∧ e ∈ (histBackupOne tc (histRowsDesc hist hx)).2 := by
  obtain ⟨hx, hhx, hk⟩ := List.mem_flatMap.mp h
  refine ⟨hx, hhx, ?_, hk⟩
  have := (histBackupOne_spec tc _ (nodupKeys_histRowsDesc hn hx)).2.2.1 e hk
  obtain ⟨e', he', hk'⟩ := List.mem_map.mp this
  rw [← hk']
  exact (mem_histRowsDesc.mp he').2

theorem nodupKeys_backupPuts {hist : List Row} (hn : NodupKeys hist) (tc : Nat) (hxs : List HashX)
    (hnd : hxs.Nodup) : NodupKeys (backupPuts hist tc hxs) := by
  induction hxs with
  | nil => simp [backupPuts, NodupKeys]
  | cons hx rest ih =>
    have hnd' := (List.nodup_cons.mp hnd)
    unfold NodupKeys backupPuts at *
    rw [List.flatMap_cons, List.map_append, List.nodup_append]
    refine ⟨(histBackupOne_spec tc _ (nodupKeys_histRowsDesc hn hx)).2.2.2, ih hnd'.2, ?_⟩
    intro k1 hk1 k2 hk2 heq
    obtain ⟨e1, he1, rfl⟩ := List.mem_map.mp hk1
    obtain ⟨e2, he2, rfl⟩ := List.mem_map.mp hk2
    have h1 := (histBackupOne_spec tc _ (nodupKeys_histRowsDesc hn hx)).2.2.1 e1 he1
    obtain ⟨e1', he1', hk1'⟩ := List.mem_map.mp h1
    have hx1 : e1.1.1 = hx := by rw [← hk1']; exact (mem_histRowsDesc.mp he1').2
    obtain ⟨hx2, hhx2, hx2eq, _⟩ := backupPuts_hx hn (hxs := rest) he2
    apply hnd'.1
    rw [← hx1, heq, hx2eq]
    exact hhx2

/-- **`History.backup` on any table with distinct keys**: touched hashXs with an ascending history are
    cut at `tx_count`, all other hashXs keep their history; keys stay distinct and no id is new -/
theorem histBackup_truncates (s : Sys) (touched : List HashX) (tc : Nat) (hn : NodupKeys s.p.hist) :
    NodupKeys (applyEffect s.p (histBackupEffect s touched tc)).hist ∧
    (∀ hx ∈ touched, (getTxnums s.p hx none).Pairwise (· ≤ ·) →
      getTxnums (applyEffect s.p (histBackupEffect s touched tc)) hx none =
        (getTxnums s.p hx none).takeWhile (fun n => decide (n < tc))) ∧
    (∀ hx, hx ∉ touched →
      getTxnums (applyEffect s.p (histBackupEffect s touched tc)) hx none = getTxnums s.p hx none) ∧
    (∀ e ∈ (applyEffect s.p (histBackupEffect s touched tc)).hist, ∃ e' ∈ s.p.hist, e'.1 = e.1) := by
  rw [histBackupEffect_eq]
  have hnd := nodup_backupHxs touched
  have hW := nodupKeys_backupPuts hn tc (backupHxs touched) hnd
  have hN := nodupKeys_histBatch s.p (backupDels s.p.hist tc (backupHxs touched))
    (backupPuts s.p.hist tc (backupHxs touched)) { hstateOf s.m with flushCount := s.m.histFlush + 1 } hn
  -- membership after the batch, for a row of a touched hashX
  have hmemT : ∀ hx ∈ touched, ∀ e : Row, e.1.1 = hx →
      (e ∈ (applyEffect s.p (.histBatch (backupDels s.p.hist tc (backupHxs touched))
        (backupPuts s.p.hist tc (backupHxs touched))
        { hstateOf s.m with flushCount := s.m.histFlush + 1 })).hist ↔
      e ∈ truncDesc tc (histRowsDesc s.p.hist hx)) := by
    intro hx hxt e he
    have hxb : hx ∈ backupHxs touched := mem_backupHxs.mpr hxt
    rw [mem_histBatch _ _ _ _ hW]
    obtain ⟨sp1, _, _, _⟩ := histBackupOne_spec tc _ (nodupKeys_histRowsDesc hn hx)
    rw [← sp1 e]
    have hP : e ∈ backupPuts s.p.hist tc (backupHxs touched) ↔
        e ∈ (histBackupOne tc (histRowsDesc s.p.hist hx)).2 := by
      constructor
      · intro h
        obtain ⟨hx', _, h1, h2⟩ := backupPuts_hx hn h
        rw [he] at h1; rw [h1]; exact h2
      · intro h; exact List.mem_flatMap.mpr ⟨hx, hxb, h⟩
    have hD : e.1 ∈ backupDels s.p.hist tc (backupHxs touched) ↔
        e.1 ∈ (histBackupOne tc (histRowsDesc s.p.hist hx)).1 := by
      constructor
      · intro h
        obtain ⟨hx', _, h1, h2⟩ := backupDels_hx hn h
        rw [he] at h1; rw [h1]; exact h2
      · intro h; exact List.mem_flatMap.mpr ⟨hx, hxb, h⟩
    have hK : e.1 ∈ (backupPuts s.p.hist tc (backupHxs touched)).map (·.1) ↔
        e.1 ∈ (histBackupOne tc (histRowsDesc s.p.hist hx)).2.map (·.1) := by
      constructor
      · intro h
        obtain ⟨e', he', hk⟩ := List.mem_map.mp h
        obtain ⟨hx', _, h1, h2⟩ := backupPuts_hx hn he'
        have : hx' = hx := by rw [← h1, hk, he]
        rw [this] at h2
        exact List.mem_map.mpr ⟨e', h2, hk⟩
      · intro h
        obtain ⟨e', he', hk⟩ := List.mem_map.mp h
        exact List.mem_map.mpr ⟨e', List.mem_flatMap.mpr ⟨hx, hxb, he'⟩, hk⟩
    rw [hP, hD, hK, mem_histRowsDesc]
    constructor
    · rintro (h | ⟨h1, h2, h3⟩)
      · exact Or.inl h
      · exact Or.inr ⟨⟨h1, he⟩, h2, h3⟩
    · rintro (h | ⟨⟨h1, _⟩, h2, h3⟩)
      · exact Or.inl h
      · exact Or.inr ⟨h1, h2, h3⟩
  -- … and of any other hashX
  have hmemO : ∀ e : Row, e.1.1 ∉ touched →
      (e ∈ (applyEffect s.p (.histBatch (backupDels s.p.hist tc (backupHxs touched))
        (backupPuts s.p.hist tc (backupHxs touched))
        { hstateOf s.m with flushCount := s.m.histFlush + 1 })).hist ↔ e ∈ s.p.hist) := by
    intro e he
    rw [mem_histBatch _ _ _ _ hW]
    constructor
    · rintro (h | ⟨h, _, _⟩)
      · exfalso
        obtain ⟨hx', hhx', h1, _⟩ := backupPuts_hx hn h
        exact he (by rw [h1]; exact mem_backupHxs.mp hhx')
      · exact h
    · intro h
      refine Or.inr ⟨h, ?_, ?_⟩
      · intro hm
        obtain ⟨hx', hhx', h1, _⟩ := backupDels_hx hn hm
        exact he (by rw [h1]; exact mem_backupHxs.mp hhx')
      · intro hm
        obtain ⟨e', he', hk⟩ := List.mem_map.mp hm
        obtain ⟨hx', hhx', h1, _⟩ := backupPuts_hx hn he'
        exact he (by rw [← hk, h1]; exact mem_backupHxs.mp hhx')
  refine ⟨hN, ?_, ?_, ?_⟩
  · intro hx hxt hsorted
    rw [getTxnums_eq, getTxnums_eq] at *
    have hdesc := histRowsDesc_eq hn hx
    have hr : rowsOf (applyEffect s.p (.histBatch (backupDels s.p.hist tc (backupHxs touched))
        (backupPuts s.p.hist tc (backupHxs touched))
        { hstateOf s.m with flushCount := s.m.histFlush + 1 })).hist hx =
        (truncDesc tc (histRowsDesc s.p.hist hx)).reverse := by
      apply rowsOf_char hN
      · rw [List.pairwise_reverse]
        apply (truncDesc_pairwise tc _ ?_).imp (by intro a b h; exact h)
        rw [hdesc, List.pairwise_reverse]
        exact (rowsOf_pairwise_lt hn hx).imp (by intro a b h; exact h)
      · intro e
        rw [List.mem_reverse]
        constructor
        · intro h
          have hex : e.1.1 = hx := truncDesc_hx tc _ hx (fun e' he' => (mem_histRowsDesc.mp he').2) e h
          exact ⟨(hmemT hx hxt e hex).mpr h, hex⟩
        · rintro ⟨h, hex⟩
          exact (hmemT hx hxt e hex).mp h
    rw [hr]
    have := truncDesc_flat tc (histRowsDesc s.p.hist hx) (by rw [hdesc, List.reverse_reverse]; exact hsorted)
    rw [this, hdesc, List.reverse_reverse]
  · intro hx hxt
    rw [getTxnums_eq, getTxnums_eq, rowsOf_congr hn hN hx]
    intro e he
    exact hmemO e (by rw [he]; exact hxt)
  · intro e he
    by_cases ht : e.1.1 ∈ touched
    · have := (hmemT e.1.1 ht e rfl).mp he
      -- keys of truncDesc are keys of the old rows
      have hkeys : ∀ dl : List Row, ∀ x ∈ truncDesc tc dl, ∃ y ∈ dl, y.1 = x.1 := by
        intro dl
        induction dl with
        | nil => simp [truncDesc]
        | cons r rest ih =>
          simp only [truncDesc]
          split
          · intro x hx
            rcases List.mem_cons.mp hx with rfl | hx
            · exact ⟨r, List.mem_cons_self, rfl⟩
            · exact ⟨x, List.mem_cons_of_mem _ hx, rfl⟩
          · intro x hx
            obtain ⟨y, hy, hk⟩ := ih x hx
            exact ⟨y, List.mem_cons_of_mem _ hy, hk⟩
      obtain ⟨y, hy, hk⟩ := hkeys _ e this
      exact ⟨y, (mem_histRowsDesc.mp hy).1, hk⟩
    · exact ⟨e, (hmemO e ht).mp he, rfl⟩

end EV.Compact

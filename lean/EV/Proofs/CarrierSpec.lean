import EV.Proofs.IndexRun

/-!
Carrier completeness, specification level: the client-visible confirmed state of a script hash
(`confState`: its history and its unspent outputs as the specification of a chain defines them —
exactly what `C01_observables` shows the read path to answer) can only differ between a chain and
the chain with one more (or one less) block if the script hash is among the script hashes the block
touches (`touchedBy` = the flattened per-tx touched lists `blockTouched` that `advanceTxs_spec`
exposes).  No validity hypothesis is needed at this level: the specification's touched list of a tx
is by definition the script hashes of what it spends and creates.
Core only.
-/
namespace EV.Index
open EV.Spec

/-- what a client can learn about the confirmed side of a script hash -/
structure ConfState where
  /-- tx numbers of the confirmed history (`History.get_txnums`) -/
  txnums : List Nat
  /-- `(tx hash, height)` pairs of the confirmed history (`limited_history`, unlimited) -/
  history : List (Hash × Nat)
  /-- unspent outputs (`all_utxos`, hence `listunspent` and the confirmed balance) -/
  utxos : List Utxo
deriving DecidableEq, Repr

/-- the client-visible confirmed state of script hash `hx` on `chain` -/
def confState (act : Nat) (chain : List Block) (hx : HashX) : ConfState :=
  { txnums := historyOf (specChain act chain) hx
    history := historyPairs (specChain act chain) hx none
    utxos := utxosOf (specChain act chain) hx }

/-- the script hashes block `b` touches on top of `chain` (with repetitions, in tx order) -/
def touchedBy (act : Nat) (chain : List Block) (b : Block) : List HashX :=
  (blockTouched act chain.length (specChain act chain) b.txs).flatten

/-- a limited history is a prefix of the unlimited one: `confState` determines it -/
theorem historyPairs_limit (S : St) (hx : HashX) (k : Nat) :
    historyPairs S hx (some k) = (historyPairs S hx none).take k := by
  simp [historyPairs, List.map_take]

/-! ### UTXOs -/

theorem spendAll_filter_hx (U : List Utxo) (ins : List TxIn) (hx : HashX)
    (h : ∀ u ∈ (spendAll U ins).2, u.hx ≠ hx) :
    (spendAll U ins).1.filter (·.hx == hx) = U.filter (·.hx == hx) := by
  induction ins generalizing U with
  | nil => simp [spendAll]
  | cons i r ih =>
    simp only [spendAll] at h ⊢
    by_cases hg : i.isGen
    · simp only [hg, if_true] at h ⊢; exact ih U h
    · simp only [hg, Bool.false_eq_true, if_false] at h ⊢
      rw [ih _ (fun u hu => h u (List.mem_append_right _ hu)), List.filter_filter]
      apply List.filter_congr
      intro u hu
      by_cases hp : u.hx = hx
      · have hn : names i u = false := by
          cases hnm : names i u with
          | false => rfl
          | true => exact absurd hp (h u (List.mem_append_left _ (List.mem_filter.mpr ⟨hu, hnm⟩)))
        simp [hn, hp]
      · simp [hp]

/-- the UTXOs of a script hash no tx of the block touches are left alone -/
theorem utxosOf_foldl (act height : Nat) (S : St) (txs : List Tx) (hx : HashX)
    (h : hx ∉ (blockTouched act height S txs).flatten) :
    utxosOf (txs.foldl (applyTx act height) S) hx = utxosOf S hx := by
  induction txs generalizing S with
  | nil => rfl
  | cons tx r ih =>
    simp only [blockTouched, List.flatten_cons, List.mem_append, not_or, List.mem_map] at h
    obtain ⟨⟨h1, h2⟩, h3⟩ := h
    rw [List.foldl_cons, ih _ h3]
    unfold utxosOf
    rw [applyTx_eq]
    simp only [List.filter_append]
    rw [spendAll_filter_hx _ _ _ (fun u hu heq => h1 ⟨u, hu, heq⟩)]
    have hnew : (newUtxos act height S.txs.length tx.id tx.outs 0).filter (·.hx == hx) = [] := by
      apply List.filter_eq_nil_iff.mpr
      intro u hu
      simp only [beq_iff_eq]
      intro heq
      exact h2 ⟨u, hu, heq⟩
    rw [hnew, List.append_nil]

/-! ### history -/

theorem historyOf_foldl_untouched (act height : Nat) (S : St) (txs : List Tx)
    (hlen : S.touched.length = S.txs.length) (hx : HashX)
    (h : hx ∉ (blockTouched act height S txs).flatten) :
    historyOf (txs.foldl (applyTx act height) S) hx = historyOf S hx := by
  rw [historyOf_foldl act height S txs hlen hx]
  have hnil : (List.range txs.length).filter
      (fun k => ((blockTouched act height S txs).getD k []).contains hx) = [] := by
    apply List.filter_eq_nil_iff.mpr
    intro k hk
    simp only [List.mem_range] at hk
    intro hc
    apply h
    have hk' : k < (blockTouched act height S txs).length := by rw [blockTouched_length]; exact hk
    rw [List.getD_eq_getElem?_getD, List.getElem?_eq_getElem hk'] at hc
    simp only [Option.getD_some, List.contains_iff_mem] at hc
    exact List.mem_flatten.mpr ⟨_, List.getElem_mem hk', hc⟩
  rw [hnil]; simp

theorem historyPairs_foldl_untouched (act height : Nat) (S : St) (txs : List Tx)
    (hlen : S.touched.length = S.txs.length) (hx : HashX)
    (h : hx ∉ (blockTouched act height S txs).flatten) :
    historyPairs (txs.foldl (applyTx act height) S) hx none = historyPairs S hx none := by
  simp only [historyPairs]
  rw [historyOf_foldl_untouched act height S txs hlen hx h]
  apply List.map_congr_left
  intro n hn
  have hlt : n < S.txs.length := by rw [← hlen]; exact historyOf_lt S hx n hn
  rw [foldl_txs, List.getD_eq_getElem?_getD, List.getD_eq_getElem?_getD,
    List.getElem?_append_left hlt]

/-! ### the change lemma -/

/-- a script hash the block does not touch has the same client-visible confirmed state before and
    after the block -/
theorem confState_snoc_untouched (act : Nat) (chain : List Block) (b : Block) (hx : HashX)
    (h : hx ∉ touchedBy act chain b) :
    confState act (chain ++ [b]) hx = confState act chain hx := by
  have hlen := (specOK_chain act chain).len
  have hspec : specChain act (chain ++ [b]) =
      b.txs.foldl (applyTx act chain.length) (specChain act chain) := by
    rw [specChain_snoc]; rfl
  unfold confState
  rw [hspec, historyOf_foldl_untouched act _ _ _ hlen hx h,
    historyPairs_foldl_untouched act _ _ _ hlen hx h, utxosOf_foldl act _ _ _ hx h]

/-- **Every confirmed change made by a block is in the block's touched list.**  If the
client-visible confirmed state of a script hash (history as tx numbers, history as (hash, height)
pairs, unspent outputs) differs between `chain` and `chain ++ [b]`, the script hash is among the
script hashes `b` touches on top of `chain`. -/
theorem confState_change_advance (act : Nat) (chain : List Block) (b : Block) (hx : HashX)
    (h : confState act chain hx ≠ confState act (chain ++ [b]) hx) : hx ∈ touchedBy act chain b := by
  cases hd : decide (hx ∈ touchedBy act chain b) with
  | true => exact of_decide_eq_true hd
  | false => exact absurd (confState_snoc_untouched act chain b hx (of_decide_eq_false hd)).symm h

/-- …and the same read backwards: **every confirmed change made by backing the last block out is
in that block's touched list.** -/
theorem confState_change_backout (act : Nat) (chain : List Block) (b : Block) (hx : HashX)
    (h : confState act (chain ++ [b]) hx ≠ confState act chain hx) : hx ∈ touchedBy act chain b :=
  confState_change_advance act chain b hx (fun e => h e.symm)

/-! ### covering a stretch of steps -/

/-- `T` covers every script hash whose state differs between `ref` and `c` -/
def Cov (act : Nat) (ref c : List Block) (T : List HashX) : Prop :=
  ∀ hx, confState act ref hx ≠ confState act c hx → hx ∈ T

theorem cov_refl (act : Nat) (c : List Block) (T : List HashX) : Cov act c c T :=
  fun _ h => absurd rfl h

theorem Cov.mono {act : Nat} {ref c : List Block} {T T' : List HashX} (h : Cov act ref c T)
    (hs : ∀ hx ∈ T, hx ∈ T') : Cov act ref c T' := fun hx hne => hs hx (h hx hne)

/-- one more step: what the step changes is in `T'`, and `T'` keeps `T` -/
theorem Cov.step {act : Nat} {ref c c' : List Block} {T T' : List HashX} (h : Cov act ref c T)
    (hs : ∀ hx ∈ T, hx ∈ T') (hstep : ∀ hx, confState act c hx ≠ confState act c' hx → hx ∈ T') :
    Cov act ref c' T' := by
  intro hx hne
  by_cases h1 : confState act ref hx = confState act c hx
  · exact hstep hx (fun e => hne (h1.trans e))
  · exact hs hx (h hx h1)

end EV.Index

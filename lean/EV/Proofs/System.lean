import EV.Model.System

/-!
Inductive invariant of the status / history-cache coherence model (`EV/Model/System.lean`)
for the current code (`Flags` default: `checkCount = true`, `batch = false`).  Core tactics only.
-/
namespace EV.System

/-! ### `modifyAt`, `lookup`, `put` -/

theorem getElem?_modifyAt {α : Type} (l : List α) (i : Nat) (f : α → α) (j : Nat) :
    (modifyAt l i f)[j]? = if j = i then l[j]?.map f else l[j]? := by
  unfold modifyAt
  rw [List.getElem?_map, List.getElem?_zipIdx]
  cases l[j]? with
  | none => simp
  | some a => by_cases h : j = i <;> simp [h]

theorem length_modifyAt {α : Type} (l : List α) (i : Nat) (f : α → α) :
    (modifyAt l i f).length = l.length := by
  simp [modifyAt]

theorem mem_modifyAt {α : Type} {l : List α} {i : Nat} {f : α → α} {a : α}
    (h : a ∈ modifyAt l i f) : a ∈ l ∨ ∃ b ∈ l, a = f b := by
  obtain ⟨j, hj⟩ := List.mem_iff_getElem?.mp h
  rw [getElem?_modifyAt] at hj
  split at hj
  · cases hb : l[j]? with
    | none => rw [hb] at hj; simp at hj
    | some b =>
      rw [hb] at hj; simp at hj
      exact Or.inr ⟨b, List.mem_iff_getElem?.mpr ⟨j, hb⟩, hj.symm⟩
  · exact Or.inl (List.mem_iff_getElem?.mpr ⟨j, hj⟩)

theorem mem_modifyAt_of_mem {α : Type} {l : List α} (i : Nat) (f : α → α) {a : α}
    (h : a ∈ l) : a ∈ modifyAt l i f ∨ f a ∈ modifyAt l i f := by
  obtain ⟨j, hj⟩ := List.mem_iff_getElem?.mp h
  by_cases hji : j = i
  · exact Or.inr (List.mem_iff_getElem?.mpr ⟨j, by rw [getElem?_modifyAt, if_pos hji, hj]; rfl⟩)
  · exact Or.inl (List.mem_iff_getElem?.mpr ⟨j, by rw [getElem?_modifyAt, if_neg hji, hj]⟩)

theorem lookup_filter (q : Nat → Bool) (k : Nat) (l : List (Nat × Nat)) :
    lookup k (l.filter (fun e => q e.1)) = if q k then lookup k l else none := by
  induction l with
  | nil => simp [lookup]
  | cons e r ih =>
    obtain ⟨a, b⟩ := e
    rw [List.filter_cons]
    by_cases ha : a = k
    · subst ha
      cases hq : q a <;> simp [lookup, hq, ih]
    · cases hq : q a <;> simp [lookup, ih, ha]

theorem lookup_put (k' k v : Nat) (l : List (Nat × Nat)) :
    lookup k' (put k v l) = if k' = k then some v else lookup k' l := by
  unfold put
  by_cases h : k' = k
  · subst h; simp [lookup]
  · have hk : ¬ k = k' := fun e => h e.symm
    rw [lookup, if_neg hk, if_neg h, lookup_filter (fun a => a != k)]
    simp [h]

theorem mem_insertSorted {x y : Nat} {l : List Nat} (h : y ∈ insertSorted x l) : y = x ∨ y ∈ l := by
  induction l with
  | nil => simp [insertSorted] at h; exact Or.inl h
  | cons z r ih =>
    simp only [insertSorted] at h
    split at h
    · simp at h; rcases h with h | h | h <;> simp [h]
    · split at h
      · exact Or.inr h
      · simp at h
        rcases h with h | h
        · simp [h]
        · rcases ih h with h | h <;> simp [h]

theorem mem_eraseIdx_or {α : Type} {l : List α} {j : Nat} {t a : α} (hj : l[j]? = some t)
    (ha : a ∈ l) : a = t ∨ a ∈ l.eraseIdx j := by
  obtain ⟨i, hi⟩ := List.mem_iff_getElem?.mp ha
  by_cases hij : i = j
  · subst hij; rw [hi] at hj; exact Or.inl (Option.some.inj hj)
  · exact Or.inr (List.mem_eraseIdx_iff_getElem?.mpr ⟨i, hij, hi⟩)


/-! ### The invariant -/

/-- version `v` of `hx` is either current or a change of `hx` is still carried -/
def valid (st : St) (hx v : Nat) : Prop := v = curOf st hx ∨ hx ∈ st.carrier

/-- a recomputation of (s, hx) is pending inside some _notify_inner -/
def Pending (st : St) (s hx : Nat) : Prop :=
  ∃ t ∈ st.tasks, ∃ rest ch, t.cont = .notify s rest ch ∧ (t.hx = hx ∨ hx ∈ rest)

/-- session `s` holds a valid status of `hx`, or a recomputation is pending -/
def HeldOK (st : St) (s hx : Nat) : Prop :=
  (∃ v, heldOf st s hx = some v ∧ valid st hx v) ∨ Pending st s hx

structure Inv (st : St) : Prop where
  lens : st.held.length = st.subs.length
  cache : ∀ hx v, lookup hx st.cache = some v → valid st hx v
  reads : ∀ t ∈ st.tasks, ∀ v, t.value = some v → t.countAtStart = st.notifyCount → valid st t.hx v
  counts : ∀ t ∈ st.tasks, t.countAtStart ≤ st.notifyCount
  held : ∀ s hx, hx ∈ subsOf st s → (∃ v, heldOf st s hx = some v ∧ valid st hx v) ∨ Pending st s hx
  /-- non-batch mode: `_notify_inner` never accumulates computed statuses -/
  nochg : ∀ t ∈ st.tasks, ∀ s rest ch, t.cont = .notify s rest ch → ch = []
  /-- the read started by `hashX_subscribe(x)` reads `x` -/
  subhx : ∀ t ∈ st.tasks, ∀ s x, t.cont = .sub s x → t.hx = x

/-- `Inv` without the `held` clause -/
structure Base (st : St) : Prop where
  lens : st.held.length = st.subs.length
  cache : ∀ hx v, lookup hx st.cache = some v → valid st hx v
  reads : ∀ t ∈ st.tasks, ∀ v, t.value = some v → t.countAtStart = st.notifyCount → valid st t.hx v
  counts : ∀ t ∈ st.tasks, t.countAtStart ≤ st.notifyCount
  nochg : ∀ t ∈ st.tasks, ∀ s rest ch, t.cont = .notify s rest ch → ch = []
  subhx : ∀ t ∈ st.tasks, ∀ s x, t.cont = .sub s x → t.hx = x

theorem Inv.base {st : St} (h : Inv st) : Base st :=
  ⟨h.lens, h.cache, h.reads, h.counts, h.nochg, h.subhx⟩

theorem Inv.of_base {st : St} (h : Base st) (hh : ∀ s hx, hx ∈ subsOf st s → HeldOK st s hx) : Inv st :=
  ⟨h.lens, h.cache, h.reads, h.counts, hh, h.nochg, h.subhx⟩

theorem inv_init (n m : Nat) : Inv (init n m) := by
  refine ⟨by simp [init], ?_, ?_, ?_, ?_, ?_, ?_⟩
  · intro hx v h; simp [init, lookup] at h
  · intro t ht; simp [init] at ht
  · intro t ht; simp [init] at ht
  · intro s hx h
    simp only [subsOf, init, List.getD_eq_getElem?_getD, List.getElem?_replicate] at h
    split at h <;> simp at h
  · intro t ht; simp [init] at ht
  · intro t ht; simp [init] at ht

/-! ### `deliver` -/

theorem heldOf_deliver (st : St) (s hx v s' hx' : Nat) :
    heldOf (deliver st s hx v) s' hx' =
      if s' = s ∧ s < st.held.length ∧ hx' = hx then some v else heldOf st s' hx' := by
  simp only [heldOf, deliver, List.getD_eq_getElem?_getD, getElem?_modifyAt]
  by_cases hs : s' = s
  · subst hs
    by_cases hl : s' < st.held.length
    · rw [if_pos rfl, List.getElem?_eq_getElem hl]
      simp only [Option.map_some, Option.getD_some, lookup_put, hl, true_and]
    · simp [hl]
  · simp [hs]

/-- what `deliver`/`notifyGo` do to the rest of the state -/
structure Frame (st st' : St) : Prop where
  cur : st'.cur = st.cur
  carrier : st'.carrier = st.carrier
  cache : st'.cache = st.cache
  subs : st'.subs = st.subs
  count : st'.notifyCount = st.notifyCount
  lenHeld : st'.held.length = st.held.length
  tasks : ∃ extra, st'.tasks = st.tasks ++ extra ∧
    ∀ t ∈ extra, t.value = none ∧ t.countAtStart = st.notifyCount ∧ ∃ s rest, t.cont = .notify s rest []
  heldOK : ∀ s hx, HeldOK st s hx → HeldOK st' s hx

theorem Frame.refl (st : St) : Frame st st :=
  ⟨rfl, rfl, rfl, rfl, rfl, rfl, ⟨[], by simp⟩, fun _ _ h => h⟩

theorem Frame.trans {a b c : St} (h1 : Frame a b) (h2 : Frame b c) : Frame a c := by
  obtain ⟨e1, he1, hp1⟩ := h1.tasks
  obtain ⟨e2, he2, hp2⟩ := h2.tasks
  refine ⟨h2.cur.trans h1.cur, h2.carrier.trans h1.carrier, h2.cache.trans h1.cache,
    h2.subs.trans h1.subs, h2.count.trans h1.count, h2.lenHeld.trans h1.lenHeld,
    ⟨e1 ++ e2, by rw [he2, he1, List.append_assoc], ?_⟩, fun s hx h => h2.heldOK s hx (h1.heldOK s hx h)⟩
  intro t ht
  rcases List.mem_append.mp ht with ht | ht
  · exact hp1 t ht
  · have := hp2 t ht; rw [h1.count] at this; exact this

theorem Frame.valid {st st' : St} (h : Frame st st') (hx v : Nat) : valid st' hx v ↔ valid st hx v := by
  simp only [System.valid, curOf, h.cur, h.carrier]

theorem Frame.subsOf {st st' : St} (h : Frame st st') (s : Nat) : subsOf st' s = subsOf st s := by
  simp only [System.subsOf, h.subs]

theorem Frame.base {st st' : St} (h : Frame st st') (hb : Base st) : Base st' := by
  obtain ⟨e, he, hp⟩ := h.tasks
  refine ⟨by rw [h.lenHeld, h.subs]; exact hb.lens, ?_, ?_, ?_, ?_, ?_⟩
  · intro hx v hl; rw [h.cache] at hl; exact (h.valid hx v).mpr (hb.cache hx v hl)
  · intro t ht v hv hc
    rw [he] at ht; rw [h.count] at hc
    rcases List.mem_append.mp ht with ht | ht
    · exact (h.valid _ _).mpr (hb.reads t ht v hv hc)
    · rw [(hp t ht).1] at hv; cases hv
  · intro t ht
    rw [he] at ht; rw [h.count]
    rcases List.mem_append.mp ht with ht | ht
    · exact hb.counts t ht
    · rw [(hp t ht).2.1]; exact Nat.le_refl _
  · intro t ht s rest ch hc
    rw [he] at ht
    rcases List.mem_append.mp ht with ht | ht
    · exact hb.nochg t ht s rest ch hc
    · obtain ⟨s', rest', hc'⟩ := (hp t ht).2.2
      rw [hc'] at hc; cases hc; rfl
  · intro t ht s x hc
    rw [he] at ht
    rcases List.mem_append.mp ht with ht | ht
    · exact hb.subhx t ht s x hc
    · obtain ⟨s', rest', hc'⟩ := (hp t ht).2.2
      rw [hc'] at hc; cases hc

theorem Pending.mono {st st' : St} (h : ∀ t ∈ st.tasks, t ∈ st'.tasks) {s hx : Nat}
    (hp : Pending st s hx) : Pending st' s hx := by
  obtain ⟨t, ht, rest, ch, hc, hm⟩ := hp
  exact ⟨t, h t ht, rest, ch, hc, hm⟩

theorem deliver_frame (st : St) (s hx v : Nat) (hv : valid st hx v) : Frame st (deliver st s hx v) := by
  refine ⟨rfl, rfl, rfl, rfl, rfl, by simp [deliver, length_modifyAt], ⟨[], by simp [deliver]⟩, ?_⟩
  intro s' hx' h
  rcases h with ⟨v', hv', hval⟩ | h
  · left
    rw [heldOf_deliver]
    split
    · next hc => obtain ⟨_, _, rfl⟩ := hc; exact ⟨v, rfl, hv⟩
    · exact ⟨v', hv', hval⟩
  · right; exact h

theorem deliver_heldOK (st : St) (s hx v : Nat) (hv : valid st hx v) (hs : s < st.held.length) :
    HeldOK (deliver st s hx v) s hx := by
  left
  exact ⟨v, by rw [heldOf_deliver, if_pos ⟨rfl, hs, rfl⟩], hv⟩

theorem lt_of_mem_subsOf {st : St} {s hx : Nat} (h : hx ∈ subsOf st s) : s < st.subs.length := by
  apply Classical.byContradiction
  intro hn
  have : st.subs[s]? = none := List.getElem?_eq_none (by omega)
  simp [subsOf, List.getD_eq_getElem?_getD, this] at h


/-! ### `notifyGo` (the `_notify_inner` loop), non-batch mode -/

theorem HeldOK.of_tasks_append {st : St} {extra : List Task} {s hx : Nat} (h : HeldOK st s hx) :
    HeldOK { st with tasks := st.tasks ++ extra } s hx := by
  rcases h with h | h
  · exact Or.inl h
  · exact Or.inr (Pending.mono (fun t ht => List.mem_append_left _ ht) h)

theorem notifyGo_spec (f : Flags) (hb : f.batch = false) (s : Nat) (todo : List Nat) (st : St)
    (hc : ∀ hx v, lookup hx st.cache = some v → valid st hx v)
    (hl : st.held.length = st.subs.length) :
    Frame st (notifyGo f st s todo []) ∧
    ∀ hx ∈ todo, hx ∈ subsOf st s → HeldOK (notifyGo f st s todo []) s hx := by
  induction todo generalizing st with
  | nil =>
    simp only [notifyGo, List.foldl_nil]
    exact ⟨Frame.refl st, fun hx h => by simp at h⟩
  | cons x rest ih =>
    rw [notifyGo]
    by_cases hsub : x ∈ subsOf st s
    · have hcon : (subsOf st s).contains x = true := List.contains_iff_mem.mpr hsub
      simp only [hcon, Bool.not_true, Bool.false_eq_true, if_false]
      cases hlk : lookup x st.cache with
      | some v =>
        simp only [hb, Bool.false_eq_true, if_false]
        have hv := hc x v hlk
        have F1 := deliver_frame st s x v hv
        obtain ⟨F2, H2⟩ := ih (deliver st s x v)
          (fun hx' v' h' => (F1.valid hx' v').mpr (hc hx' v' (by rw [F1.cache] at h'; exact h')))
          (by rw [F1.lenHeld, F1.subs]; exact hl)
        refine ⟨F1.trans F2, ?_⟩
        intro hx hm hs
        rcases List.mem_cons.mp hm with rfl | hm
        · exact F2.heldOK _ _ (deliver_heldOK st s hx v hv (by rw [hl]; exact lt_of_mem_subsOf hs))
        · exact H2 hx hm (by rw [F1.subsOf]; exact hs)
      | none =>
        refine ⟨⟨rfl, rfl, rfl, rfl, rfl, rfl, ⟨[_], rfl, ?_⟩, ?_⟩, ?_⟩
        · intro t ht
          rw [List.mem_singleton] at ht; subst ht
          exact ⟨rfl, rfl, s, rest, rfl⟩
        · intro s' hx' h; exact h.of_tasks_append
        · intro hx hm _
          right
          refine ⟨_, List.mem_append_right _ (List.mem_singleton.mpr rfl), rest, [], rfl, ?_⟩
          rcases List.mem_cons.mp hm with rfl | hm
          · exact Or.inl rfl
          · exact Or.inr hm
    · have hcon : (subsOf st s).contains x = false := by
        cases h : (subsOf st s).contains x
        · rfl
        · exact absurd (List.contains_iff_mem.mp h) hsub
      simp only [hcon, Bool.not_false, if_true]
      obtain ⟨F2, H2⟩ := ih st hc hl
      refine ⟨F2, ?_⟩
      intro hx hm hs
      rcases List.mem_cons.mp hm with rfl | hm
      · exact absurd hs hsub
      · exact H2 hx hm hs


/-- the per-session loop of `_notify_sessions` over the sessions `ss` -/
theorem notifyAll_spec (f : Flags) (hb : f.batch = false) (X : List Nat) (ss : List Nat) (st : St)
    (hc : ∀ hx v, lookup hx st.cache = some v → valid st hx v)
    (hl : st.held.length = st.subs.length) :
    Frame st (ss.foldl (fun acc s => notifyGo f acc s
        ((X.filter (subsOf acc s).contains).mergeSort (fun a b => decide (a ≤ b))).eraseDups []) st) ∧
    ∀ s ∈ ss, ∀ hx ∈ X, hx ∈ subsOf st s →
      HeldOK (ss.foldl (fun acc s => notifyGo f acc s
        ((X.filter (subsOf acc s).contains).mergeSort (fun a b => decide (a ≤ b))).eraseDups []) st) s hx := by
  induction ss generalizing st with
  | nil => exact ⟨Frame.refl st, fun s h => by simp at h⟩
  | cons s ss ih =>
    rw [List.foldl_cons]
    obtain ⟨F1, H1⟩ := notifyGo_spec f hb s
      ((X.filter (subsOf st s).contains).mergeSort (fun a b => decide (a ≤ b))).eraseDups st hc hl
    obtain ⟨F2, H2⟩ := ih _
      (fun hx' v' h' => (F1.valid hx' v').mpr (hc hx' v' (by rw [F1.cache] at h'; exact h')))
      (by rw [F1.lenHeld, F1.subs]; exact hl)
    refine ⟨F1.trans F2, ?_⟩
    intro s' hs' hx hX hsub
    rcases List.mem_cons.mp hs' with rfl | hs'
    · apply F2.heldOK
      apply H1 hx _ hsub
      rw [List.mem_eraseDups, List.mem_mergeSort, List.mem_filter]
      exact ⟨hX, List.contains_iff_mem.mpr hsub⟩
    · exact H2 s' hs' hx hX (by rw [F1.subsOf]; exact hsub)

theorem HeldOK.congr {st st' : St} (hh : st'.held = st.held) (hc : st'.cur = st.cur)
    (hca : st'.carrier = st.carrier) (ht : st'.tasks = st.tasks) (s hx : Nat) :
    HeldOK st' s hx ↔ HeldOK st s hx := by
  simp only [HeldOK, heldOf, valid, curOf, Pending, hh, hc, hca, ht]

/-! ### the events -/

theorem inv_change (f : Flags) (st : St) (x : Nat) (h : Inv st) : Inv (step f st (.change x)) := by
  have hv : ∀ hx v, valid st hx v → valid (step f st (.change x)) hx v := by
    intro hx v hval
    simp only [valid, step, curOf, List.getD_eq_getElem?_getD, getElem?_modifyAt]
    by_cases hx' : hx = x
    · subst hx'
      right
      by_cases hm : hx ∈ st.carrier
      · simp [hm]
      · simp [hm]
    · rw [if_neg hx']
      rcases hval with hval | hval
      · left; simpa [curOf, List.getD_eq_getElem?_getD] using hval
      · right
        split
        · exact hval
        · exact List.mem_append_left _ hval
  refine ⟨h.lens, fun hx v hl => hv hx v (h.cache hx v hl),
    fun t ht v hvv hc => hv _ _ (h.reads t ht v hvv hc), h.counts, ?_, h.nochg, h.subhx⟩
  intro s hx hs
  rcases h.held s hx hs with ⟨v, h1, h2⟩ | hp
  · exact Or.inl ⟨v, h1, hv hx v h2⟩
  · exact Or.inr hp

/-- the state of `_notify_sessions` before the session loop -/
def notifyPre (st : St) (xs : List Nat) : St :=
  { st with
    carrier := st.carrier.filter (fun x => !xs.contains x),
    notifyCount := st.notifyCount + 1,
    cache := st.cache.filter (fun e => !((xs.filter st.carrier.contains).contains e.1)) }

theorem step_notify_eq (f : Flags) (st : St) (xs : List Nat) :
    step f st (.notify xs) =
      (List.range st.subs.length).foldl (fun acc s => notifyGo f acc s
        (((xs.filter st.carrier.contains).filter (subsOf acc s).contains).mergeSort
          (fun a b => decide (a ≤ b))).eraseDups []) (notifyPre st xs) := rfl

theorem valid_notifyPre {st : St} {xs : List Nat} {hx v : Nat} (hv : valid st hx v)
    (hn : hx ∉ xs.filter st.carrier.contains) : valid (notifyPre st xs) hx v := by
  rcases hv with hv | hv
  · exact Or.inl hv
  · right
    simp only [notifyPre, List.mem_filter]
    refine ⟨hv, ?_⟩
    have : hx ∉ xs := fun hm => hn (List.mem_filter.mpr ⟨hm, List.contains_iff_mem.mpr hv⟩)
    simp [this]

theorem inv_notify (f : Flags) (hb : f.batch = false) (st : St) (xs : List Nat) (h : Inv st) :
    Inv (step f st (.notify xs)) := by
  rw [step_notify_eq]
  have hcache : ∀ hx v, lookup hx (notifyPre st xs).cache = some v → valid (notifyPre st xs) hx v := by
    intro hx v hl
    simp only [notifyPre] at hl
    rw [lookup_filter (fun k => !((xs.filter st.carrier.contains).contains k))] at hl
    split at hl
    · next hq =>
      refine valid_notifyPre (h.cache hx v hl) ?_
      intro hm
      rw [List.contains_iff_mem.mpr hm] at hq
      simp at hq
    · cases hl
  have hbase : Base (notifyPre st xs) := by
    refine ⟨h.lens, hcache, ?_, ?_, h.nochg, h.subhx⟩
    · intro t ht v _ hc
      have := h.counts t ht
      simp only [notifyPre] at hc
      omega
    · intro t ht
      have := h.counts t ht
      simp only [notifyPre]
      omega
  obtain ⟨F, H⟩ := notifyAll_spec f hb (xs.filter st.carrier.contains) (List.range st.subs.length)
    (notifyPre st xs) hcache h.lens
  refine Inv.of_base (F.base hbase) ?_
  intro s hx hs
  rw [F.subsOf] at hs
  by_cases hX : hx ∈ xs.filter st.carrier.contains
  · exact H s (List.mem_range.mpr (lt_of_mem_subsOf hs)) hx hX hs
  · apply F.heldOK
    rcases h.held s hx hs with ⟨v, h1, h2⟩ | hp
    · exact Or.inl ⟨v, h1, valid_notifyPre h2 hX⟩
    · exact Or.inr hp

theorem mem_subsOf_modifyAt {st : St} {s x s' hx' : Nat}
    (h : hx' ∈ (modifyAt st.subs s (insertSorted x)).getD s' []) :
    hx' ∈ subsOf st s' ∨ (s' = s ∧ s < st.subs.length ∧ hx' = x) := by
  rw [List.getD_eq_getElem?_getD, getElem?_modifyAt] at h
  by_cases hs : s' = s
  · subst hs
    rw [if_pos rfl] at h
    by_cases hl : s' < st.subs.length
    · rw [List.getElem?_eq_getElem hl] at h
      simp only [Option.map_some, Option.getD_some] at h
      rcases mem_insertSorted h with h | h
      · exact Or.inr ⟨rfl, hl, h⟩
      · left; simp only [subsOf, List.getD_eq_getElem?_getD, List.getElem?_eq_getElem hl]; exact h
    · rw [List.getElem?_eq_none (by omega)] at h
      simp at h
  · rw [if_neg hs] at h
    left; simp only [subsOf, List.getD_eq_getElem?_getD]; exact h

/-- continuing a coroutine with a valid history re-establishes the invariant; `st` may lack the
    `held` clause exactly for what the continuation is about to deliver / recompute -/
theorem inv_resume (f : Flags) (hb : f.batch = false) (st : St) (hx v : Nat) (c : Cont)
    (hbase : Base st) (hv : valid st hx v)
    (hsub : ∀ s x, c = .sub s x → hx = x)
    (hch : ∀ s rest ch, c = .notify s rest ch → ch = [])
    (hheld : ∀ s' hx', hx' ∈ subsOf st s' →
      HeldOK st s' hx' ∨ ∃ rest ch, c = .notify s' rest ch ∧ (hx = hx' ∨ hx' ∈ rest)) :
    Inv (resume f st hx v c) := by
  cases c with
  | query =>
    refine Inv.of_base hbase ?_
    intro s' hx' hs
    rcases hheld s' hx' hs with h | ⟨_, _, h, _⟩
    · exact h
    · cases h
  | sub s x =>
    obtain rfl := hsub s x rfl
    have F1 := deliver_frame st s hx v hv
    have B1 := F1.base hbase
    simp only [resume]
    refine Inv.of_base ⟨?_, B1.cache, B1.reads, B1.counts, B1.nochg, B1.subhx⟩ ?_
    · show (deliver st s hx v).held.length = (modifyAt st.subs s (insertSorted hx)).length
      rw [length_modifyAt, F1.lenHeld]; exact hbase.lens
    · intro s' hx' hs
      apply (HeldOK.congr (st := deliver st s hx v) rfl rfl rfl rfl s' hx').mpr
      rcases mem_subsOf_modifyAt hs with hs | ⟨rfl, hl, rfl⟩
      · rcases hheld s' hx' hs with h | ⟨_, _, h, _⟩
        · exact F1.heldOK _ _ h
        · cases h
      · exact deliver_heldOK st s' hx' v hv (by rw [hbase.lens]; exact hl)
  | notify s rest ch =>
    obtain rfl := hch s rest ch rfl
    have F1 := deliver_frame st s hx v hv
    have B1 := F1.base hbase
    simp only [resume, hb, Bool.false_eq_true, if_false]
    obtain ⟨F2, H2⟩ := notifyGo_spec f hb s rest (deliver st s hx v) B1.cache B1.lens
    refine Inv.of_base (F2.base B1) ?_
    intro s' hx' hs
    rw [F2.subsOf, F1.subsOf] at hs
    rcases hheld s' hx' hs with h | ⟨rest', ch', hc, hm⟩
    · exact F2.heldOK _ _ (F1.heldOK _ _ h)
    · cases hc
      rcases hm with rfl | hm
      · exact F2.heldOK _ _ (deliver_heldOK st s hx v hv (by rw [hbase.lens]; exact lt_of_mem_subsOf hs))
      · exact H2 hx' hm (by rw [F1.subsOf]; exact hs)

theorem inv_startRead (f : Flags) (hb : f.batch = false) (st : St) (hx : Nat) (c : Cont) (h : Inv st)
    (hsub : ∀ s x, c = .sub s x → hx = x)
    (hch : ∀ s rest ch, c ≠ .notify s rest ch) :
    Inv (startRead f st hx c) := by
  unfold startRead
  cases hl : lookup hx st.cache with
  | some v =>
    exact inv_resume f hb st hx v c h.base (h.cache hx v hl) hsub
      (fun s rest ch hc => absurd hc (hch s rest ch)) (fun s' hx' hs => Or.inl (h.held s' hx' hs))
  | none =>
    simp only
    refine ⟨h.lens, h.cache, ?_, ?_, ?_, ?_, ?_⟩
    · intro t ht v hv hc
      rcases List.mem_append.mp ht with ht | ht
      · exact h.reads t ht v hv hc
      · rw [List.mem_singleton] at ht; subst ht; cases hv
    · intro t ht
      rcases List.mem_append.mp ht with ht | ht
      · exact h.counts t ht
      · rw [List.mem_singleton] at ht; subst ht; exact Nat.le_refl _
    · intro s' hx' hs
      exact HeldOK.of_tasks_append (h.held s' hx' hs)
    · intro t ht s rest ch hc
      rcases List.mem_append.mp ht with ht | ht
      · exact h.nochg t ht s rest ch hc
      · rw [List.mem_singleton] at ht; subst ht; exact absurd hc (hch s rest ch)
    · intro t ht s x hc
      rcases List.mem_append.mp ht with ht | ht
      · exact h.subhx t ht s x hc
      · rw [List.mem_singleton] at ht; subst ht; exact hsub s x hc


theorem inv_readDo (f : Flags) (st : St) (i : Nat) (h : Inv st) : Inv (step f st (.readDo i)) := by
  simp only [step]
  cases nthIdx st.tasks false i with
  | none => exact h
  | some j =>
    simp only
    have hmem : ∀ t' ∈ modifyAt st.tasks j (fun t => { t with value := some (curOf st t.hx) }),
        ∃ b ∈ st.tasks, t'.hx = b.hx ∧ t'.cont = b.cont ∧ t'.countAtStart = b.countAtStart ∧
          (t'.value = b.value ∨ t'.value = some (curOf st b.hx)) := by
      intro t' ht'
      rcases mem_modifyAt ht' with hm | ⟨b, hb, rfl⟩
      · exact ⟨t', hm, rfl, rfl, rfl, Or.inl rfl⟩
      · exact ⟨b, hb, rfl, rfl, rfl, Or.inr rfl⟩
    refine ⟨h.lens, h.cache, ?_, ?_, ?_, ?_, ?_⟩
    · intro t' ht' v hv hc
      obtain ⟨b, hb, e1, _, e3, e4⟩ := hmem t' ht'
      rw [e1]
      rcases e4 with e4 | e4
      · exact h.reads b hb v (by rw [← e4]; exact hv) (by rw [← e3]; exact hc)
      · rw [e4] at hv; cases hv; exact Or.inl rfl
    · intro t' ht'
      obtain ⟨b, hb, _, _, e3, _⟩ := hmem t' ht'
      rw [e3]; exact h.counts b hb
    · intro s hx hs
      rcases h.held s hx hs with hv | ⟨t, ht, rest, ch, hc, hm⟩
      · exact Or.inl hv
      · right
        rcases mem_modifyAt_of_mem j (fun t => { t with value := some (curOf st t.hx) }) ht with h' | h'
        · exact ⟨_, h', rest, ch, hc, hm⟩
        · exact ⟨_, h', rest, ch, hc, hm⟩
    · intro t' ht' s rest ch hc
      obtain ⟨b, hb, _, e2, _, _⟩ := hmem t' ht'
      exact h.nochg b hb s rest ch (by rw [← e2]; exact hc)
    · intro t' ht' s x hc
      obtain ⟨b, hb, e1, e2, _, _⟩ := hmem t' ht'
      rw [e1]; exact h.subhx b hb s x (by rw [← e2]; exact hc)

theorem inv_readFinish (f : Flags) (hb : f.batch = false) (hcc : f.checkCount = true)
    (st : St) (i : Nat) (h : Inv st) : Inv (step f st (.readFinish i)) := by
  simp only [step]
  cases nthIdx st.tasks true i with
  | none => exact h
  | some j =>
    simp only
    cases hj : st.tasks[j]? with
    | none => exact h
    | some t =>
      simp only
      have htm : t ∈ st.tasks := List.mem_iff_getElem?.mpr ⟨j, hj⟩
      cases hval : t.value with
      | none => exact h
      | some v =>
        simp only [hcc, Bool.true_and]
        by_cases hcnt : t.countAtStart = st.notifyCount
        · -- accepted
          have hne : (t.countAtStart != st.notifyCount) = false := by simp [hcnt]
          simp only [hne, Bool.false_eq_true, if_false]
          have hv : valid st t.hx v := h.reads t htm v hval hcnt
          apply inv_resume f hb _ t.hx v t.cont
          · refine ⟨h.lens, ?_, ?_, ?_, ?_, ?_⟩
            · intro hx' v' hl
              simp only [lookup_put] at hl
              split at hl
              · next he => cases hl; rw [he]; exact hv
              · exact h.cache hx' v' hl
            · intro t' ht' v' hv' hc'
              exact h.reads t' (List.mem_of_mem_eraseIdx ht') v' hv' hc'
            · intro t' ht'; exact h.counts t' (List.mem_of_mem_eraseIdx ht')
            · intro t' ht'; exact h.nochg t' (List.mem_of_mem_eraseIdx ht')
            · intro t' ht'; exact h.subhx t' (List.mem_of_mem_eraseIdx ht')
          · exact hv
          · intro s x hc; exact h.subhx t htm s x hc
          · intro s rest ch hc; exact h.nochg t htm s rest ch hc
          · intro s' hx' hs
            rcases h.held s' hx' hs with hh | ⟨t', ht', rest, ch, hc, hm⟩
            · exact Or.inl (Or.inl hh)
            · rcases mem_eraseIdx_or hj ht' with rfl | hin
              · exact Or.inr ⟨rest, ch, hc, hm⟩
              · exact Or.inl (Or.inr ⟨t', hin, rest, ch, hc, hm⟩)
        · -- a notification was processed meanwhile: read again
          have hne : (t.countAtStart != st.notifyCount) = true := by simp [hcnt]
          simp only [hne, if_true]
          have hmem : ∀ t' ∈ st.tasks.eraseIdx j ++
              [{ hx := t.hx, countAtStart := st.notifyCount, cont := t.cont : Task }],
              t' ∈ st.tasks ∨
                t' = { hx := t.hx, countAtStart := st.notifyCount, cont := t.cont : Task } := by
            intro t' ht'
            rcases List.mem_append.mp ht' with ht' | ht'
            · exact Or.inl (List.mem_of_mem_eraseIdx ht')
            · exact Or.inr (List.mem_singleton.mp ht')
          refine ⟨h.lens, h.cache, ?_, ?_, ?_, ?_, ?_⟩
          · intro t' ht' v' hv' hc'
            rcases hmem t' ht' with hm | rfl
            · exact h.reads t' hm v' hv' hc'
            · cases hv'
          · intro t' ht'
            rcases hmem t' ht' with hm | rfl
            · exact h.counts t' hm
            · exact Nat.le_refl _
          · intro s' hx' hs
            rcases h.held s' hx' hs with hh | ⟨t', ht', rest, ch, hc, hm⟩
            · exact Or.inl hh
            · right
              rcases mem_eraseIdx_or hj ht' with rfl | hin
              · exact ⟨_, List.mem_append_right _ (List.mem_singleton.mpr rfl), rest, ch, hc, hm⟩
              · exact ⟨t', List.mem_append_left _ hin, rest, ch, hc, hm⟩
          · intro t' ht' s rest ch hc
            rcases hmem t' ht' with hm | rfl
            · exact h.nochg t' hm s rest ch hc
            · exact h.nochg t htm s rest ch hc
          · intro t' ht' s x hc
            rcases hmem t' ht' with hm | rfl
            · exact h.subhx t' hm s x hc
            · exact h.subhx t htm s x hc

/-- every event preserves the invariant (any flags with `batch = false`, `checkCount = true`) -/
theorem inv_step_flags (f : Flags) (hb : f.batch = false) (hcc : f.checkCount = true)
    (st : St) (ev : Ev) (h : Inv st) : Inv (step f st ev) := by
  cases ev with
  | change x => exact inv_change f st x h
  | notify xs => exact inv_notify f hb st xs h
  | subscribe s x =>
    exact inv_startRead f hb st x (.sub s x) h (fun s' x' hc => by cases hc; rfl)
      (fun s' rest ch hc => by cases hc)
  | getHistory s x =>
    exact inv_startRead f hb st x .query h (fun s' x' hc => by cases hc)
      (fun s' rest ch hc => by cases hc)
  | readDo i => exact inv_readDo f st i h
  | readFinish i => exact inv_readFinish f hb hcc st i h

theorem inv_step (st : St) (ev : Ev) (h : Inv st) : Inv (step {} st ev) :=
  inv_step_flags {} rfl rfl st ev h

theorem inv_run (st : St) (evs : List Ev) (h : Inv st) : Inv (run {} st evs) := by
  induction evs generalizing st with
  | nil => exact h
  | cons ev evs ih => exact ih (step {} st ev) (inv_step st ev h)

/-- at rest (nothing carried, no read in flight) every subscriber holds the current status and
    every cached history is current -/
theorem quiescent_current (st : St) (h : Inv st) (hc : st.carrier = []) (ht : st.tasks = []) :
    (∀ s hx, hx ∈ subsOf st s → heldOf st s hx = some (curOf st hx)) ∧
    (∀ hx v, lookup hx st.cache = some v → v = curOf st hx) := by
  have hvalid : ∀ hx v, valid st hx v → v = curOf st hx := by
    intro hx v hv
    rcases hv with hv | hv
    · exact hv
    · rw [hc] at hv; simp at hv
  constructor
  · intro s hx hs
    rcases h.held s hx hs with ⟨v, h1, h2⟩ | ⟨t, htm, _⟩
    · rw [h1, hvalid hx v h2]
    · rw [ht] at htm; simp at htm
  · intro hx v hl
    exact hvalid hx v (h.cache hx v hl)

/-! ### evaluating concrete runs in the kernel (`mergeSort` is by well-founded recursion) -/

/-- `step`, with the sort of `_notify_inner` skipped -/
def stepS (f : Flags) (st : St) : Ev → St
  | .notify xs =>
    (List.range st.subs.length).foldl (fun acc s =>
      notifyGo f acc s (((xs.filter st.carrier.contains).filter (subsOf acc s).contains)).eraseDups [])
      { st with
        carrier := st.carrier.filter (fun x => !xs.contains x),
        notifyCount := st.notifyCount + 1,
        cache := st.cache.filter (fun e => !((xs.filter st.carrier.contains).contains e.1)) }
  | ev => step f st ev

/-- the touched lists of all `notify` events are ascending -/
def sortedEvs : List Ev → Bool
  | [] => true
  | .notify xs :: r => decide (xs.Pairwise (· ≤ ·)) && sortedEvs r
  | _ :: r => sortedEvs r

theorem stepS_eq (f : Flags) (st : St) (xs : List Nat) (h : xs.Pairwise (· ≤ ·)) :
    step f st (.notify xs) = stepS f st (.notify xs) := by
  simp only [step, stepS]
  congr 1
  funext acc s
  rw [List.mergeSort_of_pairwise]
  apply List.Pairwise.filter
  apply List.Pairwise.filter
  exact h.imp (fun hab => by simpa using hab)

theorem run_eq_foldl_stepS (f : Flags) (st : St) (evs : List Ev) (h : sortedEvs evs = true) :
    run f st evs = evs.foldl (stepS f) st := by
  induction evs generalizing st with
  | nil => rfl
  | cons ev evs ih =>
    cases ev with
    | notify xs =>
      simp only [sortedEvs, Bool.and_eq_true, decide_eq_true_eq] at h
      rw [run, List.foldl_cons, List.foldl_cons, stepS_eq f st xs h.1]
      exact ih _ h.2
    | _ =>
      simp only [sortedEvs] at h
      rw [run, List.foldl_cons, List.foldl_cons]
      exact ih _ h

end EV.System

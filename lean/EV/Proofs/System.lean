import EV.Model.System

/-!
Inductive invariant of the status / history-cache / tip coherence model (`EV/Model/System.lean`)
for `batch = false`, `checkCount = true`, `recheck = true` and either value of `cmpLive` and
`raiseOnRace` (the current code and the two pinned variants whose loss is recorded by the ghost sets
`suppressed` / `lost`).  Core tactics only.
-/
namespace EV.System

/-! ### `modifyAt`, `lookup`, `put`, `dictSet`, `dictErase` -/

theorem getElem?_modifyAt {α : Type} (l : List α) (i : Nat) (f : α → α) (j : Nat) :
    (modifyAt l i f)[j]? = if j = i then l[j]?.map f else l[j]? := by
  unfold modifyAt
  rw [List.getElem?_map, List.getElem?_zipIdx]
  cases l[j]? with
  | none => simp
  | some a => by_cases h : j = i <;> simp [h]

theorem length_modifyAt {α : Type} (l : List α) (i : Nat) (f : α → α) :
    (modifyAt l i f).length = l.length := by
  simp [modifyAt]

theorem getD_modifyAt {α : Type} (l : List α) (i : Nat) (f : α → α) (j : Nat) (d : α) :
    (modifyAt l i f).getD j d = if j = i ∧ i < l.length then f (l.getD j d) else l.getD j d := by
  simp only [List.getD_eq_getElem?_getD, getElem?_modifyAt]
  by_cases h : j = i
  · subst h
    by_cases hl : j < l.length
    · simp [hl, List.getElem?_eq_getElem hl]
    · simp [hl]
  · simp [h]

theorem mem_modifyAt {α : Type} {l : List α} {i : Nat} {f : α → α} {a : α}
    (h : a ∈ modifyAt l i f) : a ∈ l ∨ ∃ b ∈ l, a = f b := by
  obtain ⟨j, hj⟩ := List.mem_iff_getElem?.mp h
  rw [getElem?_modifyAt] at hj
  split at hj
  · cases hb : l[j]? with
    | none => rw [hb] at hj; simp at hj
    | some b =>
      rw [hb] at hj; simp at hj
      exact Or.inr ⟨b, List.mem_iff_getElem?.mpr ⟨j, hb⟩, hj.symm⟩
  · exact Or.inl (List.mem_iff_getElem?.mpr ⟨j, hj⟩)

theorem mem_modifyAt_of_mem {α : Type} {l : List α} (i : Nat) (f : α → α) {a : α}
    (h : a ∈ l) : a ∈ modifyAt l i f ∨ f a ∈ modifyAt l i f := by
  obtain ⟨j, hj⟩ := List.mem_iff_getElem?.mp h
  by_cases hji : j = i
  · exact Or.inr (List.mem_iff_getElem?.mpr ⟨j, by rw [getElem?_modifyAt, if_pos hji, hj]; rfl⟩)
  · exact Or.inl (List.mem_iff_getElem?.mpr ⟨j, by rw [getElem?_modifyAt, if_neg hji, hj]⟩)

theorem lookup_filter {β : Type} (q : Nat → Bool) (k : Nat) (l : List (Nat × β)) :
    lookup k (l.filter (fun e => q e.1)) = if q k then lookup k l else none := by
  induction l with
  | nil => simp [lookup]
  | cons e r ih =>
    obtain ⟨a, b⟩ := e
    rw [List.filter_cons]
    by_cases ha : a = k
    · subst ha
      cases hq : q a <;> simp [lookup, hq, ih]
    · cases hq : q a <;> simp [lookup, ih, ha]

theorem lookup_put {β : Type} (k' k : Nat) (v : β) (l : List (Nat × β)) :
    lookup k' (put k v l) = if k' = k then some v else lookup k' l := by
  unfold put
  by_cases h : k' = k
  · subst h; simp [lookup]
  · have hk : ¬ k = k' := fun e => h e.symm
    rw [lookup, if_neg hk, if_neg h, lookup_filter (fun a => a != k)]
    simp [h]

theorem lookup_dictSet {β : Type} (k' k : Nat) (v : β) (l : List (Nat × β)) :
    lookup k' (dictSet k v l) = if k' = k then some v else lookup k' l := by
  induction l with
  | nil =>
    by_cases h : k' = k
    · subst h; simp [dictSet, lookup]
    · have hk : ¬ k = k' := fun e => h e.symm
      simp [dictSet, lookup, h, hk]
  | cons e r ih =>
    obtain ⟨a, b⟩ := e
    by_cases ha : a = k
    · subst ha
      by_cases h : k' = a
      · subst h; simp [dictSet, lookup]
      · have hk : ¬ a = k' := fun e => h e.symm
        simp [dictSet, lookup, h, hk]
    · by_cases h : k' = k
      · subst h
        simp [dictSet, lookup, ha, ih]
      · by_cases hak : a = k'
        · simp [dictSet, lookup, ha, hak, h]
        · simp [dictSet, lookup, ha, hak, h, ih]

theorem lookup_dictErase {β : Type} (k' k : Nat) (l : List (Nat × β)) :
    lookup k' (dictErase k l) = if k' = k then none else lookup k' l := by
  unfold dictErase
  rw [lookup_filter (fun a => a != k)]
  by_cases h : k' = k <;> simp [h]

theorem mem_keys_of_lookup {β : Type} {k : Nat} {v : β} {l : List (Nat × β)}
    (h : lookup k l = some v) : k ∈ l.map Prod.fst := by
  induction l with
  | nil => simp [lookup] at h
  | cons e r ih =>
    obtain ⟨a, b⟩ := e
    simp only [lookup] at h
    split at h
    · next he => simp [he]
    · simp [ih h]

theorem mem_insertSorted {x y : Nat} {l : List Nat} (h : y ∈ insertSorted x l) : y = x ∨ y ∈ l := by
  induction l with
  | nil => simp [insertSorted] at h; exact Or.inl h
  | cons z r ih =>
    simp only [insertSorted] at h
    split at h
    · simp at h; rcases h with h | h | h <;> simp [h]
    · split at h
      · exact Or.inr h
      · simp at h
        rcases h with h | h
        · simp [h]
        · rcases ih h with h | h <;> simp [h]

theorem mem_eraseIdx_or {α : Type} {l : List α} {j : Nat} {t a : α} (hj : l[j]? = some t)
    (ha : a ∈ l) : a = t ∨ a ∈ l.eraseIdx j := by
  obtain ⟨i, hi⟩ := List.mem_iff_getElem?.mp ha
  by_cases hij : i = j
  · subst hij; rw [hi] at hj; exact Or.inl (Option.some.inj hj)
  · exact Or.inr (List.mem_eraseIdx_iff_getElem?.mpr ⟨i, hij, hi⟩)

/-! ### The invariant -/

/-- a full recomputation of `hx` for every subscriber is owed by the environment (still carried, or
    handed to a `_notify_sessions` call that is suspended in `_refresh_hsub_results`) — or was lost
    for good (`lost`: the refresh raised; `suppressed`: the stale-copy comparison) -/
def Owed (st : St) (hx : Nat) : Prop :=
  hx ∈ st.carrier ∨ hx ∈ st.lost ∨ hx ∈ st.suppressed ∨ ∃ r ∈ st.hreads, hx ∈ r.xs

/-- a re-check of `hx` through `mempool_statuses` is owed (a flip not yet followed by a
    height-changing notification, or taken over by one that is suspended in the header read) -/
def OwedF (st : St) (hx : Nat) : Prop :=
  hx ∈ st.flipped ∨ ∃ r ∈ st.hreads, hx ∈ r.flips

/-- version `c` of the confirmed history of `hx` is current or a recomputation is owed -/
def validC (st : St) (hx c : Nat) : Prop := c = confOf st hx ∨ Owed st hx

/-- what an accepted read satisfies: current, or a change is still in the carrier -/
def valid0 (st : St) (hx c : Nat) : Prop := c = confOf st hx ∨ hx ∈ st.carrier

theorem valid0.validC {st : St} {hx c : Nat} (h : valid0 st hx c) : validC st hx c := by
  rcases h with h | h
  · exact Or.inl h
  · exact Or.inr (Or.inl h)

/-- the first loop of a `_notify_inner` of session `s` is suspended (its second loop will follow) -/
def Loop2 (st : St) (s : Nat) : Prop := ∃ t ∈ st.tasks, ∃ rest ch, t.cont = .notify s rest ch

/-- a recomputation of (s, hx) is pending inside some `_notify_inner` -/
def Pending (st : St) (s hx : Nat) : Prop :=
  ∃ t ∈ st.tasks, (∃ rest ch, t.cont = .notify s rest ch ∧ (t.hx = hx ∨ hx ∈ rest)) ∨
    (∃ old rest ch, t.cont = .notify2 s old rest ch ∧ (t.hx = hx ∨ hx ∈ rest.map Prod.fst))

/-- the status held is right about the confirmed history and is what `mempool_statuses` records -/
def FlipStale (st : St) (s hx : Nat) : Prop :=
  ∃ c m, heldOf st s hx = some (c, m) ∧ c = confOf st hx ∧ lookup hx (msOf st s) = some (c, m)

/-- session `s` holds a status of `hx` that is current, or something is on its way -/
def HeldOK (st : St) (s hx : Nat) : Prop :=
  Pending st s hx ∨ Owed st hx ∨
    ∃ c m, heldOf st s hx = some (c, m) ∧ c = confOf st hx ∧
      ((m = 0 ∧ memOf st hx = 0) ∨
       (lookup hx (msOf st s) = some (c, m) ∧ (m = memOf st hx ∨ OwedF st hx ∨ Loop2 st s)))

theorem FlipStale.heldOK_of_loop2 {st : St} {s hx : Nat} (h : FlipStale st s hx) (hl : Loop2 st s) :
    HeldOK st s hx := by
  obtain ⟨c, m, h1, h2, h3⟩ := h
  exact Or.inr (Or.inr ⟨c, m, h1, h2, Or.inr ⟨h3, Or.inr (Or.inr hl)⟩⟩)

/-- `Inv` without the `held` clause -/
structure Base (st : St) : Prop where
  lens : st.held.length = st.subs.length
  lenMs : st.ms.length = st.subs.length
  cache : ∀ hx c, lookup hx st.cache = some c → validC st hx c
  reads : ∀ t ∈ st.tasks, ∀ c, t.value = some c → t.countAtStart = st.notifyCount → valid0 st t.hx c
  counts : ∀ t ∈ st.tasks, t.countAtStart ≤ st.notifyCount
  /-- non-batch mode: `_notify_inner` never accumulates computed statuses -/
  nochg : ∀ t ∈ st.tasks, (∀ s rest ch, t.cont = .notify s rest ch → ch = []) ∧
    (∀ s old rest ch, t.cont = .notify2 s old rest ch → ch = [])
  /-- the read started by `hashX_subscribe(x)` reads `x` -/
  subhx : ∀ t ∈ st.tasks, ∀ s x, t.cont = .sub s x → t.hx = x

structure Inv (st : St) : Prop extends Base st where
  held : ∀ s hx, aliveOf st s = true → hx ∈ subsOf st s → HeldOK st s hx

theorem Inv.of_base {st : St} (h : Base st)
    (hh : ∀ s hx, aliveOf st s = true → hx ∈ subsOf st s → HeldOK st s hx) : Inv st := ⟨h, hh⟩

theorem inv_init (n m : Nat) : Inv (init n m) := by
  refine ⟨⟨by simp [init], by simp [init], ?_, ?_, ?_, ?_, ?_⟩, ?_⟩
  · intro hx v h; simp [init, lookup] at h
  · intro t ht; simp [init] at ht
  · intro t ht; simp [init] at ht
  · intro t ht; simp [init] at ht
  · intro t ht; simp [init] at ht
  · intro s hx _ h
    simp only [subsOf, init, List.getD_eq_getElem?_getD, List.getElem?_replicate] at h
    split at h <;> simp at h

theorem lt_of_mem_subsOf {st : St} {s hx : Nat} (h : hx ∈ subsOf st s) : s < st.subs.length := by
  apply Classical.byContradiction
  intro hn
  have : st.subs[s]? = none := List.getElem?_eq_none (by omega)
  simp [subsOf, List.getD_eq_getElem?_getD, this] at h

/-! ### `deliver`, `setMs` -/

theorem heldOf_deliver (st : St) (s hx : Nat) (v : Status) (s' hx' : Nat) :
    heldOf (deliver st s hx v) s' hx' =
      if s' = s ∧ s < st.held.length ∧ hx' = hx then some v else heldOf st s' hx' := by
  simp only [heldOf, deliver, getD_modifyAt]
  by_cases hs : s' = s
  · subst hs
    by_cases hl : s' < st.held.length
    · simp only [hl, and_self, if_true, lookup_put, true_and]
    · simp [hl]
  · simp [hs]

theorem msOf_setMs (st : St) (s hx : Nat) (v : Status) (s' hx' : Nat) :
    lookup hx' (msOf (setMs st s hx v) s') =
      if s' = s ∧ s < st.ms.length ∧ hx' = hx then (if v.2 != 0 then some v else none)
      else lookup hx' (msOf st s') := by
  simp only [msOf, setMs, getD_modifyAt]
  by_cases hs : s' = s
  · subst hs
    by_cases hl : s' < st.ms.length
    · simp only [hl, and_self, if_true, true_and]
      by_cases hv : (v.2 != 0) = true
      · simp only [hv, if_true, lookup_dictSet]
      · simp only [hv, Bool.false_eq_true, if_false, lookup_dictErase]
    · simp [hl]
  · simp [hs]

/-- `address_status` stores the status and the client receives it (subscribe reply / notification) -/
def send (st : St) (s hx : Nat) (v : Status) : St := deliver (setMs st s hx v) s hx v

theorem heldOf_send (st : St) (s hx : Nat) (v : Status) (s' hx' : Nat) :
    heldOf (send st s hx v) s' hx' =
      if s' = s ∧ s < st.held.length ∧ hx' = hx then some v else heldOf st s' hx' := by
  unfold send; rw [heldOf_deliver]; rfl

theorem msOf_send (st : St) (s hx : Nat) (v : Status) (s' hx' : Nat) :
    lookup hx' (msOf (send st s hx v) s') =
      if s' = s ∧ s < st.ms.length ∧ hx' = hx then (if v.2 != 0 then some v else none)
      else lookup hx' (msOf st s') := by
  unfold send; rw [← msOf_setMs]; rfl

theorem Pending.mono {st st' : St} (h : ∀ t ∈ st.tasks, t ∈ st'.tasks) {s hx : Nat}
    (hp : Pending st s hx) : Pending st' s hx := by
  obtain ⟨t, ht, hc⟩ := hp
  exact ⟨t, h t ht, hc⟩

theorem Loop2.mono {st st' : St} (h : ∀ t ∈ st.tasks, t ∈ st'.tasks) {s : Nat}
    (hp : Loop2 st s) : Loop2 st' s := by
  obtain ⟨t, ht, hc⟩ := hp
  exact ⟨t, h t ht, hc⟩

/-- `HeldOK` of (s, hx) survives any step that leaves what it talks about alone -/
theorem HeldOK.mono {st st' : St} {s hx : Nat}
    (hconf : confOf st' hx = confOf st hx) (hmem : memOf st' hx = memOf st hx)
    (howed : Owed st hx → Owed st' hx) (howedF : OwedF st hx → OwedF st' hx ∨ Owed st' hx)
    (htasks : ∀ t ∈ st.tasks, t ∈ st'.tasks)
    (hheld : heldOf st' s hx = heldOf st s hx)
    (hms : lookup hx (msOf st' s) = lookup hx (msOf st s))
    (h : HeldOK st s hx) : HeldOK st' s hx := by
  rcases h with h | h | ⟨c, m, h1, h2, h3⟩
  · exact Or.inl (h.mono htasks)
  · exact Or.inr (Or.inl (howed h))
  · rcases h3 with h3 | ⟨h3, h4⟩
    · exact Or.inr (Or.inr ⟨c, m, by rw [hheld]; exact h1, by rw [hconf]; exact h2, Or.inl (by rw [hmem]; exact h3)⟩)
    · rcases h4 with h4 | h4 | h4
      · exact Or.inr (Or.inr ⟨c, m, by rw [hheld]; exact h1, by rw [hconf]; exact h2,
          Or.inr ⟨by rw [hms]; exact h3, Or.inl (by rw [hmem]; exact h4)⟩⟩)
      · rcases howedF h4 with h5 | h5
        · exact Or.inr (Or.inr ⟨c, m, by rw [hheld]; exact h1, by rw [hconf]; exact h2,
            Or.inr ⟨by rw [hms]; exact h3, Or.inr (Or.inl h5)⟩⟩)
        · exact Or.inr (Or.inl h5)
      · exact Or.inr (Or.inr ⟨c, m, by rw [hheld]; exact h1, by rw [hconf]; exact h2,
          Or.inr ⟨by rw [hms]; exact h3, Or.inr (Or.inr (h4.mono htasks))⟩⟩)

theorem FlipStale.congr {st st' : St} {s hx : Nat}
    (hconf : confOf st' hx = confOf st hx)
    (hheld : heldOf st' s hx = heldOf st s hx)
    (hms : lookup hx (msOf st' s) = lookup hx (msOf st s))
    (h : FlipStale st s hx) : FlipStale st' s hx := by
  obtain ⟨c, m, h1, h2, h3⟩ := h
  exact ⟨c, m, by rw [hheld]; exact h1, by rw [hconf]; exact h2, by rw [hms]; exact h3⟩

/-- a freshly computed status that is sent is fine -/
theorem send_heldOK (st : St) (s hx c : Nat) (hv : validC st hx c)
    (hs : s < st.held.length) (hs' : s < st.ms.length) :
    HeldOK (send st s hx (c, memOf st hx)) s hx := by
  rcases hv with hv | hv
  · refine Or.inr (Or.inr ⟨c, memOf st hx, ?_, hv, ?_⟩)
    · rw [heldOf_send, if_pos ⟨rfl, hs, rfl⟩]
    · by_cases hm : memOf st hx = 0
      · exact Or.inl ⟨hm, hm⟩
      · refine Or.inr ⟨?_, Or.inl rfl⟩
        rw [msOf_send, if_pos ⟨rfl, hs', rfl⟩]
        simp [hm]
  · exact Or.inr (Or.inl hv)

/-- what the loops of `_notify_inner` do to the rest of the state -/
structure Frame0 (st st' : St) : Prop where
  conf : st'.conf = st.conf
  mem : st'.mem = st.mem
  carrier : st'.carrier = st.carrier
  lost : st'.lost = st.lost
  flipped : st'.flipped = st.flipped
  hreads : st'.hreads = st.hreads
  cache : st'.cache = st.cache
  subs : st'.subs = st.subs
  alive : st'.alive = st.alive
  count : st'.notifyCount = st.notifyCount
  supp : ∀ x ∈ st.suppressed, x ∈ st'.suppressed
  lenHeld : st'.held.length = st.held.length
  lenMs : st'.ms.length = st.ms.length
  tasks : ∃ extra, st'.tasks = st.tasks ++ extra ∧
    ∀ t ∈ extra, t.value = none ∧ t.countAtStart = st.notifyCount ∧
      ((∃ s rest, t.cont = .notify s rest []) ∨ (∃ s old rest, t.cont = .notify2 s old rest []))
  heldOK : ∀ s' hx, HeldOK st s' hx → HeldOK st' s' hx

/-- ... of session `s`: the other sessions' `mempool_statuses` and held statuses are untouched -/
structure Frame (s : Nat) (st st' : St) : Prop extends Frame0 st st' where
  other : ∀ s', s' ≠ s → ∀ hx, lookup hx (msOf st' s') = lookup hx (msOf st s') ∧
    heldOf st' s' hx = heldOf st s' hx
  flipStale : ∀ hx, FlipStale st s hx → FlipStale st' s hx ∨ HeldOK st' s hx

theorem Frame0.refl (st : St) : Frame0 st st :=
  ⟨rfl, rfl, rfl, rfl, rfl, rfl, rfl, rfl, rfl, rfl, fun _ h => h, rfl, rfl, ⟨[], by simp⟩, fun _ _ h => h⟩

theorem Frame.refl (s : Nat) (st : St) : Frame s st st :=
  ⟨Frame0.refl st, fun _ _ _ => ⟨rfl, rfl⟩, fun _ h => Or.inl h⟩

theorem Frame0.trans {a b c : St} (h1 : Frame0 a b) (h2 : Frame0 b c) : Frame0 a c := by
  obtain ⟨e1, he1, hp1⟩ := h1.tasks
  obtain ⟨e2, he2, hp2⟩ := h2.tasks
  refine ⟨h2.conf.trans h1.conf, h2.mem.trans h1.mem, h2.carrier.trans h1.carrier,
    h2.lost.trans h1.lost, h2.flipped.trans h1.flipped, h2.hreads.trans h1.hreads,
    h2.cache.trans h1.cache, h2.subs.trans h1.subs, h2.alive.trans h1.alive, h2.count.trans h1.count,
    fun x hx => h2.supp x (h1.supp x hx), h2.lenHeld.trans h1.lenHeld, h2.lenMs.trans h1.lenMs,
    ⟨e1 ++ e2, by rw [he2, he1, List.append_assoc], ?_⟩,
    fun s' hx h => h2.heldOK s' hx (h1.heldOK s' hx h)⟩
  intro t ht
  rcases List.mem_append.mp ht with ht | ht
  · exact hp1 t ht
  · have := hp2 t ht; rw [h1.count] at this; exact this

theorem Frame.trans {s : Nat} {a b c : St} (h1 : Frame s a b) (h2 : Frame s b c) : Frame s a c := by
  refine ⟨h1.toFrame0.trans h2.toFrame0, ?_, ?_⟩
  · intro s' hs' hx
    exact ⟨((h2.other s' hs' hx).1).trans (h1.other s' hs' hx).1, ((h2.other s' hs' hx).2).trans (h1.other s' hs' hx).2⟩
  · intro hx h
    rcases h1.flipStale hx h with h | h
    · exact h2.flipStale hx h
    · exact Or.inr (h2.heldOK s hx h)

theorem Frame0.confOf {st st' : St} (h : Frame0 st st') (hx : Nat) : confOf st' hx = confOf st hx := by
  simp only [System.confOf, h.conf]

theorem Frame0.memOf {st st' : St} (h : Frame0 st st') (hx : Nat) : memOf st' hx = memOf st hx := by
  simp only [System.memOf, h.mem]

theorem Frame0.subsOf {st st' : St} (h : Frame0 st st') (s' : Nat) : subsOf st' s' = subsOf st s' := by
  simp only [System.subsOf, h.subs]

theorem Frame0.aliveOf {st st' : St} (h : Frame0 st st') (s' : Nat) : aliveOf st' s' = aliveOf st s' := by
  simp only [System.aliveOf, h.alive]

theorem Frame0.owed {st st' : St} (h : Frame0 st st') {hx : Nat} (ho : Owed st hx) : Owed st' hx := by
  rcases ho with ho | ho | ho | ho
  · exact Or.inl (by rw [h.carrier]; exact ho)
  · exact Or.inr (Or.inl (by rw [h.lost]; exact ho))
  · exact Or.inr (Or.inr (Or.inl (h.supp hx ho)))
  · exact Or.inr (Or.inr (Or.inr (by rw [h.hreads]; exact ho)))

theorem Frame0.validC {st st' : St} (h : Frame0 st st') {hx c : Nat} (hv : validC st hx c) :
    validC st' hx c := by
  rcases hv with hv | hv
  · exact Or.inl (by rw [h.confOf]; exact hv)
  · exact Or.inr (h.owed hv)

theorem Frame0.valid0 {st st' : St} (h : Frame0 st st') {hx c : Nat} (hv : valid0 st hx c) :
    valid0 st' hx c := by
  rcases hv with hv | hv
  · exact Or.inl (by rw [h.confOf]; exact hv)
  · exact Or.inr (by rw [h.carrier]; exact hv)

theorem Frame0.base {st st' : St} (h : Frame0 st st') (hb : Base st) : Base st' := by
  obtain ⟨e, he, hp⟩ := h.tasks
  refine ⟨by rw [h.lenHeld, h.subs]; exact hb.lens, by rw [h.lenMs, h.subs]; exact hb.lenMs, ?_, ?_, ?_, ?_, ?_⟩
  · intro hx v hl; rw [h.cache] at hl; exact h.validC (hb.cache hx v hl)
  · intro t ht v hv hc
    rw [he] at ht; rw [h.count] at hc
    rcases List.mem_append.mp ht with ht | ht
    · exact h.valid0 (hb.reads t ht v hv hc)
    · rw [(hp t ht).1] at hv; cases hv
  · intro t ht
    rw [he] at ht; rw [h.count]
    rcases List.mem_append.mp ht with ht | ht
    · exact hb.counts t ht
    · rw [(hp t ht).2.1]; exact Nat.le_refl _
  · intro t ht
    rw [he] at ht
    rcases List.mem_append.mp ht with ht | ht
    · exact hb.nochg t ht
    · rcases (hp t ht).2.2 with ⟨s0, rest', hc'⟩ | ⟨s0, old', rest', hc'⟩
      · exact ⟨fun s1 r1 c1 hc => (by rw [hc'] at hc; cases hc; rfl), fun s1 o1 r1 c1 hc => (by rw [hc'] at hc; cases hc)⟩
      · exact ⟨fun s1 r1 c1 hc => (by rw [hc'] at hc; cases hc), fun s1 o1 r1 c1 hc => (by rw [hc'] at hc; cases hc; rfl)⟩
  · intro t ht s1 x hc
    rw [he] at ht
    rcases List.mem_append.mp ht with ht | ht
    · exact hb.subhx t ht s1 x hc
    · rcases (hp t ht).2.2 with ⟨s0, rest', hc'⟩ | ⟨s0, old', rest', hc'⟩ <;> (rw [hc'] at hc; cases hc)


theorem Frame.confOf {s : Nat} {st st' : St} (h : Frame s st st') (hx : Nat) : confOf st' hx = confOf st hx := h.toFrame0.confOf hx
theorem Frame.memOf {s : Nat} {st st' : St} (h : Frame s st st') (hx : Nat) : memOf st' hx = memOf st hx := h.toFrame0.memOf hx
theorem Frame.subsOf {s : Nat} {st st' : St} (h : Frame s st st') (s' : Nat) : subsOf st' s' = subsOf st s' := h.toFrame0.subsOf s'
theorem Frame.aliveOf {s : Nat} {st st' : St} (h : Frame s st st') (s' : Nat) : aliveOf st' s' = aliveOf st s' := h.toFrame0.aliveOf s'
theorem Frame.owed {s : Nat} {st st' : St} (h : Frame s st st') {hx : Nat} (ho : Owed st hx) : Owed st' hx := h.toFrame0.owed ho
theorem Frame.validC {s : Nat} {st st' : St} (h : Frame s st st') {hx c : Nat} (hv : validC st hx c) : validC st' hx c := h.toFrame0.validC hv
theorem Frame.valid0 {s : Nat} {st st' : St} (h : Frame s st st') {hx c : Nat} (hv : valid0 st hx c) : valid0 st' hx c := h.toFrame0.valid0 hv
theorem Frame.base {s : Nat} {st st' : St} (h : Frame s st st') (hb : Base st) : Base st' := h.toFrame0.base hb

/-- `send` of a valid fresh status is a frame step -/
theorem send_frame (st : St) (s hx c : Nat) (hv : validC st hx c) (hlen : st.held.length = st.ms.length) :
    Frame s st (send st s hx (c, memOf st hx)) := by
  have key : ∀ s' hx', ¬(s' = s ∧ hx' = hx) →
      heldOf (send st s hx (c, memOf st hx)) s' hx' = heldOf st s' hx' ∧
      lookup hx' (msOf (send st s hx (c, memOf st hx)) s') = lookup hx' (msOf st s') := by
    intro s' hx' hne
    rw [heldOf_send, msOf_send]
    constructor
    · rw [if_neg (fun h => hne ⟨h.1, h.2.2⟩)]
    · rw [if_neg (fun h => hne ⟨h.1, h.2.2⟩)]
  have hsmall : ¬ s < st.held.length → ∀ s' hx',
      heldOf (send st s hx (c, memOf st hx)) s' hx' = heldOf st s' hx' ∧
      lookup hx' (msOf (send st s hx (c, memOf st hx)) s') = lookup hx' (msOf st s') := by
    intro hn s' hx'
    rw [heldOf_send, msOf_send]
    constructor
    · rw [if_neg (fun h => hn h.2.1)]
    · rw [if_neg (fun h => hn (by rw [hlen]; exact h.2.1))]
  refine ⟨⟨rfl, rfl, rfl, rfl, rfl, rfl, rfl, rfl, rfl, rfl, fun _ h => h,
    by simp [send, deliver, setMs, length_modifyAt], by simp [send, deliver, setMs, length_modifyAt],
    ⟨[], by simp [send, deliver, setMs]⟩, ?_⟩, ?_, ?_⟩
  rotate_left
  · intro s' hs' hx'
    have := key s' hx' (fun h => hs' h.1)
    exact ⟨this.2, this.1⟩
  rotate_left
  · intro s' hx' h
    by_cases hl : s < st.held.length
    · by_cases he : s' = s ∧ hx' = hx
      · obtain ⟨rfl, rfl⟩ := he
        exact send_heldOK st s' hx' c hv hl (by rw [← hlen]; exact hl)
      · exact h.mono (st := st) (st' := send st s hx (c, memOf st hx)) rfl rfl id Or.inl (fun _ ht => ht) (key s' hx' he).1 (key s' hx' he).2
    · exact h.mono (st := st) (st' := send st s hx (c, memOf st hx)) rfl rfl id Or.inl (fun _ ht => ht) (hsmall hl s' hx').1 (hsmall hl s' hx').2
  · intro hx' h
    by_cases hl : s < st.held.length
    · by_cases he : hx' = hx
      · subst he
        exact Or.inr (send_heldOK st s hx' c hv hl (by rw [← hlen]; exact hl))
      · exact Or.inl (h.congr (st := st) (st' := send st s hx (c, memOf st hx)) rfl (key s hx' (fun h => he h.2)).1 (key s hx' (fun h => he h.2)).2)
    · exact Or.inl (h.congr (st := st) (st' := send st s hx (c, memOf st hx)) rfl (hsmall hl s hx').1 (hsmall hl s hx').2)

theorem visit1_eq (f : Flags) (hb : f.batch = false) (st : St) (s hx c : Nat) (ch : List (Nat × Status)) :
    visit1 f st s hx c ch = (send st s hx (c, memOf st hx), ch) := by
  simp [visit1, hb, send]

/-- storing a status in `mempool_statuses` without sending it (and possibly growing `suppressed`) -/
theorem setMs_frame (st : St) (s hx : Nat) (v : Status) (sup' : List Nat)
    (hsup : ∀ x ∈ st.suppressed, x ∈ sup')
    (hok : s < st.ms.length → HeldOK { (setMs st s hx v) with suppressed := sup' } s hx) :
    Frame s st { (setMs st s hx v) with suppressed := sup' } := by
  have hheld : ∀ s' hx', heldOf { (setMs st s hx v) with suppressed := sup' } s' hx' = heldOf st s' hx' :=
    fun _ _ => rfl
  have hms : ∀ s' hx', ¬(s' = s ∧ s < st.ms.length ∧ hx' = hx) →
      lookup hx' (msOf { (setMs st s hx v) with suppressed := sup' } s') = lookup hx' (msOf st s') := by
    intro s' hx' hne
    have : lookup hx' (msOf { (setMs st s hx v) with suppressed := sup' } s') =
        lookup hx' (msOf (setMs st s hx v) s') := rfl
    rw [this, msOf_setMs, if_neg hne]
  have howed : ∀ x, Owed st x → Owed { (setMs st s hx v) with suppressed := sup' } x := by
    intro x ho
    rcases ho with ho | ho | ho | ho
    · exact Or.inl ho
    · exact Or.inr (Or.inl ho)
    · exact Or.inr (Or.inr (Or.inl (hsup x ho)))
    · exact Or.inr (Or.inr (Or.inr ho))
  refine ⟨⟨rfl, rfl, rfl, rfl, rfl, rfl, rfl, rfl, rfl, rfl, hsup, rfl,
    by simp [setMs, length_modifyAt], ⟨[], by simp [setMs]⟩, ?_⟩, ?_, ?_⟩
  rotate_left
  · intro s' hs' hx'
    exact ⟨hms s' hx' (fun h => hs' h.1), hheld s' hx'⟩
  rotate_left
  · intro s' hx' h
    by_cases he : s' = s ∧ s < st.ms.length ∧ hx' = hx
    · obtain ⟨rfl, hl, rfl⟩ := he
      exact hok hl
    · exact h.mono (st := st) rfl rfl (howed hx') Or.inl (fun _ ht => ht) (hheld s' hx') (hms s' hx' he)
  · intro hx' h
    by_cases he : s < st.ms.length ∧ hx' = hx
    · obtain ⟨hl, rfl⟩ := he
      exact Or.inr (hok hl)
    · exact Or.inl (h.congr (st := st) rfl (hheld s hx') (hms s hx' (fun h => he h.2)))

theorem visit2_spec (f : Flags) (hb : f.batch = false) (st : St) (s hx c : Nat) (old : Status)
    (ch : List (Nat × Status)) (hv : validC st hx c) (hlen : st.held.length = st.ms.length) :
    Frame s st (visit2 f st s hx c old ch).1 ∧ (visit2 f st s hx c old ch).2 = ch ∧
      (s < st.held.length → HeldOK (visit2 f st s hx c old ch).1 s hx) := by
  unfold visit2
  split
  · rw [visit1_eq f hb]
    exact ⟨send_frame st s hx c hv hlen, rfl,
      fun hl => send_heldOK st s hx c hv hl (by rw [← hlen]; exact hl)⟩
  · simp only
    have hok : s < st.ms.length → HeldOK { (setMs st s hx (c, memOf st hx)) with
        suppressed := if heldOf st s hx != some (c, memOf st hx) then st.suppressed ++ [hx]
                      else st.suppressed } s hx := by
      intro hl
      by_cases hh : heldOf st s hx = some (c, memOf st hx)
      · have hne : (heldOf st s hx != some (c, memOf st hx)) = false := by simp [hh]
        rw [hne]
        simp only [Bool.false_eq_true, if_false]
        rcases hv with hv | hv
        · refine Or.inr (Or.inr ⟨c, memOf st hx, hh, hv, ?_⟩)
          by_cases hm : memOf st hx = 0
          · exact Or.inl ⟨hm, hm⟩
          · refine Or.inr ⟨?_, Or.inl rfl⟩
            have : lookup hx (msOf { (setMs st s hx (c, memOf st hx)) with suppressed := st.suppressed } s) =
                lookup hx (msOf (setMs st s hx (c, memOf st hx)) s) := rfl
            rw [this, msOf_setMs, if_pos ⟨rfl, hl, rfl⟩]
            simp [hm]
        · rcases hv with hv | hv | hv | hv
          · exact Or.inr (Or.inl (Or.inl hv))
          · exact Or.inr (Or.inl (Or.inr (Or.inl hv)))
          · exact Or.inr (Or.inl (Or.inr (Or.inr (Or.inl hv))))
          · exact Or.inr (Or.inl (Or.inr (Or.inr (Or.inr hv))))
      · have hne : (heldOf st s hx != some (c, memOf st hx)) = true := by simp [hh]
        rw [hne]
        simp only [if_true]
        exact Or.inr (Or.inl (Or.inr (Or.inr (Or.inl (List.mem_append_right _ (List.mem_singleton.mpr rfl))))))
    refine ⟨setMs_frame st s hx _ _ ?_ hok, trivial, fun hl => hok (by rw [← hlen]; exact hl)⟩
    intro x hx'
    split
    · exact List.mem_append_left _ hx'
    · exact hx'

/-- a `_notify_inner` of session `s` suspends on a history read -/
theorem suspend_frame (st : St) (s : Nat) (t : Task) (hv : t.value = none) (hcnt : t.countAtStart = st.notifyCount)
    (hc : (∃ rest, t.cont = .notify s rest []) ∨ (∃ old rest, t.cont = .notify2 s old rest [])) :
    Frame s st { st with tasks := st.tasks ++ [t] } := by
  refine ⟨⟨rfl, rfl, rfl, rfl, rfl, rfl, rfl, rfl, rfl, rfl, fun _ h => h, rfl, rfl, ⟨[t], rfl, ?_⟩, ?_⟩,
    fun _ _ _ => ⟨rfl, rfl⟩, ?_⟩
  · intro t' ht'
    rw [List.mem_singleton] at ht'; subst ht'
    refine ⟨hv, hcnt, ?_⟩
    rcases hc with ⟨r, h⟩ | ⟨o, r, h⟩
    · exact Or.inl ⟨s, r, h⟩
    · exact Or.inr ⟨s, o, r, h⟩
  · intro s' hx' h
    exact h.mono (st := st) rfl rfl id Or.inl (fun _ ht => List.mem_append_left _ ht) rfl rfl
  · intro hx' h
    exact Or.inl (h.congr (st := st) rfl rfl rfl)

theorem contains_false_of_not_mem {l : List Nat} {x : Nat} (h : x ∉ l) : l.contains x = false := by
  cases hc : l.contains x
  · rfl
  · exact absurd (List.contains_iff_mem.mp hc) h

/-! ### the loops of `_notify_inner`, non-batch mode -/

theorem notifyGo2_spec (f : Flags) (hb : f.batch = false) (s : Nat) (todo : List (Nat × Status)) (st : St)
    (hc : ∀ hx v, lookup hx st.cache = some v → validC st hx v)
    (hl : st.held.length = st.subs.length) (hlm : st.ms.length = st.subs.length) :
    Frame s st (notifyGo2 f st s todo []) ∧
    ∀ hx ∈ todo.map Prod.fst, hx ∈ subsOf st s → HeldOK (notifyGo2 f st s todo []) s hx := by
  induction todo generalizing st with
  | nil =>
    simp only [notifyGo2, flushChanged, List.foldl_nil]
    exact ⟨Frame.refl s st, fun hx h => by simp at h⟩
  | cons e rest ih =>
    obtain ⟨x, old⟩ := e
    rw [notifyGo2]
    by_cases hsub : x ∈ subsOf st s
    · have hcon : (subsOf st s).contains x = true := List.contains_iff_mem.mpr hsub
      simp only [hcon, Bool.not_true, Bool.false_eq_true, if_false]
      cases hlk : lookup x st.cache with
      | some c =>
        simp only
        obtain ⟨F1, e2, H1⟩ := visit2_spec f hb st s x c old [] (hc x c hlk) (by rw [hl, hlm])
        rw [e2]
        obtain ⟨F2, H2⟩ := ih (visit2 f st s x c old []).1
          (fun hx' v' h' => F1.validC (hc hx' v' (by rw [F1.cache] at h'; exact h')))
          (by rw [F1.lenHeld, F1.subs]; exact hl) (by rw [F1.lenMs, F1.subs]; exact hlm)
        refine ⟨F1.trans F2, ?_⟩
        intro hx hm hs
        rw [List.map_cons, List.mem_cons] at hm
        rcases hm with rfl | hm
        · exact F2.heldOK _ _ (H1 (by rw [hl]; exact lt_of_mem_subsOf hs))
        · exact H2 hx hm (by rw [F1.subsOf]; exact hs)
      | none =>
        simp only
        refine ⟨suspend_frame st s _ rfl rfl (Or.inr ⟨old, rest, rfl⟩), ?_⟩
        intro hx hm _
        rw [List.map_cons, List.mem_cons] at hm
        refine Or.inl ⟨_, List.mem_append_right _ (List.mem_singleton.mpr rfl), Or.inr ⟨old, rest, [], rfl, ?_⟩⟩
        rcases hm with rfl | hm
        · exact Or.inl rfl
        · exact Or.inr hm
    · simp only [contains_false_of_not_mem hsub, Bool.not_false, if_true]
      obtain ⟨F2, H2⟩ := ih st hc hl hlm
      refine ⟨F2, ?_⟩
      intro hx hm hs
      rw [List.map_cons, List.mem_cons] at hm
      rcases hm with rfl | hm
      · exact absurd hs hsub
      · exact H2 hx hm hs

theorem notifyGo_spec (f : Flags) (hb : f.batch = false) (hr : f.recheck = true) (s : Nat) (todo : List Nat)
    (st : St) (hc : ∀ hx v, lookup hx st.cache = some v → validC st hx v)
    (hl : st.held.length = st.subs.length) (hlm : st.ms.length = st.subs.length) :
    Frame s st (notifyGo f st s todo []) ∧
    ∀ hx, hx ∈ subsOf st s → (hx ∈ todo ∨ FlipStale st s hx) → HeldOK (notifyGo f st s todo []) s hx := by
  induction todo generalizing st with
  | nil =>
    simp only [notifyGo, hr, if_true]
    obtain ⟨F, H⟩ := notifyGo2_spec f hb s (msOf st s) st hc hl hlm
    refine ⟨F, ?_⟩
    intro hx hs h
    rcases h with h | ⟨c, m, _, _, h3⟩
    · simp at h
    · exact H hx (mem_keys_of_lookup h3) hs
  | cons x rest ih =>
    rw [notifyGo]
    by_cases hsub : x ∈ subsOf st s
    · have hcon : (subsOf st s).contains x = true := List.contains_iff_mem.mpr hsub
      simp only [hcon, Bool.not_true, Bool.false_eq_true, if_false]
      cases hlk : lookup x st.cache with
      | some c =>
        simp only [visit1_eq f hb]
        have hv := hc x c hlk
        have F1 := send_frame st s x c hv (by rw [hl, hlm])
        obtain ⟨F2, H2⟩ := ih (send st s x (c, memOf st x))
          (fun hx' v' h' => F1.validC (hc hx' v' (by rw [F1.cache] at h'; exact h')))
          (by rw [F1.lenHeld, F1.subs]; exact hl) (by rw [F1.lenMs, F1.subs]; exact hlm)
        refine ⟨F1.trans F2, ?_⟩
        intro hx hs h
        rcases h with h | h
        · rcases List.mem_cons.mp h with rfl | h
          · exact F2.heldOK _ _ (send_heldOK st s hx c hv (by rw [hl]; exact lt_of_mem_subsOf hs)
              (by rw [hlm]; exact lt_of_mem_subsOf hs))
          · exact H2 hx (by rw [F1.subsOf]; exact hs) (Or.inl h)
        · rcases F1.flipStale hx h with h | h
          · exact H2 hx (by rw [F1.subsOf]; exact hs) (Or.inr h)
          · exact F2.heldOK _ _ h
      | none =>
        simp only
        refine ⟨suspend_frame st s _ rfl rfl (Or.inl ⟨rest, rfl⟩), ?_⟩
        intro hx _ h
        have hmemt : (⟨x, st.notifyCount, none, .notify s rest []⟩ : Task) ∈
            st.tasks ++ [⟨x, st.notifyCount, none, .notify s rest []⟩] :=
          List.mem_append_right _ (List.mem_singleton.mpr rfl)
        rcases h with h | h
        · refine Or.inl ⟨_, hmemt, Or.inl ⟨rest, [], rfl, ?_⟩⟩
          rcases List.mem_cons.mp h with rfl | h
          · exact Or.inl rfl
          · exact Or.inr h
        · exact (h.congr (st := st) (st' := { st with tasks := st.tasks ++ [⟨x, st.notifyCount, none, .notify s rest []⟩] })
            rfl rfl rfl).heldOK_of_loop2 ⟨⟨x, st.notifyCount, none, .notify s rest []⟩, hmemt, rest, [], rfl⟩
    · simp only [contains_false_of_not_mem hsub, Bool.not_false, if_true]
      obtain ⟨F2, H2⟩ := ih st hc hl hlm
      refine ⟨F2, ?_⟩
      intro hx hs h
      rcases h with h | h
      · rcases List.mem_cons.mp h with rfl | h
        · exact absurd hs hsub
        · exact H2 hx hs (Or.inl h)
      · exact H2 hx hs (Or.inr h)

/-! ### `session.notify` and the session loop of `_notify_sessions` -/

theorem hdrNotify_frame (st : St) (s : Nat) (hc : Bool) : Frame s st (hdrNotify st s hc) := by
  unfold hdrNotify
  split
  · refine ⟨⟨rfl, rfl, rfl, rfl, rfl, rfl, rfl, rfl, rfl, rfl, fun _ h => h, rfl, rfl, ⟨[], by simp⟩, ?_⟩,
      fun _ _ _ => ⟨rfl, rfl⟩, ?_⟩
    · intro s' hx' h
      exact h.mono (st := st) rfl rfl id Or.inl (fun _ ht => ht) rfl rfl
    · intro hx' h
      exact Or.inl (h.congr (st := st) rfl rfl rfl)
  · exact Frame.refl s st

theorem mem_insertSorted_of {x y : Nat} {l : List Nat} (h : y = x ∨ y ∈ l) : y ∈ insertSorted x l := by
  induction l with
  | nil =>
    rcases h with h | h
    · simp [insertSorted, h]
    · simp at h
  | cons z r ih =>
    simp only [insertSorted]
    split
    · rcases h with h | h
      · simp [h]
      · exact List.mem_cons_of_mem _ h
    · split
      · next he =>
        rcases h with h | h
        · rw [h, he]; simp
        · exact h
      · rcases h with h | h
        · exact List.mem_cons_of_mem _ (ih (Or.inl h))
        · rcases List.mem_cons.mp h with h | h
          · simp [h]
          · exact List.mem_cons_of_mem _ (ih (Or.inr h))

theorem mem_foldr_insertSorted {l : List Nat} {y : Nat} : y ∈ l.foldr insertSorted [] ↔ y ∈ l := by
  induction l with
  | nil => simp
  | cons x r ih =>
    rw [List.foldr_cons, List.mem_cons]
    constructor
    · intro h
      rcases mem_insertSorted h with h | h
      · exact Or.inl h
      · exact Or.inr (ih.mp h)
    · intro h
      rcases h with h | h
      · exact mem_insertSorted_of (Or.inl h)
      · exact mem_insertSorted_of (Or.inr (ih.mpr h))

theorem mem_touchedOf {st : St} {s : Nat} {xs : List Nat} {hx : Nat} :
    hx ∈ touchedOf st s xs ↔ hx ∈ xs ∧ hx ∈ subsOf st s := by
  unfold touchedOf
  rw [mem_foldr_insertSorted, List.mem_filter, List.contains_iff_mem]

theorem sessionNotify_spec (f : Flags) (hb : f.batch = false) (hr : f.recheck = true) (s : Nat)
    (xs : List Nat) (hc : Bool) (st : St)
    (hcache : ∀ hx v, lookup hx st.cache = some v → validC st hx v)
    (hl : st.held.length = st.subs.length) (hlm : st.ms.length = st.subs.length) :
    Frame s st (sessionNotify f st s xs hc) ∧
    (aliveOf st s = true → ∀ hx, hx ∈ subsOf st s → (hx ∈ xs ∨ (hc = true ∧ FlipStale st s hx)) →
      HeldOK (sessionNotify f st s xs hc) s hx) := by
  unfold sessionNotify
  by_cases ha : aliveOf st s = true
  · simp only [ha, Bool.not_true, Bool.false_eq_true, if_false]
    have F0 := hdrNotify_frame st s hc
    split
    · next hcond =>
      obtain ⟨F, H⟩ := notifyGo_spec f hb hr s (touchedOf st s xs) (hdrNotify st s hc)
        (fun hx' v' h' => F0.validC (hcache hx' v' (by rw [F0.cache] at h'; exact h')))
        (by rw [F0.lenHeld, F0.subs]; exact hl) (by rw [F0.lenMs, F0.subs]; exact hlm)
      refine ⟨F0.trans F, ?_⟩
      intro _ hx hs h
      rcases h with h | ⟨_, h⟩
      · exact H hx (by rw [F0.subsOf]; exact hs) (Or.inl (mem_touchedOf.mpr ⟨h, hs⟩))
      · rcases F0.flipStale hx h with h | h
        · exact H hx (by rw [F0.subsOf]; exact hs) (Or.inr h)
        · exact F.heldOK _ _ h
    · next hcond =>
      refine ⟨F0, ?_⟩
      intro _ hx hs h
      exfalso
      apply hcond
      rcases h with h | ⟨hhc, c, m, _, _, h3⟩
      · have : hx ∈ touchedOf st s xs := mem_touchedOf.mpr ⟨h, hs⟩
        cases ht : touchedOf st s xs with
        | nil => rw [ht] at this; simp at this
        | cons a r => simp
      · have : hx ∈ (msOf st s).map Prod.fst := mem_keys_of_lookup h3
        cases hm : msOf st s with
        | nil => rw [hm] at this; simp at this
        | cons a r => simp [hhc]
  · have ha' : aliveOf st s = false := by
      cases h : aliveOf st s
      · rfl
      · exact absurd h ha
    simp only [ha', Bool.not_false, if_true]
    exact ⟨Frame.refl s st, fun h => by cases h⟩

/-- the per-session loop of `_notify_sessions` over the sessions `ss` -/
theorem notifyAll_spec (f : Flags) (hb : f.batch = false) (hr : f.recheck = true) (xs : List Nat) (hc : Bool)
    (ss : List Nat) (st : St)
    (hcache : ∀ hx v, lookup hx st.cache = some v → validC st hx v)
    (hl : st.held.length = st.subs.length) (hlm : st.ms.length = st.subs.length) :
    Frame0 st (ss.foldl (fun acc s => sessionNotify f acc s xs hc) st) ∧
    ∀ s ∈ ss, aliveOf st s = true → ∀ hx, hx ∈ subsOf st s →
      (hx ∈ xs ∨ (hc = true ∧ FlipStale st s hx)) →
      HeldOK (ss.foldl (fun acc s => sessionNotify f acc s xs hc) st) s hx := by
  induction ss generalizing st with
  | nil => exact ⟨Frame0.refl st, fun s h => by simp at h⟩
  | cons s0 ss ih =>
    rw [List.foldl_cons]
    obtain ⟨F1, H1⟩ := sessionNotify_spec f hb hr s0 xs hc st hcache hl hlm
    obtain ⟨F2, H2⟩ := ih (sessionNotify f st s0 xs hc)
      (fun hx' v' h' => F1.validC (hcache hx' v' (by rw [F1.cache] at h'; exact h')))
      (by rw [F1.lenHeld, F1.subs]; exact hl) (by rw [F1.lenMs, F1.subs]; exact hlm)
    refine ⟨F1.toFrame0.trans F2, ?_⟩
    intro s hs' ha hx hsub h
    by_cases hss : s = s0
    · subst hss
      exact F2.heldOK _ _ (H1 ha hx hsub h)
    · rcases List.mem_cons.mp hs' with rfl | hs'
      · exact absurd rfl hss
      · apply H2 s hs' (by rw [F1.aliveOf]; exact ha) hx (by rw [F1.subsOf]; exact hsub)
        rcases h with h | ⟨hhc, h⟩
        · exact Or.inl h
        · exact Or.inr ⟨hhc, h.congr (F1.confOf hx) (F1.other s hss hx).2 (F1.other s hss hx).1⟩

/-- as `HeldOK.mono`, when an owed re-check may disappear under condition `Q` (its notification's
    session loop is about to run) -/
theorem HeldOK.mono' {st st' : St} {s hx : Nat} {Q : Prop}
    (hconf : confOf st' hx = confOf st hx) (hmem : memOf st' hx = memOf st hx)
    (howed : Owed st hx → Owed st' hx) (howedF : OwedF st hx → OwedF st' hx ∨ Q)
    (htasks : ∀ t ∈ st.tasks, t ∈ st'.tasks)
    (hheld : heldOf st' s hx = heldOf st s hx)
    (hms : lookup hx (msOf st' s) = lookup hx (msOf st s))
    (h : HeldOK st s hx) : HeldOK st' s hx ∨ (Q ∧ FlipStale st' s hx) := by
  rcases h with h | h | ⟨c, m, h1, h2, h3⟩
  · exact Or.inl (Or.inl (h.mono htasks))
  · exact Or.inl (Or.inr (Or.inl (howed h)))
  · rcases h3 with h3 | ⟨h3, h4⟩
    · exact Or.inl (Or.inr (Or.inr ⟨c, m, by rw [hheld]; exact h1, by rw [hconf]; exact h2,
        Or.inl (by rw [hmem]; exact h3)⟩))
    · rcases h4 with h4 | h4 | h4
      · exact Or.inl (Or.inr (Or.inr ⟨c, m, by rw [hheld]; exact h1, by rw [hconf]; exact h2,
          Or.inr ⟨by rw [hms]; exact h3, Or.inl (by rw [hmem]; exact h4)⟩⟩))
      · rcases howedF h4 with h5 | h5
        · exact Or.inl (Or.inr (Or.inr ⟨c, m, by rw [hheld]; exact h1, by rw [hconf]; exact h2,
            Or.inr ⟨by rw [hms]; exact h3, Or.inr (Or.inl h5)⟩⟩))
        · exact Or.inr ⟨h5, c, m, by rw [hheld]; exact h1, by rw [hconf]; exact h2, by rw [hms]; exact h3⟩
      · exact Or.inl (Or.inr (Or.inr ⟨c, m, by rw [hheld]; exact h1, by rw [hconf]; exact h2,
          Or.inr ⟨by rw [hms]; exact h3, Or.inr (Or.inr (h4.mono htasks))⟩⟩))

/-- `_notify_sessions` from the cache invalidation on re-establishes the invariant, from a state in
    which the touched script hashes `xs` (and, if `hc`, the flips taken over) have lost their excuse -/
theorem finishNotify_inv (f : Flags) (hb : f.batch = false) (hr : f.recheck = true) (st : St)
    (xs : List Nat) (hc : Bool)
    (hl : st.held.length = st.subs.length) (hlm : st.ms.length = st.subs.length)
    (hcache : ∀ hx v, lookup hx st.cache = some v → validC st hx v ∨ hx ∈ xs)
    (hreads : ∀ t ∈ st.tasks, ∀ c, t.value = some c → t.countAtStart = st.notifyCount → valid0 st t.hx c)
    (hcounts : ∀ t ∈ st.tasks, t.countAtStart ≤ st.notifyCount)
    (hnochg : ∀ t ∈ st.tasks, (∀ s rest ch, t.cont = .notify s rest ch → ch = []) ∧
      (∀ s old rest ch, t.cont = .notify2 s old rest ch → ch = []))
    (hsubhx : ∀ t ∈ st.tasks, ∀ s x, t.cont = .sub s x → t.hx = x)
    (hheld : ∀ s hx, aliveOf st s = true → hx ∈ subsOf st s →
      HeldOK st s hx ∨ hx ∈ xs ∨ (hc = true ∧ FlipStale st s hx)) :
    Inv (finishNotify f st xs hc) := by
  unfold finishNotify
  have hcache1 : ∀ hx v, lookup hx ({ st with cache := st.cache.filter (fun e => !xs.contains e.1) } : St).cache = some v →
      validC { st with cache := st.cache.filter (fun e => !xs.contains e.1) } hx v := by
    intro hx v hlk
    simp only at hlk
    rw [lookup_filter (fun k => !xs.contains k)] at hlk
    split at hlk
    · next hq =>
      rcases hcache hx v hlk with h | h
      · exact h
      · rw [List.contains_iff_mem.mpr h] at hq; simp at hq
    · cases hlk
  have hbase : Base { st with cache := st.cache.filter (fun e => !xs.contains e.1) } :=
    ⟨hl, hlm, hcache1, hreads, hcounts, hnochg, hsubhx⟩
  obtain ⟨F, H⟩ := notifyAll_spec f hb hr xs hc (List.range st.subs.length)
    { st with cache := st.cache.filter (fun e => !xs.contains e.1) } hcache1 hl hlm
  refine Inv.of_base (F.base hbase) ?_
  intro s hx ha hs
  rw [F.aliveOf] at ha
  rw [F.subsOf] at hs
  rcases hheld s hx ha hs with h | h | h
  · exact F.heldOK _ _ h
  · exact H s (List.mem_range.mpr (lt_of_mem_subsOf hs)) ha hx hs (Or.inl h)
  · exact H s (List.mem_range.mpr (lt_of_mem_subsOf hs)) ha hx hs (Or.inr h)

/-- events that leave the tasks alone and only weaken nothing -/
theorem Inv.transfer {st st' : St} (h : Inv st)
    (hl : st'.held.length = st'.subs.length) (hlm : st'.ms.length = st'.subs.length)
    (hcache : ∀ hx v, lookup hx st'.cache = some v → lookup hx st.cache = some v)
    (hvalidC : ∀ hx c, validC st hx c → validC st' hx c)
    (htasks : st'.tasks = st.tasks) (hcount : st.notifyCount ≤ st'.notifyCount)
    (hvalid0 : st'.notifyCount = st.notifyCount → ∀ hx c, valid0 st hx c → valid0 st' hx c)
    (hheld : ∀ s hx, aliveOf st' s = true → hx ∈ subsOf st' s →
      aliveOf st s = true ∧ hx ∈ subsOf st s ∧ (HeldOK st s hx → HeldOK st' s hx)) : Inv st' := by
  refine ⟨⟨hl, hlm, fun hx v hlk => hvalidC hx v (h.cache hx v (hcache hx v hlk)), ?_, ?_, ?_, ?_⟩, ?_⟩
  · intro t ht c hv hc
    rw [htasks] at ht
    have hle := h.counts t ht
    have he : st'.notifyCount = st.notifyCount := by omega
    exact hvalid0 he _ _ (h.reads t ht c hv (by omega))
  · intro t ht
    rw [htasks] at ht
    have := h.counts t ht
    omega
  · intro t ht; rw [htasks] at ht; exact h.nochg t ht
  · intro t ht; rw [htasks] at ht; exact h.subhx t ht
  · intro s hx ha hs
    obtain ⟨ha', hs', himp⟩ := hheld s hx ha hs
    exact himp (h.held s hx ha' hs')

/-! ### the events -/

theorem mem_addIfAbsent (l : List Nat) (x : Nat) :
    x ∈ (if l.contains x then l else l ++ [x]) ∧ ∀ y ∈ l, y ∈ (if l.contains x then l else l ++ [x]) := by
  by_cases h : l.contains x = true
  · rw [if_pos h]; exact ⟨List.contains_iff_mem.mp h, fun _ hy => hy⟩
  · rw [if_neg h]; exact ⟨by simp, fun _ hy => List.mem_append_left _ hy⟩

theorem getD_modifyAt_ne {α : Type} (l : List α) (i : Nat) (g : α → α) (j : Nat) (d : α) (h : j ≠ i) :
    (modifyAt l i g).getD j d = l.getD j d := by
  rw [getD_modifyAt, if_neg (fun hh => h hh.1)]

/-- a carried change of `x` (block / back-out / mempool refresh touching it) -/
theorem inv_carried {st st' : St} (x : Nat) (h : Inv st)
    (e_held : st'.held = st.held) (e_ms : st'.ms = st.ms) (e_subs : st'.subs = st.subs)
    (e_alive : st'.alive = st.alive) (e_tasks : st'.tasks = st.tasks) (e_cache : st'.cache = st.cache)
    (e_count : st'.notifyCount = st.notifyCount) (e_lost : st'.lost = st.lost)
    (e_supp : st'.suppressed = st.suppressed) (e_hreads : st'.hreads = st.hreads)
    (e_flipped : st'.flipped = st.flipped)
    (hcar : st'.carrier = if st.carrier.contains x then st.carrier else st.carrier ++ [x])
    (hconf : ∀ hx, hx ≠ x → confOf st' hx = confOf st hx)
    (hmem : ∀ hx, hx ≠ x → memOf st' hx = memOf st hx) : Inv st' := by
  have hx_owed : Owed st' x := Or.inl (by rw [hcar]; exact (mem_addIfAbsent _ _).1)
  have howed : ∀ hx, Owed st hx → Owed st' hx := by
    intro hx ho
    rcases ho with ho | ho | ho | ho
    · exact Or.inl (by rw [hcar]; exact (mem_addIfAbsent _ _).2 hx ho)
    · exact Or.inr (Or.inl (by rw [e_lost]; exact ho))
    · exact Or.inr (Or.inr (Or.inl (by rw [e_supp]; exact ho)))
    · exact Or.inr (Or.inr (Or.inr (by rw [e_hreads]; exact ho)))
  apply h.transfer
  · rw [e_held, e_subs]; exact h.lens
  · rw [e_ms, e_subs]; exact h.lenMs
  · intro hx v hlk; rw [e_cache] at hlk; exact hlk
  · intro hx c hv
    by_cases he : hx = x
    · subst he; exact Or.inr hx_owed
    · rcases hv with hv | hv
      · exact Or.inl (by rw [hconf hx he]; exact hv)
      · exact Or.inr (howed hx hv)
  · exact e_tasks
  · rw [e_count]; exact Nat.le_refl _
  · intro _ hx c hv
    by_cases he : hx = x
    · subst he; exact Or.inr (by rw [hcar]; exact (mem_addIfAbsent _ _).1)
    · rcases hv with hv | hv
      · exact Or.inl (by rw [hconf hx he]; exact hv)
      · exact Or.inr (by rw [hcar]; exact (mem_addIfAbsent _ _).2 hx hv)
  · intro s hx ha hs
    refine ⟨by simpa only [aliveOf, e_alive] using ha, by simpa only [subsOf, e_subs] using hs, ?_⟩
    intro hok
    by_cases he : hx = x
    · subst he; exact Or.inr (Or.inl hx_owed)
    · refine hok.mono (hconf hx he) (hmem hx he) (howed hx) ?_ (by rw [e_tasks]; exact fun _ ht => ht)
        (by simp only [heldOf, e_held]) (by simp only [msOf, e_ms])
      intro hf
      rcases hf with hf | hf
      · exact Or.inl (Or.inl (by rw [e_flipped]; exact hf))
      · exact Or.inl (Or.inr (by rw [e_hreads]; exact hf))

theorem inv_change (f : Flags) (st : St) (x : Nat) (h : Inv st) : Inv (step f st (.change x)) :=
  inv_carried x h rfl rfl rfl rfl rfl rfl rfl rfl rfl rfl rfl rfl
    (fun hx he => by simp only [confOf, step]; exact getD_modifyAt_ne _ _ _ _ _ he) (fun _ _ => rfl)

theorem inv_mpChange (f : Flags) (st : St) (x m : Nat) (h : Inv st) : Inv (step f st (.mpChange x m)) :=
  inv_carried x h rfl rfl rfl rfl rfl rfl rfl rfl rfl rfl rfl rfl (fun _ _ => rfl)
    (fun hx he => by simp only [memOf, step]; exact getD_modifyAt_ne _ _ _ _ _ he)

theorem inv_flip (f : Flags) (st : St) (x m : Nat) (h : Inv st) : Inv (step f st (.flip x m)) := by
  simp only [step]
  split
  · next hcond =>
    have hm0 : memOf st x ≠ 0 := by
      intro h0; rw [h0] at hcond; simp at hcond
    have hxF : OwedF ({ st with mem := modifyAt st.mem x (fun _ => m), flipped := if st.flipped.contains x then st.flipped else st.flipped ++ [x] } : St) x :=
      Or.inl (mem_addIfAbsent _ _).1
    apply h.transfer
    · exact h.lens
    · exact h.lenMs
    · exact fun _ _ hlk => hlk
    · exact fun _ _ hv => hv
    · rfl
    · exact Nat.le_refl _
    · exact fun _ _ _ hv => hv
    · intro s hx ha hs
      refine ⟨ha, hs, ?_⟩
      intro hok
      by_cases he : hx = x
      · subst he
        rcases hok with hok | hok | ⟨c, m', h1, h2, h3⟩
        · exact Or.inl hok
        · exact Or.inr (Or.inl hok)
        · rcases h3 with ⟨_, h3⟩ | ⟨h3, _⟩
          · exact absurd h3 hm0
          · exact Or.inr (Or.inr ⟨c, m', h1, h2, Or.inr ⟨h3, Or.inr (Or.inl hxF)⟩⟩)
      · refine hok.mono (st := st) rfl ?_ id ?_ (fun _ ht => ht) rfl rfl
        · simp only [memOf]; exact getD_modifyAt_ne _ _ _ _ _ he
        · intro hf
          rcases hf with hf | hf
          · exact Or.inl (Or.inl ((mem_addIfAbsent _ _).2 hx hf))
          · exact Or.inl (Or.inr hf)
  · exact h

/-- events that only touch the chain / tip / header-subscription fields -/
theorem inv_tipOnly {st st' : St} (h : Inv st)
    (e_conf : st'.conf = st.conf) (e_mem : st'.mem = st.mem) (e_carrier : st'.carrier = st.carrier)
    (e_held : st'.held = st.held) (e_ms : st'.ms = st.ms) (e_subs : st'.subs = st.subs)
    (e_alive : st'.alive = st.alive) (e_tasks : st'.tasks = st.tasks) (e_cache : st'.cache = st.cache)
    (e_count : st'.notifyCount = st.notifyCount) (e_lost : st'.lost = st.lost)
    (e_supp : st'.suppressed = st.suppressed) (e_hreads : st'.hreads = st.hreads)
    (e_flipped : st'.flipped = st.flipped) : Inv st' := by
  have hO : ∀ hx, Owed st' hx ↔ Owed st hx := by
    intro hx; simp only [Owed, e_carrier, e_lost, e_supp, e_hreads]
  have hOF : ∀ hx, OwedF st' hx ↔ OwedF st hx := by
    intro hx; simp only [OwedF, e_flipped, e_hreads]
  apply h.transfer
  · rw [e_held, e_subs]; exact h.lens
  · rw [e_ms, e_subs]; exact h.lenMs
  · intro hx v hlk; rw [e_cache] at hlk; exact hlk
  · intro hx c hv
    simp only [validC, hO, confOf, e_conf]; exact hv
  · exact e_tasks
  · rw [e_count]; exact Nat.le_refl _
  · intro _ hx c hv
    simp only [valid0, confOf, e_conf, e_carrier]; exact hv
  · intro s hx ha hs
    refine ⟨by simpa only [aliveOf, e_alive] using ha, by simpa only [subsOf, e_subs] using hs, ?_⟩
    intro hok
    exact hok.mono (by simp only [confOf, e_conf]) (by simp only [memOf, e_mem]) (hO hx).mpr
      (fun hf => Or.inl ((hOF hx).mpr hf)) (by rw [e_tasks]; exact fun _ ht => ht)
      (by simp only [heldOf, e_held]) (by simp only [msOf, e_ms])

theorem inv_advance (f : Flags) (st : St) (d : Nat) (h : Inv st) : Inv (step f st (.advance d)) :=
  inv_tipOnly h rfl rfl rfl rfl rfl rfl rfl rfl rfl rfl rfl rfl rfl rfl

theorem inv_backup (f : Flags) (st : St) (h : Inv st) : Inv (step f st .backup) := by
  simp only [step]
  split
  · exact h
  · exact inv_tipOnly h rfl rfl rfl rfl rfl rfl rfl rfl rfl rfl rfl rfl rfl rfl

theorem inv_reorgSignal (f : Flags) (st : St) (h : Inv st) : Inv (step f st .reorgSignal) :=
  inv_tipOnly h rfl rfl rfl rfl rfl rfl rfl rfl rfl rfl rfl rfl rfl rfl

theorem inv_subscribeHeaders (f : Flags) (st : St) (s : Nat) (h : Inv st) :
    Inv (step f st (.subscribeHeaders s)) :=
  inv_tipOnly h rfl rfl rfl rfl rfl rfl rfl rfl rfl rfl rfl rfl rfl rfl

theorem inv_unsubscribe (f : Flags) (st : St) (s x : Nat) (h : Inv st) :
    Inv (step f st (.unsubscribe s x)) := by
  simp only [step]
  apply h.transfer
  · simp only [length_modifyAt]; exact h.lens
  · simp only [length_modifyAt]; exact h.lenMs
  · exact fun _ _ hlk => hlk
  · exact fun _ _ hv => hv
  · rfl
  · exact Nat.le_refl _
  · exact fun _ _ _ hv => hv
  · intro s' hx ha hs
    have hs2 : hx ∈ subsOf st s' ∧ (s' = s → hx ≠ x) := by
      simp only [subsOf, getD_modifyAt] at hs
      split at hs
      · next hc =>
        rw [List.mem_filter] at hs
        exact ⟨hs.1, fun _ he => by subst he; simp at hs⟩
      · next hc =>
        refine ⟨hs, fun he hxe => ?_⟩
        subst he
        have : ¬ s' < st.subs.length := fun hl => hc ⟨rfl, hl⟩
        have hn : st.subs[s']? = none := List.getElem?_eq_none (by omega)
        simp [List.getD_eq_getElem?_getD, hn] at hs
    refine ⟨ha, hs2.1, ?_⟩
    intro hok
    refine hok.mono (st := st) rfl rfl id Or.inl (fun _ ht => ht) rfl ?_
    simp only [msOf, getD_modifyAt]
    split
    · next hc =>
      rw [lookup_dictErase, if_neg (hs2.2 hc.1)]
    · rfl

theorem inv_closeSession (f : Flags) (st : St) (s : Nat) (h : Inv st) :
    Inv (step f st (.closeSession s)) := by
  simp only [step]
  apply h.transfer
  · exact h.lens
  · exact h.lenMs
  · exact fun _ _ hlk => hlk
  · exact fun _ _ hv => hv
  · rfl
  · exact Nat.le_refl _
  · exact fun _ _ _ hv => hv
  · intro s' hx ha hs
    refine ⟨?_, hs, fun hok => hok.mono (st := st) rfl rfl id Or.inl (fun _ ht => ht) rfl rfl⟩
    simp only [aliveOf, getD_modifyAt] at ha
    split at ha
    · cases ha
    · exact ha

theorem inv_evict (f : Flags) (st : St) (x : Nat) (h : Inv st) : Inv (step f st (.evict x)) := by
  simp only [step]
  apply h.transfer
  · exact h.lens
  · exact h.lenMs
  · intro hx v hlk
    simp only at hlk
    rw [lookup_filter (fun k => k != x)] at hlk
    split at hlk
    · exact hlk
    · cases hlk
  · exact fun _ _ hv => hv
  · rfl
  · exact Nat.le_refl _
  · exact fun _ _ _ hv => hv
  · intro s' hx ha hs
    exact ⟨ha, hs, fun hok => hok.mono (st := st) rfl rfl id Or.inl (fun _ ht => ht) rfl rfl⟩

/-- events that only change `hreads` (and ghost sets), keeping every excuse -/
theorem inv_hreadsOnly {st st' : St} (h : Inv st)
    (e_conf : st'.conf = st.conf) (e_mem : st'.mem = st.mem)
    (e_held : st'.held = st.held) (e_ms : st'.ms = st.ms) (e_subs : st'.subs = st.subs)
    (e_alive : st'.alive = st.alive) (e_tasks : st'.tasks = st.tasks) (e_cache : st'.cache = st.cache)
    (hcount : st.notifyCount ≤ st'.notifyCount)
    (hcar : st'.notifyCount = st.notifyCount → ∀ x ∈ st.carrier, x ∈ st'.carrier)
    (howed : ∀ hx, Owed st hx → Owed st' hx)
    (howedF : ∀ hx, OwedF st hx → OwedF st' hx ∨ Owed st' hx) : Inv st' := by
  apply h.transfer
  · rw [e_held, e_subs]; exact h.lens
  · rw [e_ms, e_subs]; exact h.lenMs
  · intro hx v hlk; rw [e_cache] at hlk; exact hlk
  · intro hx c hv
    rcases hv with hv | hv
    · exact Or.inl (by simp only [confOf, e_conf]; exact hv)
    · exact Or.inr (howed hx hv)
  · exact e_tasks
  · exact hcount
  · intro he hx c hv
    rcases hv with hv | hv
    · exact Or.inl (by simp only [confOf, e_conf]; exact hv)
    · exact Or.inr (hcar he hx hv)
  · intro s hx ha hs
    refine ⟨by simpa only [aliveOf, e_alive] using ha, by simpa only [subsOf, e_subs] using hs, ?_⟩
    intro hok
    exact hok.mono (by simp only [confOf, e_conf]) (by simp only [memOf, e_mem]) (howed hx)
      (howedF hx) (by rw [e_tasks]; exact fun _ ht => ht)
      (by simp only [heldOf, e_held]) (by simp only [msOf, e_ms])

theorem inv_hdrDo (f : Flags) (st : St) (i : Nat) (h : Inv st) : Inv (step f st (.hdrDo i)) := by
  simp only [step]
  cases nthIdxH st.hreads false i with
  | none => exact h
  | some j =>
    simp only
    have key : ∀ r ∈ st.hreads, ∃ r' ∈ modifyAt st.hreads j (fun r => { r with value := some st.chain[r.h]? }),
        r'.xs = r.xs ∧ r'.flips = r.flips := by
      intro r hr
      rcases mem_modifyAt_of_mem j (fun r => { r with value := some st.chain[r.h]? }) hr with h' | h'
      · exact ⟨_, h', rfl, rfl⟩
      · exact ⟨_, h', rfl, rfl⟩
    apply inv_hreadsOnly h
    iterate 8 exact rfl
    · exact Nat.le_refl _
    · exact fun _ _ hx => hx
    · intro hx ho
      rcases ho with ho | ho | ho | ⟨r, hr, ho⟩
      · exact Or.inl ho
      · exact Or.inr (Or.inl ho)
      · exact Or.inr (Or.inr (Or.inl ho))
      · obtain ⟨r', hr', e1, _⟩ := key r hr
        exact Or.inr (Or.inr (Or.inr ⟨r', hr', by rw [e1]; exact ho⟩))
    · intro hx ho
      rcases ho with ho | ⟨r, hr, ho⟩
      · exact Or.inl (Or.inl ho)
      · obtain ⟨r', hr', _, e2⟩ := key r hr
        exact Or.inl (Or.inr ⟨r', hr', by rw [e2]; exact ho⟩)

theorem mem_filter_not_contains {l xs : List Nat} {x : Nat} (h : x ∈ l) (hn : x ∉ xs) :
    x ∈ l.filter (fun y => !xs.contains y) := by
  rw [List.mem_filter]
  exact ⟨h, by simp [hn]⟩

theorem inv_notify (f : Flags) (hb : f.batch = false) (hr : f.recheck = true) (st : St) (ht : Nat)
    (xs : List Nat) (h : Inv st) : Inv (step f st (.notify ht xs)) := by
  simp only [step]
  split
  · -- height changed: suspended in the header read; the new record takes over `xs` and the flips
    apply inv_hreadsOnly h
    iterate 8 exact rfl
    · exact Nat.le_succ _
    · intro he; simp at he
    · intro hx ho
      rcases ho with ho | ho | ho | ⟨r, hr', ho⟩
      · by_cases hm : hx ∈ xs
        · exact Or.inr (Or.inr (Or.inr ⟨_, List.mem_append_right _ (List.mem_singleton.mpr rfl), hm⟩))
        · exact Or.inl (mem_filter_not_contains ho hm)
      · exact Or.inr (Or.inl ho)
      · exact Or.inr (Or.inr (Or.inl ho))
      · exact Or.inr (Or.inr (Or.inr ⟨r, List.mem_append_left _ hr', ho⟩))
    · intro hx ho
      rcases ho with ho | ⟨r, hr', ho⟩
      · exact Or.inl (Or.inr ⟨_, List.mem_append_right _ (List.mem_singleton.mpr rfl), ho⟩)
      · exact Or.inl (Or.inr ⟨r, List.mem_append_left _ hr', ho⟩)
  · -- same height: straight on to the invalidation and the session loop
    have howed : ∀ hx, hx ∉ xs → Owed st hx →
        Owed { st with notifyCount := st.notifyCount + 1,
                       carrier := st.carrier.filter (fun x => !xs.contains x) } hx := by
      intro hx hm ho
      rcases ho with ho | ho | ho | ho
      · exact Or.inl (mem_filter_not_contains ho hm)
      · exact Or.inr (Or.inl ho)
      · exact Or.inr (Or.inr (Or.inl ho))
      · exact Or.inr (Or.inr (Or.inr ho))
    apply finishNotify_inv f hb hr
    · exact h.lens
    · exact h.lenMs
    · intro hx v hlk
      by_cases hm : hx ∈ xs
      · exact Or.inr hm
      · rcases h.cache hx v hlk with hv | hv
        · exact Or.inl (Or.inl hv)
        · exact Or.inl (Or.inr (howed hx hm hv))
    · intro t htm c hv hc
      have := h.counts t htm
      simp only at hc
      omega
    · intro t htm
      have := h.counts t htm
      simp only
      omega
    · exact h.nochg
    · exact h.subhx
    · intro s hx ha hs
      by_cases hm : hx ∈ xs
      · exact Or.inr (Or.inl hm)
      · exact Or.inl ((h.held s hx ha hs).mono (st := st) rfl rfl (howed hx hm) Or.inl (fun _ ht => ht) rfl rfl)

theorem inv_hdrFinish (f : Flags) (hb : f.batch = false) (hr : f.recheck = true) (st : St) (i : Nat)
    (h : Inv st) : Inv (step f st (.hdrFinish i)) := by
  simp only [step]
  cases nthIdxH st.hreads true i with
  | none => exact h
  | some j =>
    simp only
    cases hj : st.hreads[j]? with
    | none => exact h
    | some r =>
      simp only
      have hrm : r ∈ st.hreads := List.mem_iff_getElem?.mpr ⟨j, hj⟩
      cases hval : r.value with
      | none => exact h
      | some v =>
        cases v with
        | some d =>
          simp only
          -- the header arrived: invalidate, then the session loop with height_changed = true
          have howed : ∀ hx, hx ∉ r.xs → Owed st hx →
              Owed { st with hreads := st.hreads.eraseIdx j, hsub := (r.h, d), notifiedHeight := r.h } hx := by
            intro hx hm ho
            rcases ho with ho | ho | ho | ⟨r', hr', ho⟩
            · exact Or.inl ho
            · exact Or.inr (Or.inl ho)
            · exact Or.inr (Or.inr (Or.inl ho))
            · rcases mem_eraseIdx_or hj hr' with rfl | hin
              · exact absurd ho hm
              · exact Or.inr (Or.inr (Or.inr ⟨r', hin, ho⟩))
          apply finishNotify_inv f hb hr
          · exact h.lens
          · exact h.lenMs
          · intro hx v hlk
            by_cases hm : hx ∈ r.xs
            · exact Or.inr hm
            · rcases h.cache hx v hlk with hv | hv
              · exact Or.inl (Or.inl hv)
              · exact Or.inl (Or.inr (howed hx hm hv))
          · exact h.reads
          · exact h.counts
          · exact h.nochg
          · exact h.subhx
          · intro s hx ha hs
            by_cases hm : hx ∈ r.xs
            · exact Or.inr (Or.inl hm)
            · have := (h.held s hx ha hs).mono' (st := st)
                (st' := { st with hreads := st.hreads.eraseIdx j, hsub := (r.h, d), notifiedHeight := r.h })
                (Q := True) rfl rfl (howed hx hm) ?_ (fun _ ht => ht) rfl rfl
              · rcases this with h1 | ⟨_, h1⟩
                · exact Or.inl h1
                · exact Or.inr (Or.inr ⟨rfl, h1⟩)
              · intro hf
                rcases hf with hf | ⟨r', hr', hf⟩
                · exact Or.inl (Or.inl hf)
                · rcases mem_eraseIdx_or hj hr' with rfl | hin
                  · exact Or.inr trivial
                  · exact Or.inl (Or.inr ⟨r', hin, hf⟩)
        | none =>
          simp only
          split
          · -- raised: the notification is lost
            apply inv_hreadsOnly h
            iterate 8 exact rfl
            · exact Nat.le_refl _
            · exact fun _ _ hx => hx
            · intro hx ho
              rcases ho with ho | ho | ho | ⟨r', hr', ho⟩
              · exact Or.inl ho
              · exact Or.inr (Or.inl (List.mem_append_left _ (List.mem_append_left _ ho)))
              · exact Or.inr (Or.inr (Or.inl ho))
              · rcases mem_eraseIdx_or hj hr' with rfl | hin
                · exact Or.inr (Or.inl (List.mem_append_left _ (List.mem_append_right _ ho)))
                · exact Or.inr (Or.inr (Or.inr ⟨r', hin, ho⟩))
            · intro hx ho
              rcases ho with ho | ⟨r', hr', ho⟩
              · exact Or.inl (Or.inl ho)
              · rcases mem_eraseIdx_or hj hr' with rfl | hin
                · exact Or.inr (Or.inr (Or.inl (List.mem_append_right _ ho)))
                · exact Or.inl (Or.inr ⟨r', hin, ho⟩)
          · -- retried at the lowered height
            apply inv_hreadsOnly h
            iterate 8 exact rfl
            · exact Nat.le_refl _
            · exact fun _ _ hx => hx
            · intro hx ho
              rcases ho with ho | ho | ho | ⟨r', hr', ho⟩
              · exact Or.inl ho
              · exact Or.inr (Or.inl ho)
              · exact Or.inr (Or.inr (Or.inl ho))
              · rcases mem_eraseIdx_or hj hr' with rfl | hin
                · exact Or.inr (Or.inr (Or.inr ⟨_, List.mem_append_right _ (List.mem_singleton.mpr rfl), ho⟩))
                · exact Or.inr (Or.inr (Or.inr ⟨r', List.mem_append_left _ hin, ho⟩))
            · intro hx ho
              rcases ho with ho | ⟨r', hr', ho⟩
              · exact Or.inl (Or.inl ho)
              · rcases mem_eraseIdx_or hj hr' with rfl | hin
                · exact Or.inl (Or.inr ⟨_, List.mem_append_right _ (List.mem_singleton.mpr rfl), ho⟩)
                · exact Or.inl (Or.inr ⟨r', List.mem_append_left _ hin, ho⟩)

/-! ### coroutines resuming with a history -/

theorem mem_subsOf_modifyAt {st : St} {s x s' hx' : Nat}
    (h : hx' ∈ (modifyAt st.subs s (insertSorted x)).getD s' []) :
    hx' ∈ subsOf st s' ∨ (s' = s ∧ s < st.subs.length ∧ hx' = x) := by
  rw [getD_modifyAt] at h
  split at h
  · next hc =>
    obtain ⟨rfl, hl⟩ := hc
    rcases mem_insertSorted h with h | h
    · exact Or.inr ⟨rfl, hl, h⟩
    · exact Or.inl h
  · exact Or.inl h

theorem HeldOK.map_tasks {st : St} {tasks' : List Task}
    (hm : ∀ t ∈ st.tasks, ∃ t' ∈ tasks', t'.hx = t.hx ∧ t'.cont = t.cont) {s hx : Nat}
    (h : HeldOK st s hx) : HeldOK { st with tasks := tasks' } s hx := by
  have hP : Pending st s hx → Pending { st with tasks := tasks' } s hx := by
    rintro ⟨t, ht, hc⟩
    obtain ⟨t', ht', e1, e2⟩ := hm t ht
    exact ⟨t', ht', by rw [e1, e2]; exact hc⟩
  have hL : Loop2 st s → Loop2 { st with tasks := tasks' } s := by
    rintro ⟨t, ht, hc⟩
    obtain ⟨t', ht', _, e2⟩ := hm t ht
    exact ⟨t', ht', by rw [e2]; exact hc⟩
  rcases h with h | h | ⟨c, m, h1, h2, h3⟩
  · exact Or.inl (hP h)
  · exact Or.inr (Or.inl h)
  · refine Or.inr (Or.inr ⟨c, m, h1, h2, ?_⟩)
    rcases h3 with h3 | ⟨h3, h4⟩
    · exact Or.inl h3
    · rcases h4 with h4 | h4 | h4
      · exact Or.inr ⟨h3, Or.inl h4⟩
      · exact Or.inr ⟨h3, Or.inr (Or.inl h4)⟩
      · exact Or.inr ⟨h3, Or.inr (Or.inr (hL h4))⟩

/-- removing the task `t` (its read is accepted): what relied on it is now up to its continuation -/
theorem HeldOK.erase_task {st : St} {j : Nat} {t : Task} (cache' : List (Nat × Nat))
    (hj : st.tasks[j]? = some t) {s hx : Nat} (h : HeldOK st s hx) :
    HeldOK { st with tasks := st.tasks.eraseIdx j, cache := cache' } s hx ∨
    (∃ rest ch, t.cont = .notify s rest ch ∧ (t.hx = hx ∨ hx ∈ rest ∨
        FlipStale { st with tasks := st.tasks.eraseIdx j, cache := cache' } s hx)) ∨
    (∃ old rest ch, t.cont = .notify2 s old rest ch ∧ (t.hx = hx ∨ hx ∈ rest.map Prod.fst)) := by
  rcases h with ⟨t', ht', hc⟩ | h | ⟨c, m, h1, h2, h3⟩
  · rcases mem_eraseIdx_or hj ht' with rfl | hin
    · rcases hc with ⟨rest, ch, hc, hm⟩ | ⟨old, rest, ch, hc, hm⟩
      · rcases hm with hm | hm
        · exact Or.inr (Or.inl ⟨rest, ch, hc, Or.inl hm⟩)
        · exact Or.inr (Or.inl ⟨rest, ch, hc, Or.inr (Or.inl hm)⟩)
      · exact Or.inr (Or.inr ⟨old, rest, ch, hc, hm⟩)
    · exact Or.inl (Or.inl ⟨t', hin, hc⟩)
  · exact Or.inl (Or.inr (Or.inl h))
  · rcases h3 with h3 | ⟨h3, h4⟩
    · exact Or.inl (Or.inr (Or.inr ⟨c, m, h1, h2, Or.inl h3⟩))
    · rcases h4 with h4 | h4 | ⟨t', ht', rest, ch, hc⟩
      · exact Or.inl (Or.inr (Or.inr ⟨c, m, h1, h2, Or.inr ⟨h3, Or.inl h4⟩⟩))
      · exact Or.inl (Or.inr (Or.inr ⟨c, m, h1, h2, Or.inr ⟨h3, Or.inr (Or.inl h4)⟩⟩))
      · rcases mem_eraseIdx_or hj ht' with rfl | hin
        · exact Or.inr (Or.inl ⟨rest, ch, hc, Or.inr (Or.inr ⟨c, m, h1, h2, h3⟩)⟩)
        · exact Or.inl (Or.inr (Or.inr ⟨c, m, h1, h2, Or.inr ⟨h3, Or.inr (Or.inr ⟨t', hin, rest, ch, hc⟩)⟩⟩))

/-- continuing a coroutine with a valid history re-establishes the invariant; `st` may lack the
    `held` clause exactly for what the continuation is about to deliver / recompute -/
theorem inv_resume (f : Flags) (hb : f.batch = false) (hr : f.recheck = true) (st : St) (hx c : Nat)
    (k : Cont) (hbase : Base st) (hv : validC st hx c)
    (hsub : ∀ s x, k = .sub s x → hx = x)
    (hch : (∀ s rest ch, k = .notify s rest ch → ch = []) ∧
      (∀ s old rest ch, k = .notify2 s old rest ch → ch = []))
    (hheld : ∀ s' hx', aliveOf st s' = true → hx' ∈ subsOf st s' → HeldOK st s' hx' ∨
      (∃ rest ch, k = .notify s' rest ch ∧ (hx = hx' ∨ hx' ∈ rest ∨ FlipStale st s' hx')) ∨
      (∃ old rest ch, k = .notify2 s' old rest ch ∧ (hx = hx' ∨ hx' ∈ rest.map Prod.fst))) :
    Inv (resume f st hx c k) := by
  have hlen : st.held.length = st.ms.length := by rw [hbase.lens, hbase.lenMs]
  cases k with
  | query =>
    refine Inv.of_base hbase ?_
    intro s' hx' ha hs
    rcases hheld s' hx' ha hs with h | ⟨_, _, h, _⟩ | ⟨_, _, _, h, _⟩
    · exact h
    · cases h
    · cases h
  | sub s x =>
    obtain rfl := hsub s x rfl
    have F1 := send_frame st s hx c hv hlen
    have B1 := F1.base hbase
    simp only [resume]
    refine Inv.of_base ⟨?_, ?_, B1.cache, B1.reads, B1.counts, B1.nochg, B1.subhx⟩ ?_
    · show (send st s hx (c, memOf st hx)).held.length = (modifyAt st.subs s (insertSorted hx)).length
      rw [length_modifyAt, F1.lenHeld]; exact hbase.lens
    · show (send st s hx (c, memOf st hx)).ms.length = (modifyAt st.subs s (insertSorted hx)).length
      rw [length_modifyAt, F1.lenMs]; exact hbase.lenMs
    · intro s' hx' ha hs
      show HeldOK (send st s hx (c, memOf st hx)) s' hx'
      have ha' : aliveOf st s' = true := ha
      rcases mem_subsOf_modifyAt hs with hs | ⟨rfl, hl, rfl⟩
      · rcases hheld s' hx' ha' hs with h | ⟨_, _, h, _⟩ | ⟨_, _, _, h, _⟩
        · exact F1.heldOK _ _ h
        · cases h
        · cases h
      · exact send_heldOK st s' hx' c hv (by rw [hbase.lens]; exact hl) (by rw [hbase.lenMs]; exact hl)
  | notify s rest ch =>
    obtain rfl := hch.1 s rest ch rfl
    have F1 := send_frame st s hx c hv hlen
    have B1 := F1.base hbase
    simp only [resume, visit1_eq f hb]
    obtain ⟨F2, H2⟩ := notifyGo_spec f hb hr s rest (send st s hx (c, memOf st hx)) B1.cache B1.lens B1.lenMs
    refine Inv.of_base (F2.base B1) ?_
    intro s' hx' ha hs
    rw [F2.aliveOf, F1.aliveOf] at ha
    rw [F2.subsOf, F1.subsOf] at hs
    rcases hheld s' hx' ha hs with h | ⟨rest', ch', hc, hm⟩ | ⟨_, _, _, hc, _⟩
    · exact F2.heldOK _ _ (F1.heldOK _ _ h)
    · cases hc
      rcases hm with rfl | hm | hm
      · exact F2.heldOK _ _ (send_heldOK st s hx c hv (by rw [hbase.lens]; exact lt_of_mem_subsOf hs)
          (by rw [hbase.lenMs]; exact lt_of_mem_subsOf hs))
      · exact H2 hx' (by rw [F1.subsOf]; exact hs) (Or.inl hm)
      · rcases F1.flipStale hx' hm with hm | hm
        · exact H2 hx' (by rw [F1.subsOf]; exact hs) (Or.inr hm)
        · exact F2.heldOK _ _ hm
    · cases hc
  | notify2 s old rest ch =>
    obtain rfl := hch.2 s old rest ch rfl
    simp only [resume]
    obtain ⟨F1, e2, H1⟩ := visit2_spec f hb st s hx c old [] hv hlen
    have B1 := F1.base hbase
    rw [e2]
    obtain ⟨F2, H2⟩ := notifyGo2_spec f hb s rest (visit2 f st s hx c old []).1 B1.cache B1.lens B1.lenMs
    refine Inv.of_base (F2.base B1) ?_
    intro s' hx' ha hs
    rw [F2.aliveOf, F1.aliveOf] at ha
    rw [F2.subsOf, F1.subsOf] at hs
    rcases hheld s' hx' ha hs with h | ⟨_, _, hc, _⟩ | ⟨old', rest', ch', hc, hm⟩
    · exact F2.heldOK _ _ (F1.heldOK _ _ h)
    · cases hc
    · cases hc
      rcases hm with rfl | hm
      · exact F2.heldOK _ _ (H1 (by rw [hbase.lens]; exact lt_of_mem_subsOf hs))
      · exact H2 hx' hm (by rw [F1.subsOf]; exact hs)

theorem inv_startRead (f : Flags) (hb : f.batch = false) (hr : f.recheck = true) (st : St) (hx : Nat)
    (k : Cont) (h : Inv st)
    (hsub : ∀ s x, k = .sub s x → hx = x)
    (hch : (∀ s rest ch, k ≠ .notify s rest ch) ∧ (∀ s old rest ch, k ≠ .notify2 s old rest ch)) :
    Inv (startRead f st hx k) := by
  unfold startRead
  cases hl : lookup hx st.cache with
  | some v =>
    exact inv_resume f hb hr st hx v k h.toBase (h.cache hx v hl) hsub
      ⟨fun s rest ch hc => absurd hc (hch.1 s rest ch), fun s old rest ch hc => absurd hc (hch.2 s old rest ch)⟩
      (fun s' hx' ha hs => Or.inl (h.held s' hx' ha hs))
  | none =>
    simp only
    have hmem : ∀ t' ∈ st.tasks ++ [({ hx := hx, countAtStart := st.notifyCount, cont := k } : Task)],
        t' ∈ st.tasks ∨ t' = { hx := hx, countAtStart := st.notifyCount, cont := k } := by
      intro t' ht'
      rcases List.mem_append.mp ht' with ht' | ht'
      · exact Or.inl ht'
      · exact Or.inr (List.mem_singleton.mp ht')
    refine ⟨⟨h.lens, h.lenMs, h.cache, ?_, ?_, ?_, ?_⟩, ?_⟩
    · intro t ht v hv hc
      rcases hmem t ht with ht | rfl
      · exact h.reads t ht v hv hc
      · cases hv
    · intro t ht
      rcases hmem t ht with ht | rfl
      · exact h.counts t ht
      · exact Nat.le_refl _
    · intro t ht
      rcases hmem t ht with ht | rfl
      · exact h.nochg t ht
      · exact ⟨fun s rest ch hc => absurd hc (hch.1 s rest ch), fun s old rest ch hc => absurd hc (hch.2 s old rest ch)⟩
    · intro t ht s x hc
      rcases hmem t ht with ht | rfl
      · exact h.subhx t ht s x hc
      · exact hsub s x hc
    · intro s' hx' ha hs
      exact (h.held s' hx' ha hs).map_tasks (fun t ht => ⟨t, List.mem_append_left _ ht, rfl, rfl⟩)

theorem inv_readDo (f : Flags) (st : St) (i : Nat) (h : Inv st) : Inv (step f st (.readDo i)) := by
  simp only [step]
  cases nthIdx st.tasks false i with
  | none => exact h
  | some j =>
    simp only
    have hmem : ∀ t' ∈ modifyAt st.tasks j (fun t => { t with value := some (confOf st t.hx) }),
        ∃ b ∈ st.tasks, t'.hx = b.hx ∧ t'.cont = b.cont ∧ t'.countAtStart = b.countAtStart ∧
          (t'.value = b.value ∨ t'.value = some (confOf st b.hx)) := by
      intro t' ht'
      rcases mem_modifyAt ht' with hm | ⟨b, hb, rfl⟩
      · exact ⟨t', hm, rfl, rfl, rfl, Or.inl rfl⟩
      · exact ⟨b, hb, rfl, rfl, rfl, Or.inr rfl⟩
    refine ⟨⟨h.lens, h.lenMs, h.cache, ?_, ?_, ?_, ?_⟩, ?_⟩
    · intro t' ht' v hv hc
      obtain ⟨b, hb, e1, _, e3, e4⟩ := hmem t' ht'
      rw [e1]
      rcases e4 with e4 | e4
      · exact h.reads b hb v (by rw [← e4]; exact hv) (by rw [← e3]; exact hc)
      · rw [e4] at hv; cases hv; exact Or.inl rfl
    · intro t' ht'
      obtain ⟨b, hb, _, _, e3, _⟩ := hmem t' ht'
      rw [e3]; exact h.counts b hb
    · intro t' ht'
      obtain ⟨b, hb, _, e2, _, _⟩ := hmem t' ht'
      rw [e2]; exact h.nochg b hb
    · intro t' ht' s x hc
      obtain ⟨b, hb, e1, e2, _, _⟩ := hmem t' ht'
      rw [e1]; exact h.subhx b hb s x (by rw [← e2]; exact hc)
    · intro s hx ha hs
      refine (h.held s hx ha hs).map_tasks ?_
      intro t ht
      rcases mem_modifyAt_of_mem j (fun t => { t with value := some (confOf st t.hx) }) ht with h' | h'
      · exact ⟨_, h', rfl, rfl⟩
      · exact ⟨_, h', rfl, rfl⟩

theorem inv_readFinish (f : Flags) (hb : f.batch = false) (hcc : f.checkCount = true) (hr : f.recheck = true)
    (st : St) (i : Nat) (h : Inv st) : Inv (step f st (.readFinish i)) := by
  simp only [step]
  cases nthIdx st.tasks true i with
  | none => exact h
  | some j =>
    simp only
    cases hj : st.tasks[j]? with
    | none => exact h
    | some t =>
      simp only
      have htm : t ∈ st.tasks := List.mem_iff_getElem?.mpr ⟨j, hj⟩
      cases hval : t.value with
      | none => exact h
      | some v =>
        simp only [hcc, Bool.true_and]
        by_cases hcnt : t.countAtStart = st.notifyCount
        · -- accepted
          have hne : (t.countAtStart != st.notifyCount) = false := by simp [hcnt]
          simp only [hne, Bool.false_eq_true, if_false]
          have hv : valid0 st t.hx v := h.reads t htm v hval hcnt
          apply inv_resume f hb hr _ t.hx v t.cont
          · refine ⟨h.lens, h.lenMs, ?_, ?_, ?_, ?_, ?_⟩
            · intro hx' v' hl
              simp only [lookup_put] at hl
              split at hl
              · next he => cases hl; rw [he]; exact hv.validC
              · exact h.cache hx' v' hl
            · intro t' ht' v' hv' hc'
              exact h.reads t' (List.mem_of_mem_eraseIdx ht') v' hv' hc'
            · intro t' ht'; exact h.counts t' (List.mem_of_mem_eraseIdx ht')
            · intro t' ht'; exact h.nochg t' (List.mem_of_mem_eraseIdx ht')
            · intro t' ht'; exact h.subhx t' (List.mem_of_mem_eraseIdx ht')
          · exact hv.validC
          · intro s x hc; exact h.subhx t htm s x hc
          · exact h.nochg t htm
          · intro s' hx' ha hs
            exact (h.held s' hx' ha hs).erase_task (put t.hx v st.cache) hj
        · -- a notification was processed meanwhile: read again
          have hne : (t.countAtStart != st.notifyCount) = true := by simp [hcnt]
          simp only [hne, if_true]
          have hmem : ∀ t' ∈ st.tasks.eraseIdx j ++
              [{ hx := t.hx, countAtStart := st.notifyCount, cont := t.cont : Task }],
              t' ∈ st.tasks ∨
                t' = { hx := t.hx, countAtStart := st.notifyCount, cont := t.cont : Task } := by
            intro t' ht'
            rcases List.mem_append.mp ht' with ht' | ht'
            · exact Or.inl (List.mem_of_mem_eraseIdx ht')
            · exact Or.inr (List.mem_singleton.mp ht')
          refine ⟨⟨h.lens, h.lenMs, h.cache, ?_, ?_, ?_, ?_⟩, ?_⟩
          · intro t' ht' v' hv' hc'
            rcases hmem t' ht' with hm | rfl
            · exact h.reads t' hm v' hv' hc'
            · cases hv'
          · intro t' ht'
            rcases hmem t' ht' with hm | rfl
            · exact h.counts t' hm
            · exact Nat.le_refl _
          · intro t' ht'
            rcases hmem t' ht' with hm | rfl
            · exact h.nochg t' hm
            · exact h.nochg t htm
          · intro t' ht' s x hc
            rcases hmem t' ht' with hm | rfl
            · exact h.subhx t' hm s x hc
            · exact h.subhx t htm s x hc
          · intro s' hx' ha hs
            refine (h.held s' hx' ha hs).map_tasks ?_
            intro t' ht'
            rcases mem_eraseIdx_or hj ht' with rfl | hin
            · exact ⟨_, List.mem_append_right _ (List.mem_singleton.mpr rfl), rfl, rfl⟩
            · exact ⟨t', List.mem_append_left _ hin, rfl, rfl⟩

/-- every event preserves the invariant (any flags with `batch = false`, `checkCount = true`,
    `recheck = true`; both second-loop comparisons, raising or retrying refresh) -/
theorem inv_step_flags (f : Flags) (hb : f.batch = false) (hcc : f.checkCount = true) (hr : f.recheck = true)
    (st : St) (ev : Ev) (h : Inv st) : Inv (step f st ev) := by
  cases ev with
  | change x => exact inv_change f st x h
  | mpChange x m => exact inv_mpChange f st x m h
  | flip x m => exact inv_flip f st x m h
  | advance d => exact inv_advance f st d h
  | backup => exact inv_backup f st h
  | reorgSignal => exact inv_reorgSignal f st h
  | notify ht xs => exact inv_notify f hb hr st ht xs h
  | subscribe s x =>
    exact inv_startRead f hb hr st x (.sub s x) h (fun s' x' hc => by cases hc; rfl)
      ⟨fun s' rest ch hc => (by cases hc), fun s' old rest ch hc => (by cases hc)⟩
  | unsubscribe s x => exact inv_unsubscribe f st s x h
  | closeSession s => exact inv_closeSession f st s h
  | subscribeHeaders s => exact inv_subscribeHeaders f st s h
  | getHistory s x =>
    exact inv_startRead f hb hr st x .query h (fun s' x' hc => by cases hc)
      ⟨fun s' rest ch hc => (by cases hc), fun s' old rest ch hc => (by cases hc)⟩
  | evict x => exact inv_evict f st x h
  | readDo i => exact inv_readDo f st i h
  | readFinish i => exact inv_readFinish f hb hcc hr st i h
  | hdrDo i => exact inv_hdrDo f st i h
  | hdrFinish i => exact inv_hdrFinish f hb hr st i h

theorem inv_step (st : St) (ev : Ev) (h : Inv st) : Inv (step {} st ev) :=
  inv_step_flags {} rfl rfl rfl st ev h

theorem inv_run_flags (f : Flags) (hb : f.batch = false) (hcc : f.checkCount = true) (hr : f.recheck = true)
    (st : St) (evs : List Ev) (h : Inv st) : Inv (run f st evs) := by
  induction evs generalizing st with
  | nil => exact h
  | cons ev evs ih => exact ih (step f st ev) (inv_step_flags f hb hcc hr st ev h)

theorem inv_run (st : St) (evs : List Ev) (h : Inv st) : Inv (run {} st evs) :=
  inv_run_flags {} rfl rfl rfl st evs h

/-- **Model quiescence.**  The environment owes nothing and nothing is in flight:
  * `carrier = []`    every touched set handed over by the block processor / the mempool refresh
                      has been passed to `_notify_sessions` (C20_complete + C07carrier_consecutive +
                      C08_touched_handed_over: once the index is at the daemon's height and the
                      mempool has been refreshed at that height, Notifications holds nothing back);
  * `flipped = []`    every parent flip has been followed by a `_notify_sessions` call with
                      `height_changed = true` (the chain change that caused it has been notified);
  * `hreads = []`, `tasks = []`     no `_notify_sessions` call is suspended in the header read, no
                      history read and no `_notify_inner` is in flight ("notifications delivered");
  * `tipDone = true`  since the last change of the DB's chain a `_notify_sessions` call with
                      `height_changed = true` and a height ≥ the DB's was started, at a moment when
                      no header read aiming elsewhere was in flight (C20_complete: the call for the
                      height both sources last reported; `height_changed` by `notified_height` /
                      the reorg counter, F4).
The ghost sets `lost` (a notification lost because `_refresh_hsub_results` raised) and `suppressed`
(a needed send hidden by the stale-copy comparison) are empty in every reachable state of the
current code (`C07_fixed`); they are hypotheses of `quiescent_current` only so that it also covers
the pinned variants. -/
structure Quiet (st : St) : Prop where
  carrier : st.carrier = []
  flipped : st.flipped = []
  hreads : st.hreads = []
  tasks : st.tasks = []
  tipDone : st.tipDone = true

/-- at rest every connected subscriber holds the current status and every cached history is current -/
theorem quiescent_current (st : St) (h : Inv st) (hq : Quiet st) (hlost : st.lost = [])
    (hsupp : st.suppressed = []) :
    (∀ s hx, aliveOf st s = true → hx ∈ subsOf st s → heldOf st s hx = some (curOf st hx)) ∧
    (∀ hx v, lookup hx st.cache = some v → v = confOf st hx) := by
  have hO : ∀ hx, ¬ Owed st hx := by
    intro hx ho
    rcases ho with ho | ho | ho | ⟨r, hr, _⟩
    · rw [hq.carrier] at ho; simp at ho
    · rw [hlost] at ho; simp at ho
    · rw [hsupp] at ho; simp at ho
    · rw [hq.hreads] at hr; simp at hr
  have hOF : ∀ hx, ¬ OwedF st hx := by
    intro hx ho
    rcases ho with ho | ⟨r, hr, _⟩
    · rw [hq.flipped] at ho; simp at ho
    · rw [hq.hreads] at hr; simp at hr
  constructor
  · intro s hx ha hs
    rcases h.held s hx ha hs with ⟨t, htm, _⟩ | ho | ⟨c, m, h1, h2, h3⟩
    · rw [hq.tasks] at htm; simp at htm
    · exact absurd ho (hO hx)
    · rw [h1, curOf, h2]
      rcases h3 with ⟨h3, h4⟩ | ⟨_, h4 | h4 | ⟨t, htm, _⟩⟩
      · rw [h3, h4]
      · rw [h4]
      · exact absurd h4 (hOF hx)
      · rw [hq.tasks] at htm; simp at htm
  · intro hx v hl
    rcases h.cache hx v hl with hv | hv
    · exact hv
    · exact absurd hv (hO hx)

end EV.System

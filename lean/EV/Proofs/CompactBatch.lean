import EV.Proofs.CompactScan

/-!
One `_compact_history` batch: the table after the batch has, for every compacted hashX, exactly the
re-chunked rows `0 … n-1`, and is untouched for every other hashX; hence `get_txnums` is unchanged
for every hashX.  Also the book-keeping the later theorems need (`comp_flush_count` bounds every
compacted id, cursor arithmetic).  Core only.
-/
namespace EV.Compact
open EV.Index

def callWrites (maxRow : Nat) (c : Call) : List Row := writesOf c.1 c.2 (chunksOf maxRow c.2) 0
def callDels (maxRow : Nat) (c : Call) : List (HashX × Nat) := delsOf maxRow c.1 c.2
/-- number of rows the hashX of this call has after compaction -/
def callRows (maxRow : Nat) (c : Call) : Nat := (chunksOf maxRow c.2).length

theorem foldCalls_ok (maxRow : Nat) (calls : List Call) (acc acc' : CAcc)
    (hnd : (calls.map (·.1)).Nodup) (hrows : ∀ c ∈ calls, ∀ e ∈ c.2, e.1.1 = c.1)
    (hfr : ∀ k ∈ acc.dels, k.1 ∉ calls.map (·.1))
    (h : foldCalls maxRow calls acc = .ok acc') :
    acc'.writes = acc.writes ++ calls.flatMap (callWrites maxRow) ∧
    acc'.dels = acc.dels ++ calls.flatMap (callDels maxRow) ∧
    acc.cfc ≤ acc'.cfc ∧
    (∀ c ∈ calls, ((callRows maxRow c - 1 : Nat) : Int) ≤ acc'.cfc) ∧
    (acc'.cfc = acc.cfc ∨ ∃ c ∈ calls, acc'.cfc = ((callRows maxRow c - 1 : Nat) : Int)) ∧
    (∀ c ∈ calls, callRows maxRow c ≤ 65536) := by
  induction calls generalizing acc with
  | nil =>
    simp only [foldCalls, Except.ok.injEq] at h
    subst h
    simp
  | cons c cs ih =>
    simp only [foldCalls] at h
    cases hc : compactHashX maxRow c.1 c.2 acc with
    | error e => rw [hc] at h; cases h
    | ok r =>
      rw [hc] at h
      obtain ⟨acc1, w⟩ := r
      simp only at h
      simp only [List.map_cons, List.nodup_cons] at hnd
      obtain ⟨g1, g2, g3, g4⟩ := compactHashX_ok maxRow c.1 c.2 acc acc1 w
        (by intro k hk heq; exact hfr k hk (by simp [heq])) hc
      have hfr1 : ∀ k ∈ acc1.dels, k.1 ∉ cs.map (·.1) := by
        intro k hk
        rw [g2] at hk
        rcases List.mem_append.mp hk with hk | hk
        · intro hm; exact hfr k hk (by simp only [List.map_cons, List.mem_cons]; exact Or.inr hm)
        · rw [delsOf_hx (hrows c List.mem_cons_self) hk]; exact hnd.1
      obtain ⟨i1, i2, i3, i4, i5, i6⟩ := ih acc1 hnd.2
        (fun c' hc' => hrows c' (List.mem_cons_of_mem _ hc')) hfr1 h
      refine ⟨?_, ?_, ?_, ?_, ?_, ?_⟩
      · rw [i1, g1]; simp [callWrites]
      · rw [i2, g2]; simp [callDels]
      · rw [g3] at i3; omega
      · intro c' hc'
        rcases List.mem_cons.mp hc' with rfl | hc'
        · rw [g3] at i3; unfold callRows; omega
        · exact i4 c' hc'
      · rcases i5 with i5 | ⟨c', hc', i5⟩
        · rw [g3] at i5
          by_cases hmax : acc.cfc ≤ (((chunksOf maxRow c.2).length - 1 : Nat) : Int)
          · right; exact ⟨c, List.mem_cons_self, by unfold callRows; omega⟩
          · left; omega
        · right; exact ⟨c', List.mem_cons_of_mem _ hc', i5⟩
      · intro c' hc'
        rcases List.mem_cons.mp hc' with rfl | hc'
        · exact g4
        · exact i6 c' hc'

/-- the rows of one compacted hashX after the batch: deletes first, then puts -/
theorem rows_after_hashX {hist : List Row} (hn : NodupKeys hist) (maxRow : Nat) (hx : HashX) (e : Row)
    (he : e.1.1 = hx) :
    (e ∈ writesOf hx (rowsOf hist hx) (chunksOf maxRow (rowsOf hist hx)) 0 ∨
      (e ∈ hist ∧ e.1 ∉ delsOf maxRow hx (rowsOf hist hx) ∧
        e.1 ∉ (writesOf hx (rowsOf hist hx) (chunksOf maxRow (rowsOf hist hx)) 0).map (·.1))) ↔
    e ∈ newRows hx (chunksOf maxRow (rowsOf hist hx)) 0 := by
  have hng := nodupKeys_rowsOf hn hx
  constructor
  · rintro (h | ⟨h1, h2, _⟩)
    · exact writesOf_sub_newRows.subset h
    · have heg : e ∈ rowsOf hist hx := mem_rowsOf.mpr ⟨h1, he⟩
      have hkept : e.1 ∈ keptOf hx (rowsOf hist hx) (chunksOf maxRow (rowsOf hist hx)) 0 := by
        by_cases hk : e.1 ∈ keptOf hx (rowsOf hist hx) (chunksOf maxRow (rowsOf hist hx)) 0
        · exact hk
        · exfalso; apply h2
          unfold delsOf
          exact List.mem_filter.mpr ⟨List.mem_map.mpr ⟨e, heg, rfl⟩, by simpa using hk⟩
      obtain ⟨c, i, hci, hk, hl⟩ := mem_keptOf.mp hkept
      have := alookup_of_mem hng (show (e.1, e.2) ∈ rowsOf hist hx from heg)
      rw [hk, hl] at this
      apply mem_newRows.mpr
      refine ⟨c, i, hci, ?_⟩
      apply Prod.ext
      · exact hk
      · exact (Option.some.inj this).symm
  · intro h
    obtain ⟨c, i, hci, rfl⟩ := mem_newRows.mp h
    by_cases hl : alookup (hx, i) (rowsOf hist hx) = some c
    · right
      refine ⟨(mem_rowsOf.mp (alookup_some_mem hl)).1, ?_, ?_⟩
      · unfold delsOf
        intro hm
        have := (List.mem_filter.mp hm).2
        simp only [decide_eq_true_eq] at this
        exact this (mem_keptOf.mpr ⟨c, i, hci, rfl, hl⟩)
      · intro hm
        obtain ⟨e', he', hk'⟩ := List.mem_map.mp hm
        obtain ⟨c', i', hci', rfl, hl'⟩ := mem_writesOf.mp he'
        simp only [Prod.mk.injEq, true_and] at hk'
        subst hk'
        have := zipIdx_functional hci hci'
        subst this
        exact hl' hl
    · left
      exact mem_writesOf.mpr ⟨c, i, hci, rfl, hl⟩

theorem callWrites_hx {maxRow : Nat} {c : Call} {e : Row} (h : e ∈ callWrites maxRow c) : e.1.1 = c.1 :=
  writesOf_hx h

theorem nodupKeys_flatMap_callWrites (maxRow : Nat) (calls : List Call)
    (hnd : (calls.map (·.1)).Nodup) : NodupKeys (calls.flatMap (callWrites maxRow)) := by
  induction calls with
  | nil => simp [NodupKeys]
  | cons c cs ih =>
    simp only [List.map_cons, List.nodup_cons] at hnd
    unfold NodupKeys at *
    rw [List.flatMap_cons, List.map_append, List.nodup_append]
    refine ⟨nodupKeys_writesOf _ _ _ _, ih hnd.2, ?_⟩
    intro k1 hk1 k2 hk2 heq
    obtain ⟨e1, he1, rfl⟩ := List.mem_map.mp hk1
    obtain ⟨e2, he2, rfl⟩ := List.mem_map.mp hk2
    obtain ⟨c2, hc2, he2'⟩ := List.mem_flatMap.mp he2
    have h1 := callWrites_hx he1
    have h2 := callWrites_hx he2'
    apply hnd.1
    rw [← h1, heq, h2]
    exact List.mem_map.mpr ⟨c2, hc2, rfl⟩

/-- the persistent store after a compaction batch made of these calls -/
def batchStore (maxRow : Nat) (p : Store) (calls : List Call) (st : HState) : Store :=
  applyEffect p (.histBatch (calls.flatMap (callDels maxRow)) (calls.flatMap (callWrites maxRow)) st)

theorem hist_after_batch (maxRow : Nat) (p : Store) (hn : NodupKeys p.hist) (calls : List Call) (lo hi : Nat)
    (hok : CallsOK p.hist calls lo hi) (st : HState) :
    NodupKeys (batchStore maxRow p calls st).hist ∧
    (∀ c ∈ calls, ∀ e : Row, e.1.1 = c.1 →
      (e ∈ (batchStore maxRow p calls st).hist ↔ e ∈ newRows c.1 (chunksOf maxRow c.2) 0)) ∧
    (∀ e : Row, e.1.1 ∉ calls.map (·.1) → (e ∈ (batchStore maxRow p calls st).hist ↔ e ∈ p.hist)) := by
  have hW := nodupKeys_flatMap_callWrites maxRow calls hok.nodup
  have hrowshx : ∀ c ∈ calls, ∀ e ∈ c.2, e.1.1 = c.1 := by
    intro c hc e he
    rw [(hok.rows c hc).1] at he
    exact (mem_rowsOf.mp he).2
  refine ⟨nodupKeys_histBatch _ _ _ _ hn, ?_, ?_⟩
  · intro c hc e he
    unfold batchStore
    rw [mem_histBatch _ _ _ _ hW]
    have hg : c.2 = rowsOf p.hist c.1 := (hok.rows c hc).1
    -- project the accumulated lists on this hashX
    have hWm : ∀ e' : Row, e'.1.1 = c.1 →
        (e' ∈ calls.flatMap (callWrites maxRow) ↔ e' ∈ callWrites maxRow c) := by
      intro e' he'
      constructor
      · intro hm
        obtain ⟨c', hc', hm'⟩ := List.mem_flatMap.mp hm
        have h1 : c'.1 = c.1 := by rw [← callWrites_hx hm', he']
        have h2 : c' = c := by
          apply Prod.ext h1
          rw [(hok.rows c' hc').1, hg, h1]
        rw [← h2]; exact hm'
      · intro hm; exact List.mem_flatMap.mpr ⟨c, hc, hm⟩
    have hDm : e.1 ∈ calls.flatMap (callDels maxRow) ↔ e.1 ∈ callDels maxRow c := by
      constructor
      · intro hm
        obtain ⟨c', hc', hm'⟩ := List.mem_flatMap.mp hm
        have h1 : c'.1 = c.1 := by
          rw [← delsOf_hx (hrowshx c' hc') hm', he]
        have h2 : c' = c := by
          apply Prod.ext h1
          rw [(hok.rows c' hc').1, hg, h1]
        rw [← h2]; exact hm'
      · intro hm; exact List.mem_flatMap.mpr ⟨c, hc, hm⟩
    have hWk : e.1 ∈ (calls.flatMap (callWrites maxRow)).map (·.1) ↔ e.1 ∈ (callWrites maxRow c).map (·.1) := by
      constructor
      · intro hm
        obtain ⟨e', he', hk⟩ := List.mem_map.mp hm
        have : e'.1.1 = c.1 := by rw [hk, he]
        exact List.mem_map.mpr ⟨e', (hWm e' this).mp he', hk⟩
      · intro hm
        obtain ⟨e', he', hk⟩ := List.mem_map.mp hm
        have : e'.1.1 = c.1 := by rw [hk, he]
        exact List.mem_map.mpr ⟨e', (hWm e' this).mpr he', hk⟩
    rw [hWm e he, hDm, hWk]
    have := rows_after_hashX hn maxRow c.1 e he
    unfold callWrites callDels
    rw [hg]
    exact this
  · intro e he
    unfold batchStore
    rw [mem_histBatch _ _ _ _ hW]
    constructor
    · rintro (h | ⟨h, _, _⟩)
      · exfalso
        obtain ⟨c', hc', hm'⟩ := List.mem_flatMap.mp h
        apply he
        rw [callWrites_hx hm']
        exact List.mem_map.mpr ⟨c', hc', rfl⟩
      · exact h
    · intro h
      right
      refine ⟨h, ?_, ?_⟩
      · intro hm
        obtain ⟨c', hc', hm'⟩ := List.mem_flatMap.mp hm
        apply he
        rw [delsOf_hx (hrowshx c' hc') hm']
        exact List.mem_map.mpr ⟨c', hc', rfl⟩
      · intro hm
        obtain ⟨e', he', hk⟩ := List.mem_map.mp hm
        obtain ⟨c', hc', hm'⟩ := List.mem_flatMap.mp he'
        apply he
        rw [← hk, callWrites_hx hm']
        exact List.mem_map.mpr ⟨c', hc', rfl⟩

/-- **histories survive the batch**: for every hashX, compacted in this batch or not -/
theorem getTxnums_after_batch (maxRow : Nat) (hm : 0 < maxRow) (p : Store) (hn : NodupKeys p.hist)
    (calls : List Call) (lo hi : Nat) (hok : CallsOK p.hist calls lo hi) (st : HState) (hx : HashX) :
    getTxnums (batchStore maxRow p calls st) hx none = getTxnums p hx none := by
  obtain ⟨h1, h2, h3⟩ := hist_after_batch maxRow p hn calls lo hi hok st
  rw [getTxnums_eq, getTxnums_eq]
  by_cases hcm : hx ∈ calls.map (·.1)
  · obtain ⟨c, hc, rfl⟩ := List.mem_map.mp hcm
    have hr : rowsOf (batchStore maxRow p calls st).hist c.1 = newRows c.1 (chunksOf maxRow c.2) 0 := by
      apply rowsOf_char h1 _ _ (newRows_pairwise _ _ _)
      intro e
      constructor
      · intro he
        have := (newRows_bounds he).1
        exact ⟨(h2 c hc e this).mpr he, this⟩
      · rintro ⟨he, hx⟩
        exact (h2 c hc e hx).mp he
    rw [hr, newRows_flatMap]
    unfold chunksOf
    rw [chunks_flatten maxRow hm, (hok.rows c hc).1]
    rfl
  · rw [rowsOf_congr hn h1 hx]
    intro e he
    exact h3 e (by rw [he]; exact hcm)

/-! ### `_compact_history` -/

/-- the decomposition of a successful `_compact_history` call -/
theorem compactHistory_ok (maxRow limit : Nat) (s : Sys) (e : Effect) (s' : Sys)
    (hn : NodupKeys s.p.hist) (h : compactHistory maxRow limit s = .ok (e, s')) :
    ∃ (k : Nat) (cfc' : Int),
      k ≤ (65536 - s.m.compCursor).toNat ∧ (0 < k → 0 ≤ s.m.compCursor) ∧
      CallsOK s.p.hist (callsRange s.p k s.m.compCursor.toNat) s.m.compCursor.toNat (s.m.compCursor.toNat + k) ∧
      s.m.compFlush ≤ cfc' ∧
      (∀ c ∈ callsRange s.p k s.m.compCursor.toNat, ((callRows maxRow c - 1 : Nat) : Int) ≤ cfc') ∧
      (cfc' = s.m.compFlush ∨
        ∃ c ∈ callsRange s.p k s.m.compCursor.toNat, cfc' = ((callRows maxRow c - 1 : Nat) : Int)) ∧
      (∀ c ∈ callsRange s.p k s.m.compCursor.toNat, callRows maxRow c ≤ 65536) ∧
      s'.m = (flushCompaction s.m (s.m.compCursor + k) { cfc := cfc' }).2 ∧
      s'.p = batchStore maxRow s.p (callsRange s.p k s.m.compCursor.toNat) (hstateOf s'.m) ∧
      e = (flushCompaction s.m (s.m.compCursor + k)
            { writes := (callsRange s.p k s.m.compCursor.toNat).flatMap (callWrites maxRow),
              dels := (callsRange s.p k s.m.compCursor.toNat).flatMap (callDels maxRow),
              cfc := cfc' }).1 := by
  unfold compactHistory at h
  split at h
  · cases h
  · next cursor' acc' ws' hl =>
    simp only [Except.ok.injEq, Prod.mk.injEq] at h
    obtain ⟨rfl, rfl⟩ := h
    obtain ⟨k, k1, k2, k3, k4⟩ := histLoop_calls _ _ _ _ _ _ _ _ _ _ hl
    have hok := callsRange_ok s.p hn k s.m.compCursor.toNat
    have hrowshx : ∀ c ∈ callsRange s.p k s.m.compCursor.toNat, ∀ e ∈ c.2, e.1.1 = c.1 := by
      intro c hc e he
      rw [(hok.rows c hc).1] at he
      exact (mem_rowsOf.mp he).2
    obtain ⟨f1, f2, f3, f4, f5, f6⟩ := foldCalls_ok maxRow _ _ _ hok.nodup hrowshx (by simp) k4
    simp only [List.nil_append] at f1 f2
    refine ⟨k, acc'.cfc, k2, k3, hok, f3, f4, f5, f6, ?_, ?_, ?_⟩
    · subst k1; unfold flushCompaction; split <;> rfl
    · subst k1
      unfold batchStore flushCompaction
      rw [f1, f2]
      split <;> rfl
    · subst k1
      unfold flushCompaction
      rw [f1, f2]

end EV.Compact

import EV.Model.TxCodec

/-! Basic facts about the transaction codec model: slices, little-endian fields, varints, and
`read ∘ serialize = id` for every reader (core tactics only). -/
namespace EV.TxCodec

/-- core has no `DecidableEq (Except ε α)` (needed by `decide` in the examples / counterexamples) -/
instance decEqExcept {ε α : Type} [DecidableEq ε] [DecidableEq α] : DecidableEq (Except ε α)
  | .ok x, .ok y => if h : x = y then isTrue (h ▸ rfl) else isFalse (fun h' => h (Except.ok.inj h'))
  | .error x, .error y =>
    if h : x = y then isTrue (h ▸ rfl) else isFalse (fun h' => h (Except.error.inj h'))
  | .ok _, .error _ => isFalse (fun h => nomatch h)
  | .error _, .ok _ => isFalse (fun h => nomatch h)

/-! ### occurrences of a byte string in a buffer -/

/-- `s` occurs in `buf` at offset `c` -/
def At (buf : Bytes) (c : Nat) (s : Bytes) : Prop :=
  ∃ pre post, buf = pre ++ (s ++ post) ∧ pre.length = c

theorem At.intro (pre s post : Bytes) : At (pre ++ (s ++ post)) pre.length s := ⟨pre, post, rfl, rfl⟩

theorem At.left {buf : Bytes} {c : Nat} {a b : Bytes} (h : At buf c (a ++ b)) : At buf c a := by
  obtain ⟨pre, post, rfl, rfl⟩ := h
  exact ⟨pre, b ++ post, by simp, rfl⟩

theorem At.right {buf : Bytes} {c : Nat} {a b : Bytes} (h : At buf c (a ++ b)) :
    At buf (c + a.length) b := by
  obtain ⟨pre, post, rfl, rfl⟩ := h
  exact ⟨pre ++ a, post, by simp, by simp⟩

theorem At.length_le {buf : Bytes} {c : Nat} {s : Bytes} (h : At buf c s) :
    c + s.length ≤ buf.length := by
  obtain ⟨pre, post, rfl, rfl⟩ := h
  simp only [List.length_append]; omega

theorem At.slice {buf : Bytes} {c : Nat} {s : Bytes} (h : At buf c s) :
    slice buf c (c + s.length) = s := by
  obtain ⟨pre, post, rfl, rfl⟩ := h
  simp [TxCodec.slice]

theorem At.slice' {buf : Bytes} {c e : Nat} {s : Bytes} (h : At buf c s) (he : e = c + s.length) :
    TxCodec.slice buf c e = s := by subst he; exact h.slice

theorem At.head {buf : Bytes} {c x : Nat} {s : Bytes} (h : At buf c (x :: s)) : buf[c]? = some x := by
  obtain ⟨pre, post, rfl, rfl⟩ := h
  simp

theorem At.tail {buf : Bytes} {c x : Nat} {s : Bytes} (h : At buf c (x :: s)) : At buf (c + 1) s := by
  have : At buf c ([x] ++ s) := h
  exact this.right

theorem slice_length_le (buf : Bytes) (a b : Nat) : (slice buf a b).length ≤ b - a := by
  simp only [slice, List.length_take, List.length_drop]; omega

theorem slice_length (buf : Bytes) (a b : Nat) (h : b ≤ buf.length) : (slice buf a b).length = b - a := by
  simp only [slice, List.length_take, List.length_drop]; omega

/-! ### little-endian fields -/

@[simp] theorem leBytes_length (w n : Nat) : (leBytes w n).length = w := by
  induction w generalizing n with
  | zero => rfl
  | succ w ih => simp [leBytes, ih]

theorem leNat_leBytes (w n : Nat) (h : n < 256 ^ w) : leNat (leBytes w n) = n := by
  induction w generalizing n with
  | zero => simp at h; subst h; rfl
  | succ w ih =>
    have h1 : n / 256 < 256 ^ w := by
      rw [Nat.pow_succ] at h
      exact Nat.div_lt_of_lt_mul (by rw [Nat.mul_comm]; exact h)
    simp only [leBytes, leNat, ih _ h1]
    omega

theorem leBytes_leNat (bs : Bytes) (h : BytesOK bs) : leBytes bs.length (leNat bs) = bs := by
  induction bs with
  | nil => rfl
  | cons b bs ih =>
    have hb : b < 256 := h b (by simp)
    have hbs : BytesOK bs := fun x hx => h x (by simp [hx])
    simp only [List.length_cons, leBytes, leNat]
    have h1 : (b + 256 * leNat bs) % 256 = b := by omega
    have h2 : (b + 256 * leNat bs) / 256 = leNat bs := by omega
    rw [h1, h2, ih hbs]

theorem leNat_lt (bs : Bytes) (h : BytesOK bs) : leNat bs < 256 ^ bs.length := by
  induction bs with
  | nil => simp [leNat]
  | cons b bs ih =>
    have hb : b < 256 := h b (by simp)
    have hbs : BytesOK bs := fun x hx => h x (by simp [hx])
    have := ih hbs
    simp only [List.length_cons, leNat, Nat.pow_succ]
    omega

theorem readLeU_at {w : Nat} {buf : Bytes} {c n : Nat} (h : At buf c (leBytes w n)) (hn : n < 256 ^ w) :
    readLeU w buf c = .ok (n, c + w) := by
  have hl := h.length_le
  have hs := h.slice
  simp only [leBytes_length] at hl hs
  simp [readLeU, hl, hs, leNat_leBytes w n hn]

theorem natToI32_i32ToNat (v : Int) (h1 : -2147483648 ≤ v) (h2 : v < 2147483648) :
    natToI32 (i32ToNat v) = v := by
  unfold natToI32 i32ToNat; split <;> omega

theorem i32ToNat_lt (v : Int) : i32ToNat v < 256 ^ 4 := by
  unfold i32ToNat; omega

theorem natToI64_i64ToNat (v : Int) (h1 : -9223372036854775808 ≤ v) (h2 : v < 9223372036854775808) :
    natToI64 (i64ToNat v) = v := by
  unfold natToI64 i64ToNat; split <;> omega

theorem i64ToNat_lt (v : Int) : i64ToNat v < 256 ^ 8 := by
  unfold i64ToNat; omega

theorem readLeI32_at {buf : Bytes} {c : Nat} {v : Int} (h : At buf c (leBytes 4 (i32ToNat v)))
    (h1 : -2147483648 ≤ v) (h2 : v < 2147483648) : readLeI32 buf c = .ok (v, c + 4) := by
  have hl := h.length_le
  have hs := h.slice
  simp only [leBytes_length] at hl hs
  simp [readLeI32, hl, hs, leNat_leBytes 4 _ (i32ToNat_lt v), natToI32_i32ToNat v h1 h2]

theorem readLeI64_at {buf : Bytes} {c : Nat} {v : Int} (h : At buf c (leBytes 8 (i64ToNat v)))
    (h1 : -9223372036854775808 ≤ v) (h2 : v < 9223372036854775808) : readLeI64 buf c = .ok (v, c + 8) := by
  have hl := h.length_le
  have hs := h.slice
  simp only [leBytes_length] at hl hs
  simp [readLeI64, hl, hs, leNat_leBytes 8 _ (i64ToNat_lt v), natToI64_i64ToNat v h1 h2]

/-! ### varints -/

theorem packVarint_length (n : Nat) :
    (packVarint n).length = if n < 253 then 1 else if n < 65536 then 3 else if n < 4294967296 then 5 else 9 := by
  unfold packVarint; split
  · rfl
  · split
    · simp
    · split <;> simp

theorem packVarint_length_pos (n : Nat) : 1 ≤ (packVarint n).length := by
  rw [packVarint_length]; split <;> (try split) <;> (try split) <;> omega

theorem packVarint_length_le (n : Nat) : (packVarint n).length ≤ 9 := by
  rw [packVarint_length]; split <;> (try split) <;> (try split) <;> omega

theorem readVarint_at {buf : Bytes} {c n : Nat} (h : At buf c (packVarint n))
    (hn : n < 18446744073709551616) : readVarint buf c = .ok (n, c + (packVarint n).length) := by
  rw [packVarint_length n]
  unfold packVarint at h
  unfold readVarint
  split at h
  · rename_i h1; simp [h.head, h1]
  · split at h
    · rename_i h1 h2
      have := readLeU_at h.tail (by omega : n < 256 ^ 2)
      simp [h.head, this, h1, h2, Nat.add_assoc]
    · split at h
      · rename_i h1 h2 h3
        have := readLeU_at h.tail (by omega : n < 256 ^ 4)
        simp [h.head, this, h1, h2, h3, Nat.add_assoc]
      · rename_i h1 h2 h3
        have := readLeU_at h.tail (by omega : n < 256 ^ 8)
        simp [h.head, this, h1, h2, h3, Nat.add_assoc]

theorem readVarbytes_at {buf : Bytes} {c : Nat} {s : Bytes} (h : At buf c (packVarint s.length ++ s))
    (hn : s.length < 18446744073709551616) :
    readVarbytes buf c = .ok (s, c + (packVarint s.length ++ s).length) := by
  unfold readVarbytes
  rw [readVarint_at h.left hn]
  simp only [List.length_append, h.right.slice]
  simp [Nat.add_assoc]

/-! ### well-formed transactions -/

def WfIn (i : TxIn) : Prop := i.prevHash.length = 32 ∧ inRangeIn i = true
def WfOut (o : TxOut) : Prop := inRangeOut o = true

/-- every integer field fits its `struct` format and every previous-tx hash has 32 bytes -/
def WfTx (t : Tx) : Prop := inRange t = true ∧ ∀ i ∈ t.inputs, i.prevHash.length = 32

instance (t : Tx) : Decidable (WfTx t) := by unfold WfTx; infer_instance

theorem inRangeIn_iff (i : TxIn) : inRangeIn i = true ↔
    i.prevIdx < 4294967296 ∧ i.script.length < 18446744073709551616 ∧ i.sequence < 4294967296 := by
  simp [inRangeIn, and_assoc]

theorem inRangeOut_iff (o : TxOut) : inRangeOut o = true ↔
    -9223372036854775808 ≤ o.value ∧ o.value < 9223372036854775808 ∧
    o.pkScript.length < 18446744073709551616 := by
  simp [inRangeOut, and_assoc]

theorem inRange_iff (t : Tx) : inRange t = true ↔
    -2147483648 ≤ t.version ∧ t.version < 2147483648 ∧ t.inputs.length < 18446744073709551616 ∧
    (∀ i ∈ t.inputs, inRangeIn i = true) ∧ t.outputs.length < 18446744073709551616 ∧
    (∀ o ∈ t.outputs, inRangeOut o = true) ∧ t.locktime < 4294967296 := by
  simp [inRange, and_assoc]

theorem serialize_of_wf {t : Tx} (h : WfTx t) : serialize t = .ok (serializeRaw t) := by
  simp [serialize, h.1]

/-! ### read ∘ serialize -/

theorem readInput_at {buf : Bytes} {c : Nat} {i : TxIn} (h : At buf c (serIn i)) (hw : WfIn i) :
    readInput buf c = .ok (i, c + (serIn i).length) := by
  obtain ⟨h32, hr⟩ := hw
  obtain ⟨h1, h2, h3⟩ := (inRangeIn_iff i).mp hr
  unfold serIn at h
  have a1 := h.right
  have e1 := readLeU_at a1.left (by omega : i.prevIdx < 256 ^ 4)
  have a2 := a1.right
  have e2 := readVarbytes_at a2.left h2
  have a3 := a2.right
  have e3 := readLeU_at a3 (by omega : i.sequence < 256 ^ 4)
  have e0 : slice buf c (c + 32) = i.prevHash := by rw [← h32]; exact h.left.slice
  simp only [leBytes_length, h32] at e1 e2 e3
  unfold readInput
  rw [e1]; simp only []
  rw [e2]; simp only []
  rw [e3]; simp only [e0]
  simp only [serIn, List.length_append, leBytes_length, h32]
  congr 2; omega

theorem readOutput_at {buf : Bytes} {c : Nat} {o : TxOut} (h : At buf c (serOut o)) (hw : WfOut o) :
    readOutput buf c = .ok (o, c + (serOut o).length) := by
  obtain ⟨h1, h2, h3⟩ := (inRangeOut_iff o).mp hw
  unfold serOut at h
  have e1 := readLeI64_at h.left h1 h2
  have e2 := readVarbytes_at h.right h3
  simp only [leBytes_length] at e2
  unfold readOutput
  rw [e1]; simp only []
  rw [e2]; simp only []
  simp only [serOut, List.length_append, leBytes_length]
  congr 2; omega

theorem readItems_at {α : Type} {reader : Bytes → Nat → Except PyExc (α × Nat)} {ser : α → Bytes}
    {Wf : α → Prop}
    (hr : ∀ buf c x, At buf c (ser x) → Wf x → reader buf c = .ok (x, c + (ser x).length))
    {buf : Bytes} (xs : List α) {c : Nat} (h : At buf c (xs.map ser).flatten) (hw : ∀ x ∈ xs, Wf x) :
    readItems reader buf xs.length c = .ok (xs, c + (xs.map ser).flatten.length) := by
  induction xs generalizing c with
  | nil => simp [readItems]
  | cons x xs ih =>
    simp only [List.map_cons, List.flatten_cons] at h
    have e1 := hr buf c x h.left (hw x (by simp))
    have e2 := ih h.right (fun y hy => hw y (by simp [hy]))
    simp only [List.length_cons, readItems, e1, e2, List.map_cons, List.flatten_cons, List.length_append]
    congr 2; omega

theorem readMany_at {α : Type} {reader : Bytes → Nat → Except PyExc (α × Nat)} {ser : α → Bytes}
    {Wf : α → Prop}
    (hr : ∀ buf c x, At buf c (ser x) → Wf x → reader buf c = .ok (x, c + (ser x).length))
    {buf : Bytes} (xs : List α) {c : Nat} (h : At buf c (packVarint xs.length ++ (xs.map ser).flatten))
    (hn : xs.length < 18446744073709551616) (hw : ∀ x ∈ xs, Wf x) :
    readMany reader buf c = .ok (xs, c + (packVarint xs.length ++ (xs.map ser).flatten).length) := by
  unfold readMany
  rw [readVarint_at h.left hn]
  simp only [readItems_at hr xs h.right hw, List.length_append]
  congr 2; omega

theorem readTx_at {buf : Bytes} {c : Nat} {t : Tx} (h : At buf c (serializeRaw t)) (hw : WfTx t) :
    readTx buf c = .ok (t, c + (serializeRaw t).length) := by
  obtain ⟨hr, h32⟩ := hw
  obtain ⟨v1, v2, hin, hins, hon, houts, hlt⟩ := (inRange_iff t).mp hr
  unfold serializeRaw at h
  have e1 := readLeI32_at h.left v1 v2
  have a1 := h.right
  have e2 := readMany_at (Wf := WfIn) (fun _ _ _ => readInput_at) t.inputs
    (by have := a1.left; rw [← List.append_assoc] at a1; exact a1.left) hin
    (fun i hi => ⟨h32 i hi, hins i hi⟩)
  have a2 : At buf (c + (leBytes 4 (i32ToNat t.version)).length +
      (packVarint t.inputs.length ++ (t.inputs.map serIn).flatten).length)
      (packVarint t.outputs.length ++ ((t.outputs.map serOut).flatten ++ leBytes 4 t.locktime)) := by
    rw [← List.append_assoc] at a1; exact a1.right
  have e3 := readMany_at (Wf := WfOut) (fun _ _ _ => readOutput_at) t.outputs
    (by rw [← List.append_assoc] at a2; exact a2.left) hon houts
  have a3 : At buf (c + (leBytes 4 (i32ToNat t.version)).length +
      (packVarint t.inputs.length ++ (t.inputs.map serIn).flatten).length +
      (packVarint t.outputs.length ++ (t.outputs.map serOut).flatten).length)
      (leBytes 4 t.locktime) := by
    rw [← List.append_assoc] at a2; exact a2.right
  have e4 := readLeU_at a3 (by omega : t.locktime < 256 ^ 4)
  simp only [leBytes_length] at e2 e3 e4
  unfold readTx
  rw [e1]; simp only []
  rw [e2]; simp only []
  rw [e3]; simp only []
  rw [e4]; simp only []
  simp only [serializeRaw, List.length_append, leBytes_length]
  congr 2; omega

end EV.TxCodec

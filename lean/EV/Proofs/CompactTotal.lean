import EV.Proofs.CompactRun

/-!
Totality and progress: on a table without empty rows whose hashXs need at most 65536 rows each, a
`_compact_history` call does not raise (so the batch theorems are not vacuous), every batch with a
positive limit advances the cursor, and the driver loop reaches the end.  Core only.
-/
namespace EV.Compact
open EV.Index

/-! ### number of chunks -/

theorem chunksAux_length (n : Nat) (hn : 0 < n) (fuel : Nat) (l : List Nat) (hf : l.length ≤ fuel) :
    (chunksAux n fuel l).length = (l.length + n - 1) / n := by
  induction fuel generalizing l with
  | zero =>
    have : l = [] := List.length_eq_zero_iff.mp (by omega)
    subst this
    simp only [chunksAux, List.length_nil, Nat.zero_add]
    exact (Nat.div_eq_of_lt (by omega)).symm
  | succ f ih =>
    unfold chunksAux
    split
    · next h =>
      simp at h; subst h
      simp only [List.length_nil, Nat.zero_add]
      exact (Nat.div_eq_of_lt (by omega)).symm
    · next h =>
      have hl : 0 < l.length := by
        cases l with
        | nil => simp at h
        | cons a r => simp
      rw [List.length_cons, ih (l.drop n) (by simp only [List.length_drop]; omega), List.length_drop]
      have e1 : l.length + n - 1 = (l.length - 1) + n := by omega
      rw [e1, Nat.add_div_right _ hn]
      by_cases hge : n ≤ l.length
      · have e2 : l.length - n + n - 1 = l.length - 1 := by omega
        rw [e2]
      · have e2 : l.length - n + n - 1 = n - 1 := by omega
        rw [e2, Nat.div_eq_of_lt (by omega), Nat.div_eq_of_lt (by omega)]

/-- `len(list(util.chunks(l, n))) = ceil(len(l) / n)` -/
theorem chunks_length (n : Nat) (hn : 0 < n) (l : List Nat) : (chunks n l).length = (l.length + n - 1) / n :=
  chunksAux_length n hn _ l (Nat.le_refl _)

/-- the byte-level formula of `_compact_hashX` is the entry-level one -/
theorem nrowsOf_eq (maxRow : Nat) (rows : List Row) :
    nrowsOf maxRow rows = ((fullHist rows).length + maxRow - 1) / maxRow := by
  unfold nrowsOf
  rw [← Nat.div_div_eq_div_mul]
  congr 1
  omega

/-! ### no exception -/

theorem chunkLoop_total (hx : HashX) (M : List Row) (cs : List (List Nat)) (n : Nat) (acc : CAcc) (ws : Nat)
    (h : n + cs.length ≤ 65536) : ∃ r, chunkLoop hx M cs n acc ws = .ok r := by
  induction cs generalizing n acc ws with
  | nil => exact ⟨_, rfl⟩
  | cons c cs ih =>
    simp only [List.length_cons] at h
    simp only [chunkLoop]
    rw [if_neg (by omega)]
    split
    · exact ih _ _ _ (by omega)
    · exact ih _ _ _ (by omega)

/-- `_compact_hashX` returns when the hashX has at least one entry and needs at most 65536 rows -/
theorem compactHashX_total (maxRow : Nat) (hm : 0 < maxRow) (hx : HashX) (rows : List Row) (acc : CAcc)
    (hne : fullHist rows ≠ []) (hw : (chunksOf maxRow rows).length ≤ 65536) :
    ∃ r, compactHashX maxRow hx rows acc = .ok r := by
  unfold compactHashX
  unfold chunksOf at hw
  obtain ⟨r, hr⟩ := chunkLoop_total hx rows (chunks maxRow (fullHist rows)) 0
    { acc with dels := acc.dels ++ rows.map (·.1) } 0 (by omega)
  rw [hr]
  have hlen := chunks_length maxRow hm (fullHist rows)
  have hpos : 0 < (fullHist rows).length := by
    cases hf : fullHist rows with
    | nil => exact absurd hf hne
    | cons a r => simp
  have h1 : 1 ≤ (chunks maxRow (fullHist rows)).length := by
    rw [hlen]
    exact Nat.div_pos (by omega) hm
  simp only
  rw [if_neg]
  · exact ⟨_, rfl⟩
  · rw [nrowsOf_eq, ← hlen]
    intro hc; apply hc; omega

/-- every row has at least one entry (`History.flush` and `History.backup` never write an empty row) -/
def NoEmptyRows (hist : List Row) : Prop := ∀ e ∈ hist, e.2 ≠ []

/-- no hashX needs more than 65536 rows (else `pack_be_uint16` raises in `_compact_hashX`) -/
def RowCountOK (maxRow : Nat) (p : Store) : Prop := ∀ hx, nchunks maxRow p hx ≤ 65536

/-- every `_compact_hashX` call of a scan succeeds -/
def CallsTotal (maxRow : Nat) (calls : List Call) : Prop :=
  ∀ c ∈ calls, ∀ acc, ∃ r, compactHashX maxRow c.1 c.2 acc = .ok r

theorem prefixLoop_total (maxRow : Nat) (items : List ScanItem) (prior : Option HashX) (pend : List Row)
    (acc : CAcc) (ws : Nat) (h : CallsTotal maxRow (callsP items prior pend)) :
    ∃ r, prefixLoop maxRow items prior pend acc ws = .ok r := by
  induction items generalizing prior pend acc ws with
  | nil =>
    cases prior with
    | none => exact ⟨_, rfl⟩
    | some hx =>
      simp only [prefixLoop]
      obtain ⟨r, hr⟩ := h (hx, pend) (by simp [callsP]) acc
      rw [hr]; exact ⟨_, rfl⟩
  | cons it rest ih =>
    cases it with
    | other => simp only [prefixLoop]; exact ih _ _ _ _ (by simpa [callsP] using h)
    | row r =>
      cases prior with
      | none => simp only [prefixLoop]; exact ih _ _ _ _ (by simpa [callsP] using h)
      | some hx =>
        simp only [prefixLoop]
        by_cases hne : r.1.1 ≠ hx
        · rw [if_pos hne]
          have hc : callsP (ScanItem.row r :: rest) (some hx) pend = (hx, pend) :: callsP rest (some r.1.1) [r] := by
            simp only [callsP]; rw [if_pos hne]
          rw [hc] at h
          obtain ⟨r', hr'⟩ := h (hx, pend) List.mem_cons_self acc
          rw [hr']
          exact ih _ _ _ _ (fun c hc => h c (List.mem_cons_of_mem _ hc))
        · rw [if_neg hne]
          have hc : callsP (ScanItem.row r :: rest) (some hx) pend = callsP rest (some r.1.1) (pend ++ [r]) := by
            simp only [callsP]; rw [if_neg hne]
          rw [hc] at h
          exact ih _ _ _ _ h

theorem histLoop_total (maxRow limit : Nat) (p : Store) (fuel : Nat) (cursor : Int) (acc : CAcc) (ws : Nat)
    (hc : 0 ≤ cursor ∨ limit = 0)
    (h : ∀ c : Nat, CallsTotal maxRow (callsP (scanPrefix p c) none [])) :
    ∃ r, histLoop maxRow limit p fuel cursor acc ws = .ok r := by
  induction fuel generalizing cursor acc ws with
  | zero => exact ⟨_, rfl⟩
  | succ f ih =>
    simp only [histLoop]
    split
    · next hcond =>
      have h0 : 0 ≤ cursor := by
        rcases hc with hc | hc
        · exact hc
        · omega
      rw [if_neg (by omega)]
      obtain ⟨r, hr⟩ := prefixLoop_total maxRow (scanPrefix p cursor.toNat) none [] acc 0 (h cursor.toNat)
      unfold compactPrefix
      rw [hr]
      exact ih _ _ _ (Or.inl (by omega))
    · exact ⟨_, rfl⟩

theorem fullHist_ne_nil {rows : List Row} (hne : rows ≠ []) (he : ∀ e ∈ rows, e.2 ≠ []) : fullHist rows ≠ [] := by
  cases rows with
  | nil => exact absurd rfl hne
  | cons a r =>
    unfold fullHist
    simp only [List.flatMap_cons, ne_eq, List.append_eq_nil_iff, not_and]
    intro h; exact absurd h (he a List.mem_cons_self)

theorem callsTotal_scan (maxRow : Nat) (hm : 0 < maxRow) (p : Store) (hn : NodupKeys p.hist)
    (he : NoEmptyRows p.hist) (hw : RowCountOK maxRow p) (c : Nat) :
    CallsTotal maxRow (callsP (scanPrefix p c) none []) := by
  intro cl hcl acc
  obtain ⟨r1, r2, _, _⟩ := (callsP_ok p hn c).rows cl hcl
  apply compactHashX_total maxRow hm
  · apply fullHist_ne_nil r2
    intro e hee
    rw [r1] at hee
    exact he e (mem_rowsOf.mp hee).1
  · have := hw cl.1
    rw [← callRows_eq_nchunks maxRow p cl r1] at this
    exact this

/-- **a batch does not raise**: on a table without empty rows and with at most 65536 rows per hashX,
    `_compact_history(limit)` returns (given a compaction cursor, or a limit of 0) -/
theorem compactHistory_total (maxRow limit : Nat) (hm : 0 < maxRow) (s : Sys) (hn : NodupKeys s.p.hist)
    (he : NoEmptyRows s.p.hist) (hw : RowCountOK maxRow s.p) (hc : 0 ≤ s.m.compCursor ∨ limit = 0) :
    ∃ e s', compactHistory maxRow limit s = .ok (e, s') := by
  unfold compactHistory
  obtain ⟨r, hr⟩ := histLoop_total maxRow limit s.p (65536 - s.m.compCursor).toNat s.m.compCursor
    { cfc := s.m.compFlush } 0 hc (callsTotal_scan maxRow hm s.p hn he hw)
  rw [hr]
  exact ⟨_, _, rfl⟩

/-! ### the hypotheses of totality survive a batch -/

theorem noEmptyRows_batch (maxRow limit : Nat) (hm : 0 < maxRow) (s : Sys) (e : Effect) (s' : Sys)
    (hn : NodupKeys s.p.hist) (he : NoEmptyRows s.p.hist)
    (h : compactHistory maxRow limit s = .ok (e, s')) : NoEmptyRows s'.p.hist := by
  obtain ⟨k, cfc', _, _, hok, _, _, _, _, _, hp, _⟩ := compactHistory_ok maxRow limit s e s' hn h
  obtain ⟨_, hA, hB⟩ := hist_after_batch maxRow s.p hn _ _ _ hok (hstateOf s'.m)
  rw [← hp] at hA hB
  intro r hr
  by_cases hc : r.1.1 ∈ (callsRange s.p k s.m.compCursor.toNat).map (·.1)
  · obtain ⟨c, hc, hce⟩ := List.mem_map.mp hc
    have := (hA c hc r hce.symm).mp hr
    obtain ⟨ch, i, hci, rfl⟩ := mem_newRows.mp this
    have hmem : ch ∈ chunksOf maxRow c.2 := by
      have := List.mem_zipIdx_iff_getElem?.mp hci
      exact List.mem_of_getElem? this
    exact chunks_ne_nil maxRow hm _ ch hmem
  · exact he r ((hB r hc).mp hr)

theorem rowCountOK_congr {maxRow : Nat} {p p' : Store}
    (h : ∀ hx, getTxnums p' hx none = getTxnums p hx none) (hw : RowCountOK maxRow p) : RowCountOK maxRow p' := by
  intro hx; rw [nchunks_congr h]; exact hw hx

/-! ### progress and completion -/

theorem histLoop_progress (maxRow limit : Nat) (p : Store) (fuel : Nat) (cursor : Int) (acc : CAcc) (ws : Nat)
    (cursor' : Int) (acc' : CAcc) (ws' : Nat)
    (h : histLoop maxRow limit p (fuel + 1) cursor acc ws = .ok (cursor', acc', ws'))
    (h1 : ws < limit) (h2 : cursor < 65536) : cursor < cursor' := by
  simp only [histLoop] at h
  rw [if_pos ⟨h1, h2⟩] at h
  split at h
  · cases h
  · cases hp : compactPrefix maxRow p cursor.toNat acc with
    | error e => rw [hp] at h; cases h
    | ok r =>
      rw [hp] at h
      obtain ⟨k, hk, _⟩ := histLoop_calls _ _ _ _ _ _ _ _ _ _ h
      omega

/-- a batch with a positive limit either finishes the compaction or moves the cursor forward;
    the cursor stays in `0 … 65535` until then -/
theorem compactHistory_progress (maxRow limit : Nat) (hl : 0 < limit) (s : Sys) (e : Effect) (s' : Sys)
    (h0 : 0 ≤ s.m.compCursor) (h1 : s.m.compCursor < 65536)
    (h : compactHistory maxRow limit s = .ok (e, s')) :
    s'.m.compCursor = -1 ∨ (s.m.compCursor < s'.m.compCursor ∧ s'.m.compCursor < 65536) := by
  unfold compactHistory at h
  split at h
  · cases h
  · next cursor' acc' ws' hloop =>
    simp only [Except.ok.injEq, Prod.mk.injEq] at h
    obtain ⟨_, rfl⟩ := h
    obtain ⟨k, hk, hk2, _⟩ := histLoop_calls _ _ _ _ _ _ _ _ _ _ hloop
    have hfuel : (65536 - s.m.compCursor).toNat = ((65536 - s.m.compCursor).toNat - 1) + 1 := by omega
    rw [hfuel] at hloop
    have hp := histLoop_progress _ _ _ _ _ _ _ _ _ _ hloop hl h1
    by_cases hfin : cursor' = 65536
    · left; simp only [flushCompaction]; rw [if_pos hfin]
    · right; simp only [flushCompaction]; rw [if_neg hfin]
      simp only
      omega

/-- what totality needs of the system -/
structure TInv (maxRow : Nat) (s : Sys) : Prop where
  nodup : NodupKeys s.p.hist
  noEmpty : NoEmptyRows s.p.hist
  rowCount : RowCountOK maxRow s.p

theorem tinv_batch (maxRow limit : Nat) (hm : 0 < maxRow) (s : Sys) (e : Effect) (s' : Sys)
    (hT : TInv maxRow s) (h : compactHistory maxRow limit s = .ok (e, s')) : TInv maxRow s' := by
  have h1 := (batch_inv_lite maxRow limit hm s e s' hT.nodup h)
  exact ⟨h1.2, noEmptyRows_batch maxRow limit hm s e s' hT.nodup hT.noEmpty h,
    rowCountOK_congr h1.1 hT.rowCount⟩
where
  batch_inv_lite (maxRow limit : Nat) (hm : 0 < maxRow) (s : Sys) (e : Effect) (s' : Sys)
      (hn : NodupKeys s.p.hist) (h : compactHistory maxRow limit s = .ok (e, s')) :
      (∀ hx, getTxnums s'.p hx none = getTxnums s.p hx none) ∧ NodupKeys s'.p.hist := by
    obtain ⟨k, cfc', _, _, hok, _, _, _, _, _, hp, _⟩ := compactHistory_ok maxRow limit s e s' hn h
    refine ⟨fun hx => ?_, ?_⟩
    · rw [hp]; exact getTxnums_after_batch maxRow hm s.p hn _ _ _ hok _ hx
    · rw [hp]; exact (hist_after_batch maxRow s.p hn _ _ _ hok _).1

/-- **the driver loop ends**: with positive limits and enough iterations (65536 minus the cursor
    suffice: every batch handles at least one prefix) the loop condition becomes false -/
theorem driverLoop_completes (maxRow : Nat) (hm : 0 < maxRow) (limits : List Nat) (s : Sys)
    (hT : TInv maxRow s) (hl : ∀ l ∈ limits, 0 < l)
    (hc : s.m.compCursor = -1 ∨
      (0 ≤ s.m.compCursor ∧ s.m.compCursor < 65536 ∧ 65536 - s.m.compCursor ≤ limits.length)) :
    (driverLoop maxRow limits s).2 = true ∧ (driverLoop maxRow limits s).1.m.compCursor = -1 := by
  induction limits generalizing s with
  | nil =>
    rcases hc with hc | ⟨_, _, hc⟩
    · rw [driverLoop_done maxRow [] s hc]; exact ⟨rfl, hc⟩
    · simp only [List.length_nil] at hc; omega
  | cons limit rest ih =>
    rcases hc with hc | ⟨c0, c1, c2⟩
    · rw [driverLoop_done maxRow _ s hc]; exact ⟨rfl, hc⟩
    · have hne : s.m.compCursor ≠ -1 := by omega
      obtain ⟨e, s', hb⟩ := compactHistory_total maxRow limit hm s hT.nodup hT.noEmpty hT.rowCount (Or.inl c0)
      have hstep : driverLoop maxRow (limit :: rest) s = driverLoop maxRow rest s' := by
        simp only [driverLoop]; rw [if_neg hne, hb]
      rw [hstep]
      have hT' := tinv_batch maxRow limit hm s e s' hT hb
      apply ih s' hT' (fun l hl' => hl l (List.mem_cons_of_mem _ hl'))
      rcases compactHistory_progress maxRow limit (hl limit List.mem_cons_self) s e s' c0 c1 hb with hp | ⟨hp1, hp2⟩
      · exact Or.inl hp
      · right
        simp only [List.length_cons] at c2
        exact ⟨by omega, hp2, by omega⟩

/-- **the script runs to the end in one go**: positive limits, at least 65536 iterations allowed,
    nothing raises: afterwards no compaction is in progress on disk and both flush counts agree -/
theorem compactScript_completes (cfg : Cfg) (maxRow : Nat) (hm : 0 < maxRow) (p : Store) (limits : List Nat)
    (hP : PInv maxRow p) (he : NoEmptyRows p.hist) (hw : RowCountOK maxRow p)
    (hcur : (hsOf p).compCursor = -1 ∨ (0 ≤ (hsOf p).compCursor ∧ (hsOf p).compCursor < 65536))
    (hl : ∀ l ∈ limits, 0 < l) (hlen : 65536 ≤ limits.length)
    (es : List Effect) (s : Sys) (ho : openDbs cfg p true none = some (es, s))
    (hfs : s.m.dbst.firstSync = false) :
    (hsOf (compactScript cfg maxRow p limits true)).compCursor = -1 ∧
    uF (compactScript cfg maxRow p limits true) = hF (compactScript cfg maxRow p limits true) := by
  obtain ⟨o1, o2, o3, o4, o5, o6, o7⟩ := openDbs_spec cfg p true none es s hP.notAhead ho
  simp only [if_true] at o6 o7
  unfold compactScript
  rw [ho]
  simp only
  rw [if_neg (by rw [hfs]; simp)]
  have hI := sinv_driverInit maxRow p s hP o1 o4 o6 o7
  have hF0 : hF ({ s with m := driverInit s.m } : Sys).p = ({ s with m := driverInit s.m } : Sys).m.histFlush := by
    show hF s.p = s.m.histFlush
    rw [o4]; unfold hF hsOf; rw [o2]
  have hT : TInv maxRow ({ s with m := driverInit s.m } : Sys) := by
    refine ⟨?_, ?_, ?_⟩
    · show NodupKeys s.p.hist; rw [o1]; exact hP.nodup
    · show NoEmptyRows s.p.hist; rw [o1]; exact he
    · show RowCountOK maxRow s.p
      exact rowCountOK_congr (fun hx => getTxnums_hist_congr o1 hx) hw
  have hc0 : ({ s with m := driverInit s.m } : Sys).m.compCursor =
      (if (hsOf p).compCursor = -1 then 0 else (hsOf p).compCursor) := by
    show (if s.m.compCursor = -1 then 0 else s.m.compCursor) = _
    rw [o7]
  have hcur0 : ({ s with m := driverInit s.m } : Sys).m.compCursor = -1 ∨
      (0 ≤ ({ s with m := driverInit s.m } : Sys).m.compCursor ∧
        ({ s with m := driverInit s.m } : Sys).m.compCursor < 65536 ∧
        65536 - ({ s with m := driverInit s.m } : Sys).m.compCursor ≤ limits.length) := by
    right
    rw [hc0]
    rcases hcur with h | ⟨h1, h2⟩
    · rw [if_pos h]; omega
    · rw [if_neg (by omega)]; omega
  have hne0 : ({ s with m := driverInit s.m } : Sys).m.compCursor ≠ -1 := by
    rw [hc0]
    rcases hcur with h | ⟨h1, h2⟩
    · rw [if_pos h]; omega
    · rw [if_neg (by omega)]; omega
  obtain ⟨c1, c2⟩ := driverLoop_completes maxRow hm limits _ hT hl hcur0
  obtain ⟨_, _, _, _, d5, _, d7, _⟩ := driverLoop_inv maxRow hm limits _ hI hF0
  generalize driverLoop maxRow limits { s with m := driverInit s.m } = r at *
  obtain ⟨s', fin⟩ := r
  simp only at c1 c2 d5 d7
  subst c1
  simp only [if_true]
  have e2 : (applyEffect s'.p (setFlushCountEffect s')).hstate = s'.p.hstate := rfl
  have e3 : uF (applyEffect s'.p (setFlushCountEffect s')) = s'.m.histFlush := rfl
  have hs : hsOf (applyEffect s'.p (setFlushCountEffect s')) = hsOf s'.p := by unfold hsOf; rw [e2]
  have hf : hF (applyEffect s'.p (setFlushCountEffect s')) = hF s'.p := by unfold hF; rw [hs]
  rcases d7 with d7 | d7
  · rw [d7] at c2; exact absurd c2 hne0
  · have hs' : hsOf s'.p = hstateOf s'.m := by unfold hsOf; rw [d7]; rfl
    exact ⟨by rw [hs, hs']; exact c2, by rw [e3, hf, d5]⟩

end EV.Compact

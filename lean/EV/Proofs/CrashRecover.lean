import EV.Proofs.CrashFlush

/-!
# Crash layer, part 3: the flush theorems assembled; recovery is idempotent

`recover cfg p = openDbs cfg p false none`; `(recover cfg p).map (·.2)` is the restarted system
(persistent store and fresh memory) without the list of effects that recovery performed.
-/
namespace EV.Index

/-! ### the three kinds of cut of a flush -/

theorem cut_before_utxo_batch (cfg : Cfg) {s : Sys} {fu : Bool} {es : List Effect} {m' : Mem}
    (hpre : FlushPre s) (hf : flushDbs s fu = some (es, m'))
    {c : List Effect} (hc : c ∈ cuts es) (hnu : ∀ e ∈ c, e.isUtxoBatch = false) :
    RecoversSame cfg s.p (applyEffects s.p c) := by
  rcases flushDbs_effects hf with rfl | rfl | ⟨_, rfl⟩
  · simp only [cuts, List.mem_singleton] at hc
    subst hc
    exact recoversSame_of_filesEq cfg (FilesEq.refl _)
  · exact recoversSame_of_cut_head cfg hpre hc
  · rcases mem_cuts_append hc with h1 | ⟨c', hc', rfl⟩
    · exact recoversSame_of_cut_head cfg hpre h1
    · rw [cuts_atomic2 _ _ (by rfl) (by rfl)] at hc'
      simp only [List.mem_cons, List.not_mem_nil, or_false] at hc'
      rcases hc' with rfl | rfl | rfl
      · rw [List.append_nil]
        exact recoversSame_of_cut_head cfg hpre (self_mem_cuts _)
      · have := hnu (utxoBatchEffect s { s.m.st with flushCount := s.m.histFlush + 1 }) (by simp)
        simp [utxoBatchEffect, Effect.isUtxoBatch] at this
      · have := hnu (utxoBatchEffect s { s.m.st with flushCount := s.m.histFlush + 1 }) (by simp)
        simp [utxoBatchEffect, Effect.isUtxoBatch] at this

theorem cut_after_utxo_batch {s : Sys} {fu : Bool} {es : List Effect} {m' : Mem}
    (hf : flushDbs s fu = some (es, m'))
    {c : List Effect} (hc : c ∈ cuts es) (hu : ∃ e ∈ c, e.isUtxoBatch = true) :
    applyEffects s.p c = applyEffects s.p es := by
  obtain ⟨e, he, heu⟩ := hu
  rcases flushDbs_effects hf with rfl | rfl | ⟨_, rfl⟩
  · simp only [cuts, List.mem_singleton] at hc
    subst hc
    simp at he
  · have := no_utxoBatch_in_cut (flushHead_no_utxoBatch s) hc e he
    simp [this] at heu
  · rcases mem_cuts_append hc with h1 | ⟨c', hc', rfl⟩
    · have := no_utxoBatch_in_cut (flushHead_no_utxoBatch s) h1 e he
      simp [this] at heu
    · rw [cuts_atomic2 _ _ (by rfl) (by rfl)] at hc'
      simp only [List.mem_cons, List.not_mem_nil, or_false] at hc'
      rcases hc' with rfl | rfl | rfl
      · rw [List.append_nil] at he
        have := flushHead_no_utxoBatch s e he
        simp [this] at heu
      · rw [applyEffects_append, applyEffects_append]
        simp only [applyEffects, List.foldl_cons, List.foldl_nil, utxoBatchEffect]
        rw [putUState_idem]
      · rfl

/-! ### restarting twice -/

/-- the restarted system is a function of `openStore` and `openState` -/
theorem recover_congr (cfg : Cfg) {x y : Store} (h1 : openStore cfg x = openStore cfg y)
    (h2 : openState x false = openState y false) :
    (recover cfg x).map (·.2) = (recover cfg y).map (·.2) := by
  simp only [recover, openDbs, h1, h2]
  cases openTxCounts (openStore cfg y) (openState y false).1 none <;> rfl

theorem openStore1_idem (p : Store) : openStore1 (openStore1 p) = openStore1 p := by
  by_cases h : (p.hstate.getD {}).flushCount ≤ (p.ustate.getD {}).flushCount
  · rw [openStore1_of_le h, openStore1_of_le h]
  · have hgt : (p.ustate.getD {}).flushCount < (p.hstate.getD {}).flushCount := by omega
    have e := openStore1_of_gt hgt
    have hle' : ((openStore1 p).hstate.getD {}).flushCount ≤ ((openStore1 p).ustate.getD {}).flushCount := by
      rw [e]; simp
    exact openStore1_of_le hle'

theorem openState_openStore1 (p : Store) : openState (openStore1 p) false = openState p false := by
  by_cases h : (p.hstate.getD {}).flushCount ≤ (p.ustate.getD {}).flushCount
  · rw [openStore1_of_le h]
  · rw [openStore1_of_gt (by omega)]
    simp only [openState, openHistState_eq, h, if_false, Bool.false_eq_true]
    simp

theorem clearUndoKeys_undoAfterOpen (undo : List (Nat × List CacheVal)) (minH : Int) :
    clearUndoKeys (undoAfterOpen undo minH) minH = [] := by
  apply List.eq_nil_iff_forall_not_mem.mpr
  intro k hk
  rw [mem_clearUndoKeys, undoAfterOpen, keys_foldl_aerase, mem_clearUndoKeys] at hk
  exact hk.1.2 ⟨hk.1.1, hk.2⟩

theorem undoAfterOpen_idem (undo : List (Nat × List CacheVal)) (minH : Int) :
    undoAfterOpen (undoAfterOpen undo minH) minH = undoAfterOpen undo minH := by
  show (clearUndoKeys (undoAfterOpen undo minH) minH).foldl _ (undoAfterOpen undo minH) = _
  rw [clearUndoKeys_undoAfterOpen]
  rfl

/-- dying after `clear_excess` and restarting -/
theorem openStore_openStore1 (cfg : Cfg) (p : Store) :
    openStore cfg (openStore1 p) = openStore cfg p := by
  have h := openStore1_rest p
  rw [openStore_eq, openStore_eq, openStore1_idem, h.2.2.1, h.2.2.2.1]

/-- restarting after a complete recovery changes nothing -/
theorem openStore_idem (cfg : Cfg) (p : Store) : openStore cfg (openStore cfg p) = openStore cfg p := by
  have h := openStore1_rest p
  have hle : ((openStore1 p).hstate.getD {}).flushCount ≤ ((openStore1 p).ustate.getD {}).flushCount := by
    by_cases h' : (p.hstate.getD {}).flushCount ≤ (p.ustate.getD {}).flushCount
    · rw [openStore1_of_le h']; exact h'
    · rw [openStore1_of_gt (by omega)]; simp
  rw [openStore_eq cfg (openStore cfg p)]
  have h1 : openStore1 (openStore cfg p) = openStore cfg p := by
    apply openStore1_of_le
    rw [openStore_eq]
    exact hle
  rw [h1]
  rw [openStore_eq]
  simp only [h.2.2.2.1, undoAfterOpen_idem]

theorem openState_openStore (cfg : Cfg) (p : Store) :
    openState (openStore cfg p) false = openState p false := by
  rw [← openState_openStore1 p, openStore_eq]
  simp only [openState, openHistState_eq]

/-- `_open_dbs`'s own effects: `clear_excess`'s batch, then `clear_excess_undo_info`'s batch -/
theorem recover_effects {cfg : Cfg} {p : Store} {es : List Effect} {r : Sys}
    (h : recover cfg p = some (es, r)) :
    es = (clearExcessEffect p (p.hstate.getD {}) (p.ustate.getD {}).flushCount).toList ++
           openUndoEffects cfg (openStore1 p) (p.ustate.getD {}).height ∧
    r.p = openStore cfg p := by
  unfold recover openDbs at h
  split at h
  · simp at h
  · simp only [Option.some.injEq, Prod.mk.injEq] at h
    exact ⟨h.1.symm, by rw [← h.2]⟩

/-- the stores a crash inside recovery can leave: untouched, after `clear_excess`, complete -/
theorem recover_cut_stores (cfg : Cfg) (p : Store) {c : List Effect}
    (hc : c ∈ cuts ((clearExcessEffect p (p.hstate.getD {}) (p.ustate.getD {}).flushCount).toList ++
           openUndoEffects cfg (openStore1 p) (p.ustate.getD {}).height)) :
    applyEffects p c = p ∨ applyEffects p c = openStore1 p ∨ applyEffects p c = openStore cfg p := by
  rcases mem_cuts_append hc with h1 | ⟨c', hc', rfl⟩
  · cases hce : clearExcessEffect p (p.hstate.getD {}) (p.ustate.getD {}).flushCount with
    | none =>
      rw [hce] at h1
      simp only [Option.toList_none, cuts, List.mem_singleton] at h1
      subst h1
      exact Or.inl rfl
    | some e =>
      rw [hce] at h1
      have hat : tornPrefixes e = [] := by
        unfold clearExcessEffect at hce
        split at hce
        · simp at hce
        · simp only [Option.some.injEq] at hce
          subst hce
          rfl
      rw [Option.toList_some, cuts_singleton_atomic e hat] at h1
      simp only [List.mem_cons, List.not_mem_nil, or_false] at h1
      rcases h1 with rfl | rfl
      · exact Or.inl rfl
      · exact Or.inr (Or.inl (by rw [openStore1, hce, Option.toList_some]))
  · rw [applyEffects_append]
    have h0 : applyEffects p (clearExcessEffect p (p.hstate.getD {}) (p.ustate.getD {}).flushCount).toList =
        openStore1 p := rfl
    rw [h0]
    unfold openUndoEffects at hc'
    split at hc'
    · simp only [cuts, List.mem_singleton] at hc'
      subst hc'
      exact Or.inr (Or.inl rfl)
    · rw [cuts_singleton_atomic _ (by rfl)] at hc'
      simp only [List.mem_cons, List.not_mem_nil, or_false] at hc'
      rcases hc' with rfl | rfl
      · exact Or.inr (Or.inl rfl)
      · refine Or.inr (Or.inr ?_)
        unfold openStore openUndoEffects
        simp only [*, if_false, Bool.false_eq_true]

end EV.Index

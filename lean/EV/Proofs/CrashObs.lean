import EV.Proofs.CrashFlush

/-!
# Crash layer, part 4: same committed index ⇒ same answers

If two restarted systems have the same memory, the same tables, and files that agree up to the
committed height / tx count, every function of the read path gives the same answer on both: the
read path never looks beyond the committed lengths (`fs_tx_hash` returns no hash above
`DB.state.height`; `bisect_right` on a non-decreasing `tx_counts` bounds the tx number).
-/
namespace EV.Index

/-- every answer of the read path (and the state it reports) -/
structure ObsEq (a b : Sys) : Prop where
  state : b.m.dbst = a.m.dbst
  fsTxHash : ∀ n, fsTxHash b n = fsTxHash a n
  utxos : ∀ hx, allUtxos b hx = allUtxos a hx
  hist : ∀ hx limit, limitedHistory b hx limit = limitedHistory a hx limit
  lookup : ∀ txid idx, lookupUtxo b txid idx = lookupUtxo a txid idx
  txHashes : ∀ height, txHashesAt b height = txHashesAt a height
  headers : ∀ start count, readHeaders b start count = readHeaders a start count

/-! ### list facts -/

theorem le_getLast_of_pairwise {c : Nat} {cs : List Nat} (h : (c :: cs).Pairwise (· ≤ ·)) :
    c ≤ (c :: cs).getLast?.getD 0 := by
  cases cs with
  | nil => simp
  | cons d ds =>
    have hmem : (c :: d :: ds).getLast?.getD 0 ∈ d :: ds := by
      rw [List.getLast?_cons_cons]
      have := List.getLast?_eq_some_getLast (l := d :: ds) (by simp)
      rw [this]
      exact List.getLast_mem _
    exact (List.pairwise_cons.mp h).1 _ hmem

theorem getLast?_cons_of_ne_nil {c : Nat} {cs : List Nat} (h : cs ≠ []) :
    (c :: cs).getLast? = cs.getLast? := by
  cases cs with
  | nil => exact (h rfl).elim
  | cons d ds => exact List.getLast?_cons_cons

/-- `bisect_right` short of the end: the tx number is below the last cumulative count -/
theorem lt_getLast_of_bisectRight_lt (tc : List Nat) (n : Nat) (hm : tc.Pairwise (· ≤ ·))
    (h : bisectRight tc n < tc.length) : n < tc.getLast?.getD 0 := by
  induction tc with
  | nil => simp at h
  | cons c cs ih =>
    unfold bisectRight at h
    split at h
    · have hcs : bisectRight cs n < cs.length := by simp only [List.length_cons] at h; omega
      have hne : cs ≠ [] := by intro e; rw [e] at hcs; simp at hcs
      rw [getLast?_cons_of_ne_nil hne]
      exact ih (List.pairwise_cons.mp hm).2 hcs
    · have := le_getLast_of_pairwise hm
      omega

theorem getD_le_getLast (tc : List Nat) (hm : tc.Pairwise (· ≤ ·)) (i : Nat) :
    tc.getD i 0 ≤ tc.getLast?.getD 0 := by
  induction tc generalizing i with
  | nil => simp
  | cons c cs ih =>
    cases i with
    | zero => simpa using le_getLast_of_pairwise hm
    | succ i =>
      simp only [List.getD_cons_succ]
      cases cs with
      | nil => simp
      | cons d ds =>
        rw [List.getLast?_cons_cons]
        exact ih (List.pairwise_cons.mp hm).2 i

theorem getElem?_eq_of_take_eq {α : Type} {a b : List α} {T n : Nat} (h : b.take T = a.take T)
    (hn : n < T) : b[n]? = a[n]? := by
  have := congrArg (fun l => l[n]?) h
  simpa [List.getElem?_take, hn] using this

theorem take_drop_eq_of_take_eq {α : Type} {a b : List α} {T f n : Nat} (h : b.take T = a.take T)
    (hn : f + n ≤ T) : (b.drop f).take n = (a.drop f).take n := by
  have e : ∀ l : List α, (l.drop f).take n = ((l.take T).drop f).take n := by
    intro l
    rw [List.drop_take, List.take_take]
    congr 1
    omega
  rw [e b, e a, h]

/-! ### the read path -/

theorem obsEq_of_same {a b : Sys} (hm : b.m = a.m) (hh : b.p.h = a.p.h) (hu : b.p.u = a.p.u)
    (hhist : b.p.hist = a.p.hist)
    (hhdr : b.p.headers.take (a.m.dbst.height + 1).toNat = a.p.headers.take (a.m.dbst.height + 1).toNat)
    (hhsh : b.p.hashes.take a.m.dbst.txCount = a.p.hashes.take a.m.dbst.txCount)
    (hlen : a.m.txCounts.length = (a.m.dbst.height + 1).toNat)
    (hlast : a.m.txCounts.getLast?.getD 0 = a.m.dbst.txCount)
    (hmono : a.m.txCounts.Pairwise (· ≤ ·)) : ObsEq a b := by
  have hfs : ∀ n, fsTxHash b n = fsTxHash a n := by
    intro n
    simp only [fsTxHash, hm]
    split
    · rfl
    · next hgt =>
      have hlt : bisectRight a.m.txCounts n < a.m.txCounts.length := by rw [hlen]; omega
      have := lt_getLast_of_bisectRight_lt _ n hmono hlt
      rw [hlast] at this
      rw [getElem?_eq_of_take_eq hhsh this]
  have hfun : fsTxHash b = fsTxHash a := funext hfs
  refine ⟨by rw [hm], hfs, ?_, ?_, ?_, ?_, ?_⟩
  · intro hx
    simp only [allUtxos, hu, hfun]
  · intro hx limit
    simp only [limitedHistory, getTxnums, hhist, hfun]
  · intro txid idx
    simp only [lookupUtxo, hh, hu, hfun]
  · intro height
    simp only [txHashesAt, hm]
    split
    · rfl
    · congr 1
      by_cases hle : (if height > 0 then a.m.txCounts.getD (height - 1) 0 else 0) ≤ a.m.txCounts.getD height 0
      · apply take_drop_eq_of_take_eq hhsh
        have := getD_le_getLast _ hmono height
        rw [hlast] at this
        omega
      · have : a.m.txCounts.getD height 0 - (if height > 0 then a.m.txCounts.getD (height - 1) 0 else 0) = 0 := by
          omega
        rw [this, List.take_zero, List.take_zero]
  · intro start count
    simp only [readHeaders, hm]
    by_cases hpos : 0 < min (count : Int) (a.m.dbst.height + 1 - start)
    · apply take_drop_eq_of_take_eq hhdr
      omega
    · have : (min (count : Int) (a.m.dbst.height + 1 - start)).toNat = 0 := by omega
      rw [this, List.take_zero, List.take_zero]

/-! ### restarting on two stores that hold the same committed index -/

theorem recover_mem_eq {cfg : Cfg} {p q : Store} (R : RecoversSame cfg p q) :
    (recover cfg q).map (·.2.m) = (recover cfg p).map (·.2.m) := by
  have htxc := R.txc
  rw [R.state] at htxc
  simp only [recover, openDbs, R.state, htxc]
  cases openTxCounts (openStore cfg p) (openState p false).1 none <;> rfl

theorem openTxCounts_some {p2 : Store} {st : CState} {l : List Nat}
    (h : openTxCounts p2 st none = some l) :
    l = p2.txcounts.take (st.height + 1).toNat ∧ l.length = (st.height + 1).toNat ∧
      l.getLast?.getD 0 = st.txCount := by
  simp only [openTxCounts] at h
  split at h
  · next hc =>
    simp only [Bool.and_eq_true, beq_iff_eq] at hc
    simp only [Option.some.injEq] at h
    subst h
    exact ⟨rfl, hc.1, hc.2⟩
  · simp at h

theorem obsEq_of_recoversSame {cfg : Cfg} {p q : Store} (R : RecoversSame cfg p q)
    {e0 : List Effect} {r0 : Sys} (h0 : recover cfg p = some (e0, r0))
    (hmono : r0.m.txCounts.Pairwise (· ≤ ·)) :
    ∃ e r, recover cfg q = some (e, r) ∧ ObsEq r0 r := by
  unfold recover openDbs at h0
  split at h0
  · simp at h0
  · next l hl =>
    simp only [Option.some.injEq, Prod.mk.injEq] at h0
    obtain ⟨_, rfl⟩ := h0
    obtain ⟨_, hlen, hlast⟩ := openTxCounts_some hl
    have hq : openTxCounts (openStore cfg q) (openState q false).1 none = some l := by rw [R.txc, hl]
    refine ⟨_, _, by simp only [recover, openDbs, hq]; rfl, ?_⟩
    have hheight : (openState p false).1.height = (p.ustate.getD {}).height := openState_height p false
    have htx : (openState p false).1.txCount = (p.ustate.getD {}).txCount := by simp [openState]
    apply obsEq_of_same
    · simp only [R.state]
    · exact R.h
    · exact R.u
    · exact R.hist
    · simp only [hheight]; exact R.headers
    · simp only [htx]; exact R.hashes
    · simpa using hlen
    · simpa using hlast
    · exact hmono

end EV.Index

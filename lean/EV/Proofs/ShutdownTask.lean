import EV.Model.ShutdownTask
import EV.Proofs.IndexRunReorg

/-!
Task-level shutdown model: structural invariants and the sequential log.
-/
namespace EV.ShutdownTask
open EV.Index

def Op.to2 : Op → IOp2
  | .adv b d => .adv b d
  | .flush a => .flush a
  | .backup b => .backup b

/-- the index operations of every job that ended, in order (including jobs that raised) -/
def att (log : List (Op × Bool)) : List IOp2 := log.map (·.1.to2)

/-- the index operations of the jobs that did not raise -/
def okOps (log : List (Op × Bool)) : List IOp2 := (log.filter (·.2)).map (·.1.to2)

theorem run_snoc (cfg : Cfg) (st : St) (evs : List Ev) (e : Ev) :
    run cfg st (evs ++ [e]) = (run cfg st evs).bind (fun s => step cfg s e) := by
  induction evs generalizing st with
  | nil => simp [run]; cases step cfg st e <;> rfl
  | cons a r ih =>
    simp only [List.cons_append, run]
    cases step cfg st a with
    | none => rfl
    | some s' => exact ih s'

/-- invariants of accepted runs -/
theorem run_induct {cfg : Cfg} {P : St → Prop} {st0 : St} (h0 : P st0)
    (hstep : ∀ st e st', P st → step cfg st e = some st' → P st') :
    ∀ (evs : List Ev) (st : St), run cfg st0 evs = some st → P st := by
  intro evs
  induction evs generalizing st0 with
  | nil => intro st h; simp [run] at h; subst h; exact h0
  | cons e r ih =>
    intro st h
    simp only [run] at h
    cases hs : step cfg st0 e with
    | none => rw [hs] at h; simp at h
    | some s1 => rw [hs] at h; exact ih (hstep _ _ _ h0 hs) st h

/-- only `jobEnd` touches the index and the log -/
theorem step_frame {cfg : Cfg} {st st' : St} {e : Ev} (h : step cfg st e = some st')
    (hne : ∀ d, e ≠ .jobEnd d) : st'.sys = st.sys ∧ st'.log = st.log ∧ st'.ok = st.ok := by
  cases e <;> simp only [step] at h
  all_goals first
    | (exfalso; exact hne _ rfl)
    | (repeat' split at h) <;> simp_all <;> (try subst h) <;> simp [afterBody, continueSec, finish] <;> (repeat' split) <;> simp_all

/-! ### shape of reachable states -/

/-- which section the outer task awaits at which control point -/
def SecFor : Pt → Sec → Prop
  | .batch _, .adv _ => True
  | .postCaughtUp, .flush => True
  | .reorgHashes, .flush => True
  | .backups _, .backup _ => True
  | _, _ => False

/-- the job of a section -/
def JobFor : Sec → JobK → Prop
  | .adv b, j => j = .adv b ∨ ∃ a, j = .flush a
  | .flush, j => j = .flush true
  | .backup b, j => j = .backup b
  | .safe, j => j = .flush true

def InnerWf : Inner → Prop
  | .wantLock s => s ≠ .safe
  | .job s j => JobFor s j
  | .jobDone s j _ => JobFor s j

/-- structural invariant: the lock is held exactly by an inner task past `async with`; the outer
    task awaits a section iff an inner task of the matching kind exists, except in the handler,
    where the section in flight at the request may still be running; the handler's own section only
    exists in the handler -/
structure Shape (st : St) : Prop where
  lock : st.lock = (st.inner.map Inner.holds).getD false
  wf : ∀ i, st.inner = some i → InnerWf i
  outer : match st.outer with
    | .start | .idle _ | .secReady _ _ | .returned | .died => st.inner = none
    | .awaitSec p => ∃ i, st.inner = some i ∧ SecFor p i.sec
    | .handler => True
  safe : ∀ i, st.inner = some i → i.sec = .safe → st.outer = .handler
  canc1 : st.outer = .handler ∨ st.outer = .returned → st.cancelled = true
  canc2 : st.cancelled = true → st.outer = .handler ∨ st.outer = .returned ∨ st.outer = .died

theorem shape_init : Shape {} := by
  refine ⟨rfl, by simp, by simp, by simp, by simp, by simp⟩

/-- what a job end leaves alone -/
theorem runJob_ctl (cfg : Cfg) (st : St) (sec : Sec) (j : JobK) (dH : Int) :
    (∃ e, (runJob cfg st sec j dH).inner = some (.jobDone sec j e)) ∧
    (runJob cfg st sec j dH).outer = st.outer ∧ (runJob cfg st sec j dH).lock = st.lock ∧
    (runJob cfg st sec j dH).cancelled = st.cancelled ∧
    (runJob cfg st sec j dH).logAtCancel = st.logAtCancel ∧
    (runJob cfg st sec j dH).innerAtCancel = st.innerAtCancel ∧
    (runJob cfg st sec j dH).forceFlushArg = st.forceFlushArg ∧
    (runJob cfg st sec j dH).caughtUp = st.caughtUp := by
  unfold runJob
  cases j with
  | adv b =>
    simp only
    split
    · simp
    · split <;> simp
  | flush a => simp only; split <;> simp
  | backup b => simp only; split <;> simp

theorem shape_finish {st : St} (w : Shape st) {sec : Sec} {j : JobK} {err : Option Err}
    (hin : st.inner = some (.jobDone sec j err)) (err' : Option Err) : Shape (finish st sec err') := by
  obtain ⟨w1, w2, w3, w4, w5, w6⟩ := w
  have hs := w4 _ hin
  unfold finish
  cases sec with
  | safe =>
    have ho := hs rfl
    cases err' <;> refine ⟨?_, ?_, ?_, ?_, ?_, ?_⟩ <;> simp_all
  | adv b =>
    refine ⟨?_, ?_, ?_, ?_, ?_, ?_⟩ <;> simp_all [Inner.sec] <;> (split at w3 <;> simp_all)
  | flush =>
    refine ⟨?_, ?_, ?_, ?_, ?_, ?_⟩ <;> simp_all [Inner.sec] <;> (split at w3 <;> simp_all)
  | backup b =>
    refine ⟨?_, ?_, ?_, ?_, ?_, ?_⟩ <;> simp_all [Inner.sec] <;> (split at w3 <;> simp_all)

theorem shape_step {cfg : Cfg} {st st' : St} {e : Ev} (w : Shape st) (h : step cfg st e = some st') :
    Shape st' := by
  obtain ⟨w1, w2, w3, w4, w5, w6⟩ := w
  cases e <;> simp only [step] at h
  case pressure a => simp at h; subst h; exact ⟨w1, w2, w3, w4, w5, w6⟩
  case forceReorg n =>
    split at h
    · simp at h; subst h; exact ⟨w1, w2, w3, w4, w5, w6⟩
    · simp at h
  case cancel =>
    split at h
    · simp at h
    · split at h <;> simp at h <;> subst h <;> refine ⟨?_, ?_, ?_, ?_, ?_, ?_⟩ <;> simp_all
  case begin =>
    split at h <;> simp at h; subst h; refine ⟨?_, ?_, ?_, ?_, ?_, ?_⟩ <;> simp_all
  case fetched bs =>
    split at h <;> simp at h; obtain ⟨-, h⟩ := h; subst h; refine ⟨?_, ?_, ?_, ?_, ?_, ?_⟩ <;> simp_all
  case fetchedNone =>
    split at h <;> simp at h; subst h
    refine ⟨?_, ?_, ?_, ?_, ?_, ?_⟩ <;> simp_all [Inner.holds, InnerWf, SecFor, Inner.sec]
  case nextBlock =>
    split at h <;> simp at h; obtain ⟨-, h⟩ := h; subst h
    refine ⟨?_, ?_, ?_, ?_, ?_, ?_⟩ <;> simp_all [Inner.holds, InnerWf, SecFor, Inner.sec]
  case endBatch =>
    split at h <;> simp at h; subst h
    unfold afterBody
    split <;> refine ⟨?_, ?_, ?_, ?_, ?_, ?_⟩ <;> simp_all [Inner.holds, InnerWf, SecFor, Inner.sec]
  case caughtUpDone =>
    split at h <;> simp at h; subst h; refine ⟨?_, ?_, ?_, ?_, ?_, ?_⟩ <;> simp_all
  case wake =>
    split at h <;> simp at h; subst h
    unfold afterBody
    split <;> refine ⟨?_, ?_, ?_, ?_, ?_, ?_⟩ <;> simp_all [Inner.holds, InnerWf, SecFor, Inner.sec]
  case reorgRange bs =>
    split at h <;> simp at h; subst h; refine ⟨?_, ?_, ?_, ?_, ?_, ?_⟩ <;> simp_all
  case nextBackup =>
    split at h <;> simp at h; obtain ⟨-, h⟩ := h; subst h
    refine ⟨?_, ?_, ?_, ?_, ?_, ?_⟩ <;> simp_all [Inner.holds, InnerWf, SecFor, Inner.sec]
  case endReorg =>
    split at h <;> simp at h; subst h; refine ⟨?_, ?_, ?_, ?_, ?_, ?_⟩ <;> simp_all
  case resume =>
    split at h <;> simp at h <;> subst h <;> refine ⟨?_, ?_, ?_, ?_, ?_, ?_⟩ <;> simp_all
  case innerStart =>
    split at h
    · simp at h
    · split at h <;> simp at h <;> subst h <;> rename_i hin <;>
        refine ⟨?_, ?_, ?_, ?_, ?_, ?_⟩ <;>
        simp_all [Inner.holds, InnerWf, SecFor, Inner.sec, JobFor] <;>
        (split at w3 <;> simp_all [Inner.sec])
  case hStart =>
    split at h
    · simp at h
    · split at h
      · split at h <;> simp at h <;> subst h <;>
          refine ⟨?_, ?_, ?_, ?_, ?_, ?_⟩ <;> simp_all [Inner.holds, InnerWf, SecFor, Inner.sec, JobFor]
      · simp at h
  case jobEnd dH =>
    split at h <;> simp at h
    rename_i sec j hin
    subst h
    obtain ⟨⟨e, h1⟩, h2, h3, h4, -⟩ := runJob_ctl cfg st sec j dH
    refine ⟨?_, ?_, ?_, ?_, ?_, ?_⟩
    · rw [h1, h3, w1, hin]; rfl
    · intro i hi; rw [h1] at hi; simp at hi; subst hi; exact w2 (.job sec j) hin
    · rw [h2, h1]
      split at w3 <;> simp_all [Inner.sec]
    · intro i hi hs; rw [h1] at hi; simp at hi; subst hi; rw [h2]; exact w4 (.job sec j) hin hs
    · rw [h2, h4]; exact w5
    · rw [h2, h4]; exact w6
  case deliver =>
    split at h <;> simp at h
    rename_i sec j err hin
    subst h
    have w : Shape st := ⟨w1, w2, w3, w4, w5, w6⟩
    unfold continueSec
    split
    · exact shape_finish w hin _
    · split
      · split
        · rename_i b b' a ha
          have hj := w2 _ hin
          refine ⟨?_, ?_, ?_, ?_, ?_, ?_⟩ <;>
            simp_all [Inner.holds, InnerWf, SecFor, Inner.sec, JobFor] <;>
            (split at w3 <;> simp_all [Inner.sec])
        · exact shape_finish w hin _
      · exact shape_finish w hin _

/-! ### the index is the sequential run of the jobs that succeeded -/

theorem att_append (a b : List (Op × Bool)) : att (a ++ b) = att a ++ att b := by
  simp [att]

theorem okOps_append (a b : List (Op × Bool)) : okOps (a ++ b) = okOps a ++ okOps b := by
  simp [okOps]

@[simp] theorem okOps_single_true (o : Op) : okOps [(o, true)] = [o.to2] := rfl
@[simp] theorem okOps_single_false (o : Op) : okOps [(o, false)] = [] := rfl
@[simp] theorem att_single (o : Op) (b : Bool) : att [(o, b)] = [o.to2] := rfl

theorem okOps_eq_att {log : List (Op × Bool)} (h : ∀ e ∈ log, e.2 = true) : okOps log = att log := by
  unfold okOps att
  rw [List.filter_eq_self.mpr (by intro a ha; exact h a ha)]

/-- **sequential**: the state of the index is the result of applying, one after the other and in
    the order in which they ended, the jobs that did not raise -/
def Seq (cfg : Cfg) (st : St) : Prop := runOps2 cfg {} (okOps st.log) = .ok st.sys

theorem runOps2_snoc_ok {cfg : Cfg} {ops : List IOp2} {s s' : Sys} {op : IOp2}
    (h : runOps2 cfg {} ops = .ok s) (hs : stepOp2 cfg s op = .ok s') :
    runOps2 cfg {} (ops ++ [op]) = .ok s' := by
  rw [runOps2_append, h]
  simp only [runOps2, hs]

theorem runJob_seq {cfg : Cfg} {st : St} (h : Seq cfg st) (sec : Sec) (j : JobK) (dH : Int) :
    Seq cfg (runJob cfg st sec j dH) := by
  unfold runJob
  cases j with
  | adv b =>
    simp only
    split
    · exact h
    · split
      · rename_i s' hs
        simp only [Seq, okOps_append, okOps_single_true]
        exact runOps2_snoc_ok h hs
      · simp only [Seq, okOps_append, okOps_single_false, List.append_nil]; exact h
  | flush a =>
    simp only
    split
    · rename_i s' hs
      simp only [Seq, okOps_append, okOps_single_true]
      exact runOps2_snoc_ok h hs
    · simp only [Seq, okOps_append, okOps_single_false, List.append_nil]; exact h
  | backup b =>
    simp only
    split
    · rename_i s' hs
      simp only [Seq, okOps_append, okOps_single_true]
      exact runOps2_snoc_ok h hs
    · simp only [Seq, okOps_append, okOps_single_false, List.append_nil]; exact h

theorem seq_step {cfg : Cfg} {st st' : St} {e : Ev} (hq : Seq cfg st) (h : step cfg st e = some st') :
    Seq cfg st' := by
  by_cases hj : ∃ d, e = .jobEnd d
  · obtain ⟨d, rfl⟩ := hj
    simp only [step] at h
    split at h <;> simp at h
    subst h
    exact runJob_seq hq _ _ _
  · obtain ⟨h1, h2, -⟩ := step_frame h (by intro d hd; exact hj ⟨d, hd⟩)
    unfold Seq
    rw [h1, h2]
    exact hq

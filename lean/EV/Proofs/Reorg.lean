import EV.Model.Reorg

/-! `_calc_reorg_range` finds exactly the fork point when the chain is at least twice as high as
the fork is deep. -/
namespace EV.Reorg

/-- the two chains agree below `f` and differ from `f` on (distinct blocks never re-converge) -/
structure ForkAt (mine daemon : Nat → Hash) (f : Nat) : Prop where
  same : ∀ h, h < f → mine h = daemon h
  diff : ∀ h, f ≤ h → mine h ≠ daemon h

theorem diffPos_zero {mine daemon : Nat → Hash} {f start count : Nat} (hf : ForkAt mine daemon f)
    (hs : f ≤ start) (hc : 0 < count) : diffPos mine daemon start count = 0 := by
  unfold diffPos
  cases count with
  | zero => omega
  | succ c =>
    have := hf.diff start hs
    simp [diffPosFrom, this]

theorem diffPosFrom_find {mine daemon : Nat → Hash} {f start : Nat} (hf : ForkAt mine daemon f)
    (r i : Nat) (hlo : start + i ≤ f) (hhi : f ≤ start + i + r) :
    diffPosFrom mine daemon start r i = f - start := by
  induction r generalizing i with
  | zero => simp only [diffPosFrom]; omega
  | succ r ih =>
    simp only [diffPosFrom]
    by_cases heq : start + i = f
    · have := hf.diff (start + i) (by omega)
      simp only [bne_iff_ne, ne_eq, this, not_false_eq_true, if_true]; omega
    · have := hf.same (start + i) (by omega)
      simp only [this, bne_self_eq_false, Bool.false_eq_true, if_false]
      exact ih (i + 1) (by omega) (by omega)

theorem diffPos_find {mine daemon : Nat → Hash} {f start count : Nat} (hf : ForkAt mine daemon f)
    (hs : start < f) (hle : f ≤ start + count) : diffPos mine daemon start count = f - start :=
  diffPosFrom_find hf count 0 (by omega) (by omega)

/-- the loop invariant: `height − start = 2·count − 1`, the fork is at or below the end of the
    window, and enough fuel is left -/
theorem calcLoop_exact {mine daemon : Nat → Hash} {f height : Nat} (hf : ForkAt mine daemon f)
    (hf1 : 1 ≤ f) (hcond : height + 2 ≤ 2 * f)
    (fuel start count : Nat) (hJ : height - start + 1 = 2 * count) (hsh : start < height)
    (hwin : f ≤ start + count) (hfuel : start ≤ fuel) (hc : 0 < count) :
    calcLoop mine daemon fuel start count = f := by
  induction fuel generalizing start count with
  | zero =>
    -- start = 0 < f but then the window [0, count) would have to contain f with 2·count = height+1
    have : start = 0 := by omega
    subst this
    omega
  | succ fuel ih =>
    simp only [calcLoop]
    by_cases hs0 : start > 0
    · simp only [hs0, if_true]
      by_cases hsf : start < f
      · rw [diffPos_find hf hsf hwin]
        have : f - start > 0 := by omega
        simp only [this, if_true]; omega
      · have hz := diffPos_zero hf (by omega : f ≤ start) hc
        simp only [hz, Nat.lt_irrefl, if_false]
        -- the clamp does not bite: 2·count ≤ start
        have hclamp : count * 2 ≤ start := by omega
        rw [Nat.min_eq_left hclamp]
        apply ih
        · omega
        · omega
        · omega
        · omega
        · omega
    · omega

/-- **Reorg range (natural reorg).**  Server at height `n`, chains agreeing below `f` and differing
from `f` on, `1 ≤ f ≤ n`, and the chain at least twice as high as the fork is deep
(`2·(n − f + 1) ≤ n`): `_calc_reorg_range(-1)` returns exactly `(f, n − f + 1)`. -/
theorem calcReorgRange_exact {mine daemon : Nat → Hash} {f n : Nat} (hf : ForkAt mine daemon f)
    (hf1 : 1 ≤ f) (hfn : f ≤ n) (hcond : 2 * (n - f + 1) ≤ n) :
    calcReorgRange mine daemon n (-1) = ((f : Int), (n : Int) - f + 1) := by
  have hloop : calcLoop mine daemon n (n - 1) 1 = f :=
    calcLoop_exact (f := f) (height := n) hf hf1 (by omega) n (n - 1) 1 (by omega) (by omega) (by omega) (by omega) (by omega)
  simp [calcReorgRange, hloop]

/-- **Reorg range (forced reorg of `k` blocks).** -/
theorem calcReorgRange_forced (mine daemon : Nat → Hash) (n : Nat) (k : Nat) :
    calcReorgRange mine daemon n k = ((n : Int) - k + 1, (k : Int)) := by
  have : ¬ ((k : Int) < 0) := by omega
  simp [calcReorgRange, this]

/-- the hypothesis "twice as high as deep" cannot be dropped: height 7, fork at 4 (depth 4) makes
    the look-back overrun to 0 without comparing -/
theorem calcReorgRange_counterexample_shallow_chain :
    calcReorgRange (fun h => h) (fun h => if h < 4 then h else h + 100) 7 (-1) = (0, 8) := by decide

/-- …while height 8, depth 4 is exact (non-vacuity of the hypotheses) -/
example : calcReorgRange (fun h => h) (fun h => if h < 5 then h else h + 100) 8 (-1) = (5, 4) := by decide

end EV.Reorg

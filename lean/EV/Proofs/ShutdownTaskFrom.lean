import EV.Proofs.ShutdownTaskStop

/-!
Task-level shutdown model started on an EXISTING database (audit §C06: every restart).

The invariants `Seq`, `FlushedRegion`, `Good`, `GoodIf`, `Inv1` of `ShutdownTask.lean`,
`ShutdownTaskInv.lean` and `ShutdownTaskValid.lean` mention the empty index `{}` / the empty
bookkeeping `{}` as the state the task starts from.  This file is a copy of those definitions and of
the lemmas that mention them, with the initial index state `s0` and its bookkeeping `t0` as
parameters (text generated from the three files by replacing `{}`; the proofs are unchanged except
for the `_init` lemmas and `trackInv_of_good`, which now takes the invariant of the initial state as a
hypothesis).  Everything that does not mention the initial state (`Shape`, `BackupTip`,
`AfterCancel`, `OkInv`, `CancelWf`, the step lemmas about control state, `Rem`, `todo`) is used from
the original files.
-/
namespace EV.ShutdownTask.From
open EV.Index EV.ShutdownTask

variable {s0 : Sys} {t0 : Track}

/-- **sequential**: the state of the index is the result of applying, one after the other and in
    the order in which they ended, the jobs that did not raise -/
def Seq (s0 : Sys) (cfg : Cfg) (st : St) : Prop := runOps2 cfg s0 (okOps st.log) = .ok st.sys

theorem runOps2_snoc_ok {cfg : Cfg} {ops : List IOp2} {s s' : Sys} {op : IOp2}
    (h : runOps2 cfg s0 ops = .ok s) (hs : stepOp2 cfg s op = .ok s') :
    runOps2 cfg s0 (ops ++ [op]) = .ok s' := by
  rw [runOps2_append, h]
  simp only [runOps2, hs]

theorem runJob_seq {cfg : Cfg} {st : St} (h : Seq s0 cfg st) (sec : Sec) (j : JobK) (dH : Int) :
    Seq s0 cfg (runJob cfg st sec j dH) := by
  unfold runJob
  cases j with
  | adv b =>
    simp only
    split
    · exact h
    · split
      · rename_i s' hs
        simp only [Seq, okOps_append, okOps_single_true]
        exact runOps2_snoc_ok h hs
      · simp only [Seq, okOps_append, okOps_single_false, List.append_nil]; exact h
  | flush a =>
    simp only
    split
    · rename_i s' hs
      simp only [Seq, okOps_append, okOps_single_true]
      exact runOps2_snoc_ok h hs
    · simp only [Seq, okOps_append, okOps_single_false, List.append_nil]; exact h
  | backup b =>
    simp only
    split
    · rename_i s' hs
      simp only [Seq, okOps_append, okOps_single_true]
      exact runOps2_snoc_ok h hs
    · simp only [Seq, okOps_append, okOps_single_false, List.append_nil]; exact h

theorem seq_step {cfg : Cfg} {st st' : St} {e : Ev} (hq : Seq s0 cfg st) (h : step cfg st e = some st') :
    Seq s0 cfg st' := by
  by_cases hj : ∃ d, e = .jobEnd d
  · obtain ⟨d, rfl⟩ := hj
    simp only [step] at h
    split at h <;> simp at h
    subst h
    exact runJob_seq hq _ _ _
  · obtain ⟨h1, h2, -⟩ := step_frame h (by intro d hd; exact hj ⟨d, hd⟩)
    unfold Seq
    rw [h1, h2]
    exact hq

def FlushedRegion (t0 : Track) (cfg : Cfg) (st : St) : Prop :=
  (outerFl st.outer || innerFl st.inner) = true → Fl (Track.run cfg t0 (okOps st.log))

theorem fl_flushTrue (cfg : Cfg) (ops : List IOp2) : Fl (Track.run cfg t0 (ops ++ [.flush true])) := by
  rw [Track.run_append]; rfl

theorem fl_backup (cfg : Cfg) (ops : List IOp2) (b : Block) :
    Fl (Track.run cfg t0 (ops ++ [.backup b])) := by
  rw [Track.run_append]
  show (Track.run cfg t0 ops).chain.length - 1 = (Track.run cfg t0 ops).chain.dropLast.length
  simp


theorem flushedRegion_runJob {cfg : Cfg} {st : St} (w : Shape st) (hc : FlushedRegion t0 cfg st)
    {sec : Sec} {j : JobK} (hin : st.inner = some (.job sec j)) (dH : Int) :
    FlushedRegion t0 cfg (runJob cfg st sec j dH) := by
  have hj : JobFor sec j := w.wf _ hin
  unfold runJob
  cases j with
  | adv b =>
    have hsec := jobFor_adv hj
    subst hsec
    have ho := outerFl_of_advSec w hin rfl
    simp only
    split
    · intro hp; simp [ho, innerFl] at hp
    · split
      · intro hp; simp [ho, innerFl] at hp
      · intro hp; simp [ho, innerFl] at hp
  | flush a =>
    simp only
    split
    · -- the flush succeeded
      cases a with
      | true =>
        intro _
        simp only [okOps_append, okOps_single_true]
        exact fl_flushTrue cfg _
      | false =>
        obtain ⟨b, hsec⟩ := jobFor_flush_false hj
        subst hsec
        have ho := outerFl_of_advSec w hin rfl
        intro hp; simp [ho, innerFl] at hp
    · -- it raised: nothing was carried out, the section has failed
      intro hp
      simp only [okOps_append, okOps_single_false, List.append_nil]
      apply hc
      simp only [innerFl, Bool.or_false] at hp
      simp [hp]
  | backup b =>
    simp only
    split
    · intro _
      simp only [okOps_append, okOps_single_true]
      exact fl_backup cfg _ b
    · intro hp
      simp only [okOps_append, okOps_single_false, List.append_nil]
      apply hc
      simp only [innerFl, Bool.or_false] at hp
      simp [hp]


/-- no event other than a job end leads into the flushed region from outside it -/
theorem flRegion_back {cfg : Cfg} {st st' : St} {e : Ev} (w : Shape st)
    (h : step cfg st e = some st') (hne : ∀ d, e ≠ .jobEnd d)
    (hp : (outerFl st'.outer || innerFl st'.inner) = true) :
    (outerFl st.outer || innerFl st.inner) = true := by
  have w3 := w.outer
  have w2 := w.wf
  cases e <;> simp only [step] at h
  case jobEnd d => exact absurd rfl (hne d)
  case deliver =>
    split at h <;> simp at h
    subst h
    rename_i sec j err hin
    have hj : JobFor sec j := w2 _ hin
    cases ho : st.outer with
    | awaitSec p =>
      rw [ho] at w3
      simp only at w3
      obtain ⟨i', hi', hsf⟩ := w3
      rw [hin] at hi'
      cases hi'
      simp only [Inner.sec] at hsf
      have hns : sec ≠ .safe := by intro hh; subst hh; cases p <;> simp [SecFor] at hsf
      -- either the section ends (the outer task gets `err`) or it goes on with its flush
      have key : ∀ err', (err' = none → err = none) →
          (outerFl (finish st sec err').outer || innerFl (finish st sec err').inner) = true →
          (outerFl (.awaitSec p) || innerFl (some (.jobDone sec j err))) = true := by
        intro err' herr hp'
        rw [finish_inner, finish_outer_await ho hns] at hp'
        cases p <;> cases err' <;> simp [outerFl, innerFl] at hp' ⊢
        · have := secFor_reorgHashes hsf
          subst this
          rw [herr rfl]
      rw [hin]
      unfold continueSec at hp
      split at hp
      · rename_i e0
        exact key (some e0) (by simp) hp
      · split at hp
        · split at hp
          · simp only [innerFl, Bool.or_false] at hp
            rw [ho] at hp
            cases p <;> simp [SecFor, outerFl] at hsf hp
          · exact key none (fun _ => rfl) hp
        · exact key none (fun _ => rfl) hp
    | handler =>
      exfalso
      unfold continueSec at hp
      have hfin : ∀ err', ¬ (outerFl (finish st sec err').outer || innerFl (finish st sec err').inner) = true := by
        intro err' hh
        rw [finish_inner] at hh
        rcases finish_outer_handler ho sec err' with h1 | h1 | h1 <;> rw [h1] at hh <;> simp [outerFl, innerFl] at hh
      split at hp
      · exact hfin _ hp
      · split at hp
        · split at hp
          · simp [ho, outerFl, innerFl] at hp
          · exact hfin _ hp
        · exact hfin _ hp
    | start => rw [ho] at w3; simp [hin] at w3
    | idle p => rw [ho] at w3; simp [hin] at w3
    | secReady p e => rw [ho] at w3; simp [hin] at w3
    | returned => rw [ho] at w3; simp [hin] at w3
    | died => rw [ho] at w3; simp [hin] at w3
  case resume =>
    split at h <;> simp at h <;> subst h
    · rename_i p ho
      rw [ho]
      cases p <;> simp_all [outerFl]
    · simp [outerFl] at hp
      rename_i p e ho
      rw [ho] at w3
      simp only at w3
      simp [w3, innerFl] at hp
  all_goals
    (repeat' split at h) <;> simp_all <;> (try subst h) <;> (try unfold afterBody at hp) <;>
      (try (repeat' split at hp)) <;> simp_all [innerFl, outerFl]

theorem flushedRegion_step {cfg : Cfg} {st st' : St} {e : Ev} (w : Shape st)
    (hc : FlushedRegion t0 cfg st) (h : step cfg st e = some st') : FlushedRegion t0 cfg st' := by
  by_cases hj : ∃ d, e = .jobEnd d
  · obtain ⟨d, rfl⟩ := hj
    simp only [step] at h
    split at h <;> simp at h
    subst h
    rename_i sec j hin
    exact flushedRegion_runJob w hc hin d
  · have hne : ∀ d, e ≠ .jobEnd d := by intro d hd; exact hj ⟨d, hd⟩
    obtain ⟨-, h2, -⟩ := step_frame h hne
    intro hp
    rw [h2]
    exact hc (flRegion_back w h hne hp)

/-- the invariants that do not depend on the environment -/
structure Inv1 (s0 : Sys) (t0 : Track) (cfg : Cfg) (st : St) : Prop where
  shape : Shape st
  seq : Seq s0 cfg st
  tip : BackupTip st
  fl : FlushedRegion t0 cfg st

theorem shape_from : Shape ({ sys := s0 } : St) := by
  refine ⟨rfl, by simp, by simp, by simp, by simp, by simp⟩

theorem inv1_init (cfg : Cfg) : Inv1 s0 t0 cfg { sys := s0 } :=
  ⟨shape_from, rfl, by intro b hb; simp at hb, by intro hp; simp [outerFl, innerFl] at hp⟩

theorem inv1_step {cfg : Cfg} {st st' : St} {e : Ev} (i : Inv1 s0 t0 cfg st) (h : step cfg st e = some st') :
    Inv1 s0 t0 cfg st' :=
  ⟨shape_step i.shape h, seq_step i.seq h, backupTip_step i.shape i.tip h,
   flushedRegion_step i.shape i.fl h⟩

theorem inv1_run {cfg : Cfg} {evs : List Ev} {st : St} (h : run cfg { sys := s0 } evs = some st) : Inv1 s0 t0 cfg st :=
  run_induct (inv1_init cfg) (fun _ _ _ i hs => inv1_step i hs) evs st h

/-- what holds of a state all of whose jobs were admissible -/
structure Good (t0 : Track) (cfg : Cfg) (st : St) : Prop where
  valid : ValidOps2 cfg t0 (att st.log)
  allOk : ∀ e ∈ st.log, e.2 = true
  ok : st.ok = true
  noErrI : ∀ sec j e, st.inner ≠ some (.jobDone sec j (some e))
  noErrO : ∀ p e, st.outer ≠ .secReady p (some e)
  died : st.outer = .died → st.log = []
  startLog : st.outer = .start → st.log = []

theorem good_init (cfg : Cfg) : Good t0 cfg { sys := s0 } :=
  ⟨trivial, by simp, rfl, by simp, by simp, by simp, by simp⟩

/-- the index state is the one the whole-run theorem speaks about -/
theorem trackInv_of_good {cfg : Cfg} (ti0 : TrackInv cfg t0 s0) {st : St} (i : Inv1 s0 t0 cfg st)
    (g : Good t0 cfg st) :
    TrackInv cfg (Track.run cfg t0 (att st.log)) st.sys := by
  obtain ⟨s', h1, ti⟩ := trackInv_run (att st.log) ti0 g.valid
  have hq : runOps2 cfg s0 (att st.log) = .ok st.sys := by
    rw [← okOps_eq_att g.allOk]; exact i.seq
  rw [hq] at h1
  cases h1
  exact ti

theorem good_snoc {cfg : Cfg} {st st' : St} (g : Good t0 cfg st) {op : Op}
    (hok : OkOp cfg (Track.run cfg t0 (att st.log)) op.to2)
    (hlog : st'.log = st.log ++ [(op, true)]) (hokf : st'.ok = st.ok)
    (hout : st'.outer = st.outer) {sec : Sec} {j : JobK} (hin : st'.inner = some (.jobDone sec j none))
    (hne : st.outer ≠ .died ∧ st.outer ≠ .start) : Good t0 cfg st' := by
  refine ⟨?_, ?_, ?_, ?_, ?_, ?_, ?_⟩
  · rw [hlog, att_append, att_single]
    exact (validOps2_append cfg t0 _ _).mpr ⟨g.valid, hok, trivial⟩
  · intro e he
    rw [hlog] at he
    rcases List.mem_append.mp he with he | he
    · exact g.allOk e he
    · simp at he; subst he; rfl
  · rw [hokf]; exact g.ok
  · intro sec' j' e; rw [hin]; simp
  · rw [hout]; exact g.noErrO
  · rw [hout]; intro h; exact absurd h hne.1
  · rw [hout]; intro h; exact absurd h hne.2


theorem good_runJob {cfg : Cfg} (ti0 : TrackInv cfg t0 s0) {st : St} (i : Inv1 s0 t0 cfg st) (g : Good t0 cfg st) {sec : Sec} {j : JobK}
    (hin : st.inner = some (.job sec j)) (dH : Int)
    (henv : EnvOk cfg (Track.run cfg t0 (att st.log)) (jobOps st j dH)) :
    Good t0 cfg (runJob cfg st sec j dH) := by
  have ti := trackInv_of_good ti0 i g
  have hne := outer_of_job i.shape hin
  have hj : JobFor sec j := i.shape.wf _ hin
  unfold runJob
  unfold jobOps at henv
  cases j with
  | adv b =>
    simp only at henv ⊢
    split
    · -- the block does not connect: nothing happened
      refine ⟨g.valid, g.allOk, g.ok, ?_, g.noErrO, g.died, g.startLog⟩
      intro sec' j' e; simp
    · rename_i hprev
      rw [if_neg hprev] at henv
      have hok : OkOp cfg (Track.run cfg t0 (att st.log)) (.adv b dH) := by
        refine ⟨?_, henv.1⟩
        rw [← ti.inv.base.tip]
        exact Decidable.of_not_not hprev
      obtain ⟨s1, h1, -⟩ := trackInv_step ti (.adv b dH) hok
      simp only [stepOp2] at h1
      rw [h1]
      exact good_snoc (op := .adv b dH) g hok rfl rfl rfl rfl hne
  | flush a =>
    simp only
    obtain ⟨s1, h1, -⟩ := trackInv_step ti (.flush a) trivial
    simp only [stepOp2] at h1
    rw [h1]
    exact good_snoc (op := .flush a) g trivial rfl rfl rfl rfl hne
  | backup b =>
    simp only at henv ⊢
    have hsec := jobFor_backup hj
    subst hsec
    have hfl : Fl (Track.run cfg t0 (att st.log)) := by
      rw [← okOps_eq_att g.allOk]
      apply i.fl
      simp [hin, innerFl]
    have htip : b.hash = st.sys.m.st.tip := i.tip b (Or.inr hin)
    obtain ⟨⟨hdet, hlen, hkept⟩, -⟩ := henv
    have hok : OkOp cfg (Track.run cfg t0 (att st.log)) (.backup b) := by
      apply backupOk_iff.mpr
      refine ⟨hfl, ?_, hlen, hkept⟩
      cases hl : (Track.run cfg t0 (att st.log)).chain.getLast? with
      | none =>
        rw [List.getLast?_eq_none_iff] at hl
        rw [hl] at hlen; simp at hlen
      | some last =>
        have h2 := ti.inv.base.tip
        rw [hl] at h2 hdet
        simp at h2 hdet
        rw [hdet (by rw [htip, h2])]
    obtain ⟨s1, h1, -⟩ := trackInv_step ti (.backup b) hok
    simp only [stepOp2] at h1
    rw [h1]
    exact good_snoc (op := .backup b) g hok rfl rfl rfl rfl hne


/-- control-flow part of `Good`: no event other than a job end introduces a failure -/
theorem good_ctl {cfg : Cfg} {st st' : St} {e : Ev} (w : Shape st)
    (g4 : ∀ sec j e, st.inner ≠ some (.jobDone sec j (some e)))
    (g5 : ∀ p e, st.outer ≠ .secReady p (some e))
    (g6 : st.outer = .died → st.log = []) (g7 : st.outer = .start → st.log = [])
    (h : step cfg st e = some st') (hne : ∀ d, e ≠ .jobEnd d) :
    (∀ sec j e, st'.inner ≠ some (.jobDone sec j (some e))) ∧
    (∀ p e, st'.outer ≠ .secReady p (some e)) ∧
    (st'.outer = .died → st.log = []) ∧ (st'.outer = .start → st.log = []) := by
  have w3 := w.outer
  cases e <;> simp only [step] at h
  case jobEnd d => exact absurd rfl (hne d)
  case deliver =>
    split at h <;> simp at h
    subst h
    rename_i sec j err hin
    cases err with
    | some e0 => exact absurd hin (g4 sec j e0)
    | none =>
      have hns := outer_of_job w hin
      obtain ⟨hi, ho⟩ := continueSec_none st sec j
      refine ⟨?_, ?_, ?_, ?_⟩
      · intro sec' j' e'
        rcases hi with hi | ⟨a, hi⟩ <;> rw [hi] <;> simp
      · intro p e'
        rcases ho with ho | ⟨p', ho⟩ | ho <;> rw [ho]
        · simp
        · simp
        · exact g5 p e'
      · intro hd
        rcases ho with ho | ⟨p', ho⟩ | ho <;> rw [ho] at hd
        · simp at hd
        · simp at hd
        · exact absurd hd hns.1
      · intro hd
        rcases ho with ho | ⟨p', ho⟩ | ho <;> rw [ho] at hd
        · simp at hd
        · simp at hd
        · exact absurd hd hns.2
  all_goals
    (repeat' split at h) <;> simp_all <;> (try subst h) <;> (try unfold afterBody) <;>
      (try (repeat' split)) <;> simp_all

theorem good_frame {cfg : Cfg} {st st' : St} {e : Ev} (w : Shape st) (g : Good t0 cfg st)
    (h : step cfg st e = some st') (hne : ∀ d, e ≠ .jobEnd d) : Good t0 cfg st' := by
  obtain ⟨h1, h2, h3⟩ := step_frame h hne
  obtain ⟨c1, c2, c3, c4⟩ := good_ctl w g.noErrI g.noErrO g.died g.startLog h hne
  exact ⟨by rw [h2]; exact g.valid, by rw [h2]; exact g.allOk, by rw [h3]; exact g.ok, c1, c2,
    by rw [h2]; exact c3, by rw [h2]; exact c4⟩

/-- `Good` relative to the environment: if every job so far was admissible -/
def GoodIf (t0 : Track) (cfg : Cfg) (st : St) : Prop := EnvOk cfg t0 (att st.log) → Good t0 cfg st

theorem goodIf_step {cfg : Cfg} (ti0 : TrackInv cfg t0 s0) {st st' : St} {e : Ev} (i : Inv1 s0 t0 cfg st) (v : GoodIf t0 cfg st)
    (h : step cfg st e = some st') : GoodIf t0 cfg st' := by
  intro henv
  by_cases hj : ∃ d, e = .jobEnd d
  · obtain ⟨d, rfl⟩ := hj
    simp only [step] at h
    split at h <;> simp at h
    subst h
    rename_i sec j hin
    rw [att_runJob, envOk_append] at henv
    exact good_runJob ti0 i (v henv.1) hin d henv.2
  · have hne : ∀ d, e ≠ .jobEnd d := by intro d hd; exact hj ⟨d, hd⟩
    obtain ⟨-, h2, -⟩ := step_frame h hne
    rw [h2] at henv
    exact good_frame i.shape (v henv) h hne

/-- **In a valid environment every reachable state is good**: the jobs that ended form a
`ValidOps2` run, none of them raised, `ok` holds, the task has not failed. -/
theorem good_run {cfg : Cfg} (ti0 : TrackInv cfg t0 s0) {evs : List Ev} {st : St}
    (h : run cfg { sys := s0 } evs = some st)
    (henv : EnvOk cfg t0 (att st.log)) : Inv1 s0 t0 cfg st ∧ Good t0 cfg st := by
  have := run_induct (P := fun s => Inv1 s0 t0 cfg s ∧ GoodIf t0 cfg s) (cfg := cfg)
    ⟨inv1_init cfg, fun _ => good_init cfg⟩
    (fun _ _ _ p hs => ⟨inv1_step p.1 hs, goodIf_step ti0 p.1 p.2 hs⟩) evs st h
  exact ⟨this.1, this.2 henv⟩

/-! ### the control-only invariants from `{ sys := s0 }` (their step lemmas do not mention the index) -/

theorem afterCancel_from : AfterCancel ({ sys := s0 } : St) :=
  ⟨by simp, by simp, by simp, by simp⟩

theorem afterCancel_run {cfg : Cfg} {evs : List Ev} {st : St} (h : run cfg { sys := s0 } evs = some st) :
    AfterCancel st := by
  have := run_induct (P := fun s => Shape s ∧ AfterCancel s) (cfg := cfg)
    ⟨shape_from, afterCancel_from⟩
    (fun _ _ _ p hs => ⟨shape_step p.1 hs, afterCancel_step p.1 p.2 hs⟩) evs st h
  exact this.2

theorem okInv_run {cfg : Cfg} {evs : List Ev} {st : St} (h : run cfg { sys := s0 } evs = some st) :
    OkInv st :=
  run_induct (P := OkInv) (cfg := cfg) (by intro h; simp at h) (fun _ _ _ p hs => okInv_step p hs) evs st h

theorem cancelWf_run {cfg : Cfg} {evs : List Ev} {st : St} (h : run cfg { sys := s0 } evs = some st) :
    CancelWf st := by
  have := run_induct (P := fun s => Shape s ∧ CancelWf s) (cfg := cfg)
    ⟨shape_from, by intro i hi; simp at hi⟩
    (fun _ _ _ p hs => ⟨shape_step p.1 hs, cancelWf_step p.1 p.2 hs⟩) evs st h
  exact this.2

theorem shape_run {cfg : Cfg} {evs : List Ev} {st : St} (h : run cfg { sys := s0 } evs = some st) :
    Shape st :=
  run_induct (P := Shape) (cfg := cfg) shape_from (fun _ _ _ p hs => shape_step p hs) evs st h

end EV.ShutdownTask.From

import EV.Proofs.Daemon

/-!
Proofs about the processors of `_send_single` / `_send_vector`, `getrawtransactions`' hex decoding and
`_get_to_file` (core tactics only).
-/
namespace EV.Daemon

/-! ### the daemon's answer to one request of a batch -/

/-- what the daemon has to say about one request: a result, or an error object -/
inductive Ans where
  | result (v : Val)
  | error (code : Option Int) (tag : Nat)
deriving Repr, DecidableEq

/-- bitcoind's encoding: `{"result": v, "error": null}` / `{"result": null, "error": {…}}` -/
def Ans.item : Ans → Item
  | .result v => ⟨.null, v⟩
  | .error code tag => ⟨.obj code tag, .null⟩

def Ans.isErr : Ans → Bool
  | .result _ => false
  | .error _ _ => true

/-- the answer is the "still warming up" error -/
def Ans.warm (wu : Int) : Ans → Bool
  | .result _ => false
  | .error code _ => code = some wu

/-- what `_send_vector(..., replace_errs=True)` should deliver for it -/
def Ans.value : Ans → Val
  | .result v => v
  | .error _ _ => .null

/-- the error objects of a batch, in order -/
def errList : List Ans → List JErr
  | [] => []
  | .result _ :: as => errList as
  | .error code tag :: as => .obj code tag :: errList as

theorem errsOf_items (as : List Ans) : errsOf (as.map Ans.item) = errList as := by
  induction as with
  | nil => rfl
  | cons a as ih =>
    have step : errsOf (Ans.item a :: as.map Ans.item) =
        (if a.item.error.truthy = true then a.item.error :: errsOf (as.map Ans.item)
         else errsOf (as.map Ans.item)) := by
      simp only [errsOf, List.map_cons, List.filter_cons]
    rw [List.map_cons, step, ih]
    cases a <;> rfl

theorem anyWarm_none (wu : Int) (as : List Ans) (h : ∀ a ∈ as, a.warm wu = false) :
    anyWarm wu (errList as) = .ok false := by
  induction as with
  | nil => rfl
  | cons a as ih =>
    have ih' := ih (fun b hb => h b (by simp [hb]))
    cases a with
    | result v => simpa [errList] using ih'
    | error code tag =>
      have hw : (Ans.error code tag).warm wu = false := h _ (by simp)
      have hne : ¬ code = some wu := by simpa [Ans.warm] using hw
      simp only [errList, anyWarm, hne, if_false]
      exact ih'

theorem anyWarm_some (wu : Int) (as : List Ans) (h : ∃ a ∈ as, a.warm wu = true) :
    anyWarm wu (errList as) = .ok true := by
  induction as with
  | nil => simp at h
  | cons a as ih =>
    cases a with
    | result v =>
      have : ∃ a ∈ as, a.warm wu = true := by
        obtain ⟨b, hb, hw⟩ := h
        simp only [List.mem_cons] at hb
        rcases hb with rfl | hb
        · simp [Ans.warm] at hw
        · exact ⟨b, hb, hw⟩
      simpa [errList] using ih this
    | error code tag =>
      simp only [errList, anyWarm]
      by_cases hc : code = some wu
      · simp [hc]
      · simp only [hc, if_false]
        apply ih
        obtain ⟨b, hb, hw⟩ := h
        simp only [List.mem_cons] at hb
        rcases hb with rfl | hb
        · simp [Ans.warm, hc] at hw
        · exact ⟨b, hb, hw⟩

theorem errList_isEmpty (as : List Ans) : (errList as).isEmpty = as.all (fun a => !a.isErr) := by
  induction as with
  | nil => rfl
  | cons a as ih =>
    cases a with
    | result v => simp [errList, Ans.isErr, ih]
    | error code tag => simp [errList, Ans.isErr]

/-- no item is a warming-up error: with `replace_errs`, or when no item is an error, the processor
    returns the results in reply order; otherwise it raises `DaemonError` with the errors in order -/
theorem procVector_answers (wu : Int) (replace : Bool) (as : List Ans)
    (hnw : ∀ a ∈ as, a.warm wu = false) :
    procVector wu replace (.arr (as.map Ans.item)) =
      if (errList as).isEmpty || replace then .ok (as.map Ans.value)
      else .fatal (.daemonErrorMany (errList as)) := by
  have hres : (as.map Ans.item).map (·.result) = as.map Ans.value := by
    rw [List.map_map]
    apply List.map_congr_left
    intro a _; cases a <;> rfl
  simp only [procVector, errsOf_items, anyWarm_none wu as hnw, hres]

/-- one warming-up item anywhere in the batch makes the whole attempt a warming-up fault, whatever
    else the batch holds -/
theorem procVector_warm (wu : Int) (replace : Bool) (as : List Ans)
    (hw : ∃ a ∈ as, a.warm wu = true) :
    procVector wu replace (.arr (as.map Ans.item)) = .transient .warmingUp := by
  simp only [procVector, errsOf_items, anyWarm_some wu as hw]

/-! ### `_send_single` -/

theorem procSingle_result (wu : Int) (e : JErr) (v : Val) (he : e.truthy = false) :
    procSingle wu (.obj ⟨e, v⟩) = .ok v := by
  cases e <;> simp_all [procSingle, JErr.truthy]

theorem procSingle_warm (wu : Int) (tag : Nat) (v : Val) :
    procSingle wu (.obj ⟨.obj (some wu) tag, v⟩) = .transient .warmingUp := by
  simp [procSingle]

theorem procSingle_error (wu : Int) (code : Option Int) (tag : Nat) (v : Val) (hc : code ≠ some wu) :
    procSingle wu (.obj ⟨.obj code tag, v⟩) = .fatal (.daemonErrorOne (.obj code tag)) := by
  simp [procSingle, hc]

/-! ### the `except` chain -/

/-- the chain never turns an exception into a return value -/
theorem catchExc_not_ok {α : Type} (x : ExcClass) (v : α) : (catchExc x : Outcome α Exc) ≠ .ok v := by
  simp only [catchExc]
  repeat' split
  all_goals simp

theorem catchExc_transient_iff {α : Type} (x : ExcClass) :
    (∃ k, (catchExc x : Outcome α Exc) = .transient k) ↔
      (x.isTimeout || x.isServerDisconnected || x.isConnectionReset || x.isClientConnection
        || x.isClientError) = true := by
  simp only [catchExc]
  cases x.isTimeout <;> cases x.isServerDisconnected <;> cases x.isConnectionReset <;>
    cases x.isClientConnection <;> cases x.isClientError <;> simp

/-! ### hex -/

def hexDigit (n : Nat) : Char :=
  if n < 10 then Char.ofNat (48 + n) else Char.ofNat (87 + n)

/-- lower-case hex without separators: what bitcoind sends -/
def hexChars : Bytes → List Char
  | [] => []
  | b :: bs => hexDigit (b / 16) :: hexDigit (b % 16) :: hexChars bs

theorem hexDigit_facts : ∀ n, n < 16 →
    isSpace (hexDigit n) = false ∧ unhexDigit (hexDigit n) = some n := by
  decide

theorem fromHex_hexChars (bs : Bytes) (h : ∀ b ∈ bs, b < 256) : fromHex (hexChars bs) = some bs := by
  induction bs with
  | nil => rfl
  | cons b bs ih =>
    have hb : b < 256 := h b (by simp)
    obtain ⟨s1, u1⟩ := hexDigit_facts (b / 16) (by omega)
    obtain ⟨_, u2⟩ := hexDigit_facts (b % 16) (by omega)
    have ih' := ih (fun x hx => h x (by simp [hx]))
    simp only [hexChars, fromHex, s1, u1, u2, ih']
    have : b / 16 * 16 + b % 16 = b := by omega
    simp [this]

theorem hexChars_ne_nil (b : Nat) (bs : Bytes) : hexChars (b :: bs) ≠ [] := by
  simp [hexChars]

theorem hexToBytes_hex (bs : Bytes) (hne : bs ≠ []) (h : ∀ b ∈ bs, b < 256) :
    hexToBytes (.str (hexChars bs)) = .ok (some bs) := by
  cases bs with
  | nil => exact absurd rfl hne
  | cons b bs =>
    have hf := fromHex_hexChars (b :: bs) h
    simp only [hexChars] at hf ⊢
    simp only [hexToBytes, hf]

/-! ### the block file -/

theorem foldl_append_length (chunks : List Bytes) :
    ∀ (acc : Bytes) (n : Nat), acc.length = n →
      (chunks.foldl (fun f part => f ++ part) acc).length =
        chunks.foldl (fun size part => size + part.length) n := by
  induction chunks with
  | nil => intro acc n h; simpa using h
  | cons p ps ih =>
    intro acc n h
    simp only [List.foldl_cons]
    exact ih _ _ (by simp [h])

theorem foldl_append_flatten (chunks : List Bytes) :
    ∀ acc : Bytes, chunks.foldl (fun f part => f ++ part) acc = acc ++ chunks.flatten := by
  induction chunks with
  | nil => intro acc; simp
  | cons p ps ih => intro acc; simp [ih]

/-- whatever was in the file before, after a completed attempt it holds that attempt's chunks, in
    order, and the returned size is its length -/
theorem fileEffect_done (file : Bytes) (chunks : List Bytes) :
    fileEffect file (.stream chunks .done) = chunks.flatten ∧
    fileOutcome (.stream chunks .done) = .ok chunks.flatten.length := by
  have h1 : fileEffect file (.stream chunks .done) = chunks.flatten := by
    simp [fileEffect, truncate, foldl_append_flatten]
  refine ⟨h1, ?_⟩
  simp only [fileOutcome, sizeOf]
  rw [← h1, fileEffect, truncate, foldl_append_length chunks [] 0 rfl]

theorem fileOutcome_ok (r : FileReply) (size : Nat) (h : fileOutcome r = .ok size) :
    ∃ chunks, r = .stream chunks .done := by
  cases r with
  | raises x => exact absurd h (catchExc_not_ok x size)
  | wrongType => simp [fileOutcome] at h
  | stream chunks fin =>
    cases fin with
    | done => exact ⟨chunks, rfl⟩
    | raises x => exact absurd h (catchExc_not_ok x size)

/-- general decomposition of a returning `_send`: the value and the side state both come from one
    and the same attempt, all earlier attempts were transient, and nothing after it was looked at -/
theorem sendLoop_returned {α ε σ ι : Type} (c : Cfg) (cls : ι → Outcome α ε) (eff : σ → ι → σ)
    (xs : List ι) : ∀ (u r : Nat) (g : Option GoodMsg) (s : σ) (v : α),
      (sendLoop c cls eff u r g s xs).res = .returned v →
      ∃ pre x post, xs = pre ++ x :: post ∧ (∀ y ∈ pre, IsTransient cls y) ∧ cls x = .ok v ∧
        (sendLoop c cls eff u r g s xs).side = eff (pre.foldl eff s) x ∧
        (sendLoop c cls eff u r g s xs).sleeps.length = pre.length := by
  induction xs with
  | nil => intro u r g s v h; simp [sendLoop] at h
  | cons x xs ih =>
    intro u r g s v h
    cases hx : cls x with
    | ok w =>
      simp only [sendLoop, hx] at h ⊢
      injection h with h; subst h
      exact ⟨[], x, xs, rfl, by simp, hx, rfl, rfl⟩
    | fatal e => simp [sendLoop, hx] at h
    | transient k =>
      simp only [sendLoop, hx, consStep] at h ⊢
      obtain ⟨pre, y, post, hxs, hpre, hy, hside, hlen⟩ := ih _ _ _ _ v h
      refine ⟨x :: pre, y, post, by simp [hxs], ?_, hy, ?_, ?_⟩
      · intro z hz
        simp only [List.mem_cons] at hz
        rcases hz with rfl | hz
        · exact ⟨k, hx⟩
        · exact hpre z hz
      · simpa using hside
      · simp [hlen]

theorem sendLoop_raised {α ε σ ι : Type} (c : Cfg) (cls : ι → Outcome α ε) (eff : σ → ι → σ)
    (xs : List ι) : ∀ (u r : Nat) (g : Option GoodMsg) (s : σ) (e : ε),
      (sendLoop c cls eff u r g s xs).res = .raised e →
      ∃ pre x post, xs = pre ++ x :: post ∧ (∀ y ∈ pre, IsTransient cls y) ∧ cls x = .fatal e ∧
        (sendLoop c cls eff u r g s xs).sleeps.length = pre.length := by
  induction xs with
  | nil => intro u r g s v h; simp [sendLoop] at h
  | cons x xs ih =>
    intro u r g s e h
    cases hx : cls x with
    | ok w => simp [sendLoop, hx] at h
    | fatal e' =>
      simp only [sendLoop, hx] at h ⊢
      injection h with h; subst h
      exact ⟨[], x, xs, rfl, by simp, hx, rfl⟩
    | transient k =>
      simp only [sendLoop, hx, consStep] at h ⊢
      obtain ⟨pre, y, post, hxs, hpre, hy, hlen⟩ := ih _ _ _ _ e h
      refine ⟨x :: pre, y, post, by simp [hxs], ?_, hy, ?_⟩
      · intro z hz
        simp only [List.mem_cons] at hz
        rcases hz with rfl | hz
        · exact ⟨k, hx⟩
        · exact hpre z hz
      · simp [hlen]

/-! ### `convAll` -/

theorem convAll_map {ρ : Type} (l : List ρ) (g : ρ → Val) (f : ρ → Option Bytes)
    (h : ∀ x ∈ l, hexToBytes (g x) = .ok (f x)) : convAll (l.map g) = .ok (l.map f) := by
  induction l with
  | nil => rfl
  | cons x xs ih =>
    simp only [List.map_cons, convAll, h x (by simp), ih (fun w hw => h w (by simp [hw]))]

/-! ### the whole `_send` call, assembled -/

section assembled
variable {α ε σ ι : Type}

theorem send_ok_eq (c : Cfg) (cls : ι → Outcome α ε) (eff : σ → ι → σ) (u : Nat) (s : σ)
    (faults : List ι) (hf : ∀ x ∈ faults, IsTransient cls x) (x : ι) (rest : List ι) (v : α)
    (hx : cls x = .ok v) :
    send c cls eff u s (faults ++ x :: rest) =
      ⟨.returned v, (backoff c faults.length u c.initRetry).1,
       sleepsFrom c faults.length u c.initRetry,
       contactedFrom c faults.length u c.initRetry ++ [(backoff c faults.length u c.initRetry).1],
       goodFold cls none faults, eff (faults.foldl eff s) x⟩ := by
  simp only [send, sendLoop_transient_prefix c cls eff faults hf, sendLoop_ok c cls eff _ _ _ _ x rest v hx,
    prefixOut, List.append_nil]

theorem send_fatal_eq (c : Cfg) (cls : ι → Outcome α ε) (eff : σ → ι → σ) (u : Nat) (s : σ)
    (faults : List ι) (hf : ∀ x ∈ faults, IsTransient cls x) (x : ι) (rest : List ι) (e : ε)
    (hx : cls x = .fatal e) :
    send c cls eff u s (faults ++ x :: rest) =
      ⟨.raised e, (backoff c faults.length u c.initRetry).1,
       sleepsFrom c faults.length u c.initRetry,
       contactedFrom c faults.length u c.initRetry ++ [(backoff c faults.length u c.initRetry).1],
       none, eff (faults.foldl eff s) x⟩ := by
  simp only [send, sendLoop_transient_prefix c cls eff faults hf, sendLoop_fatal c cls eff _ _ _ _ x rest e hx,
    prefixOut, List.append_nil]

theorem send_pending_eq (c : Cfg) (cls : ι → Outcome α ε) (eff : σ → ι → σ) (u : Nat) (s : σ)
    (faults : List ι) (hf : ∀ x ∈ faults, IsTransient cls x) :
    send c cls eff u s faults =
      ⟨.pending, (backoff c faults.length u c.initRetry).1,
       sleepsFrom c faults.length u c.initRetry,
       contactedFrom c faults.length u c.initRetry, none, faults.foldl eff s⟩ := by
  have h := sendLoop_transient_prefix c cls eff faults hf u c.initRetry none s []
  simp only [List.append_nil] at h
  simp only [send, h, sendLoop, prefixOut, List.append_nil]

/-- the first attempt that is not transient ends the call -/
theorem send_terminal (c : Cfg) (cls : ι → Outcome α ε) (eff : σ → ι → σ) (u : Nat) (s : σ)
    (faults : List ι) (hf : ∀ x ∈ faults, IsTransient cls x) (fin : List ι)
    (hfin : ∀ x, fin.head? = some x → ¬ IsTransient cls x) :
    (send c cls eff u s (faults ++ fin)).urlIndex = (backoff c faults.length u c.initRetry).1 ∧
    (send c cls eff u s (faults ++ fin)).sleeps = sleepsFrom c faults.length u c.initRetry ∧
    (send c cls eff u s (faults ++ fin)).contacted =
      contactedFrom c faults.length u c.initRetry ++
        (if fin.isEmpty then [] else [(backoff c faults.length u c.initRetry).1]) := by
  cases fin with
  | nil =>
    rw [List.append_nil, send_pending_eq c cls eff u s faults hf]
    simp
  | cons x rest =>
    cases hx : cls x with
    | ok v => rw [send_ok_eq c cls eff u s faults hf x rest v hx]; simp
    | fatal e => rw [send_fatal_eq c cls eff u s faults hf x rest e hx]; simp
    | transient k => exact absurd ⟨k, hx⟩ (hfin x rfl)

end assembled

theorem tabFrom_snoc (f : Nat → Nat) (j L : Nat) : tabFrom f j (L + 1) = tabFrom f j L ++ [f (j + L)] := by
  simp [tabFrom, List.range_succ]

theorem tabFrom_zero_eq (f : Nat → Nat) (L : Nat) : tabFrom f 0 L = (List.range L).map f := by
  simp [tabFrom]

end EV.Daemon

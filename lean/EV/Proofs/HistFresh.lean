import EV.Model.HistFresh
import EV.Proofs.RpcLimits

/-! Invariant of the freshness loop (`EV/Model/HistFresh.lean`) and its preservation by every event;
what each reply is; what happens once a script hash is no longer pending. -/
namespace EV.HistFresh

open EV.Rpc (Bytes HistRes dGet dSet dErase dGet_dSet_self dGet_dSet_ne dGet_dErase_some)

/-! ### `cut` -/

theorem cut_large {limit : Nat} {h : List Entry} (hl : limit ≤ h.length) : cut limit h = .tooLarge := by
  unfold cut
  rw [List.length_take]
  have : limit ≤ min limit h.length := by omega
  simp [this]

theorem cut_small {limit : Nat} {h : List Entry} (hl : h.length < limit) : cut limit h = .ok h := by
  unfold cut
  rw [List.length_take]
  have : ¬ limit ≤ min limit h.length := by omega
  simp only [this, if_false]
  rw [List.take_of_length_le (by omega)]

theorem cut_ok {limit : Nat} {h l : List Entry} (hc : cut limit h = .ok l) :
    l = h ∧ h.length < limit := by
  by_cases hl : limit ≤ h.length
  · rw [cut_large hl] at hc; cases hc
  · rw [cut_small (by omega)] at hc
    cases hc
    exact ⟨rfl, by omega⟩

theorem cut_tooLarge {limit : Nat} {h : List Entry} (hc : cut limit h = .tooLarge) :
    limit ≤ h.length := by
  by_cases hl : limit ≤ h.length
  · exact hl
  · rw [cut_small (by omega)] at hc; cases hc

/-! ### list and dict facts -/

theorem dGet_filter_keys (t : List Bytes) (hx : Bytes) :
    ∀ (d : List (Bytes × HistRes)) {r : HistRes},
      dGet hx (d.filter (fun e => !t.contains e.1)) = some r → dGet hx d = some r ∧ hx ∉ t := by
  intro d
  induction d with
  | nil => intro r h; simp [dGet] at h
  | cons e d ih =>
    intro r h
    obtain ⟨k, v⟩ := e
    rw [List.filter_cons] at h
    by_cases hc : t.contains k = true
    · simp only [hc, Bool.not_true, Bool.false_eq_true, if_false] at h
      obtain ⟨h1, h2⟩ := ih h
      refine ⟨?_, h2⟩
      have hk : ¬ k = hx := by
        intro heq; apply h2; rw [← heq]; simpa using hc
      simp only [dGet]
      rw [if_neg hk]; exact h1
    · have hc' : t.contains k = false := by simpa using hc
      simp only [hc', Bool.not_false, if_true] at h
      simp only [dGet] at h ⊢
      by_cases hk : k = hx
      · rw [if_pos hk] at h ⊢
        refine ⟨h, ?_⟩
        rw [← hk]; simpa using hc'
      · rw [if_neg hk] at h ⊢
        exact ih h

theorem mem_eraseIdx_of_ne {α : Type} {l : List α} {i : Nat} {t t' : α}
    (hi : l[i]? = some t) (hm : t' ∈ l) (hne : t' ≠ t) : t' ∈ l.eraseIdx i := by
  rw [List.mem_eraseIdx_iff_getElem]
  obtain ⟨j, hj, hjt⟩ := List.getElem_of_mem hm
  refine ⟨j, hj, ?_, hjt⟩
  intro hji
  subst hji
  rw [List.getElem?_eq_getElem hj] at hi
  cases hi
  exact hne hjt.symm

/-! ### the invariant -/

/-- a block touched `hx` and the cache deletion of a notification naming it has not run yet -/
def Pending (s : State) (hx : Bytes) : Prop :=
  hx ∈ s.dirty ∨ ∃ n ∈ s.inflight, hx ∈ n.1 ∧ hx ∈ n.2

/-- every block's changes have been notified, every notification has completed its deletion -/
def Quiescent (s : State) : Prop := s.dirty = [] ∧ s.inflight = []

instance (s : State) : Decidable (Quiescent s) := by unfold Quiescent; infer_instance

theorem not_pending_of_quiescent {s : State} (h : Quiescent s) (hx : Bytes) : ¬ Pending s hx := by
  rintro (hd | ⟨n, hn, _⟩)
  · rw [h.1] at hd; cases hd
  · rw [h.2] at hn; cases hn

/-- the hypothesis on the index: a block changes the history of touched script hashes only -/
def EvOK (hist : Index) (v : Nat) : Ev → Prop
  | .block t => ∀ hx, hx ∉ t → hist (v + 1) hx = hist v hx
  | _ => True

def RunOK (hist : Index) (limit : Nat) : State → List Ev → Prop
  | _, [] => True
  | s, e :: r => EvOK hist s.ver e ∧ RunOK hist limit (step hist limit s e) r

structure Inv (hist : Index) (limit : Nat) (s : State) : Prop where
  /-- `CacheFresh` -/
  fresh : ∀ hx r, dGet hx s.cache = some r → r = cut limit (hist s.ver hx) ∨ Pending s hx
  whole : ∀ hx r, dGet hx s.cache = some r → ∃ v, v ≤ s.ver ∧ r = cut limit (hist v hx)
  vers : ∀ q ∈ s.reqs, q.arrVer ≤ q.startVer ∧ q.startVer ≤ s.ver
  snaple : ∀ q ∈ s.reqs, q.snap ≤ s.count
  reads : ∀ q ∈ s.reqs, q.snap = s.count → q.hx ∉ s.dirty →
    ∀ v, q.startVer ≤ v → v ≤ s.ver → hist v q.hx = hist s.ver q.hx

theorem inv_init (hist : Index) (limit : Nat) : Inv hist limit init where
  fresh := fun _ _ h => by simp [init, dGet] at h
  whole := fun _ _ h => by simp [init, dGet] at h
  vers := fun _ h => by simp [init] at h
  snaple := fun _ h => by simp [init] at h
  reads := fun _ h => by simp [init] at h

variable {hist : Index} {limit : Nat}

theorem inv_block {s : State} (t : List Bytes) (h : Inv hist limit s)
    (hok : ∀ hx, hx ∉ t → hist (s.ver + 1) hx = hist s.ver hx) :
    Inv hist limit (step hist limit s (.block t)) := by
  show Inv hist limit { s with ver := s.ver + 1, dirty := t ++ s.dirty }
  refine ⟨?_, ?_, ?_, h.snaple, ?_⟩
  · intro hx r hr
    by_cases ht : hx ∈ t
    · exact Or.inr (Or.inl (List.mem_append_left _ ht))
    · rcases h.fresh hx r hr with h1 | h1 | h1
      · left; show r = cut limit (hist (s.ver + 1) hx); rw [hok hx ht]; exact h1
      · exact Or.inr (Or.inl (List.mem_append_right _ h1))
      · exact Or.inr (Or.inr h1)
  · intro hx r hr
    obtain ⟨v, hv, hr'⟩ := h.whole hx r hr
    exact ⟨v, Nat.le_succ_of_le hv, hr'⟩
  · intro q hq
    have := h.vers q hq
    exact ⟨this.1, Nat.le_succ_of_le this.2⟩
  · intro q hq hs hd v hv1 hv2
    have hnt : q.hx ∉ t := fun hm => hd (List.mem_append_left _ hm)
    have hnd : q.hx ∉ s.dirty := fun hm => hd (List.mem_append_right _ hm)
    show hist v q.hx = hist (s.ver + 1) q.hx
    rw [hok _ hnt]
    by_cases hv : v ≤ s.ver
    · exact h.reads q hq hs hnd v hv1 hv
    · have hv' : v = s.ver + 1 := by
        have : v ≤ s.ver + 1 := hv2
        omega
      rw [hv', hok _ hnt]

theorem inv_notifyBegin {s : State} (t : List Bytes) (h : Inv hist limit s) :
    Inv hist limit (step hist limit s (.notifyBegin t)) := by
  show Inv hist limit { s with count := s.count + 1, dirty := s.dirty.filter (fun h => !t.contains h),
                               inflight := s.inflight ++ [(t, s.dirty)], lastTouched := t }
  refine ⟨?_, h.whole, h.vers, ?_, ?_⟩
  · intro hx r hr
    rcases h.fresh hx r hr with h1 | h1 | ⟨t', ht', hm⟩
    · exact Or.inl h1
    · right
      by_cases hc : hx ∈ t
      · exact Or.inr ⟨(t, s.dirty), by simp, hc, h1⟩
      · left
        show hx ∈ s.dirty.filter (fun h => !t.contains h)
        rw [List.mem_filter]
        exact ⟨h1, by simpa using hc⟩
    · exact Or.inr (Or.inr ⟨t', List.mem_append_left _ ht', hm⟩)
  · intro q hq
    exact Nat.le_succ_of_le (h.snaple q hq)
  · intro q hq hs
    have := h.snaple q hq
    have hs' : q.snap = s.count + 1 := hs
    omega

theorem inv_notifyDrop {s : State} (i : Nat) (h : Inv hist limit s) :
    Inv hist limit (step hist limit s (.notifyDrop i)) := by
  simp only [step, stepWith]
  split
  · exact h
  · rename_i n hi
    have hf : (fun e : Bytes × HistRes => !n.1.contains e.1 || (false && e.2 == HistRes.tooLarge))
        = (fun e => !n.1.contains e.1) := by
      funext e; simp
    rw [hf]
    refine ⟨?_, ?_, h.vers, h.snaple, h.reads⟩
    · intro hx r hr
      obtain ⟨h1, h2⟩ := dGet_filter_keys n.1 hx s.cache hr
      rcases h.fresh hx r h1 with h3 | h3 | ⟨n', hn', hm⟩
      · exact Or.inl h3
      · exact Or.inr (Or.inl h3)
      · refine Or.inr (Or.inr ⟨n', ?_, hm⟩)
        apply mem_eraseIdx_of_ne hi hn'
        intro heq; apply h2; rw [← heq]; exact hm.1
    · intro hx r hr
      exact h.whole hx r (dGet_filter_keys n.1 hx s.cache hr).1

theorem inv_request {s : State} (hx : Bytes) (h : Inv hist limit s) :
    Inv hist limit (step hist limit s (.request hx)) := by
  simp only [step, stepWith]
  split
  · exact h
  · refine ⟨h.fresh, h.whole, ?_, ?_, ?_⟩
    · intro q hq
      rcases List.mem_append.mp hq with hq | hq
      · exact h.vers q hq
      · simp only [List.mem_singleton] at hq
        subst hq
        exact ⟨Nat.le_refl _, Nat.le_refl _⟩
    · intro q hq
      rcases List.mem_append.mp hq with hq | hq
      · exact h.snaple q hq
      · simp only [List.mem_singleton] at hq
        subst hq
        exact Nat.le_refl _
    · intro q hq
      rcases List.mem_append.mp hq with hq | hq
      · exact h.reads q hq
      · simp only [List.mem_singleton] at hq
        subst hq
        intro _ _ v hv1 hv2
        have hv : v = s.ver := Nat.le_antisymm hv2 hv1
        rw [hv]

theorem inv_resume {s : State} (i v : Nat) (h : Inv hist limit s) :
    Inv hist limit (step hist limit s (.resume i v)) := by
  simp only [step, stepWith]
  split
  · exact h
  · rename_i q hi
    have hq : q ∈ s.reqs := List.mem_of_getElem? hi
    split
    · rename_i hg
      split
      · rename_i hacc
        have hsnap : q.snap = s.count := by simpa [accepts] using hacc
        refine ⟨?_, ?_, ?_, ?_, ?_⟩
        · intro hx r hr
          by_cases hk : hx = q.hx
          · subst hk
            rw [dGet_dSet_self] at hr
            cases hr
            by_cases hd : q.hx ∈ s.dirty
            · exact Or.inr (Or.inl hd)
            · left
              show cut limit (hist v q.hx) = cut limit (hist s.ver q.hx)
              rw [h.reads q hq hsnap hd v hg.1 hg.2]
          · rw [dGet_dSet_ne hk] at hr
            exact h.fresh hx r hr
        · intro hx r hr
          by_cases hk : hx = q.hx
          · subst hk
            rw [dGet_dSet_self] at hr
            cases hr
            exact ⟨v, hg.2, rfl⟩
          · rw [dGet_dSet_ne hk] at hr
            exact h.whole hx r hr
        · intro q' hq'; exact h.vers q' (List.mem_of_mem_eraseIdx hq')
        · intro q' hq'; exact h.snaple q' (List.mem_of_mem_eraseIdx hq')
        · intro q' hq'; exact h.reads q' (List.mem_of_mem_eraseIdx hq')
      · refine ⟨h.fresh, h.whole, ?_, ?_, ?_⟩
        · intro q' hq'
          rcases List.mem_or_eq_of_mem_set hq' with hq' | hq'
          · exact h.vers q' hq'
          · subst hq'
            have := h.vers q hq
            exact ⟨Nat.le_trans this.1 this.2, Nat.le_refl _⟩
        · intro q' hq'
          rcases List.mem_or_eq_of_mem_set hq' with hq' | hq'
          · exact h.snaple q' hq'
          · subst hq'
            exact Nat.le_refl _
        · intro q' hq'
          rcases List.mem_or_eq_of_mem_set hq' with hq' | hq'
          · exact h.reads q' hq'
          · subst hq'
            intro _ _ v' hv1 hv2
            have hv : v' = s.ver := Nat.le_antisymm hv2 hv1
            rw [hv]
    · exact h

theorem inv_evict {s : State} (hx : Bytes) (h : Inv hist limit s) :
    Inv hist limit (step hist limit s (.evict hx)) := by
  show Inv hist limit { s with cache := dErase hx s.cache }
  exact ⟨fun k r hr => h.fresh k r (dGet_dErase_some hr),
         fun k r hr => h.whole k r (dGet_dErase_some hr), h.vers, h.snaple, h.reads⟩

theorem inv_step {s : State} (e : Ev) (h : Inv hist limit s) (hok : EvOK hist s.ver e) :
    Inv hist limit (step hist limit s e) := by
  cases e with
  | block t => exact inv_block t h hok
  | notifyBegin t => exact inv_notifyBegin t h
  | notifyDrop i => exact inv_notifyDrop i h
  | request hx => exact inv_request hx h
  | resume i v => exact inv_resume i v h
  | evict hx => exact inv_evict hx h

theorem run_cons (s : State) (e : Ev) (r : List Ev) :
    run hist limit s (e :: r) = run hist limit (step hist limit s e) r := rfl

theorem replies_cons (s : State) (e : Ev) (r : List Ev) :
    replies hist limit s (e :: r) =
      (out hist limit s e).toList ++ replies hist limit (step hist limit s e) r := rfl

theorem inv_run : ∀ (evs : List Ev) {s : State}, Inv hist limit s → RunOK hist limit s evs →
    Inv hist limit (run hist limit s evs) := by
  intro evs
  induction evs with
  | nil => intro s h _; exact h
  | cons e r ih =>
    intro s h hok
    rw [run_cons]
    exact ih (inv_step e h hok.1) hok.2

theorem runOK_append : ∀ (evs evs' : List Ev) (s : State),
    RunOK hist limit s (evs ++ evs') ↔
      RunOK hist limit s evs ∧ RunOK hist limit (run hist limit s evs) evs' := by
  intro evs
  induction evs with
  | nil => intro evs' s; exact ⟨fun h => ⟨trivial, h⟩, fun h => h.2⟩
  | cons e r ih =>
    intro evs' s
    show (EvOK hist s.ver e ∧ RunOK hist limit (step hist limit s e) (r ++ evs')) ↔
      (EvOK hist s.ver e ∧ RunOK hist limit (step hist limit s e) r) ∧
        RunOK hist limit (run hist limit (step hist limit s e) r) evs'
    rw [ih evs' (step hist limit s e), and_assoc]

theorem replies_append : ∀ (evs evs' : List Ev) (s : State),
    replies hist limit s (evs ++ evs') =
      replies hist limit s evs ++ replies hist limit (run hist limit s evs) evs' := by
  intro evs
  induction evs with
  | nil => intro evs' s; rfl
  | cons e r ih =>
    intro evs' s
    rw [List.cons_append, replies_cons, replies_cons, run_cons, ih evs' (step hist limit s e),
      List.append_assoc]

/-! ### replies -/

theorem inflightHas_false {s : State} {hx : Bytes} (h : inflightHas s hx = false) :
    ¬ ∃ n ∈ s.inflight, hx ∈ n.1 ∧ hx ∈ n.2 := by
  rintro ⟨n, hn, hm⟩
  have : inflightHas s hx = true := by
    unfold inflightHas
    rw [List.any_eq_true]
    exact ⟨n, hn, by simpa using hm⟩
  rw [h] at this; cases this

/-- what a single reply is, in terms of the state it was sent from -/
structure AnsSpec (hist : Index) (limit : Nat) (s : State) (a : Ans) : Prop where
  ansVer : a.ansVer = s.ver
  arr : a.arrVer ≤ a.ansVer
  /-- the reply is the `cut` of one version, current at some moment during the request (miss) or
      not later than the request (hit) -/
  whole : ∃ v, v ≤ a.ansVer ∧ (a.hit = false → a.arrVer ≤ v) ∧ a.res = cut limit (hist v a.hx)
  /-- a miss is answered from the version current at the answer unless a block touched the script
      hash since the read started and no notification naming it has begun -/
  miss : a.hit = false → a.dirty = false → a.res = cut limit (hist a.ansVer a.hx)
  /-- a hit likewise unless a block touched it and the deletion of its notification has not run -/
  hit : a.dirty = false → a.inflight = false → a.res = cut limit (hist a.ansVer a.hx)
  dirty : a.dirty = false → a.hx ∉ s.dirty
  inflight : a.inflight = false → ¬ ∃ n ∈ s.inflight, a.hx ∈ n.1 ∧ a.hx ∈ n.2

theorem out_spec {s : State} {e : Ev} {a : Ans} (h : Inv hist limit s)
    (ha : out hist limit s e = some a) : AnsSpec hist limit s a := by
  cases e with
  | block t => cases ha
  | notifyBegin t => cases ha
  | notifyDrop i => cases ha
  | evict hx => cases ha
  | request hx =>
    simp only [out, outWith] at ha
    split at ha
    · rename_i r hr
      cases ha
      have hd : ∀ {b : Bool}, s.dirty.contains hx = b → b = false → hx ∉ s.dirty := by
        intro b hb hb'; subst hb'; simpa using hb
      refine ⟨rfl, Nat.le_refl _, ?_, ?_, ?_, hd rfl, inflightHas_false⟩
      · obtain ⟨v, hv, hr'⟩ := h.whole hx r hr
        exact ⟨v, hv, (fun hf => by cases hf), hr'⟩
      · intro hf; cases hf
      · intro h1 h2
        rcases h.fresh hx r hr with h3 | h3 | h3
        · exact h3
        · exact absurd h3 (hd rfl h1)
        · exact absurd h3 (inflightHas_false h2)
    · cases ha
  | resume i v =>
    simp only [out, outWith] at ha
    split at ha
    · cases ha
    · rename_i q hi
      have hq : q ∈ s.reqs := List.mem_of_getElem? hi
      split at ha
      · rename_i hg
        split at ha
        · rename_i hacc
          have hsnap : q.snap = s.count := by simpa [accepts] using hacc
          cases ha
          have hd : ∀ {b : Bool}, s.dirty.contains q.hx = b → b = false → q.hx ∉ s.dirty := by
            intro b hb hb'; subst hb'; simpa using hb
          have hv := h.vers q hq
          have hm : s.dirty.contains q.hx = false →
              cut limit (hist v q.hx) = cut limit (hist s.ver q.hx) := by
            intro h1
            rw [h.reads q hq hsnap (hd rfl h1) v hg.1 hg.2]
          refine ⟨rfl, Nat.le_trans hv.1 hv.2, ⟨v, hg.2, fun _ => Nat.le_trans hv.1 hg.1, rfl⟩,
            fun _ h1 => hm h1, fun h1 _ => hm h1, hd rfl, inflightHas_false⟩
        · cases ha
      · cases ha

/-! ### once a script hash is not pending -/

theorem step_ver_hist {s : State} {e : Ev} {hx : Bytes} (hok : EvOK hist s.ver e)
    (hnb : ∀ t, e = .block t → hx ∉ t) :
    hist (step hist limit s e).ver hx = hist s.ver hx := by
  cases e with
  | block t => exact hok hx (hnb t rfl)
  | notifyBegin t => rfl
  | notifyDrop i =>
    simp only [step, stepWith]; split <;> rfl
  | request k =>
    simp only [step, stepWith]; split <;> rfl
  | resume i v =>
    simp only [step, stepWith]
    split
    · rfl
    · split
      · split <;> rfl
      · rfl
  | evict k => rfl

theorem step_not_pending {s : State} {e : Ev} {hx : Bytes} (hp : ¬ Pending s hx)
    (hnb : ∀ t, e = .block t → hx ∉ t) : ¬ Pending (step hist limit s e) hx := by
  have hd : hx ∉ s.dirty := fun h => hp (Or.inl h)
  have hi : ¬ ∃ n ∈ s.inflight, hx ∈ n.1 ∧ hx ∈ n.2 := fun h => hp (Or.inr h)
  cases e with
  | block t =>
    rintro (h | h)
    · rcases List.mem_append.mp h with h | h
      · exact hnb t rfl h
      · exact hd h
    · exact hi h
  | notifyBegin t =>
    rintro (h | ⟨n, hn, hm⟩)
    · exact hd (List.mem_filter.mp h).1
    · rcases List.mem_append.mp hn with hn | hn
      · exact hi ⟨n, hn, hm⟩
      · simp only [List.mem_singleton] at hn
        subst hn
        exact hd hm.2
  | notifyDrop i =>
    simp only [step, stepWith]
    split
    · exact hp
    · rintro (h | ⟨n, hn, hm⟩)
      · exact hd h
      · exact hi ⟨n, List.mem_of_mem_eraseIdx hn, hm⟩
  | request k =>
    simp only [step, stepWith]
    split
    · exact hp
    · exact hp
  | resume i v =>
    simp only [step, stepWith]
    split
    · exact hp
    · split
      · split
        · exact hp
        · exact hp
      · exact hp
  | evict k => exact hp

/-- **(c), general form.**  From a state in which `hx` is not pending, as long as no block touches
    `hx`, every reply for `hx` is the `cut` of the (unchanged) current history. -/
theorem replies_not_pending {hx : Bytes} : ∀ (evs : List Ev) {s : State}, Inv hist limit s →
    ¬ Pending s hx → RunOK hist limit s evs → (∀ t, Ev.block t ∈ evs → hx ∉ t) →
    ∀ a ∈ replies hist limit s evs, a.hx = hx → a.res = cut limit (hist s.ver hx) := by
  intro evs
  induction evs with
  | nil => intro s _ _ _ _ a ha; cases ha
  | cons e r ih =>
    intro s h hp hok hnb a ha hax
    rw [replies_cons] at ha
    have hnb' : ∀ t, e = .block t → hx ∉ t := fun t he => hnb t (by rw [he]; exact List.mem_cons_self)
    rcases List.mem_append.mp ha with ha | ha
    · have hout : out hist limit s e = some a := by
        cases ho : out hist limit s e with
        | none => rw [ho] at ha; cases ha
        | some b =>
          rw [ho] at ha
          simp only [Option.toList, List.mem_singleton] at ha
          rw [ha]
      have sp := out_spec h hout
      have hd : a.dirty = false := by
        cases hb : a.dirty with
        | false => rfl
        | true =>
          exfalso
          cases e with
          | request k =>
            simp only [out, outWith] at hout
            split at hout
            · cases hout
              apply hp; left
              subst hax
              simpa using hb
            · cases hout
          | resume i v =>
            simp only [out, outWith] at hout
            split at hout
            · cases hout
            · split at hout
              · split at hout
                · cases hout
                  apply hp; left
                  subst hax
                  simpa using hb
                · cases hout
              · cases hout
          | block t => cases hout
          | notifyBegin t => cases hout
          | notifyDrop i => cases hout
          | evict k => cases hout
      have hi : a.inflight = false := by
        cases hb : a.inflight with
        | false => rfl
        | true =>
          exfalso
          have hh : inflightHas s hx = true := by
            cases e with
            | request k =>
              simp only [out, outWith] at hout
              split at hout
              · cases hout; subst hax; exact hb
              · cases hout
            | resume i v =>
              simp only [out, outWith] at hout
              split at hout
              · cases hout
              · split at hout
                · split at hout
                  · cases hout; subst hax; exact hb
                  · cases hout
                · cases hout
            | block t => cases hout
            | notifyBegin t => cases hout
            | notifyDrop i => cases hout
            | evict k => cases hout
          unfold inflightHas at hh
          rw [List.any_eq_true] at hh
          obtain ⟨n, hn, hm⟩ := hh
          apply hp; right
          exact ⟨n, hn, by simpa using hm⟩
      rw [sp.hit hd hi, sp.ansVer, hax]
    · rw [← step_ver_hist (limit := limit) hok.1 hnb']
      exact ih (inv_step e h hok.1) (step_not_pending hp hnb') hok.2
        (fun t ht => hnb t (List.mem_cons_of_mem _ ht)) a ha hax

/-- every reply of a run satisfies `AnsSpec` of the state it was sent from -/
theorem replies_spec : ∀ (evs : List Ev) {s : State}, Inv hist limit s → RunOK hist limit s evs →
    ∀ a ∈ replies hist limit s evs, ∃ s', Inv hist limit s' ∧ AnsSpec hist limit s' a := by
  intro evs
  induction evs with
  | nil => intro s _ _ a ha; cases ha
  | cons e r ih =>
    intro s h hok a ha
    rw [replies_cons] at ha
    rcases List.mem_append.mp ha with ha | ha
    · cases ho : out hist limit s e with
      | none => rw [ho] at ha; cases ha
      | some b =>
        rw [ho] at ha
        simp only [Option.toList, List.mem_singleton] at ha
        subst ha
        exact ⟨s, h, out_spec h ho⟩
    · exact ih (inv_step e h hok.1) hok.2 a ha

/-- a notification whose touched set covers everything dirty leaves nothing dirty -/
theorem notifyBegin_covering {s : State} {t : List Bytes} (hc : ∀ hx ∈ s.dirty, hx ∈ t) :
    (step hist limit s (.notifyBegin t)).dirty = [] := by
  show s.dirty.filter (fun h => !t.contains h) = []
  rw [List.filter_eq_nil_iff]
  intro a ha
  simp [hc a ha]

end EV.HistFresh

import EV.Proofs.IndexFlushUtxo
import EV.Proofs.IndexBackup
import EV.Proofs.IndexHistInv

/-!
Facts about the specification itself: every UTXO's tx number indexes its own transaction in the tx
table (so tx numbers determine txids — the hypothesis `TxnumFun` of the flush lemma), and there is
one touched entry per transaction (the hypothesis `hlen` of the history lemmas).
-/
namespace EV.Index
open EV.Spec

structure SpecOK (S : St) : Prop where
  len : S.touched.length = S.txs.length
  utxoTx : ∀ u ∈ S.utxos, S.txs[u.txnum]? = some (u.txid, u.height)

theorem specOK_empty : SpecOK {} := ⟨rfl, by simp⟩

theorem newUtxos_fields {act height n : Nat} {txid : Hash} {outs : List TxOut} {idx : Nat} {x : Utxo}
    (hx : x ∈ newUtxos act height n txid outs idx) : x.txid = txid ∧ x.txnum = n ∧ x.height = height := by
  induction outs generalizing idx with
  | nil => simp [newUtxos] at hx
  | cons o r ih =>
    simp only [newUtxos] at hx
    by_cases hun : unspendable act height o.kind
    · simp only [hun, if_true] at hx; exact ih hx
    · simp only [hun, Bool.false_eq_true, if_false, List.mem_cons] at hx
      rcases hx with rfl | hx
      · exact ⟨rfl, rfl, rfl⟩
      · exact ih hx

theorem specOK_applyTx {act height : Nat} {S : St} (h : SpecOK S) (tx : Tx) :
    SpecOK (applyTx act height S tx) := by
  rw [applyTx_eq]
  refine ⟨by simp [h.len], ?_⟩
  intro u hu
  simp only [List.mem_append] at hu
  rcases hu with hu | hu
  · have := h.utxoTx u ((spendAll_sublist _ _).subset hu)
    have hlt : u.txnum < S.txs.length := by
      rcases Nat.lt_or_ge u.txnum S.txs.length with hlt | hge
      · exact hlt
      · rw [List.getElem?_eq_none hge] at this; simp at this
    simp only
    rw [List.getElem?_append_left hlt]; exact this
  · obtain ⟨h1, h2, h3⟩ := newUtxos_fields hu
    simp only
    rw [h2, List.getElem?_append_right (Nat.le_refl _)]
    simp [h1, h3]

theorem specOK_foldl {act height : Nat} (txs : List Tx) {S : St} (h : SpecOK S) :
    SpecOK (txs.foldl (applyTx act height) S) := by
  induction txs generalizing S with
  | nil => exact h
  | cons tx r ih => exact ih (specOK_applyTx h tx)

theorem specOK_specFrom (act : Nat) (chain : List Block) {S : St} (height : Nat) (h : SpecOK S) :
    SpecOK (specFrom act S height chain) := by
  induction chain generalizing S height with
  | nil => exact h
  | cons b r ih => exact ih (height + 1) (specOK_foldl b.txs h)

/-- the specification of any chain is well formed -/
theorem specOK_chain (act : Nat) (chain : List Block) : SpecOK (specChain act chain) :=
  specOK_specFrom act chain 0 specOK_empty

/-- tx numbers determine txids among the UTXOs of any chain -/
theorem txnumFun_of_specOK {S : St} (h : SpecOK S) : TxnumFun S.utxos := by
  intro a ha b hb hab
  have h1 := h.utxoTx a ha
  have h2 := h.utxoTx b hb
  rw [hab, h2] at h1
  simp at h1
  exact h1.1.symm

end EV.Index

import EV.Proofs.RpcExec

/-! Helper lemmas for C16/C17: dict facts, what a request does to the session and to the shared
caches, and that replies do not depend on what the caches happen to hold. -/
namespace EV.Rpc

/-! ### association lists -/

section Dict
variable {α β : Type} [DecidableEq α]

theorem dErase_cons (k : α) (e : α × β) (r : List (α × β)) :
    dErase k (e :: r) = if e.1 = k then dErase k r else e :: dErase k r := by
  unfold dErase
  rw [List.filter_cons]
  by_cases h : e.1 = k <;> simp [h]

theorem dGet_dErase_self (k : α) (d : List (α × β)) : dGet k (dErase k d) = none := by
  induction d with
  | nil => rfl
  | cons e r ih =>
    rw [dErase_cons]
    by_cases hk : e.1 = k
    · rw [if_pos hk]; exact ih
    · rw [if_neg hk]
      obtain ⟨k', v⟩ := e
      simp only [dGet]
      rw [if_neg hk]; exact ih

theorem dGet_dErase_ne {k k' : α} (h : k' ≠ k) (d : List (α × β)) :
    dGet k' (dErase k d) = dGet k' d := by
  induction d with
  | nil => rfl
  | cons e r ih =>
    rw [dErase_cons]
    obtain ⟨k'', v⟩ := e
    by_cases hk : k'' = k
    · rw [if_pos hk]
      have hne : ¬ k'' = k' := fun h' => h (h' ▸ hk)
      simp only [dGet]
      rw [if_neg hne]; exact ih
    · rw [if_neg hk]
      simp only [dGet]
      by_cases hk' : k'' = k'
      · rw [if_pos hk', if_pos hk']
      · rw [if_neg hk', if_neg hk']; exact ih

theorem dGet_dSet_self (k : α) (v : β) (d : List (α × β)) : dGet k (dSet k v d) = some v := by
  simp [dSet, dGet]

theorem dGet_dSet_ne {k k' : α} (h : k' ≠ k) (v : β) (d : List (α × β)) :
    dGet k' (dSet k v d) = dGet k' d := by
  have h' : k ≠ k' := fun e => h e.symm
  simp [dSet, dGet, h', dGet_dErase_ne h]

end Dict

theorem mem_addKey {k x : Nat} {l : List Nat} : x ∈ addKey k l ↔ x = k ∨ x ∈ l := by
  unfold addKey
  split
  · rename_i h
    constructor
    · intro hx; exact Or.inr hx
    · rintro (rfl | hx)
      · simpa using h
      · exact hx
  · simp

/-! ### how the shared caches may change -/

/-- The caches only gain entries, and only entries that agree with the index: a cached history is
    what a miss computes, cached tx hashes belong to a block on disk, a merkle cache to a block of
    200+ transactions.  Nothing is evicted or overwritten (the model has no LRU capacity). -/
structure CacheGrowth (w : World) (m m' : Mgr) : Prop where
  histKeep : ∀ hx r, dGet hx m.histCache = some r → dGet hx m'.histCache = some r
  histNew : ∀ hx r, dGet hx m'.histCache = some r →
    dGet hx m.histCache = some r ∨ r = histCompute w hx
  txKeep : ∀ h, h ∈ m.txCache → h ∈ m'.txCache
  txNew : ∀ h, h ∈ m'.txCache → h ∈ m.txCache ∨ h ≤ w.height
  mkKeep : ∀ h, h ∈ m.merkleCache → h ∈ m'.merkleCache
  mkNew : ∀ h, h ∈ m'.merkleCache → h ∈ m.merkleCache ∨ 200 ≤ (w.blockTxs h).length

theorem CacheGrowth.refl (w : World) (m : Mgr) : CacheGrowth w m m :=
  ⟨fun _ _ h => h, fun _ _ h => Or.inl h, fun _ h => h, fun _ h => Or.inl h, fun _ h => h,
   fun _ h => Or.inl h⟩

theorem CacheGrowth.trans {w : World} {a b c : Mgr} (h1 : CacheGrowth w a b)
    (h2 : CacheGrowth w b c) : CacheGrowth w a c where
  histKeep hx r h := h2.histKeep hx r (h1.histKeep hx r h)
  histNew hx r h := by
    rcases h2.histNew hx r h with h | h
    · exact h1.histNew hx r h
    · exact Or.inr h
  txKeep h hh := h2.txKeep h (h1.txKeep h hh)
  txNew h hh := by
    rcases h2.txNew h hh with h' | h'
    · exact h1.txNew h h'
    · exact Or.inr h'
  mkKeep h hh := h2.mkKeep h (h1.mkKeep h hh)
  mkNew h hh := by
    rcases h2.mkNew h hh with h' | h'
    · exact h1.mkNew h h'
    · exact Or.inr h'

theorem limitedHistory_growth (w : World) (m : Mgr) (hx : Bytes) :
    CacheGrowth w m (limitedHistory w m hx).1 := by
  unfold limitedHistory
  split
  · exact CacheGrowth.refl w m
  · rename_i hnone
    refine ⟨?_, ?_, fun _ h => h, fun _ h => Or.inl h, fun _ h => h, fun _ h => Or.inl h⟩
    · intro hx' r h
      have hne : hx' ≠ hx := by
        intro heq; rw [heq, hnone] at h; cases h
      simp only
      rw [dGet_dSet_ne hne]; exact h
    · intro hx' r h
      simp only at h
      by_cases heq : hx' = hx
      · rw [heq, dGet_dSet_self] at h
        cases h
        exact Or.inr (by rw [heq])
      · rw [dGet_dSet_ne heq] at h
        exact Or.inl h

theorem txHashesAt_growth (w : World) (m : Mgr) (h : Nat) :
    CacheGrowth w m (txHashesAt w m h).1 := by
  unfold txHashesAt
  split
  · exact CacheGrowth.refl w m
  · split
    · exact CacheGrowth.refl w m
    · rename_i hle
      refine ⟨fun _ _ h => h, fun _ _ h => Or.inl h, ?_, ?_, fun _ h => h, fun _ h => Or.inl h⟩
      · intro x hx; exact mem_addKey.mpr (Or.inr hx)
      · intro x hx
        rcases mem_addKey.mp hx with rfl | hx
        · exact Or.inr (by omega)
        · exact Or.inl hx

theorem txHashesAt_ok {w : World} {m : Mgr} {h : Nat} {txs : List Bytes}
    (he : (txHashesAt w m h).2 = .ok txs) : txs = w.blockTxs h := by
  unfold txHashesAt at he
  split at he
  · simp at he; exact he.symm
  · split at he
    · simp at he
    · simp at he; exact he.symm

theorem merkleBranch_growth (w : World) (m : Mgr) (h : Nat) :
    CacheGrowth w m (merkleBranch m h (w.blockTxs h).length) := by
  unfold merkleBranch
  split
  · rename_i h200
    refine ⟨fun _ _ h => h, fun _ _ h => Or.inl h, fun _ h => h, fun _ h => Or.inl h, ?_, ?_⟩
    · intro x hx; exact mem_addKey.mpr (Or.inr hx)
    · intro x hx
      rcases mem_addKey.mp hx with rfl | hx
      · exact Or.inr h200
      · exact Or.inl hx
  · exact CacheGrowth.refl w m

/-! ### state after each cache-using body -/

theorem execGetHistory_fst (w : World) (st : St) (hx : Bytes) :
    (execGetHistory w st hx).1 = { st with mgr := (limitedHistory w st.mgr hx).1 } := by
  unfold execGetHistory
  split <;> (rename_i heq; simp [heq])

theorem execGetHistory_snd (w : World) (st : St) (hx : Bytes) :
    (execGetHistory w st hx).2 =
      match (limitedHistory w st.mgr hx).2 with
      | .ok hist => .ok (.history hist (w.mempool hx))
      | .error e => .error e := by
  unfold execGetHistory
  split <;> (rename_i heq; simp [heq])

theorem addressStatus_mgr (w : World) (st : St) (hx : Bytes) :
    (addressStatus w st hx).1.mgr = (limitedHistory w st.mgr hx).1 := by
  unfold addressStatus
  split <;> (rename_i heq; simp [heq])

theorem addressStatus_snd (w : World) (st : St) (hx : Bytes) :
    (addressStatus w st hx).2 =
      match (limitedHistory w st.mgr hx).2 with
      | .ok hist => .ok (statusOf hist (w.mempool hx))
      | .error e => .error e := by
  unfold addressStatus
  split <;> (rename_i heq; simp [heq])

theorem addressStatus_sess (w : World) (st : St) (hx : Bytes) :
    (addressStatus w st hx).1.sess =
      match (limitedHistory w st.mgr hx).2 with
      | .ok hist =>
        { st.sess with
          mpStatus := if (w.mempool hx).isEmpty then dErase hx st.sess.mpStatus
                      else dSet hx (statusOf hist (w.mempool hx)) st.sess.mpStatus }
      | .error _ => st.sess := by
  unfold addressStatus
  split <;> (rename_i heq; simp [heq])

theorem addressStatus_subs (w : World) (st : St) (hx : Bytes) :
    (addressStatus w st hx).1.sess.subs = st.sess.subs ∧
    (addressStatus w st hx).1.sess.subHeaders = st.sess.subHeaders ∧
    (addressStatus w st hx).1.sess.svSeen = st.sess.svSeen ∧
    (addressStatus w st hx).1.sess.isPeer = st.sess.isPeer ∧
    (addressStatus w st hx).1.sess.ptuple = st.sess.ptuple := by
  rw [addressStatus_sess]
  split <;> simp

theorem execSubscribe_mgr (w : World) (st : St) (hx : Bytes) (a : String) :
    (execSubscribe w st hx a).1.mgr = (limitedHistory w st.mgr hx).1 := by
  rcases hlh : limitedHistory w st.mgr hx with ⟨m, (e | hist)⟩ <;>
    simp [execSubscribe, addressStatus, hlh]

theorem execSubscribe_snd (w : World) (st : St) (hx : Bytes) (a : String) :
    (execSubscribe w st hx a).2 =
      match (limitedHistory w st.mgr hx).2 with
      | .ok hist => .ok (.status (statusOf hist (w.mempool hx)))
      | .error e => .error e := by
  rcases hlh : limitedHistory w st.mgr hx with ⟨m, (e | hist)⟩ <;>
    simp [execSubscribe, addressStatus, hlh]

theorem execSubscribe_sess (w : World) (st : St) (hx : Bytes) (a : String) :
    (execSubscribe w st hx a).1.sess =
      match (limitedHistory w st.mgr hx).2 with
      | .ok hist =>
        { st.sess with
          mpStatus := if (w.mempool hx).isEmpty then dErase hx st.sess.mpStatus
                      else dSet hx (statusOf hist (w.mempool hx)) st.sess.mpStatus,
          subs := dSet hx a st.sess.subs }
      | .error _ => st.sess := by
  rcases hlh : limitedHistory w st.mgr hx with ⟨m, (e | hist)⟩ <;>
    simp [execSubscribe, addressStatus, hlh]

/-- state and reply of the three bodies that read block tx hashes, as a function of
    `txHashesAt` only -/
theorem execGetMerkle_sess (w : World) (st : St) (t : Bytes) (h : Nat) :
    (execGetMerkle w st t h).1.sess = st.sess := by
  unfold execGetMerkle
  split
  · rfl
  · split <;> rfl

theorem execGetTscMerkle_sess (w : World) (st : St) (t : Bytes) (h : Nat) (b : Bool) (j : J) :
    (execGetTscMerkle w st t h b j).1.sess = st.sess := by
  unfold execGetTscMerkle
  split
  · rfl
  · split
    · rfl
    · split
      · rfl
      · split <;> rfl

theorem execIdFromPos_sess (w : World) (st : St) (h p : Nat) (b : Bool) :
    (execIdFromPos w st h p b).1.sess = st.sess := by
  unfold execIdFromPos
  split
  · rfl
  · split
    · rfl
    · split <;> rfl

theorem growth_tx_merkle {w : World} {m m1 : Mgr} {h : Nat} {txs : List Bytes}
    (heq : txHashesAt w m h = (m1, .ok txs)) :
    CacheGrowth w m (merkleBranch m1 h txs.length) := by
  have h1 : CacheGrowth w m m1 := by
    have := txHashesAt_growth w m h
    rw [heq] at this; exact this
  have h2 : txs = w.blockTxs h := txHashesAt_ok (by rw [heq])
  rw [h2]
  exact h1.trans (merkleBranch_growth w m1 h)

theorem growth_tx {w : World} {m m1 : Mgr} {h : Nat} {r : Except PyExc (List Bytes)}
    (heq : txHashesAt w m h = (m1, r)) : CacheGrowth w m m1 := by
  have := txHashesAt_growth w m h
  rw [heq] at this; exact this

theorem execGetMerkle_growth (w : World) (st : St) (t : Bytes) (h : Nat) :
    CacheGrowth w st.mgr (execGetMerkle w st t h).1.mgr := by
  unfold execGetMerkle
  split
  · rename_i heq; exact growth_tx heq
  · rename_i heq
    split
    · exact growth_tx heq
    · exact growth_tx_merkle heq

theorem execGetTscMerkle_growth (w : World) (st : St) (t : Bytes) (h : Nat) (b : Bool) (j : J) :
    CacheGrowth w st.mgr (execGetTscMerkle w st t h b j).1.mgr := by
  unfold execGetTscMerkle
  split
  · rename_i heq; exact growth_tx heq
  · rename_i heq
    split
    · exact growth_tx heq
    · split
      · exact growth_tx_merkle heq
      · split <;> exact growth_tx_merkle heq

theorem execIdFromPos_growth (w : World) (st : St) (h p : Nat) (b : Bool) :
    CacheGrowth w st.mgr (execIdFromPos w st h p b).1.mgr := by
  unfold execIdFromPos
  split
  · rename_i heq; exact growth_tx heq
  · rename_i heq
    split
    · exact growth_tx heq
    · split
      · exact growth_tx_merkle heq
      · exact growth_tx heq

theorem execAddPeerWith_snd_indep (c : List String) (w : World) (st st' : St) (f : J) :
    (execAddPeerWith c w st f).2 = (execAddPeerWith c w st' f).2 := by
  unfold execAddPeerWith
  split
  · rfl
  · split
    · rfl
    · split
      · rfl
      · split
        · rfl
        · split <;> rfl

theorem execAddPeerWith_fst (c : List String) (w : World) (st : St) (f : J) :
    (execAddPeerWith c w st f).1 = { st with sess := { st.sess with isPeer := true } } := by
  unfold execAddPeerWith
  split
  · rfl
  · split
    · rfl
    · split
      · rfl
      · split
        · rfl
        · split <;> rfl

/-- every request, whatever its outcome: the shared caches only grow coherently -/
theorem exec_growth (w : World) (st : St) (r : Req) : CacheGrowth w st.mgr (exec w st r).1.mgr := by
  cases r <;> simp only [exec]
  case getHistory hx => rw [execGetHistory_fst]; exact limitedHistory_growth w st.mgr hx
  case subscribe hx a => rw [execSubscribe_mgr]; exact limitedHistory_growth w st.mgr hx
  case getMerkle t h => exact execGetMerkle_growth w st t h
  case getTscMerkle t h b j => exact execGetTscMerkle_growth w st t h b j
  case idFromPos h p b => exact execIdFromPos_growth w st h p b
  case addPeer f => rw [execAddPeerWith_fst]; exact CacheGrowth.refl w st.mgr
  case broadcast raw => split <;> exact CacheGrowth.refl w st.mgr
  case txGet t => split <;> exact CacheGrowth.refl w st.mgr
  case version n p =>
    unfold execVersion
    split
    · exact CacheGrowth.refl w st.mgr
    · split
      · exact CacheGrowth.refl w st.mgr
      · split <;> exact CacheGrowth.refl w st.mgr
  all_goals exact CacheGrowth.refl w st.mgr

/-- what every error reply leaves alone in the session -/
structure SessKept (s s' : Sess) : Prop where
  subs : s'.subs = s.subs
  mpStatus : s'.mpStatus = s.mpStatus
  subHeaders : s'.subHeaders = s.subHeaders
  ptuple : s'.ptuple = s.ptuple

theorem SessKept.refl (s : Sess) : SessKept s s := ⟨rfl, rfl, rfl, rfl⟩

/-- An error reply from a handler body: subscriptions, mempool statuses, header subscription and
    protocol version are untouched; `sv_seen` can only have been set by `server.version`,
    `is_peer` only by `server.add_peer`. -/
def ErrKeeps (st st' : St) (r : Req) : Prop :=
  SessKept st.sess st'.sess ∧
  (st'.sess.svSeen = st.sess.svSeen ∨ ∃ n p, r = .version n p) ∧
  (st'.sess.isPeer = st.sess.isPeer ∨ ∃ f, r = .addPeer f)

theorem errKeeps_of_eq {st st' : St} {r : Req} (h : st'.sess = st.sess) : ErrKeeps st st' r := by
  unfold ErrKeeps
  rw [h]
  exact ⟨SessKept.refl _, Or.inl rfl, Or.inl rfl⟩

theorem exec_error_effect (w : World) (st : St) (r : Req) (e : PyExc)
    (he : (exec w st r).2 = .error e) : ErrKeeps st (exec w st r).1 r := by
  cases r <;> simp only [exec] at he ⊢
  case blockHeader h cp => exact errKeeps_of_eq rfl
  case blockHeaders s c cp => exact errKeeps_of_eq rfl
  case getHistory hx => rw [execGetHistory_fst]; exact errKeeps_of_eq rfl
  case subscribe hx a =>
    apply errKeeps_of_eq
    have hs := execSubscribe_sess w st hx a
    rw [execSubscribe_snd] at he
    split at he
    · cases he
    · rename_i e' hl
      rw [hl] at hs
      exact hs
  case broadcast raw =>
    split at he
    · cases he
    · rename_i hb; simp only [hb]; exact errKeeps_of_eq rfl
  case txGet t =>
    split at he
    · cases he
    · rename_i hb; simp only [hb]; exact errKeeps_of_eq rfl
  case getMerkle t h => exact errKeeps_of_eq (execGetMerkle_sess w st t h)
  case getTscMerkle t h b j => exact errKeeps_of_eq (execGetTscMerkle_sess w st t h b j)
  case idFromPos h p b => exact errKeeps_of_eq (execIdFromPos_sess w st h p b)
  case addPeer f =>
    rw [execAddPeerWith_fst]
    exact ⟨⟨rfl, rfl, rfl, rfl⟩, Or.inl rfl, Or.inr ⟨f, rfl⟩⟩
  case version n p =>
    refine ⟨?_, Or.inr ⟨n, p, rfl⟩, ?_⟩
    · unfold execVersion at he ⊢
      split
      · exact SessKept.refl _
      · split
        · exact ⟨rfl, rfl, rfl, rfl⟩
        · split
          · exact ⟨rfl, rfl, rfl, rfl⟩
          · exact ⟨rfl, rfl, rfl, rfl⟩
          · rename_i hsv hdrop _ pt hpv
            simp [hsv, hdrop, hpv] at he
    · unfold execVersion
      split
      · exact Or.inl rfl
      · split
        · exact Or.inl rfl
        · split <;> exact Or.inl rfl
  all_goals cases he

/-! ### replies do not depend on what the caches hold -/

/-- every cached entry agrees with the index -/
structure CacheOK (w : World) (m : Mgr) : Prop where
  hist : ∀ hx r, dGet hx m.histCache = some r → r = histCompute w hx
  tx : ∀ h, h ∈ m.txCache → h ≤ w.height

theorem CacheOK.empty (w : World) : CacheOK w {} :=
  ⟨fun _ _ h => by simp [dGet] at h, fun _ h => by simp at h⟩

theorem CacheOK.of_growth {w : World} {m m' : Mgr} (hg : CacheGrowth w m m') (h : CacheOK w m) :
    CacheOK w m' where
  hist hx r hr := by
    rcases hg.histNew hx r hr with h' | h'
    · exact h.hist hx r h'
    · exact h'
  tx x hx := by
    rcases hg.txNew x hx with h' | h'
    · exact h.tx x h'
    · exact h'

/-- a cache hit returns exactly what a miss computes -/
theorem limitedHistory_snd {w : World} {m : Mgr} (h : CacheOK w m) (hx : Bytes) :
    (limitedHistory w m hx).2 = (histCompute w hx).toExcept := by
  unfold limitedHistory
  split
  · rename_i r hr
    rw [h.hist hx r hr]
  · rfl

theorem txHashesAt_snd {w : World} {m : Mgr} (h : CacheOK w m) (ht : Nat) :
    (txHashesAt w m ht).2 =
      if w.height < ht then .error (.rpcError Gen.badRequest) else .ok (w.blockTxs ht) := by
  unfold txHashesAt
  split
  · rename_i hc
    have : ht ≤ w.height := h.tx ht (by simpa using hc)
    have hn : ¬ w.height < ht := by omega
    simp [hn]
  · split
    · simp
    · simp

theorem execGetMerkle_snd (w : World) (st : St) (t : Bytes) (h : Nat) :
    (execGetMerkle w st t h).2 =
      match (txHashesAt w st.mgr h).2 with
      | .error e => .error e
      | .ok txs => match indexOf t txs with
        | none => .error (.rpcError Gen.badRequest)
        | some _ => .ok .unit := by
  unfold execGetMerkle
  split
  · rename_i heq; simp [heq]
  · rename_i heq
    simp only [heq]
    split <;> (rename_i hi; simp [hi])

theorem execGetTscMerkle_snd (w : World) (st : St) (t : Bytes) (h : Nat) (b : Bool) (j : J) :
    (execGetTscMerkle w st t h b j).2 =
      match (txHashesAt w st.mgr h).2 with
      | .error e => .error e
      | .ok txs => match indexOf t txs with
        | none => .error (.rpcError Gen.badRequest)
        | some _ => match rawHeader w h with
          | .error e => .error e
          | .ok _ =>
            if b && !daemonKnows w (Wire.toHex t.reverse) then .error (.rpcError Gen.daemonError)
            else .ok (.tsc j) := by
  unfold execGetTscMerkle
  split
  · rename_i heq; simp [heq]
  · rename_i heq
    simp only [heq]
    split
    · rename_i hi; simp [hi]
    · rename_i hi
      simp only [hi]
      split
      · rename_i hr; simp [hr]
      · rename_i hr
        simp only [hr]
        split <;> simp

theorem execIdFromPos_snd (w : World) (st : St) (h p : Nat) (b : Bool) :
    (execIdFromPos w st h p b).2 =
      match (txHashesAt w st.mgr h).2 with
      | .error e => .error e
      | .ok txs => if txs.length ≤ p then .error (.rpcError Gen.badRequest) else .ok .unit := by
  unfold execIdFromPos
  split
  · rename_i heq; simp [heq]
  · rename_i heq
    simp only [heq]
    split
    · simp
    · split <;> simp

/-- **Replies are a function of the index, not of the cache contents**: with coherent caches, the
    reply to a request and the requesting session's own state afterwards are the same whatever the
    caches hold. -/
theorem exec_cache_indep (w : World) (s : Sess) {m m' : Mgr} (h : CacheOK w m) (h' : CacheOK w m')
    (r : Req) :
    (exec w { sess := s, mgr := m } r).2 = (exec w { sess := s, mgr := m' } r).2 ∧
    (exec w { sess := s, mgr := m } r).1.sess = (exec w { sess := s, mgr := m' } r).1.sess := by
  cases r <;> simp only [exec]
  case getHistory hx =>
    simp only [execGetHistory_snd, execGetHistory_fst, limitedHistory_snd h, limitedHistory_snd h',
      and_self]
  case subscribe hx a =>
    simp only [execSubscribe_snd, execSubscribe_sess, limitedHistory_snd h, limitedHistory_snd h',
      and_self]
  case getMerkle t ht =>
    simp only [execGetMerkle_snd, execGetMerkle_sess, txHashesAt_snd h, txHashesAt_snd h', and_self]
  case getTscMerkle t ht b j =>
    simp only [execGetTscMerkle_snd, execGetTscMerkle_sess, txHashesAt_snd h, txHashesAt_snd h',
      and_self]
  case idFromPos ht p b =>
    simp only [execIdFromPos_snd, execIdFromPos_sess, txHashesAt_snd h, txHashesAt_snd h', and_self]
  case broadcast raw => split <;> simp
  case txGet t => split <;> simp
  case addPeer f =>
    exact ⟨execAddPeerWith_snd_indep _ w _ _ f, by simp only [execAddPeerWith_fst]⟩
  case version n p =>
    unfold execVersion
    simp only
    split
    · simp
    · split
      · simp
      · split <;> simp
  all_goals simp

end EV.Rpc

namespace EV.Rpc

/-! ### the only value a handler copies from the request into its result -/

/-- A validated `get_tsc_merkle` request carries a `target_type` that is one of the documented
    strings, provided the handler checks it (`Gen.tscTargetChecked`). -/
theorem parse_tsc_target {ios : String → Option Int} {m : String} {argv : List (Option J)}
    {t : Bytes} {h : Nat} {b : Bool} {target : J}
    (hp : parse ios m argv = .ok (.getTscMerkle t h b target))
    (hchk : Gen.tscTargetChecked = true) : isTarget target = true := by
  unfold parse at hp
  split at hp
  · rename_i p hpf
    unfold parserFor at hpf
    split at hpf
    all_goals (first | cases hpf | skip)
    all_goals
      simp only [parseBlockHeader, parseBlockHeaders, parseNullary, parseEstimateFee, parseScripthash,
        parseBroadcast, parseTxGet, parseGetMerkle, parseGetTscMerkle, parseGetTscMerkleWith,
        parseIdFromPos, parseAddPeer, parseVersion] at hp
    all_goals repeat' (first | cases hp | split at hp)
    rename_i hn _ _
    rw [hchk] at hn
    simpa using hn
  · cases hp

/-- only `get_tsc_merkle` returns a `tsc` result, and it returns the validated `target_type` -/
theorem exec_tsc {w : World} {st : St} {r : Req} {j : J} (h : (exec w st r).2 = .ok (.tsc j)) :
    ∃ t ht b, r = .getTscMerkle t ht b j := by
  cases r <;> simp only [exec] at h
  case getTscMerkle t ht b j' =>
    rw [execGetTscMerkle_snd] at h
    split at h
    · cases h
    · split at h
      · cases h
      · split at h
        · cases h
        · split at h
          · cases h
          · cases h; exact ⟨t, ht, b, rfl⟩
  case blockHeader hh cp =>
    unfold blockHeaderCore at h
    split at h
    · cases h
    · split at h
      · cases h
      · split at h <;> cases h
  case blockHeaders s c cp =>
    unfold blockHeadersCore at h
    split at h
    · cases h
    · split at h
      · split at h <;> cases h
      · cases h
  case getHistory hx =>
    rw [execGetHistory_snd] at h
    split at h <;> cases h
  case subscribe hx a =>
    rw [execSubscribe_snd] at h
    split at h <;> cases h
  case broadcast raw => split at h <;> cases h
  case txGet t => split at h <;> cases h
  case getMerkle t ht =>
    rw [execGetMerkle_snd] at h
    split at h
    · cases h
    · split at h <;> cases h
  case idFromPos ht p b =>
    rw [execIdFromPos_snd] at h
    split at h
    · cases h
    · split at h <;> cases h
  case addPeer f =>
    unfold execAddPeerWith at h
    split at h
    · cases h
    · split at h
      · cases h
      · split at h
        · cases h
        · split at h
          · cases h
          · split at h <;> cases h
  case version n p =>
    unfold execVersion at h
    split at h
    · cases h
    · split at h
      · cases h
      · split at h <;> cases h
  all_goals cases h

end EV.Rpc

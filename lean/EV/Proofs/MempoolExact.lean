import EV.Proofs.MempoolProcess

/-!
Exactness of a quiet refresh (C08): when the daemon's mempool `M` is stable, closed, acyclic and
conflict-free, every listed transaction can be fetched and the index answers from the confirmed
UTXO set `U`, then `_process_mempool` ends with exactly the pool the specification describes,
whatever the order in which the chunk tasks complete and from whatever `MpInv` state it starts.

The fix-point loop accepts everything: among the deferred transactions one of minimal topological
rank has all its mempool parents stored already, so every round shrinks the deferred map.
-/
namespace EV.Mempool

/-- the environment of a *quiet* refresh -/
structure EnvQuiet (W : Hash → Option RawTx) (M : List Hash) (U : List (Prevout × Pair))
    (fetch : Hash → Option RawTx) (lookup : Nat → List Prevout → List (Option Pair)) : Prop where
  /-- the listing is a set -/
  nodup : M.Nodup
  /-- every listed transaction is delivered, and is the transaction with that id -/
  fetch : ∀ h ∈ M, ∃ t, W h = some t ∧ fetch h = some t
  valid : Valid W
  /-- the confirmed UTXO map records true outputs -/
  utxoTrue : ∀ b ∈ U, truePair W b.1 = some b.2
  /-- the index is at the daemon's height: `lookup_utxos` answers from `U`, for every chunk -/
  lookup : ∀ k ps, lookup k ps = ps.map (ulookup U)
  /-- closed: every non-generation input is funded by the mempool or by `U` -/
  closed : ∀ h ∈ M, ∀ t, W h = some t → ∀ p ∈ (mkTx t).prevouts, p.1 ∈ M ∨ p ∈ U.map (·.1)
  /-- acyclic: spending within the mempool follows a rank -/
  acyclic : ∃ rank : Hash → Nat, ∀ h ∈ M, ∀ t, W h = some t → ∀ p ∈ (mkTx t).prevouts,
    p.1 ∈ M → rank p.1 < rank h
  /-- conflict-free: no output is spent by two different mempool transactions -/
  conflictFree : ∀ h₁ ∈ M, ∀ h₂ ∈ M, ∀ t₁ t₂, W h₁ = some t₁ → W h₂ = some t₂ →
    ∀ p, p ∈ (mkTx t₁).prevouts → p ∈ (mkTx t₂).prevouts → h₁ = h₂

/-! ### small list facts -/

theorem ulookup_some_mem {U : List (Prevout × Pair)} {p : Prevout} {pr : Pair}
    (h : ulookup U p = some pr) : (p, pr) ∈ U := by
  unfold ulookup at h
  split at h
  · cases h
  · rename_i e he
    injection h with h; subst h
    have h1 := List.find?_some he
    have h2 := List.mem_of_find?_eq_some he
    have : e.1 = p := by simpa using h1
    rw [← this]; exact h2

theorem ulookup_of_key {U : List (Prevout × Pair)} {p : Prevout} (h : p ∈ U.map (·.1)) :
    ∃ pr, ulookup U p = some pr := by
  unfold ulookup
  split
  · rename_i hn
    exfalso
    obtain ⟨e, he, h1⟩ := List.mem_map.mp h
    have := List.find?_eq_none.mp hn e he
    simp [h1] at this
  · rename_i e _; exact ⟨e.2, rfl⟩

theorem mem_zip_map {α β : Type} (f : α → β) {l : List α} {a : α} {b : β}
    (h : (a, b) ∈ List.zip l (l.map f)) : b = f a := by
  induction l with
  | nil => simp at h
  | cons x xs ih =>
    simp only [List.map_cons, List.zip_cons_cons, List.mem_cons, Prod.mk.injEq] at h
    rcases h with ⟨h1, h2⟩ | h
    · rw [h1, h2]
    · exact ih h

theorem mem_zip_map_self {α β : Type} (f : α → β) {l : List α} {a : α} (h : a ∈ l) :
    (a, f a) ∈ List.zip l (l.map f) := by
  induction l with
  | nil => simp at h
  | cons x xs ih =>
    simp only [List.map_cons, List.zip_cons_cons, List.mem_cons, Prod.mk.injEq]
    rcases List.mem_cons.mp h with h1 | h1
    · exact Or.inl ⟨h1, by rw [h1]⟩
    · exact Or.inr (ih h1)

theorem nodup_of_nodup_map {α β : Type} (f : α → β) {l : List α} (h : (l.map f).Nodup) :
    l.Nodup := by
  induction l with
  | nil => simp
  | cons a l ih =>
    simp only [List.map_cons, List.nodup_cons] at h
    exact List.nodup_cons.mpr ⟨fun h1 => h.1 (List.mem_map.mpr ⟨a, h1, rfl⟩), ih h.2⟩

theorem filterMap_map_some {α β : Type} (f g : α → Option β) (l : List α)
    (h : ∀ a ∈ l, ∃ b, f a = some b ∧ g a = some b) :
    (l.filterMap f).map some = l.map g := by
  induction l with
  | nil => simp
  | cons a l ih =>
    obtain ⟨b, h1, h2⟩ := h a (by simp)
    simp only [List.filterMap_cons, h1, List.map_cons, h2]
    rw [ih (fun a' ha' => h a' (List.mem_cons_of_mem _ ha'))]

theorem exists_min_rank (rank : Hash → Nat) :
    ∀ (D : TxMap), D ≠ [] → ∃ e ∈ D, ∀ e' ∈ D, rank e.1 ≤ rank e'.1 := by
  intro D
  induction D with
  | nil => intro h; exact absurd rfl h
  | cons a D ih =>
    intro _
    by_cases hD : D = []
    · subst hD; exact ⟨a, by simp, by simp⟩
    · obtain ⟨e, he, hmin⟩ := ih hD
      by_cases hle : rank a.1 ≤ rank e.1
      · refine ⟨a, by simp, ?_⟩
        intro e' he'
        rcases List.mem_cons.mp he' with h1 | h1
        · subst h1; exact Nat.le_refl _
        · exact Nat.le_trans hle (hmin e' h1)
      · refine ⟨e, List.mem_cons_of_mem _ he, ?_⟩
        intro e' he'
        rcases List.mem_cons.mp he' with h1 | h1
        · subst h1; omega
        · exact hmin e' h1

/-! ### quiet ⇒ sound -/

theorem EnvQuiet.soundOn {W : Hash → Option RawTx} {M : List Hash} {U : List (Prevout × Pair)}
    {fetch : Hash → Option RawTx} {lookup : Nat → List Prevout → List (Option Pair)}
    (h : EnvQuiet W M U fetch lookup) : SoundOn W M fetch lookup := by
  constructor
  · intro h' hM t ht
    obtain ⟨t', h1, h2⟩ := h.fetch h' hM
    rw [h2] at ht; injection ht with ht; subst ht; exact h1
  · exact h.valid
  · intro k ps p pr hp
    rw [h.lookup] at hp
    have := mem_zip_map (ulookup U) hp
    exact h.utxoTrue _ (ulookup_some_mem this.symm)

/-! ### the specification pool is the truth -/

theorem specIn_true {W : Hash → Option RawTx} {M : List Hash} {U : List (Prevout × Pair)}
    {fetch : Hash → Option RawTx} {lookup : Nat → List Prevout → List (Option Pair)}
    (henv : EnvQuiet W M U fetch lookup) {h : Hash} (hM : h ∈ M) {t : RawTx} (ht : W h = some t)
    {p : Prevout} (hp : p ∈ (mkTx t).prevouts) :
    ∃ pr, specIn W M U p = some pr ∧ truePair W p = some pr := by
  unfold specIn
  by_cases hpM : p.1 ∈ M
  · have hc : M.contains p.1 = true := by simpa using hpM
    simp only [hc, if_true]
    obtain ⟨t', h1, _⟩ := henv.fetch p.1 hpM
    have hlt := henv.valid h t ht p hp t' h1
    simp only [truePair, h1]
    exact ⟨t'.outs[p.2], by simp [hlt], by simp [hlt]⟩
  · have hc : M.contains p.1 = false := by simpa using hpM
    simp only [hc]
    rcases henv.closed h hM t ht p hp with h1 | h1
    · exact absurd h1 hpM
    · obtain ⟨pr, h2⟩ := ulookup_of_key h1
      refine ⟨pr, by simpa using h2, ?_⟩
      exact henv.utxoTrue _ (ulookup_some_mem h2)

theorem specTx_true {W : Hash → Option RawTx} {M : List Hash} {U : List (Prevout × Pair)}
    {fetch : Hash → Option RawTx} {lookup : Nat → List Prevout → List (Option Pair)}
    (henv : EnvQuiet W M U fetch lookup) {h : Hash} (hM : h ∈ M) {t : RawTx} (ht : W h = some t) :
    TrueTx W h (specTx W M U t) := by
  have := TrueTx_accepted (W := W) (e := (h, mkTx t))
    (l := (mkTx t).prevouts.filterMap (specIn W M U)) ⟨t, ht, rfl⟩
    (filterMap_map_some _ _ _ (fun p hp => specIn_true henv hM ht hp))
  exact this

theorem mem_specPool {W : Hash → Option RawTx} {M : List Hash} {U : List (Prevout × Pair)}
    {e : Hash × MemPoolTx} :
    e ∈ specPool W M U ↔ e.1 ∈ M ∧ ∃ t, W e.1 = some t ∧ e.2 = specTx W M U t := by
  simp only [specPool, List.mem_filterMap, Option.map_eq_some_iff]
  constructor
  · rintro ⟨h, hM, t, ht, he⟩
    subst he; exact ⟨hM, t, ht, rfl⟩
  · rintro ⟨hM, t, ht, he⟩
    exact ⟨e.1, hM, t, ht, Prod.ext rfl he.symm⟩

theorem keys_specPool_sublist (W : Hash → Option RawTx) (M M' : List Hash)
    (U : List (Prevout × Pair)) :
    ((M'.filterMap (fun h => (W h).map (fun t => (h, specTx W M U t)))).map (·.1)).Sublist M' := by
  induction M' with
  | nil => simp
  | cons h hs ih =>
    simp only [List.filterMap_cons]
    cases W h with
    | none => exact List.Sublist.cons _ ih
    | some t => exact List.Sublist.cons_cons _ ih

/-- a state that stores exactly the listed transactions, truthfully, *is* the specification pool -/
theorem exact_of_cover {W : Hash → Option RawTx} {M : List Hash} {U : List (Prevout × Pair)}
    {fetch : Hash → Option RawTx} {lookup : Nat → List Prevout → List (Option Pair)}
    (henv : EnvQuiet W M U fetch lookup) {st : St} (hinv : MpInv W st)
    (hkeys : ∀ e ∈ st.txs, e.1 ∈ M) (hcov : ∀ h ∈ M, h ∈ st.txs.map (·.1)) :
    st.txs.Perm (specPool W M U) := by
  apply (List.perm_ext_iff_of_nodup (nodup_of_nodup_map (·.1) hinv.txKeys) ?_).mpr
  · intro e
    rw [mem_specPool]
    constructor
    · intro he
      have hM := hkeys e he
      obtain ⟨t, h1, _⟩ := henv.fetch e.1 hM
      exact ⟨hM, t, h1, TrueTx_unique (hinv.true e he) (specTx_true henv hM h1)⟩
    · rintro ⟨hM, t, h1, h2⟩
      obtain ⟨e', he', h3⟩ := List.mem_map.mp (hcov e.1 hM)
      have h4 : e'.2 = specTx W M U t := by
        have := hinv.true e' he'
        rw [h3] at this
        exact TrueTx_unique this (specTx_true henv hM h1)
      have : e' = e := Prod.ext h3 (h4.trans h2.symm)
      exact this ▸ he'
  · exact nodup_of_nodup_map (·.1) ((keys_specPool_sublist W M M U).nodup henv.nodup)

/-! ### the invariant of the chunk phase and of the fix-point loop -/

structure QInv (W : Hash → Option RawTx) (M : List Hash) (U : List (Prevout × Pair)) (st : St)
    (D : TxMap) (um : UtxoMap) : Prop where
  inv : MpInv W st
  keys : ∀ e ∈ st.txs, e.1 ∈ M
  dM : ∀ e ∈ D, e.1 ∈ M ∧ Fetched W e
  dNodup : (D.map (·.1)).Nodup
  umSound : UmSound W um
  /-- bindings for confirmed-unspent outputs are never `None` -/
  umU : ∀ b ∈ um, b.1 ∈ U.map (·.1) → b.2 ≠ none
  /-- every confirmed input of a deferred transaction still has its binding -/
  dKeys : ∀ e ∈ D, ∀ p ∈ e.2.prevouts, p.1 ∉ M → p ∈ um.map (·.1)

theorem QInv.round {W : Hash → Option RawTx} {M : List Hash} {U : List (Prevout × Pair)}
    {fetch : Hash → Option RawTx} {lookup : Nat → List Prevout → List (Option Pair)}
    (henv : EnvQuiet W M U fetch lookup) {st : St} {D : TxMap} {um : UtxoMap} {t : List HashX}
    {r : AcceptResult} (q : QInv W M U st D um) (c : CallFacts W st D um t r) :
    QInv W M U r.st r.deferred r.unspent := by
  constructor
  · exact c.inv
  · intro e he
    rcases c.newKeys e he with h1 | h1
    · exact q.keys e h1
    · obtain ⟨e2, h2, h3⟩ := List.mem_map.mp h1
      exact h3 ▸ (q.dM e2 h2).1
  · exact fun e he => q.dM e (c.sub.subset he)
  · exact (c.sub.map _).nodup q.dNodup
  · exact fun p pr hp => q.umSound p pr (c.unspentSub _ hp)
  · exact fun b hb => q.umU b (c.unspentSub _ hb)
  · intro e he p hp hpM
    have heD := c.sub.subset he
    obtain ⟨b, hb, hbp⟩ := List.mem_map.mp (q.dKeys e heD p hp hpM)
    rcases c.unspentKeep q.dNodup b hb with h1 | ⟨e2, h2, h3, h4⟩
    · exact List.mem_map.mpr ⟨b, h1, hbp⟩
    · exfalso
      obtain ⟨hM1, t1, g1, g2⟩ := q.dM e heD
      obtain ⟨hM2, t2, g3, g4⟩ := q.dM e2 h2
      rw [hbp, g4] at h3
      rw [g2] at hp
      have := henv.conflictFree e.1 hM1 e2.1 hM2 t1 t2 g1 g3 p hp h3
      exact h4 (this ▸ List.mem_map.mpr ⟨e, he, rfl⟩)

/-- every listed transaction is stored or waiting -/
def Cov (M : List Hash) (st : St) (D : TxMap) : Prop :=
  ∀ h ∈ M, h ∈ st.txs.map (·.1) ∨ h ∈ D.map (·.1)

theorem Cov.round {W : Hash → Option RawTx} {M : List Hash} {st : St} {D : TxMap} {um : UtxoMap}
    {t : List HashX} {r : AcceptResult} (hc : Cov M st D) (c : CallFacts W st D um t r) :
    Cov M r.st r.deferred := by
  intro h hM
  rcases hc h hM with h1 | h1
  · obtain ⟨e, he, h2⟩ := List.mem_map.mp h1
    exact Or.inl (List.mem_map.mpr ⟨e, c.mono e he, h2⟩)
  · obtain ⟨e, he, h2⟩ := List.mem_map.mp h1
    rcases c.cover e he with h3 | h3
    · exact Or.inl (h2 ▸ h3)
    · exact Or.inr (List.mem_map.mpr ⟨e, h3, h2⟩)

/-- a deferred transaction of minimal rank can be funded -/
theorem QInv.ready {W : Hash → Option RawTx} {M : List Hash} {U : List (Prevout × Pair)}
    {fetch : Hash → Option RawTx} {lookup : Nat → List Prevout → List (Option Pair)}
    (henv : EnvQuiet W M U fetch lookup) {st : St} {D : TxMap} {um : UtxoMap}
    (q : QInv W M U st D um) (hc : Cov M st D) (hD : D ≠ []) : ∃ e ∈ D, ReadyAt um st e := by
  obtain ⟨rank, hrank⟩ := henv.acyclic
  obtain ⟨e, he, hmin⟩ := exists_min_rank rank D hD
  refine ⟨e, he, ?_⟩
  obtain ⟨hM, t, g1, g2⟩ := q.dM e he
  intro p hp
  have hp' : p ∈ (mkTx t).prevouts := g2 ▸ hp
  by_cases hpM : p.1 ∈ M
  · right
    rcases hc p.1 hpM with h1 | h1
    · exact h1
    · exfalso
      obtain ⟨e2, h2, h3⟩ := List.mem_map.mp h1
      have h4 := hmin e2 h2
      have h5 := hrank e.1 hM t g1 p hp' hpM
      rw [h3] at h4; omega
  · left
    rcases henv.closed e.1 hM t g1 p hp' with h1 | h1
    · exact absurd h1 hpM
    · exact umGet_of_all_some (q.dKeys e he p hp hpM) (fun r hr => q.umU (p, r) hr h1)

/-! ### one chunk -/

theorem QInv.chunk {W : Hash → Option RawTx} {M : List Hash} {U : List (Prevout × Pair)}
    {fetch : Hash → Option RawTx} {lookup : Nat → List Prevout → List (Option Pair)}
    (henv : EnvQuiet W M U fetch lookup) {st : St} {D : TxMap} {um : UtxoMap}
    (q : QInv W M U st D um) (k : Nat) {chunk : List Hash} (hsub : ∀ h ∈ chunk, h ∈ M)
    (hnd : chunk.Nodup) (hdisj : ∀ e ∈ D, e.1 ∉ chunk) (touched : List HashX) :
    ∃ r, fetchAndAccept st M fetch lookup k chunk touched = .ok r ∧
      CallFacts W st (txMapOf fetch chunk)
        (utxoMapOf (lookupPrevouts M (txMapOf fetch chunk))
          (lookup k (lookupPrevouts M (txMapOf fetch chunk)))) touched r ∧
      QInv W M U r.st (D ++ r.deferred) (r.unspent ++ um) := by
  have hs := henv.soundOn
  have hL := fetched_of_txMapOf hs.fetch hsub
  -- the chunk's own batch satisfies the invariant
  have q0 : QInv W M U st (txMapOf fetch chunk)
      (utxoMapOf (lookupPrevouts M (txMapOf fetch chunk))
        (lookup k (lookupPrevouts M (txMapOf fetch chunk)))) := by
    constructor
    · exact q.inv
    · exact q.keys
    · exact fun e he => ⟨(hL e he).2, (hL e he).1⟩
    · exact (keys_txMapOf_sublist fetch chunk).nodup hnd
    · exact UmSound_utxoMapOf hs.lookup k _
    · intro b hb hU
      have hb' := List.mem_reverse.mp hb
      rw [henv.lookup] at hb'
      have h1 : b.2 = ulookup U b.1 := mem_zip_map (ulookup U) (a := b.1) (b := b.2) hb'
      obtain ⟨pr, h2⟩ := ulookup_of_key hU
      rw [h1, h2]; exact fun h => by cases h
    · intro e he p hp hpM
      have hps : p ∈ lookupPrevouts M (txMapOf fetch chunk) := by
        simp only [lookupPrevouts, List.mem_filter, List.mem_flatMap]
        exact ⟨⟨e, he, hp⟩, by simpa using hpM⟩
      rw [henv.lookup]
      exact List.mem_map.mpr ⟨(p, ulookup U p),
        List.mem_reverse.mpr (mem_zip_map_self (ulookup U) hps), rfl⟩
  obtain ⟨r, h1, c⟩ := acceptTransactions_facts q0.umSound henv.valid q.inv
    (fun e he => (hL e he).1) touched
  have q1 := q0.round henv c
  refine ⟨r, h1, c, ?_⟩
  have hkeysR : ∀ e ∈ r.deferred, e.1 ∈ chunk := by
    intro e he
    exact (mem_txMapOf.mp (c.sub.subset he)).1
  constructor
  · exact q1.inv
  · exact q1.keys
  · intro e he
    rcases List.mem_append.mp he with h2 | h2
    · exact q.dM e h2
    · exact q1.dM e h2
  · rw [List.map_append]
    refine List.nodup_append.mpr ⟨q.dNodup, q1.dNodup, ?_⟩
    intro a ha b hb hab
    obtain ⟨e1, g1, g2⟩ := List.mem_map.mp ha
    obtain ⟨e2, g3, g4⟩ := List.mem_map.mp hb
    have := hkeysR e2 g3
    rw [g4, ← hab, ← g2] at this
    exact hdisj e1 g1 this
  · intro p pr hp
    rcases List.mem_append.mp hp with h2 | h2
    · exact q1.umSound p pr h2
    · exact q.umSound p pr h2
  · intro b hb
    rcases List.mem_append.mp hb with h2 | h2
    · exact q1.umU b h2
    · exact q.umU b h2
  · intro e he p hp hpM
    rw [List.map_append]
    rcases List.mem_append.mp he with h2 | h2
    · exact List.mem_append_right _ (q.dKeys e h2 p hp hpM)
    · exact List.mem_append_left _ (q1.dKeys e h2 p hp hpM)

/-! ### the whole of `processNew` on a quiet environment -/

theorem processNew_quiet {W : Hash → Option RawTx} {M : List Hash} {U : List (Prevout × Pair)}
    {fetch : Hash → Option RawTx} {lookup : Nat → List Prevout → List (Option Pair)}
    (henv : EnvQuiet W M U fetch lookup) {cs : Nat} (hcs : 0 < cs) {st : St} (hinv : MpInv W st)
    (hkeys : ∀ e ∈ st.txs, e.1 ∈ M) (touched : List HashX) {order : List Nat}
    (hord : order.Perm (List.range (chunksOf cs (newHashes st.txs M)).length)) :
    ∃ r, processNew cs st M touched fetch lookup order = .ok r ∧ r.dropped = [] ∧
      MpInv W r.st ∧ r.st.txs.Perm (specPool W M U) := by
  unfold processNew
  split
  · rename_i hempty
    refine ⟨_, rfl, rfl, hinv, exact_of_cover henv hinv hkeys ?_⟩
    intro h hM
    apply Classical.byContradiction
    intro hn
    have : h ∈ newHashes st.txs M := mem_newHashes.mpr ⟨hM, hn⟩
    rw [List.isEmpty_iff.mp hempty] at this
    simp at this
  · have hnew : (newHashes st.txs M).Nodup := (List.filter_sublist).nodup henv.nodup
    -- chunk phase
    let chunks := chunksOf cs (newHashes st.txs M)
    let P : List Nat → Merge → Prop := fun done m =>
      QInv W M U m.st m.txMap m.um ∧
      (∀ e ∈ m.txMap, ∃ j ∈ done, e.1 ∈ chunks.getD j []) ∧
      (∀ j ∈ done, ∀ h ∈ chunks.getD j [], h ∈ m.st.txs.map (·.1) ∨ h ∈ m.txMap.map (·.1)) ∧
      (∀ e ∈ st.txs, e ∈ m.st.txs)
    have hstep : ∀ done k m, k ∉ done → P done m →
        ∃ r, fetchAndAccept m.st M fetch lookup k (chunks.getD k []) m.touched = .ok r ∧
          P (done ++ [k]) { st := r.st, txMap := m.txMap ++ r.deferred, um := r.unspent ++ m.um,
                            touched := r.touched } := by
      intro done k m hk ⟨q, hwhere, hcov, hmono⟩
      have hsub : ∀ h ∈ chunks.getD k [], h ∈ M :=
        fun h hh => (mem_newHashes.mp (chunksOf_subset hh)).1
      have hnd : (chunks.getD k []).Nodup := chunksAux_nodup cs _ _ hnew k
      have hdisj : ∀ e ∈ m.txMap, e.1 ∉ chunks.getD k [] := by
        intro e he hin
        obtain ⟨j, hj, hej⟩ := hwhere e he
        have := chunksAux_disjoint cs _ _ hnew j k e.1 hej hin
        exact hk (this ▸ hj)
      obtain ⟨r, h1, c, q'⟩ := q.chunk henv k hsub hnd hdisj m.touched
      refine ⟨r, h1, q', ?_, ?_, ?_⟩
      · intro e he
        rcases List.mem_append.mp he with h2 | h2
        · obtain ⟨j, hj, hej⟩ := hwhere e h2
          exact ⟨j, List.mem_append_left _ hj, hej⟩
        · exact ⟨k, by simp, (mem_txMapOf.mp (c.sub.subset h2)).1⟩
      · intro j hj h hh
        rcases List.mem_append.mp hj with h2 | h2
        · rcases hcov j h2 h hh with h3 | h3
          · obtain ⟨e, he, h4⟩ := List.mem_map.mp h3
            exact Or.inl (List.mem_map.mpr ⟨e, c.mono e he, h4⟩)
          · exact Or.inr (by rw [List.map_append]; exact List.mem_append_left _ h3)
        · have hjk : j = k := by simpa using h2
          subst hjk
          obtain ⟨t, _, g2⟩ := henv.fetch h (hsub h hh)
          have hmem : (h, mkTx t) ∈ txMapOf fetch (chunks.getD j []) :=
            mem_txMapOf.mpr ⟨hh, t, g2, rfl⟩
          rcases c.cover _ hmem with h3 | h3
          · exact Or.inl h3
          · exact Or.inr (by
              rw [List.map_append]
              exact List.mem_append_right _ (List.mem_map.mpr ⟨_, h3, rfl⟩))
      · exact fun e he => c.mono e (hmono e he)
    have hP0 : P [] { st := st, txMap := [], um := [], touched := touched } := by
      refine ⟨?_, by simp, by simp, fun _ h => h⟩
      exact { inv := hinv, keys := hkeys, dM := by simp, dNodup := by simp,
              umSound := by intro p pr h; simp at h, umU := by simp, dKeys := by simp }
    have hnodup : ([] ++ order).Nodup := by
      simpa using hord.symm.nodup List.nodup_range
    obtain ⟨m, h1, q, _, hcov, hmono⟩ := chunkPhase_ind P hstep order [] _ hnodup hP0
    have h1' : chunkPhase M fetch lookup (chunksOf cs (newHashes st.txs M))
        { st := st, txMap := [], um := [], touched := touched } order = .ok m := h1
    simp only [h1']
    -- everything listed is stored or deferred
    have hC : Cov M m.st m.txMap := by
      intro h hM
      by_cases hst : h ∈ st.txs.map (·.1)
      · obtain ⟨e, he, h2⟩ := List.mem_map.mp hst
        exact Or.inl (List.mem_map.mpr ⟨e, hmono e he, h2⟩)
      · have hn : h ∈ newHashes st.txs M := mem_newHashes.mpr ⟨hM, hst⟩
        obtain ⟨k, hk, hh⟩ := chunksOf_cover hcs hn
        have hko : k ∈ [] ++ order := by
          simpa using hord.symm.mem_iff.mp (List.mem_range.mpr hk)
        exact hcov k hko h hh
    -- fix-point loop
    let Q : St → TxMap → UtxoMap → List HashX → Prop := fun s D um _ =>
      QInv W M U s D um ∧ Cov M s D
    have hround : ∀ s D um t, Q s D um t → D ≠ [] →
        ∃ r, acceptTransactions s D um t = .ok r ∧ r.deferred.length ≤ D.length ∧
          (True → r.deferred.length < D.length) ∧ Q r.st r.deferred r.unspent r.touched := by
      intro s D um t ⟨q, hc⟩ hD
      obtain ⟨r, h2, c⟩ := acceptTransactions_facts q.umSound henv.valid q.inv
        (fun e he => (q.dM e he).2) t
      exact ⟨r, h2, c.sub.length_le, fun _ => c.progress (q.ready henv hc hD),
        q.round henv c, hc.round c⟩
    obtain ⟨st', D', t', h2, ⟨_, q', hc'⟩, hD'⟩ := deferredLoop_ind Q True hround
      (m.txMap.length + 1) m.st m.txMap m.um 0 m.touched (Or.inl (by omega))
      (fun _ => Or.inl rfl) ⟨q, hC⟩
    simp only [h2]
    have hD'' : D' = [] := hD' trivial
    subst hD''
    refine ⟨_, rfl, rfl, q'.inv, exact_of_cover henv q'.inv q'.keys ?_⟩
    intro h hM
    rcases hc' h hM with h3 | h3
    · exact h3
    · simp at h3

/-! ### the whole of `_process_mempool` on a quiet environment -/

/-- the transactions that survive the removal phase -/
def afterRemoval (st : St) (M : List Hash) : TxMap := st.txs.filter (fun e => M.contains e.1)

/-- how many `raw_transactions` batches a refresh of listing `M` from state `st` spawns -/
def numChunks (cs : Nat) (st : St) (M : List Hash) : Nat :=
  (chunksOf cs (newHashes (afterRemoval st M) M)).length

theorem newHashes_congr {a b : TxMap} (M : List Hash)
    (h : ∀ k, k ∈ a.map (·.1) ↔ k ∈ b.map (·.1)) : newHashes a M = newHashes b M := by
  unfold newHashes
  apply List.filter_congr
  intro k _
  have : hasKey a k = hasKey b k := by
    have h1 : hasKey a k = true ↔ hasKey b k = true := by rw [hasKey_iff, hasKey_iff]; exact h k
    cases h2 : hasKey a k <;> cases h3 : hasKey b k <;> simp_all
  rw [this]

theorem processMempoolN_quiet {W : Hash → Option RawTx} {M : List Hash} {U : List (Prevout × Pair)}
    {fetch : Hash → Option RawTx} {lookup : Nat → List Prevout → List (Option Pair)}
    (henv : EnvQuiet W M U fetch lookup) {cs : Nat} (hcs : 0 < cs) {st : St} (hinv : MpInv W st)
    (touched : List HashX) (h : Int) {order : List Nat}
    (hord : order.Perm (List.range (numChunks cs st M))) :
    ∃ r, processMempoolN cs st M touched h h fetch lookup order = .ok r ∧ r.dropped = [] ∧
      MpInv W r.st ∧ r.st.txs.Perm (specPool W M U) := by
  obtain ⟨st1, t1, h1, h2, h3, _⟩ := removal_facts hinv M touched
  have hkeys : ∀ e ∈ st1.txs, e.1 ∈ M := fun e he => ((h3 e).mp he).2
  have hnew : newHashes st1.txs M = newHashes (afterRemoval st M) M := by
    apply newHashes_congr
    intro k
    simp only [afterRemoval, List.mem_map, List.mem_filter, List.contains_iff_mem]
    constructor
    · rintro ⟨e, he, hk⟩
      exact ⟨e, (h3 e).mp he, hk⟩
    · rintro ⟨e, he, hk⟩
      exact ⟨e, (h3 e).mpr he, hk⟩
  have hord' : order.Perm (List.range (chunksOf cs (newHashes st1.txs M)).length) := by
    rw [hnew]; exact hord
  obtain ⟨r, h5, h6⟩ := processNew_quiet henv hcs h2 hkeys t1 hord'
  refine ⟨r, ?_, h6⟩
  simp only [processMempoolN, ne_eq, not_true_eq_false, if_false, h1]; exact h5

end EV.Mempool

import EV.Proofs.MerkleLevel

/-!
C12, part 3: `MerkleCache`.  The invariant `CacheInv` (the cached level is level `depth_higher` of
the tree of the first `length` source hashes) is established by `initialize`, preserved by
`_extend_to`, `truncate` and queries, and makes every query answer like a from-scratch
`branch_and_root`.
-/
namespace EV.Merkle

variable {Node : Type} (H : Node → Node → Node)

structure CacheInv (c : Cache Node) (src : List Node) : Prop where
  init : c.initialized = true
  len : c.length ≤ src.length
  level : c.level = lvl H c.depthHigher (src.take c.length)

theorem leafStart_eq (c : Cache Node) (i : Nat) :
    c.leafStart i = i / 2 ^ c.depthHigher * 2 ^ c.depthHigher := by
  simp only [Cache.leafStart, Nat.shiftLeft_eq, Nat.shiftRight_eq_div_pow]

theorem segLen_eq (c : Cache Node) : c.segLen = 2 ^ c.depthHigher := by
  simp only [Cache.segLen, Nat.one_shiftLeft]

theorem leafStart_shift (c : Cache Node) (i : Nat) :
    c.leafStart i >>> c.depthHigher = i / 2 ^ c.depthHigher := by
  rw [leafStart_eq, Nat.shiftRight_eq_div_pow, Nat.mul_div_cancel _ (Nat.pow_pos (by omega))]

theorem leafStart_le (c : Cache Node) (i : Nat) : c.leafStart i ≤ i := by
  rw [leafStart_eq]; exact Nat.div_mul_le_self _ _

/-- the first `q` entries of a level are the level of the first `q * 2^d` leaves -/
theorem lvl_take_aligned (d q : Nat) (xs : List Node) (h : q * 2 ^ d ≤ xs.length) :
    (lvl H d xs).take q = lvl H d (xs.take (q * 2 ^ d)) := by
  have hl : (xs.take (q * 2 ^ d)).length = q * 2 ^ d := by rw [List.length_take]; omega
  conv => lhs; rw [← List.take_append_drop (q * 2 ^ d) xs]
  rw [lvl_append H d _ _ q hl]
  have := lvl_length_aligned H d _ q hl
  rw [List.take_append_of_le_length (by omega), List.take_of_length_le (by omega)]

/-- rebuilding the tail from an aligned start: the shape shared by `_extend_to` and `_level_for` -/
theorem rebuild (d : Nat) (src : List Node) (old new s : Nat) (level : List Node)
    (hlevel : level = lvl H d (src.take old))
    (hs : s = s / 2 ^ d * 2 ^ d) (hso : s ≤ old) (hsn : s ≤ new) (hold : old ≤ src.length) :
    level.take (s / 2 ^ d) ++ lvl H d (srcSlice src s (new - s)) = lvl H d (src.take new) := by
  have h1 : level.take (s / 2 ^ d) = lvl H d (src.take s) := by
    rw [hlevel, lvl_take_aligned H d (s / 2 ^ d) _ (by rw [List.length_take, ← hs]; omega), ← hs,
      List.take_take, Nat.min_eq_left hso]
  have h2 : src.take new = src.take s ++ srcSlice src s (new - s) := by
    have : new = s + (new - s) := by omega
    conv => lhs; rw [this, List.take_add]
    rfl
  have hl : (src.take s).length = s / 2 ^ d * 2 ^ d := by rw [List.length_take, ← hs]; omega
  rw [h1, h2, lvl_append H d _ _ _ hl]

theorem div_mul_add_mod (a p : Nat) : a = a / p * p + a % p := by
  have := Nat.div_add_mod a p
  rw [Nat.mul_comm] at this; omega

theorem aligned_self (i p : Nat) (hp : 0 < p) : i / p * p = (i / p * p) / p * p := by
  rw [Nat.mul_div_cancel _ hp]

/-! ### `_extend_to` -/

theorem extendTo_inv (c : Cache Node) (src : List Node) (length : Nat)
    (hinv : CacheInv H c src) (hlen : length ≤ src.length) :
    (c.extendTo H src length).2 = none ∧ CacheInv H (c.extendTo H src length).1 src ∧
      (c.extendTo H src length).1.length = max c.length length ∧
      (c.extendTo H src length).1.depthHigher = c.depthHigher := by
  unfold Cache.extendTo
  by_cases h : length ≤ c.length
  · rw [if_pos h]
    exact ⟨rfl, hinv, by show c.length = _; omega, rfl⟩
  · rw [if_neg h, level_eq', leafStart_shift]
    have hp : 0 < 2 ^ c.depthHigher := Nat.pow_pos (by omega)
    refine ⟨rfl, ⟨hinv.init, hlen, ?_⟩, by show length = _; omega, rfl⟩
    show c.level.take _ ++ _ = lvl H c.depthHigher (src.take length)
    have hle := leafStart_le c c.length
    have := rebuild H c.depthHigher src c.length length (c.leafStart c.length) c.level hinv.level
      (by rw [leafStart_eq]; exact aligned_self _ _ hp) hle (by omega) hinv.len
    rw [leafStart_eq, Nat.mul_div_cancel _ hp] at this
    rw [leafStart_eq]
    exact this

/-! ### `_level_for` -/

theorem levelFor_eq (c : Cache Node) (src : List Node) (length : Nat)
    (hinv : CacheInv H c src) (hlen : length ≤ c.length) :
    c.levelFor H src length = .ok (lvl H c.depthHigher (src.take length)) := by
  unfold Cache.levelFor
  by_cases h : length = c.length
  · simp only [h, if_true, hinv.level]
  · simp only [h, if_false, level_eq', segLen_eq]
    have hp : 0 < 2 ^ c.depthHigher := Nat.pow_pos (by omega)
    have hmod : length - c.leafStart length < 2 ^ c.depthHigher := by
      rw [leafStart_eq]
      have := div_mul_add_mod length (2 ^ c.depthHigher)
      have := Nat.mod_lt length hp
      omega
    rw [Nat.min_eq_right (by omega)]
    have hle := leafStart_le c length
    have := rebuild H c.depthHigher src c.length length (c.leafStart length) c.level hinv.level
      (by rw [leafStart_eq]; exact aligned_self _ _ hp) (by omega) hle hinv.len
    rw [leafStart_eq, Nat.mul_div_cancel _ hp] at this
    rw [Nat.shiftRight_eq_div_pow, leafStart_eq]
    rw [this]

/-! ### `initialize` -/

theorem treeDepth_nat (n : Nat) (h : 1 ≤ n) : treeDepth (.int n) = .ok (Nat.clog 2 n + 1) := by
  have hc : ¬ ((n : Int) < 1) := by omega
  have : ((n : Int) - 1).toNat = n - 1 := by omega
  simp only [treeDepth, branchLength, hc, if_false, this]
  rw [← branchLengthNat, branchLengthNat_eq_clog h]

theorem init_inv (c : Cache Node) (src : List Node) (length : Nat)
    (h1 : 1 ≤ length) (hlen : length ≤ src.length) :
    (c.init H src length).2 = none ∧ CacheInv H (c.init H src length).1 src ∧
      (c.init H src length).1.length = length ∧
      (c.init H src length).1.depthHigher = (Nat.clog 2 length + 1) / 2 := by
  have e : c.init H src length =
      ({ length := length, depthHigher := (Nat.clog 2 length + 1) / 2,
         level := lvl H ((Nat.clog 2 length + 1) / 2) (src.take length), initialized := true }, none) := by
    simp only [Cache.init, treeDepth_nat length h1, level_eq', srcSlice, List.drop_zero]
  rw [e]
  exact ⟨rfl, ⟨rfl, hlen, rfl⟩, rfl, rfl⟩

/-! ### `truncate` -/

theorem truncate_inv (c : Cache Node) (src : List Node) (a : IntArg) (hinv : CacheInv H c src) :
    CacheInv H (c.truncate a).1 src := by
  unfold Cache.truncate
  cases a with
  | notInt => exact hinv
  | int l =>
    simp only
    by_cases h1 : l ≤ 0
    · rw [if_pos h1]; exact hinv
    · rw [if_neg h1]
      by_cases h2 : l ≥ c.length
      · rw [if_pos h2]; exact hinv
      · rw [if_neg h2]
        have hp : 0 < 2 ^ c.depthHigher := Nat.pow_pos (by omega)
        have hle := leafStart_le c l.toNat
        have hlt : l.toNat < c.length := by omega
        refine ⟨hinv.init, ?_, ?_⟩
        · show c.leafStart l.toNat ≤ src.length
          have := hinv.len; omega
        · show c.level.take _ = lvl H c.depthHigher (src.take (c.leafStart l.toNat))
          rw [leafStart_shift, hinv.level, leafStart_eq,
            lvl_take_aligned H _ _ _ (by rw [List.length_take, ← leafStart_eq]; have := hinv.len; omega),
            List.take_take, Nat.min_eq_left (by rw [← leafStart_eq]; omega)]

/-- what `truncate` does to `length`: never grows it, never above the argument when it acts -/
theorem truncate_length (c : Cache Node) (l : Int) (h : 0 < l) :
    (c.truncate (.int l)).1.length ≤ c.length ∧ (c.truncate (.int l)).1.length ≤ l.toNat ∧
      (c.truncate (.int l)).1.depthHigher = c.depthHigher ∧ (c.truncate (.int l)).2 = none := by
  unfold Cache.truncate
  simp only
  rw [if_neg (by omega)]
  by_cases h2 : l ≥ c.length
  · rw [if_pos h2]; exact ⟨Nat.le_refl _, by show c.length ≤ l.toNat; omega, rfl, rfl⟩
  · rw [if_neg h2]
    have hle := leafStart_le c l.toNat
    exact ⟨by show c.leafStart l.toNat ≤ c.length; omega, hle, rfl, rfl⟩

/-- the invariant only looks at the first `length` source hashes: the source may grow, and may be
    re-organised above a length the cache was truncated to -/
theorem CacheInv.congr {c : Cache Node} {src src' : List Node} (hinv : CacheInv H c src)
    (hlen : c.length ≤ src'.length) (hsame : src'.take c.length = src.take c.length) :
    CacheInv H c src' :=
  ⟨hinv.init, hlen, by rw [hsame]; exact hinv.level⟩

/-! ### queries -/

def Outcome.ofExcept {α : Type} : Except PyExc α → Outcome α
  | .ok a => .ret a
  | .error e => .raised e

theorem pow_le_clog {d l : Nat} (h : 2 ^ d ≤ l) : d ≤ Nat.clog 2 l := by
  by_contra hc
  have h1 : Nat.clog 2 l ≤ d - 1 := by omega
  rw [Nat.clog_le_iff_le_pow (by omega)] at h1
  have : 2 ^ (d - 1) < 2 ^ d := Nat.pow_lt_pow_right (by omega) (by omega)
  omega

/-- **cache_correct**: under the invariant, a query for `(length, index)` with
    `0 < length ≤ len(src)` and `index < length` returns exactly what `Merkle.branch_and_root`
    returns for the first `length` source hashes (for a negative `index` that is the same
    `ValueError`), and the invariant still holds afterwards. -/
theorem query_correct [DecidableEq Node] (c : Cache Node) (src : List Node) (l i : Int) (tsc : Bool)
    (hinv : CacheInv H c src) (hl0 : 0 < l) (hl : l.toNat ≤ src.length) (hi : i < l) :
    (c.query H src (.int l) (.int i) tsc).2 =
        Outcome.ofExcept (branchAndRoot H (src.take l.toNat) (.int i) none tsc) ∧
      CacheInv H (c.query H src (.int l) (.int i) tsc).1 src ∧
      (c.query H src (.int l) (.int i) tsc).1.length = max c.length l.toNat ∧
      (c.query H src (.int l) (.int i) tsc).1.depthHigher = c.depthHigher := by
  obtain ⟨he, hinv', hlen', hd'⟩ := extendTo_inv H c src l.toNat hinv hl
  unfold Cache.query
  simp only
  rw [if_neg (by omega), if_neg (by omega), hinv.init]
  simp only [Bool.not_true, Bool.false_eq_true, if_false]
  generalize hc' : c.extendTo H src l.toNat = res at he hinv' hlen' hd'
  obtain ⟨c', e⟩ := res
  simp only at he hinv' hlen' hd'
  subst he
  simp only
  have htl : (src.take l.toNat).length = l.toNat := by rw [List.length_take]; omega
  by_cases hneg : i < 0
  · rw [if_pos hneg]
    refine ⟨?_, hinv', hlen', hd'⟩
    have : ¬ (0 ≤ i ∧ i < ((src.take l.toNat).length : Int)) := by omega
    simp only [branchAndRoot, this, not_false_eq_true, if_true, Outcome.ofExcept]
  · rw [if_neg hneg]
    obtain ⟨n, rfl⟩ : ∃ n : Nat, i = n := ⟨i.toNat, by omega⟩
    have hn : n < l.toNat := by omega
    simp only [Int.toNat_natCast]
    have hp : 0 < 2 ^ c'.depthHigher := Nat.pow_pos (by omega)
    by_cases hsmall : l.toNat < c'.segLen
    · -- direct path: the whole prefix is one (partial) segment
      rw [if_pos hsmall]
      rw [segLen_eq] at hsmall
      have h0 : c'.leafStart n = 0 := by
        rw [leafStart_eq, Nat.div_eq_of_lt (by omega), Nat.zero_mul]
      have hslice : srcSlice src (c'.leafStart n) (min c'.segLen (l.toNat - c'.leafStart n)) =
          src.take l.toNat := by
        rw [h0, segLen_eq, Nat.sub_zero, Nat.min_eq_right (by omega)]; simp [srcSlice]
      rw [hslice]
      cases branchAndRoot H (src.take l.toNat) (.int n) none tsc <;>
        exact ⟨rfl, hinv', hlen', hd'⟩
    · rw [if_neg hsmall]
      rw [segLen_eq] at hsmall
      rw [levelFor_eq H c' src l.toNat hinv' (by omega)]
      simp only
      have hslice : srcSlice src (c'.leafStart n) (min c'.segLen (l.toNat - c'.leafStart n)) =
          ((src.take l.toNat).drop (n / 2 ^ c'.depthHigher * 2 ^ c'.depthHigher)).take (2 ^ c'.depthHigher) := by
        rw [leafStart_eq, segLen_eq, srcSlice, List.drop_take, List.take_take]
      rw [hslice, from_level_eq H tsc (src.take l.toNat) c'.depthHigher n (by omega)
        (by rw [htl]; exact pow_le_clog (by omega))]
      cases branchAndRoot H (src.take l.toNat) (.int n) none tsc <;>
        exact ⟨rfl, hinv', hlen', hd'⟩

/-- argument errors and the wait on `initialized` leave the cache untouched -/
theorem query_rejects [DecidableEq Node] (c : Cache Node) (src : List Node) (l i : IntArg) (tsc : Bool) :
    (l = .notInt → c.query H src l i tsc = (c, .raised .typeError)) ∧
    (∀ lv, l = .int lv → i = .notInt → c.query H src l i tsc = (c, .raised .typeError)) ∧
    (∀ lv iv, l = .int lv → i = .int iv → lv ≤ 0 ∨ iv ≥ lv → c.query H src l i tsc = (c, .raised .valueError)) ∧
    (∀ lv iv, l = .int lv → i = .int iv → 0 < lv → iv < lv → c.initialized = false →
      c.query H src l i tsc = (c, .blocked)) := by
  refine ⟨?_, ?_, ?_, ?_⟩
  · rintro rfl; rfl
  · rintro lv rfl rfl; rfl
  · rintro lv iv rfl rfl h
    unfold Cache.query
    simp only
    by_cases h1 : lv ≤ 0
    · rw [if_pos h1]
    · rw [if_neg h1, if_pos (by omega)]
  · rintro lv iv rfl rfl h1 h2 h3
    unfold Cache.query
    simp only
    rw [if_neg (by omega), if_neg (by omega), h3]
    rfl

/-! ### any sequence of operations -/

inductive CacheOp where
  | init (n : Nat)
  | truncate (a : IntArg)
  | query (len idx : IntArg) (tsc : Bool)
deriving Repr

/-- the operations the theorems cover: lengths within the source (arguments of the wrong type,
    non-positive lengths and out-of-range indices are all allowed: they are rejected) -/
def CacheOp.OK (srcLen : Nat) : CacheOp → Prop
  | .init n => 1 ≤ n ∧ n ≤ srcLen
  | .truncate _ => True
  | .query (.int l) _ _ => l.toNat ≤ srcLen
  | .query .notInt _ _ => True

def Cache.step [DecidableEq Node] (c : Cache Node) (src : List Node) : CacheOp → Cache Node
  | .init n => (c.init H src n).1
  | .truncate a => (c.truncate a).1
  | .query l i tsc => (c.query H src l i tsc).1

def Cache.run [DecidableEq Node] (c : Cache Node) (src : List Node) : List CacheOp → Cache Node
  | [] => c
  | op :: ops => Cache.run (c.step H src op) src ops

theorem query_inv [DecidableEq Node] (c : Cache Node) (src : List Node) (l i : IntArg) (tsc : Bool)
    (hinv : CacheInv H c src) (hok : (CacheOp.query l i tsc).OK src.length) :
    CacheInv H (c.query H src l i tsc).1 src := by
  obtain ⟨r1, r2, r3, _⟩ := query_rejects H c src l i tsc
  cases l with
  | notInt => rw [r1 rfl]; exact hinv
  | int lv =>
    cases i with
    | notInt => rw [r2 lv rfl rfl]; exact hinv
    | int iv =>
      by_cases h : lv ≤ 0 ∨ iv ≥ lv
      · rw [r3 lv iv rfl rfl h]; exact hinv
      · exact (query_correct H c src lv iv tsc hinv (by omega) hok (by omega)).2.1

theorem step_inv [DecidableEq Node] (c : Cache Node) (src : List Node) (op : CacheOp)
    (hinv : CacheInv H c src) (hok : op.OK src.length) : CacheInv H (c.step H src op) src := by
  cases op with
  | init n => exact (init_inv H c src n hok.1 hok.2).2.1
  | truncate a => exact truncate_inv H c src a hinv
  | query l i tsc => exact query_inv H c src l i tsc hinv hok

theorem run_inv [DecidableEq Node] (src : List Node) : ∀ (ops : List CacheOp) (c : Cache Node),
    CacheInv H c src → (∀ op ∈ ops, op.OK src.length) → CacheInv H (c.run H src ops) src
  | [], _, h, _ => h
  | op :: ops, c, h, hok =>
    run_inv src ops _ (step_inv H c src op h (hok op (by simp))) (fun o ho => hok o (by simp [ho]))

end EV.Merkle

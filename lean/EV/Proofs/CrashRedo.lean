import EV.Proofs.CrashBackup
import EV.Proofs.IndexFlushUtxo

/-!
# Crash layer, part 6: backing a block out again after a crash between the two batches

`backup_block`'s loops (`backupTxs` over `sysOps`) read and write only the *UTXO view* of the
system: the cache, the queued deletes, the `h`/`u` tables, and what `fs_tx_hash` reads (`tx_counts`,
`DB.state.height`, the hashes file).  Two systems that agree on the view (`UAgree`) run the loops in
lock step (`backupTxs_sim`).  The system restarted after the cut `[history batch]` agrees with the
system the back-out started from, so the repeated back-out performs the same UTXO batch; its
history batch finds the rows already truncated (`histBackup_idem`).
-/
namespace EV.Index

/-- replace cache and queued deletes -/
def setCD (t : Sys) (c : List ((Hash × Nat) × CacheVal)) (d : List DelKey) : Sys :=
  { t with m := { t.m with cache := c, deletes := d } }

/-- agreement on everything `spend_utxo` / `put_utxo` read or write -/
structure UAgree (s t : Sys) : Prop where
  cache : t.m.cache = s.m.cache
  deletes : t.m.deletes = s.m.deletes
  h : t.p.h = s.p.h
  u : t.p.u = s.p.u
  txCounts : t.m.txCounts = s.m.txCounts
  height : t.m.dbst.height = s.m.dbst.height
  hashes : t.p.hashes = s.p.hashes

theorem UAgree.setCD {s t : Sys} (h : UAgree s t) (c : List ((Hash × Nat) × CacheVal)) (d : List DelKey) :
    UAgree (setCD s c d) (setCD t c d) :=
  ⟨rfl, rfl, h.h, h.u, h.txCounts, h.height, h.hashes⟩

theorem UAgree.setCD_self {s t : Sys} (h : UAgree s t) : EV.Index.setCD t s.m.cache s.m.deletes = t := by
  unfold EV.Index.setCD
  rw [← h.cache, ← h.deletes]

theorem fsTxHash_agree {s t : Sys} (h : UAgree s t) (n : Nat) : fsTxHash t n = fsTxHash s n := by
  simp only [fsTxHash, h.txCounts, h.height, h.hashes]

theorem spendFromDb_agree {s t : Sys} (h : UAgree s t) (txid : Hash) (idx nc : Nat)
    (rows : List (HKey × HashX)) : spendFromDb t txid idx nc rows = spendFromDb s txid idx nc rows := by
  induction rows with
  | nil => rfl
  | cons r rest ih =>
    obtain ⟨hk, hx⟩ := r
    simp only [spendFromDb, fsTxHash_agree h, h.u, ih]

theorem spendUtxo_sim {s t : Sys} (h : UAgree s t) {txid : Hash} {idx : Nat} {cv : CacheVal} {s' : Sys}
    (hs : spendUtxo s txid idx = .ok (cv, s')) :
    ∃ c d, s' = setCD s c d ∧ spendUtxo t txid idx = .ok (cv, setCD t c d) := by
  unfold spendUtxo at hs ⊢
  rw [h.cache, h.h, spendFromDb_agree h]
  split at hs
  · next cv0 hc =>
    simp only [Except.ok.injEq, Prod.mk.injEq] at hs
    obtain ⟨rfl, rfl⟩ := hs
    refine ⟨aerase (txid, idx) s.m.cache, s.m.deletes, rfl, ?_⟩
    simp only [setCD, h.deletes]
  · split at hs
    · simp at hs
    · next cv0 hk uk hc =>
      simp only [Except.ok.injEq, Prod.mk.injEq] at hs
      obtain ⟨rfl, rfl⟩ := hs
      refine ⟨s.m.cache, s.m.deletes ++ [.h hk, .u uk], rfl, ?_⟩
      simp only [setCD, h.deletes, h.cache]
    · simp at hs

theorem spendOutputs_sim (cfg : Cfg) (height : Nat) (txid : Hash) (outs : List TxOut) :
    ∀ (idx : Nat) (a a' : Acc Sys) (t : Sys), UAgree a.s t →
      spendOutputs sysOps cfg height txid outs idx a = .ok a' →
      ∃ c d, a'.s = setCD a.s c d ∧
        spendOutputs sysOps cfg height txid outs idx { a with s := t } = .ok { a' with s := setCD t c d } := by
  induction outs with
  | nil =>
    intro idx a a' t h hs
    simp only [spendOutputs, Except.ok.injEq] at hs
    subst hs
    exact ⟨a.s.m.cache, a.s.m.deletes, rfl, by simp only [spendOutputs, h.setCD_self]⟩
  | cons o rest ih =>
    intro idx a a' t h hs
    simp only [spendOutputs] at hs ⊢
    split at hs
    · next hun =>
      simp only [hun, if_true]
      exact ih (idx + 1) a a' t h hs
    · next hun =>
      simp only [hun, if_false, Bool.false_eq_true]
      split at hs
      · simp at hs
      · next cv s1 hsp =>
        obtain ⟨c, d, rfl, ht⟩ := spendUtxo_sim h (show spendUtxo a.s txid idx = _ from hsp)
        obtain ⟨c', d', hs', ht'⟩ := ih (idx + 1)
          { a with s := setCD a.s c d, touched := a.touched ++ [cv.hx], delta := a.delta - 1 } a'
          (setCD t c d) (h.setCD c d) hs
        refine ⟨c', d', hs', ?_⟩
        have ht2 : sysOps.spend t txid idx = Except.ok (cv, setCD t c d) := ht
        simp only [ht2]
        exact ht'

theorem restoreInputs_sim (ins : List TxIn) :
    ∀ (undo : List CacheVal) (a a' : Acc Sys) (undo' : List CacheVal) (t : Sys), UAgree a.s t →
      restoreInputs sysOps ins undo a = some (a', undo') →
      ∃ c d, a'.s = setCD a.s c d ∧
        restoreInputs sysOps ins undo { a with s := t } = some ({ a' with s := setCD t c d }, undo') := by
  induction ins with
  | nil =>
    intro undo a a' undo' t h hs
    simp only [restoreInputs, Option.some.injEq, Prod.mk.injEq] at hs
    obtain ⟨rfl, rfl⟩ := hs
    exact ⟨a.s.m.cache, a.s.m.deletes, rfl, by simp only [restoreInputs, h.setCD_self]⟩
  | cons i rest ih =>
    intro undo a a' undo' t h hs
    simp only [restoreInputs] at hs ⊢
    split at hs
    · next hg =>
      simp only [hg, if_true]
      exact ih undo a a' undo' t h hs
    · next hg =>
      simp only [hg, if_false, Bool.false_eq_true]
      split at hs
      · simp at hs
      · next cv hl =>
        have hag : UAgree (sysOps.add a.s i.prev i.idx cv) (sysOps.add t i.prev i.idx cv) := by
          refine ⟨?_, h.deletes, h.h, h.u, h.txCounts, h.height, h.hashes⟩
          show ainsert _ _ t.m.cache = ainsert _ _ a.s.m.cache
          rw [h.cache]
        obtain ⟨c', d', hs', ht'⟩ := ih undo.dropLast
          { a with s := sysOps.add a.s i.prev i.idx cv, touched := a.touched ++ [cv.hx], delta := a.delta + 1 }
          a' undo' (sysOps.add t i.prev i.idx cv) hag hs
        refine ⟨c', d', ?_, ?_⟩
        · rw [hs']; rfl
        · exact ht'

theorem backupTxs_sim (cfg : Cfg) (height : Nat) (txs : List Tx) :
    ∀ (undo : List CacheVal) (a a' : Acc Sys) (undo' : List CacheVal) (t : Sys), UAgree a.s t →
      backupTxs sysOps cfg height txs undo a = .ok (a', undo') →
      ∃ c d, a'.s = setCD a.s c d ∧
        backupTxs sysOps cfg height txs undo { a with s := t } = .ok ({ a' with s := setCD t c d }, undo') := by
  induction txs with
  | nil =>
    intro undo a a' undo' t h hs
    simp only [backupTxs, Except.ok.injEq, Prod.mk.injEq] at hs
    obtain ⟨rfl, rfl⟩ := hs
    exact ⟨a.s.m.cache, a.s.m.deletes, rfl, by simp only [backupTxs, h.setCD_self]⟩
  | cons tx rest ih =>
    intro undo a a' undo' t h hs
    simp only [backupTxs] at hs ⊢
    split at hs
    · simp at hs
    · next a1 h1 =>
      obtain ⟨c1, d1, e1, t1⟩ := spendOutputs_sim cfg height tx.id tx.outs 0 a a1 t h h1
      rw [t1]
      simp only
      split at hs
      · simp at hs
      · next a2 undo2 h2 =>
        have hag1 : UAgree a1.s (setCD t c1 d1) := by rw [e1]; exact h.setCD c1 d1
        obtain ⟨c2, d2, e2, t2⟩ := restoreInputs_sim tx.ins.reverse undo a1 a2 undo2 (setCD t c1 d1) hag1 h2
        rw [t2]
        simp only
        have hag2 : UAgree a2.s (setCD t c2 d2) := by
          rw [e2, e1]; exact h.setCD c2 d2
        obtain ⟨c3, d3, e3, t3⟩ := ih undo2 { a2 with txNum := a2.txNum + 1 } a' undo'
          (setCD t c2 d2) hag2 hs
        refine ⟨c3, d3, ?_, t3⟩
        rw [e3]
        show setCD a2.s c3 d3 = _
        rw [e2, e1]
        rfl

/-! ### `backup_block` after its loops -/

/-- the chain state after backing out `b`, given the loop result -/
def bkSt (st : CState) (a : Acc Sys) (b : Block) : CState :=
  { st with height := st.height - 1, tip := b.prev, chainSize := st.chainSize - b.size,
            utxoCount := st.utxoCount + a.delta, txCount := st.txCount - a.txNum }

/-- `flush_backup` on the loop result (the tail of `backupFull`, verbatim) -/
def bkResult (a : Acc Sys) (s : Sys) (b : Block) : List Effect × Sys :=
  let m := { a.s.m with touched := a.s.m.touched ++ a.touched }
  let st' : CState :=
    { m.st with
      height := m.st.height - 1
      tip := b.prev
      chainSize := m.st.chainSize - b.size
      utxoCount := m.st.utxoCount + a.delta
      txCount := m.st.txCount - a.txNum }
  let m1 : Mem := { m with st := st', txCounts := m.txCounts.dropLast,
                           fsHeight := st'.height, fsTxCount := st'.txCount }
  let s1 : Sys := { a.s with m := m1 }
  let e1 := histBackupEffect s1 m1.touched st'.txCount
  let m2 : Mem := { m1 with histFlush := m1.histFlush + 1 }
  let s2 : Sys := { s1 with m := m2 }
  let e2 := utxoBatchEffect s2 st'
  let m3 : Mem := { m2 with cache := [], deletes := [], undoU := [], dbst := st' }
  ([e1, e2], { m := m3, p := applyEffects s.p [e1, e2] })

theorem backupFull_eq (cfg : Cfg) (s : Sys) (b : Block) :
    backupFull cfg s b =
      if !assertFlushed s then .error .assertion
      else if s.m.st.height ≤ 0 then .error .assertion
      else
        match alookup s.m.st.height.toNat s.p.undo with
        | none => .error .chainError
        | some undo =>
          match backupTxs sysOps cfg s.m.st.height.toNat b.txs.reverse undo { s := s, txNum := 0 } with
          | .error e => .error e
          | .ok (a, undoLeft) =>
            if !undoLeft.isEmpty then .error .assertion else .ok (bkResult a s b) := rfl

/-- the two effects and the interesting fields of the result, when the loop result sits on `s` -/
theorem bkResult_on (a : Acc Sys) (s : Sys) (b : Block) (c : List ((Hash × Nat) × CacheVal))
    (d : List DelKey) (ha : a.s = setCD s c d) :
    (bkResult a s b).1 =
      [histBackupEffect
          { m := { s.m with cache := c, deletes := d, touched := s.m.touched ++ a.touched,
                            st := bkSt s.m.st a b, txCounts := s.m.txCounts.dropLast,
                            fsHeight := (bkSt s.m.st a b).height, fsTxCount := (bkSt s.m.st a b).txCount },
            p := s.p }
          (s.m.touched ++ a.touched) (bkSt s.m.st a b).txCount,
       .utxoBatch d
          (c.map (fun ((txid, idx), cv) => ((pfx txid, idx, cv.txnum), cv.hx)))
          (c.map (fun ((_, idx), cv) => ((cv.hx, idx, cv.txnum), cv.value)))
          [] (s.m.undoU.map (fun (ui, h) => (h, ui))) (some (bkSt s.m.st a b))] ∧
    (bkResult a s b).2.p = applyEffects s.p (bkResult a s b).1 ∧
    (bkResult a s b).2.m.st = bkSt s.m.st a b ∧ (bkResult a s b).2.m.dbst = bkSt s.m.st a b ∧
    (bkResult a s b).2.m.txCounts = s.m.txCounts.dropLast := by
  simp [bkResult, ha, setCD, utxoBatchEffect, bkSt]

/-! ### small facts about the two batches -/

theorem getTxnums_congr {p q : Store} (h : p.hist = q.hist) (hx : HashX) (l : Option Nat) :
    getTxnums p hx l = getTxnums q hx l := by
  simp only [getTxnums, h]

theorem foldl_applyDelKey_congr (dels : List DelKey) :
    ∀ (p q : Store), p.h = q.h → p.u = q.u →
      (dels.foldl applyDelKey p).h = (dels.foldl applyDelKey q).h ∧
      (dels.foldl applyDelKey p).u = (dels.foldl applyDelKey q).u := by
  induction dels with
  | nil => intro p q hh hu; exact ⟨hh, hu⟩
  | cons d dels ih =>
    intro p q hh hu
    cases d with
    | h k => exact ih _ _ (by simp only [applyDelKey, hh]) (by simpa only [applyDelKey] using hu)
    | u k => exact ih _ _ (by simpa only [applyDelKey] using hh) (by simp only [applyDelKey, hu])

/-- what a UTXO batch without undo operations does, field by field -/
theorem utxoBatch_fields (p : Store) (d : List DelKey) (hp : List (HKey × HashX)) (up : List (UKey × Nat))
    (st : CState) :
    (applyEffect p (.utxoBatch d hp up [] [] (some st))).undo = p.undo ∧
    (applyEffect p (.utxoBatch d hp up [] [] (some st))).ustate = some st ∧
    (applyEffect p (.utxoBatch d hp up [] [] (some st))).hist = p.hist ∧
    (applyEffect p (.utxoBatch d hp up [] [] (some st))).headers = p.headers ∧
    (applyEffect p (.utxoBatch d hp up [] [] (some st))).txcounts = p.txcounts ∧
    (applyEffect p (.utxoBatch d hp up [] [] (some st))).hashes = p.hashes := by
  have h := foldl_applyDelKey_rest d p
  simp only [applyEffect, List.foldl_nil]
  simp [h.1, h.2.2.1, h.2.2.2.2.1, h.2.2.2.2.2.1, h.2.2.2.2.2.2]

theorem utxoBatch_hu_congr (p q : Store) (hh : p.h = q.h) (hu : p.u = q.u) (d : List DelKey)
    (hp : List (HKey × HashX)) (up : List (UKey × Nat)) (ud : List Nat) (upp : List (Nat × List CacheVal))
    (st : Option CState) :
    (applyEffect p (.utxoBatch d hp up ud upp st)).h = (applyEffect q (.utxoBatch d hp up ud upp st)).h ∧
    (applyEffect p (.utxoBatch d hp up ud upp st)).u = (applyEffect q (.utxoBatch d hp up ud upp st)).u := by
  have h := foldl_applyDelKey_congr d p q hh hu
  simp only [applyEffect, h.1, h.2, and_self]

theorem alookup_foldl_aerase_of_not_mem {κ ν : Type} [DecidableEq κ] (ks : List κ) (k : κ) (hk : k ∉ ks) :
    ∀ l : List (κ × ν), alookup k (ks.foldl (fun t k => aerase k t) l) = alookup k l := by
  induction ks with
  | nil => intro l; rfl
  | cons a ks ih =>
    intro l
    have ha : a ≠ k := fun e => hk (e ▸ List.mem_cons_self ..)
    rw [List.foldl_cons, ih (fun hm => hk (List.mem_cons_of_mem _ hm)), alookup_aerase, if_neg ha]

/-- the restart prunes only rows below the window -/
theorem alookup_undoAfterOpen (undo : List (Nat × List CacheVal)) (minH : Int) (k : Nat)
    (hk : ¬ (k : Int) < minH) : alookup k (undoAfterOpen undo minH) = alookup k undo := by
  unfold undoAfterOpen
  apply alookup_foldl_aerase_of_not_mem
  intro hm
  exact hk ((mem_clearUndoKeys undo minH k).mp hm).2

/-- a history batch followed by a UTXO batch without undo operations, field by field -/
theorem two_batches_fields (p : Store) (eh : Effect) (heh : eh.isHistBatch = true)
    (d : List DelKey) (hp : List (HKey × HashX)) (up : List (UKey × Nat)) (st : CState) :
    (applyEffects p [eh, .utxoBatch d hp up [] [] (some st)]).h =
        (applyEffect p (.utxoBatch d hp up [] [] (some st))).h ∧
    (applyEffects p [eh, .utxoBatch d hp up [] [] (some st)]).u =
        (applyEffect p (.utxoBatch d hp up [] [] (some st))).u ∧
    (applyEffects p [eh, .utxoBatch d hp up [] [] (some st)]).ustate = some st ∧
    (applyEffects p [eh, .utxoBatch d hp up [] [] (some st)]).undo = p.undo ∧
    (applyEffects p [eh, .utxoBatch d hp up [] [] (some st)]).headers = p.headers ∧
    (applyEffects p [eh, .utxoBatch d hp up [] [] (some st)]).txcounts = p.txcounts ∧
    (applyEffects p [eh, .utxoBatch d hp up [] [] (some st)]).hashes = p.hashes ∧
    (applyEffects p [eh, .utxoBatch d hp up [] [] (some st)]).hist = (applyEffect p eh).hist := by
  cases eh <;> simp only [Effect.isHistBatch, Bool.false_eq_true] at heh
  next hd hpu hs =>
  have e : applyEffects p [.histBatch hd hpu hs, .utxoBatch d hp up [] [] (some st)] =
      applyEffect (applyEffect p (.histBatch hd hpu hs)) (.utxoBatch d hp up [] [] (some st)) := rfl
  have f := utxoBatch_fields (applyEffect p (.histBatch hd hpu hs)) d hp up st
  have g := utxoBatch_hu_congr (applyEffect p (.histBatch hd hpu hs)) p rfl rfl d hp up [] [] (some st)
  rw [e]
  exact ⟨g.1, g.2, f.2.1, f.1, f.2.2.2.1, f.2.2.2.2.1, f.2.2.2.2.2, f.2.2.1⟩

/-- `History.backup` on a store whose history table is the one a first `History.backup` left: the
    histories come out as the first run left them -/
theorem histBackup_redo (p q : Store) (m1 m2 : Mem) (T1 T2 : List HashX) (n : Nat)
    (hkeys : (p.hist.map (·.1)).Nodup) (hasc : ∀ hx, (getTxnums p hx none).Pairwise (· < ·))
    (hq : q.hist = (applyEffect p (histBackupEffect { m := m1, p := p } T1 n)).hist)
    (hsub : ∀ hx ∈ T2, hx ∈ T1) (hx : HashX) :
    getTxnums (applyEffect q (histBackupEffect { m := m2, p := q } T2 n)) hx none =
      getTxnums (applyEffect p (histBackupEffect { m := m1, p := p } T1 n)) hx none :=
  (histBackup_idem { m := m1, p := p } { m := m2, p := q } T1 T2 n hkeys hasc hq hsub hx).trans
    (getTxnums_congr hq hx none)

/-! ### the fully flushed state a back-out starts from -/

/-- invariants of a fully flushed state (what `flush_dbs(…, flush_utxos=True)` leaves; the state
    every back-out starts from, since `backup_block` asserts it) -/
structure FlushedB (cfg : Cfg) (s : Sys) : Prop where
  /-- `DB.assert_flushed` passes -/
  asserts : assertFlushed s = true
  /-- the UTXO state record is the in-memory chain state -/
  ustate : s.p.ustate = some s.m.st
  dbst : s.m.dbst = s.m.st
  /-- `tx_counts` in memory is the committed prefix of the file (what `_read_tx_counts` checks) -/
  txc : s.m.txCounts = s.p.txcounts.take (s.m.st.height + 1).toNat
  txcLen : s.m.txCounts.length = (s.m.st.height + 1).toNat
  txcLast : s.m.txCounts.getLast?.getD 0 = s.m.st.txCount
  /-- history table: unique keys, no row above the UTXO flush count, ascending histories (C02) -/
  keys : (s.p.hist.map (·.1)).Nodup
  ids : ∀ e ∈ s.p.hist, e.1.2 ≤ s.m.st.flushCount
  asc : ∀ hx, (getTxnums s.p hx none).Pairwise (· < ·)
  /-- the history flush count is not behind the UTXO one (cf. F9) -/
  hfc : s.m.st.flushCount ≤ s.m.histFlush
  /-- some undo information is retained at all -/
  lim : 0 < cfg.reorgLimit

/-- the system a restart produces from the store `pc` left by the cut `[history batch]` -/
def redoSys (cfg : Cfg) (s : Sys) (pc : Store) : Sys :=
  { p := openStore cfg pc,
    m := { st := s.m.st, dbst := s.m.st, fsHeight := s.m.st.height, fsTxCount := s.m.st.txCount,
           txCounts := s.m.txCounts, histFlush := s.m.st.flushCount, compFlush := -1, compCursor := -1 } }

/-- the history table `History.backup` leaves does not depend on the volatile state -/
theorem hist_histBackup_indep (m m' : Mem) (p : Store) (T : List HashX) (n : Nat) :
    (applyEffect p (histBackupEffect { m := m, p := p } T n)).hist =
      (applyEffect p (histBackupEffect { m := m', p := p } T n)).hist := by
  simp [applyEffect, histBackupEffect]

/-- `History.backup` applied to the store of a flushed state: everything but `hist`/`hstate` is
    untouched, the state record carries `histFlush + 1`, and no row id exceeds the UTXO flush count -/
theorem histBackup_store {cfg : Cfg} {s : Sys} (hfl : FlushedB cfg s) (m1 : Mem) (hm1 : m1.histFlush = s.m.histFlush)
    (T : List HashX) (n : Nat) (pc : Store)
    (hpc : pc = applyEffect s.p (histBackupEffect { m := m1, p := s.p } T n)) :
    pc.h = s.p.h ∧ pc.u = s.p.u ∧ pc.undo = s.p.undo ∧ pc.ustate = some s.m.st ∧
    pc.headers = s.p.headers ∧ pc.txcounts = s.p.txcounts ∧ pc.hashes = s.p.hashes ∧
    (pc.hstate.getD {}).flushCount = s.m.histFlush + 1 ∧
    (∀ e ∈ pc.hist, e.1.2 ≤ s.m.st.flushCount) := by
  have ho : pc = { s.p with hist := pc.hist, hstate := pc.hstate } := by
    rw [hpc]; exact others_histBackup { m := m1, p := s.p } T n
  have hs : pc.hstate = some { hstateOf m1 with flushCount := m1.histFlush + 1 } := by
    rw [hpc]; exact hstate_histBackup { m := m1, p := s.p } T n
  have f1 : pc.h = s.p.h := by have := congrArg Store.h ho; exact this
  have f2 : pc.u = s.p.u := by have := congrArg Store.u ho; exact this
  have f3 : pc.undo = s.p.undo := by have := congrArg Store.undo ho; exact this
  have f4 : pc.ustate = s.p.ustate := by have := congrArg Store.ustate ho; exact this
  have f5 : pc.headers = s.p.headers := by have := congrArg Store.headers ho; exact this
  have f6 : pc.txcounts = s.p.txcounts := by have := congrArg Store.txcounts ho; exact this
  have f7 : pc.hashes = s.p.hashes := by have := congrArg Store.hashes ho; exact this
  refine ⟨f1, f2, f3, f4.trans hfl.ustate, f5, f6, f7, ?_, ?_⟩
  · rw [hs]
    simp [hm1]
  · have hwf : HistWF (Sys.mk { m1 with histFlush := s.m.st.flushCount } s.p).p.hist
        (Sys.mk { m1 with histFlush := s.m.st.flushCount } s.p).m.histFlush := ⟨hfl.keys, hfl.ids⟩
    have := (histWF_histBackup _ T n hwf).ids
    intro e he
    apply this e
    rw [hpc, hist_histBackup_indep m1 { m1 with histFlush := s.m.st.flushCount }] at he
    exact he

theorem recover_after_histBackup {cfg : Cfg} {s : Sys} (hfl : FlushedB cfg s) (m1 : Mem)
    (hm1 : m1.histFlush = s.m.histFlush) (T : List HashX) (n : Nat) (pc : Store)
    (hpc : pc = applyEffect s.p (histBackupEffect { m := m1, p := s.p } T n)) :
    (∃ er, recover cfg pc = some (er, redoSys cfg s pc)) ∧
    (openStore cfg pc).hist = pc.hist ∧ (openStore cfg pc).h = s.p.h ∧ (openStore cfg pc).u = s.p.u ∧
    (openStore cfg pc).undo = undoAfterOpen s.p.undo (s.m.st.height - cfg.reorgLimit + 1) ∧
    (openStore cfg pc).headers = s.p.headers ∧ (openStore cfg pc).txcounts = s.p.txcounts ∧
    (openStore cfg pc).hashes = s.p.hashes := by
  obtain ⟨hh, hu, hundo, hus, hhdr, htxc, hhsh, hfc, hids⟩ := histBackup_store hfl m1 hm1 T n pc hpc
  have husd : pc.ustate.getD {} = s.m.st := by rw [hus]; rfl
  have hgt : (pc.ustate.getD {}).flushCount < (pc.hstate.getD {}).flushCount := by
    rw [husd, hfc]; have := hfl.hfc; omega
  have h1 := openStore1_of_gt hgt
  have hrest := openStore1_rest pc
  have hhist : (openStore cfg pc).hist = pc.hist := by
    rw [openStore_eq, h1]
    show histUpTo pc.hist (pc.ustate.getD {}).flushCount = pc.hist
    rw [husd]
    exact histUpTo_self hids
  have hstate : openState pc false =
      (s.m.st, { flushCount := s.m.st.flushCount, compFlushCount := -1, compCursor := -1 }) := by
    rw [openState_of_ge pc (by omega), husd]
  have htc : openTxCounts (openStore cfg pc) s.m.st none = some s.m.txCounts := by
    have e : (openStore cfg pc).txcounts = s.p.txcounts := by rw [openStore_eq]; exact hrest.2.2.2.2.2.1.trans htxc
    simp only [openTxCounts, e, ← hfl.txc, hfl.txcLen, hfl.txcLast, beq_self_eq_true, Bool.and_self, if_true]
  refine ⟨⟨(clearExcessEffect pc (pc.hstate.getD {}) (pc.ustate.getD {}).flushCount).toList ++
      openUndoEffects cfg (openStore1 pc) (pc.ustate.getD {}).height, ?_⟩, hhist, ?_, ?_, ?_, ?_, ?_, ?_⟩
  · simp only [recover, openDbs, hstate, htc, redoSys]
  · rw [openStore_eq]; exact hrest.1.trans hh
  · rw [openStore_eq]; exact hrest.2.1.trans hu
  · rw [openStore_eq]; simp only [hundo, husd]
  · rw [openStore_eq]; exact hrest.2.2.2.2.1.trans hhdr
  · rw [openStore_eq]; exact hrest.2.2.2.2.2.1.trans htxc
  · rw [openStore_eq]; exact hrest.2.2.2.2.2.2.trans hhsh

theorem assertFlushed_redoSys (cfg : Cfg) (s : Sys) (pc : Store) : assertFlushed (redoSys cfg s pc) = true := by
  simp [assertFlushed, redoSys]

theorem assertFlushed_fields {s : Sys} (h : assertFlushed s = true) :
    s.m.cache = [] ∧ s.m.deletes = [] ∧ s.m.undoU = [] := by
  simp only [assertFlushed, Bool.and_eq_true, List.isEmpty_iff] at h
  exact ⟨h.1.1.1.2, h.1.1.2, h.1.2⟩

/-- **The repeated back-out.**  See `C05_newbranch_partial` in `EV/Props/C05.lean`. -/
theorem redo_backup {cfg : Cfg} {s : Sys} {b : Block} {e1 e2 : Effect} {s' : Sys}
    (hfl : FlushedB cfg s) (h : backupFull cfg s b = .ok ([e1, e2], s')) :
    ∃ er r e1' s2, recover cfg (applyEffects s.p [e1]) = some (er, r) ∧
      backupFull cfg r b = .ok ([e1', e2], s2) ∧
      s2.p.h = s'.p.h ∧ s2.p.u = s'.p.u ∧ s2.p.ustate = s'.p.ustate ∧
      s2.p.headers = s'.p.headers ∧ s2.p.txcounts = s'.p.txcounts ∧ s2.p.hashes = s'.p.hashes ∧
      s2.p.undo = undoAfterOpen s'.p.undo (s.m.st.height - cfg.reorgLimit + 1) ∧
      s2.m.st = s'.m.st ∧ s2.m.dbst = s'.m.dbst ∧ s2.m.txCounts = s'.m.txCounts ∧
      (∀ hx, getTxnums s2.p hx none = getTxnums s'.p hx none) := by
  rw [backupFull_eq] at h
  split at h
  · simp at h
  next hfa =>
  split at h
  · simp at h
  next hpos =>
  split at h
  · simp at h
  next undo hundo =>
  split at h
  · simp at h
  next a undoLeft hbt =>
  split at h
  · simp at h
  next hempty =>
  simp only [Except.ok.injEq] at h
  obtain ⟨hc0, hd0, hu0⟩ := assertFlushed_fields hfl.asserts
  -- the system restarted after the cut
  let pc : Store := applyEffects s.p [e1]
  -- the loops run in lock step on `s` and on the restarted system
  have hsim := fun (R : Sys) (hag : UAgree s R) =>
    backupTxs_sim cfg s.m.st.height.toNat b.txs.reverse undo { s := s, txNum := 0 } a undoLeft R hag hbt
  -- first use it with `R := s` only to learn `a.s = setCD s c d`
  obtain ⟨c, d, ha, _⟩ := hsim s ⟨rfl, rfl, rfl, rfl, rfl, rfl, rfl⟩
  obtain ⟨hE, hp', hst', hdbst', htxc'⟩ := bkResult_on a s b c d ha
  rw [h] at hE hp' hst' hdbst' htxc'
  simp only [List.cons.injEq, and_true] at hE
  obtain ⟨hE1, hE2⟩ := hE
  have hpc : pc = applyEffect s.p (histBackupEffect
      { m := { s.m with cache := c, deletes := d, touched := s.m.touched ++ a.touched,
                        st := bkSt s.m.st a b, txCounts := s.m.txCounts.dropLast,
                        fsHeight := (bkSt s.m.st a b).height, fsTxCount := (bkSt s.m.st a b).txCount },
        p := s.p } (s.m.touched ++ a.touched) (bkSt s.m.st a b).txCount) := by
    show applyEffect s.p e1 = _
    rw [hE1]
  obtain ⟨⟨er, hrec⟩, rhist, rh, ru, rundo, rhdr, rtxc, rhsh⟩ :=
    recover_after_histBackup hfl _ rfl _ _ pc hpc
  have hag : UAgree s (redoSys cfg s pc) :=
    ⟨hc0.symm, hd0.symm, rh, ru, rfl, by simp [redoSys, hfl.dbst], rhsh⟩
  obtain ⟨c', d', ha', hbtR⟩ := hsim (redoSys cfg s pc) hag
  have hcc : c' = c ∧ d' = d := by
    have := ha.symm.trans ha'
    simp only [setCD, Sys.mk.injEq, Mem.mk.injEq] at this
    exact ⟨this.1.2.2.2.2.2.1.symm, this.1.2.2.2.2.2.2.1.symm⟩
  obtain ⟨rfl, rfl⟩ := hcc
  -- the back-out on the restarted system
  have hheight : (redoSys cfg s pc).m.st.height = s.m.st.height := rfl
  have hundoR : alookup s.m.st.height.toNat (redoSys cfg s pc).p.undo = some undo := by
    show alookup s.m.st.height.toNat (openStore cfg pc).undo = some undo
    rw [rundo, alookup_undoAfterOpen _ _ _ (by have := hfl.lim; omega), hundo]
  have hfull : backupFull cfg (redoSys cfg s pc) b =
      .ok (bkResult { a with s := setCD (redoSys cfg s pc) c' d' } (redoSys cfg s pc) b) := by
    rw [backupFull_eq]
    simp only [assertFlushed_redoSys, Bool.not_true, Bool.false_eq_true, if_false, hheight, hpos]
    have hbtR' : backupTxs sysOps cfg s.m.st.height.toNat b.txs.reverse undo
        { s := redoSys cfg s pc, txNum := 0 } =
        .ok ({ a with s := setCD (redoSys cfg s pc) c' d' }, undoLeft) := hbtR
    simp [hundoR, hbtR', hempty]
  obtain ⟨hER, hpR, hstR, hdbstR, htxcR⟩ :=
    bkResult_on { a with s := setCD (redoSys cfg s pc) c' d' } (redoSys cfg s pc) b c' d' rfl
  -- the UTXO batch is the same
  have hE2R : Effect.utxoBatch d'
      (c'.map (fun ((txid, idx), cv) => ((pfx txid, idx, cv.txnum), cv.hx)))
      (c'.map (fun ((_, idx), cv) => ((cv.hx, idx, cv.txnum), cv.value)))
      [] ((redoSys cfg s pc).m.undoU.map (fun (ui, h) => (h, ui)))
      (some (bkSt (redoSys cfg s pc).m.st { a with s := setCD (redoSys cfg s pc) c' d' } b)) = e2 := by
    rw [hE2, hu0]
    rfl
  rw [hE2R] at hER
  -- normal forms of the two UTXO batches and of `s'`
  have he2 : e2 = .utxoBatch d'
      (c'.map (fun ((txid, idx), cv) => ((pfx txid, idx, cv.txnum), cv.hx)))
      (c'.map (fun ((_, idx), cv) => ((cv.hx, idx, cv.txnum), cv.value)))
      [] [] (some (bkSt s.m.st a b)) := by
    rw [hE2, hu0]; rfl
  have hs'p : s'.p = applyEffects s.p [e1, e2] := hp'
  have hRp : (bkResult { a with s := setCD (redoSys cfg s pc) c' d' } (redoSys cfg s pc) b).2.p =
      applyEffects (redoSys cfg s pc).p
        (bkResult { a with s := setCD (redoSys cfg s pc) c' d' } (redoSys cfg s pc) b).1 := hpR
  rw [hER] at hRp
  refine ⟨er, redoSys cfg s pc, _, (bkResult { a with s := setCD (redoSys cfg s pc) c' d' } (redoSys cfg s pc) b).2,
    hrec, by rw [hfull]; exact congrArg Except.ok (Prod.ext hER rfl), ?_⟩
  rw [hRp, hs'p, hE1, he2]
  have fS := fun eh heh => two_batches_fields s.p eh heh d'
      (c'.map (fun ((txid, idx), cv) => ((pfx txid, idx, cv.txnum), cv.hx)))
      (c'.map (fun ((_, idx), cv) => ((cv.hx, idx, cv.txnum), cv.value))) (bkSt s.m.st a b)
  have fR := fun eh heh => two_batches_fields (redoSys cfg s pc).p eh heh d'
      (c'.map (fun ((txid, idx), cv) => ((pfx txid, idx, cv.txnum), cv.hx)))
      (c'.map (fun ((_, idx), cv) => ((cv.hx, idx, cv.txnum), cv.value))) (bkSt s.m.st a b)
  have hcong := utxoBatch_hu_congr (redoSys cfg s pc).p s.p rh ru d'
      (c'.map (fun ((txid, idx), cv) => ((pfx txid, idx, cv.txnum), cv.hx)))
      (c'.map (fun ((_, idx), cv) => ((cv.hx, idx, cv.txnum), cv.value))) [] [] (some (bkSt s.m.st a b))
  refine ⟨?_, ?_, ?_, ?_, ?_, ?_, ?_, hstR.trans hst'.symm, hdbstR.trans hdbst'.symm, htxcR.trans htxc'.symm, ?_⟩
  · exact ((fR _ rfl).1).trans (hcong.1.trans ((fS _ rfl).1).symm)
  · exact ((fR _ rfl).2.1).trans (hcong.2.trans ((fS _ rfl).2.1).symm)
  · exact ((fR _ rfl).2.2.1).trans ((fS _ rfl).2.2.1).symm
  · exact ((fR _ rfl).2.2.2.2.1).trans (rhdr.trans ((fS _ rfl).2.2.2.2.1).symm)
  · exact ((fR _ rfl).2.2.2.2.2.1).trans (rtxc.trans ((fS _ rfl).2.2.2.2.2.1).symm)
  · exact ((fR _ rfl).2.2.2.2.2.2.1).trans (rhsh.trans ((fS _ rfl).2.2.2.2.2.2.1).symm)
  · rw [(fR _ rfl).2.2.2.1, (fS _ rfl).2.2.2.1]
    exact rundo
  · intro hx
    rw [getTxnums_congr ((fR _ rfl).2.2.2.2.2.2.2) hx none, getTxnums_congr ((fS _ rfl).2.2.2.2.2.2.2) hx none]
    have hh2 := rhist.trans (congrArg Store.hist hpc)
    refine histBackup_redo s.p (redoSys cfg s pc).p _ _ _ _ _ hfl.keys hfl.asc hh2 ?_ hx
    intro x hxm
    exact List.mem_append_right _ (by simpa [redoSys] using hxm)

/-! non-vacuity of `FlushedB`: the synced state of the F8 witness -/
theorem flushed_cxS : FlushedB cxCfg cxS := by
  refine ⟨by decide, by decide, by decide, by decide, by decide, by decide, by decide, by decide, ?_,
    by decide, by decide⟩
  intro hx
  by_cases h7 : hx = 7
  · subst h7; simp [getTxnums, cxS]
  · have h7' : ¬ 7 = hx := fun h => h7 h.symm
    simp [getTxnums, cxS, h7']

end EV.Index

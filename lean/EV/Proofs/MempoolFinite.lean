import EV.Proofs.MempoolExact

/-!
Finite worlds: the environment predicates for a world given as a table of transactions, reduced
to decidable checks.  Only used for the non-vacuity examples and the counterexample witnesses of
`EV/Props/C08.lean` and `EV/Props/C09.lean`.
-/
namespace EV.Mempool

abbrev Table := List (Hash × RawTx)

/-- the index that answers from the confirmed UTXO map `U` -/
def lookupFrom (U : List (Prevout × Pair)) : Nat → List Prevout → List (Option Pair) :=
  fun _ ps => ps.map (ulookup U)

def validB (tb : Table) : Bool :=
  tb.all fun e => (mkTx e.2).prevouts.all fun p =>
    match dget tb p.1 with
    | none => true
    | some t' => decide (p.2 < t'.outs.length)

theorem valid_of_table {tb : Table} (h : validB tb = true) : Valid (dget tb) := by
  intro h' t ht p hp t' ht'
  have h1 := List.all_eq_true.mp h (h', t) (dget_some_mem ht)
  have h2 := List.all_eq_true.mp h1 p hp
  simp only [ht'] at h2
  exact of_decide_eq_true h2

def closedB (tb : Table) (M : List Hash) (U : List (Prevout × Pair)) : Bool :=
  M.all fun h =>
    match dget tb h with
    | none => true
    | some t => (mkTx t).prevouts.all fun p => M.contains p.1 || (U.map (·.1)).contains p

def acyclicB (tb : Table) (M : List Hash) (rank : Hash → Nat) : Bool :=
  M.all fun h =>
    match dget tb h with
    | none => true
    | some t => (mkTx t).prevouts.all fun p => !M.contains p.1 || decide (rank p.1 < rank h)

def conflictFreeB (tb : Table) (M : List Hash) : Bool :=
  M.all fun h₁ => M.all fun h₂ =>
    match dget tb h₁, dget tb h₂ with
    | some t₁, some t₂ =>
      (mkTx t₁).prevouts.all fun p => !(mkTx t₂).prevouts.contains p || decide (h₁ = h₂)
    | _, _ => true

def quietB (tb : Table) (M : List Hash) (U : List (Prevout × Pair)) (rank : Hash → Nat) : Bool :=
  decide M.Nodup && M.all (fun h => (dget tb h).isSome) && validB tb &&
  U.all (fun b => decide (truePair (dget tb) b.1 = some b.2)) &&
  closedB tb M U && acyclicB tb M rank && conflictFreeB tb M

theorem envQuiet_of_table {tb : Table} {M : List Hash} {U : List (Prevout × Pair)}
    {rank : Hash → Nat} (h : quietB tb M U rank = true) :
    EnvQuiet (dget tb) M U (dget tb) (lookupFrom U) := by
  simp only [quietB, Bool.and_eq_true] at h
  obtain ⟨⟨⟨⟨⟨⟨h1, h2⟩, h3⟩, h4⟩, h5⟩, h6⟩, h7⟩ := h
  constructor
  · exact of_decide_eq_true h1
  · intro k hk
    have := List.all_eq_true.mp h2 k hk
    cases hg : dget tb k with
    | none => rw [hg] at this; cases this
    | some t => exact ⟨t, rfl, rfl⟩
  · exact valid_of_table h3
  · intro b hb
    exact of_decide_eq_true (List.all_eq_true.mp h4 b hb)
  · intro k ps; rfl
  · intro k hk t ht p hp
    have g1 := List.all_eq_true.mp h5 k hk
    simp only [ht] at g1
    have g2 := List.all_eq_true.mp g1 p hp
    rcases Bool.or_eq_true _ _ |>.mp g2 with g3 | g3
    · exact Or.inl (by simpa using g3)
    · exact Or.inr (by simpa using g3)
  · refine ⟨rank, ?_⟩
    intro k hk t ht p hp hpM
    have g1 := List.all_eq_true.mp h6 k hk
    simp only [ht] at g1
    have g2 := List.all_eq_true.mp g1 p hp
    rcases Bool.or_eq_true _ _ |>.mp g2 with g3 | g3
    · have : M.contains p.1 = true := by simpa using hpM
      rw [this] at g3; cases g3
    · exact of_decide_eq_true g3
  · intro k₁ hk₁ k₂ hk₂ t₁ t₂ ht₁ ht₂ p hp₁ hp₂
    have g1 := List.all_eq_true.mp (List.all_eq_true.mp h7 k₁ hk₁) k₂ hk₂
    simp only [ht₁, ht₂] at g1
    have g2 := List.all_eq_true.mp g1 p hp₁
    rcases Bool.or_eq_true _ _ |>.mp g2 with g3 | g3
    · have : (mkTx t₂).prevouts.contains p = true := by simpa using hp₂
      rw [this] at g3; cases g3
    · exact of_decide_eq_true g3

/-- a table world whose index answers *anything true or nothing* is sound -/
theorem envSound_of_table {tb : Table} {U : List (Prevout × Pair)} (hv : validB tb = true)
    (hU : (U.all fun b => decide (truePair (dget tb) b.1 = some b.2)) = true)
    (gone : List Hash) :
    EnvSound (dget tb) (fun h => if gone.contains h then none else dget tb h) (lookupFrom U) := by
  constructor
  · intro h t ht
    split at ht
    · cases ht
    · exact ht
  · exact valid_of_table hv
  · intro k ps p pr hp
    have := mem_zip_map (ulookup U) hp
    have hm := ulookup_some_mem this.symm
    exact of_decide_eq_true (List.all_eq_true.mp hU _ hm)

theorem MpInv_empty (W : Hash → Option RawTx) : MpInv W {} := by
  constructor
  · simp
  · exact ⟨by simp, by simp⟩
  · intro x h
    constructor
    · intro hi; exact absurd hi (idx_nil _ _)
    · rintro ⟨tx, h1, _⟩; simp at h1
  · simp

/-- projections used to state computed outcomes with decidable equality -/
def outcome : Except PyExc ProcResult → Option PyExc
  | .ok _ => none
  | .error e => some e

def resultOf : Except PyExc ProcResult → Option ProcResult
  | .ok r => some r
  | .error _ => none

def okOf {α : Type} : Except PyExc α → Option α
  | .ok r => some r
  | .error _ => none

end EV.Mempool

import EV.Proofs.TxCacheReq

/-!
C11 (transaction proofs) / C10 (by-height answers): the global invariant of `EV.TxCache` under the
fixed code (`Cfg.fixed thr`, any threshold), preserved by every event — any number of requests, any
interleaving of requests, worker reads, evictions, new blocks, flushes, back-outs and the
`_handle_chain_reorgs` task.
-/
namespace EV.TxCache
open EV.Merkle

variable {Node : Type} [DecidableEq Node] (H : Node → Node → Node)

structure Inv (s : St Node) : Prop where
  db : DBInv s
  /-- the visible chain is an initial part of the reference chain -/
  pre : visible s <+: s.ref
  /-- no reorganisation under way and `_handle_chain_reorgs` has run: the reference chain is the
      visible chain -/
  closed : s.bp = .idle → s.woken = false → s.ref = visible s
  /-- blocks are advanced / being flushed only when no reorganisation is under way and
      `_handle_chain_reorgs` has run (`Cfg.fifo`) -/
  quiet : (s.unfl ≠ [] ∨ s.vis < s.fsN) → s.bp = .idle ∧ s.woken = false
  txc : TxcOK s.ref s.txc
  mc : McOK H s.ref s.mc
  reqs : ∀ r ∈ s.reqs, ReqOK H s.rc s.ref (visible s) r

theorem inv_start (thr : Nat) (s : St Node) (k : Kind Node) (h : Nat) (hinv : Inv H s) :
    Inv H (step H (Cfg.fixed thr) s (.start k h)) := by
  obtain ⟨n1, n2, n3⟩ := newReq_ok H thr s k h hinv.db hinv.pre hinv.txc hinv.mc
  refine ⟨dbInv_step H _ s _ hinv.db, hinv.pre, hinv.closed, hinv.quiet, hinv.txc, n2, ?_⟩
  intro r hr
  rcases List.mem_append.mp hr with hr | hr
  · exact hinv.reqs r hr
  · simp only [List.mem_singleton] at hr
    subst hr
    exact n3

theorem inv_perform (thr : Nat) (s : St Node) (i : Nat) (hinv : Inv H s) :
    Inv H (step H (Cfg.fixed thr) s (.perform i)) := by
  have hdb := dbInv_step H (Cfg.fixed thr) s (.perform i) hinv.db
  simp only [step] at hdb ⊢
  split
  · exact hinv
  · rename_i r hr
    refine ⟨?_, hinv.pre, hinv.closed, hinv.quiet, hinv.txc, hinv.mc, ?_⟩
    · exact ⟨hinv.db.tc, hinv.db.len, hinv.db.vis, hinv.db.file, hinv.db.hdrs, hinv.db.busy, hinv.db.left⟩
    intro r' hr'
    rcases List.mem_or_eq_of_mem_set hr' with h | h
    · exact hinv.reqs r' h
    · subst h
      exact performReq_ok H thr s r hinv.db hinv.pre (hinv.reqs r (List.mem_of_getElem? hr))

theorem inv_deliver (thr : Nat) (s : St Node) (i : Nat) (hinv : Inv H s) :
    Inv H (step H (Cfg.fixed thr) s (.deliver i)) := by
  simp only [step]
  split
  · exact hinv
  · rename_i r hr
    obtain ⟨d1, d2, d3⟩ := deliverReq_ok H thr s r hinv.txc hinv.mc (hinv.reqs r (List.mem_of_getElem? hr))
    refine ⟨?_, hinv.pre, hinv.closed, hinv.quiet, d1, d2, ?_⟩
    · exact ⟨hinv.db.tc, hinv.db.len, hinv.db.vis, hinv.db.file, hinv.db.hdrs, hinv.db.busy, hinv.db.left⟩
    · intro r' hr'
      rcases List.mem_or_eq_of_mem_set hr' with h | h
      · exact hinv.reqs r' h
      · subst h
        exact d3

theorem inv_evictTx (thr : Nat) (s : St Node) (h : Nat) (hinv : Inv H s) :
    Inv H (step H (Cfg.fixed thr) s (.evictTx h)) :=
  ⟨dbInv_step H _ s (.evictTx h) hinv.db, hinv.pre, hinv.closed, hinv.quiet,
    hinv.txc.set _ _ (fun _ hL => by cases hL), hinv.mc, hinv.reqs⟩

theorem inv_evictMc (thr : Nat) (s : St Node) (h : Nat) (hinv : Inv H s) :
    Inv H (step H (Cfg.fixed thr) s (.evictMc h)) :=
  ⟨dbInv_step H _ s (.evictMc h) hinv.db, hinv.pre, hinv.closed, hinv.quiet, hinv.txc,
    hinv.mc.set H _ _ (fun _ he => by cases he), hinv.reqs⟩

theorem inv_advance (thr : Nat) (s : St Node) (b : Block Node) (hinv : Inv H s) :
    Inv H (step H (Cfg.fixed thr) s (.advance b)) := by
  have hdb := dbInv_step H (Cfg.fixed thr) s (.advance b) hinv.db
  simp only [step] at hdb ⊢
  split
  · rename_i hg
    rw [if_pos hg] at hdb
    exact ⟨hdb, hinv.pre, hinv.closed, fun _ => ⟨hg.1, hg.2.2 rfl⟩, hinv.txc, hinv.mc, hinv.reqs⟩
  · exact hinv

theorem inv_flushFs (thr : Nat) (s : St Node) (hinv : Inv H s) :
    Inv H (step H (Cfg.fixed thr) s .flushFs) := by
  have hdb := dbInv_step H (Cfg.fixed thr) s .flushFs hinv.db
  simp only [step] at hdb ⊢
  split
  · rename_i hg
    rw [if_pos hg] at hdb
    have hq := hinv.quiet (Or.inl hg.2.2)
    have hv : (s.disk ++ s.unfl).take s.vis = visible s := by
      rw [visible, List.take_append_of_le_length (by have := hinv.db.len; have := hinv.db.vis; omega)]
    refine ⟨hdb, ?_, ?_, fun _ => hq, hinv.txc, hinv.mc, ?_⟩
    · show (s.disk ++ s.unfl).take s.vis <+: s.ref
      rw [hv]; exact hinv.pre
    · intro h1 h2
      show s.ref = (s.disk ++ s.unfl).take s.vis
      rw [hv]; exact hinv.closed h1 h2
    · intro r hr
      show ReqOK H s.rc s.ref ((s.disk ++ s.unfl).take s.vis) r
      rw [hv]; exact hinv.reqs r hr
  · exact hinv

theorem inv_flushSt (thr : Nat) (s : St Node) (hinv : Inv H s) :
    Inv H (step H (Cfg.fixed thr) s .flushSt) := by
  have hdb := dbInv_step H (Cfg.fixed thr) s .flushSt hinv.db
  simp only [step] at hdb ⊢
  split
  · rename_i hg
    rw [if_pos hg] at hdb
    have hq := hinv.quiet (Or.inr hg)
    have href : s.ref = s.disk.take s.vis := hinv.closed hq.1 hq.2
    have hp : s.ref <+: s.disk.take s.fsN := by
      rw [href]; exact List.take_prefix_take_left (by omega)
    rw [if_pos hq] at hdb ⊢
    refine ⟨hdb, List.prefix_refl _, fun _ _ => rfl, fun _ => hq, hinv.txc.mono hp, hinv.mc.mono H hp, ?_⟩
    intro r hr
    obtain ⟨r0, hr0, rfl⟩ := List.mem_map.mp hr
    exact ((hinv.reqs r0 hr0).mono H hp).see H _
  · exact hinv

theorem inv_reorgStart (thr : Nat) (s : St Node) (n : Nat) (hinv : Inv H s) :
    Inv H (step H (Cfg.fixed thr) s (.reorgStart n)) := by
  have hdb := dbInv_step H (Cfg.fixed thr) s (.reorgStart n) hinv.db
  simp only [step] at hdb ⊢
  split
  · rename_i hg
    rw [if_pos hg] at hdb
    refine ⟨hdb, hinv.pre, fun h => (by cases h), ?_, hinv.txc, hinv.mc, hinv.reqs⟩
    rintro (h | h)
    · exact absurd hg.2.1 h
    · have : s.vis < s.fsN := h
      omega
  · exact hinv

theorem inv_boPop (thr : Nat) (s : St Node) (hinv : Inv H s) :
    Inv H (step H (Cfg.fixed thr) s .boPop) := by
  have hdb := dbInv_step H (Cfg.fixed thr) s .boPop hinv.db
  simp only [step] at hdb ⊢
  split
  · rename_i n hbp
    simp only [hbp] at hdb
    have hb := hinv.db.busy (by rw [hbp]; exact fun h => by cases h)
    refine ⟨hdb, hinv.pre, fun h => (by cases h), ?_, hinv.txc, hinv.mc, hinv.reqs⟩
    rintro (h | h)
    · exact absurd hb.1 h
    · have : s.vis < s.fsN := h
      omega
  · exact hinv

theorem inv_boLower (thr : Nat) (s : St Node) (hinv : Inv H s) :
    Inv H (step H (Cfg.fixed thr) s .boLower) := by
  have hdb := dbInv_step H (Cfg.fixed thr) s .boLower hinv.db
  simp only [step] at hdb ⊢
  split
  · rename_i n hbp
    simp only [hbp] at hdb
    have hb := hinv.db.busy (by rw [hbp]; exact fun h => by cases h)
    have hp : s.disk.dropLast.take (s.vis - 1) <+: visible s := by
      rw [List.dropLast_eq_take, List.take_take, visible]
      exact List.take_prefix_take_left (by omega)
    refine ⟨hdb, hp.trans hinv.pre, fun h => (by cases h), ?_, hinv.txc, hinv.mc, ?_⟩
    · rintro (h | h)
      · exact absurd hb.1 h
      · have : s.vis - 1 < s.fsN - 1 := h
        omega
    · intro r hr
      obtain ⟨r0, hr0, rfl⟩ := List.mem_map.mp hr
      exact (hinv.reqs r0 hr0).see H _
  · exact hinv

theorem inv_reorgEnd (thr : Nat) (s : St Node) (hinv : Inv H s) :
    Inv H (step H (Cfg.fixed thr) s .reorgEnd) := by
  have hdb := dbInv_step H (Cfg.fixed thr) s .reorgEnd hinv.db
  simp only [step] at hdb ⊢
  split
  · rename_i k hbp
    simp only [hbp] at hdb
    have hb := hinv.db.busy (by rw [hbp]; exact fun h => by cases h)
    refine ⟨hdb, hinv.pre, fun _ h => ?_, ?_, hinv.txc, hinv.mc, hinv.reqs⟩
    · simp at h
    · rintro (h | h)
      · exact absurd hb.1 h
      · have : s.vis < s.fsN := h
        omega
  · exact hinv

theorem inv_handler (thr : Nat) (s : St Node) (hinv : Inv H s) :
    Inv H (step H (Cfg.fixed thr) s .handler) := by
  have hdb := dbInv_step H (Cfg.fixed thr) s .handler hinv.db
  simp only [step] at hdb ⊢
  split
  · rename_i hw
    rw [if_pos hw] at hdb
    refine ⟨hdb, List.prefix_refl _, fun _ _ => rfl, fun h => ⟨(hinv.quiet h).1, rfl⟩,
      fun _ _ h => (by cases h), fun _ _ h => (by cases h), ?_⟩
    intro r hr
    exact (hinv.reqs r hr).handler H
  · exact hinv

/-- **the invariant is inductive** (fixed code, any threshold): every event preserves it -/
theorem inv_step (thr : Nat) (s : St Node) (ev : Ev Node) (hinv : Inv H s) :
    Inv H (step H (Cfg.fixed thr) s ev) := by
  cases ev with
  | start k h => exact inv_start H thr s k h hinv
  | perform i => exact inv_perform H thr s i hinv
  | deliver i => exact inv_deliver H thr s i hinv
  | evictTx h => exact inv_evictTx H thr s h hinv
  | evictMc h => exact inv_evictMc H thr s h hinv
  | advance b => exact inv_advance H thr s b hinv
  | flushFs => exact inv_flushFs H thr s hinv
  | flushSt => exact inv_flushSt H thr s hinv
  | reorgStart n => exact inv_reorgStart H thr s n hinv
  | boPop => exact inv_boPop H thr s hinv
  | boLower => exact inv_boLower H thr s hinv
  | reorgEnd => exact inv_reorgEnd H thr s hinv
  | handler => exact inv_handler H thr s hinv

theorem inv_run (thr : Nat) (s : St Node) (evs : List (Ev Node)) (hinv : Inv H s) :
    Inv H (run H (Cfg.fixed thr) s evs) := by
  induction evs generalizing s with
  | nil => exact hinv
  | cons ev evs ih => exact ih _ (inv_step H thr s ev hinv)

/-- an initial state: the DB consistent, the caches consistent with the visible chain, no
    reorganisation under way, nothing unflushed, no request -/
structure Init (s : St Node) : Prop where
  db : DBInv s
  ref : s.ref = visible s
  idle : s.bp = .idle
  woken : s.woken = false
  flushed : s.unfl = [] ∧ s.vis = s.fsN
  txc : TxcOK s.ref s.txc
  mc : McOK H s.ref s.mc
  reqs : s.reqs = []

theorem Init.inv {s : St Node} (h : Init H s) : Inv H s :=
  ⟨h.db, by rw [h.ref]; exact List.prefix_refl _, fun _ _ => h.ref,
    fun hq => by
      rcases hq with hq | hq
      · exact absurd h.flushed.1 hq
      · have := h.flushed.2; omega,
    h.txc, h.mc, fun r hr => by rw [h.reqs] at hr; cases hr⟩

omit [DecidableEq Node] in
/-- a caught-up server with empty caches over any chain is an initial state -/
theorem init_ofChain (ch : List (Block Node)) : Init H (St.ofChain ch) :=
  ⟨dbInv_ofChain ch, by simp [St.ofChain, visible], rfl, rfl, ⟨rfl, rfl⟩, fun _ _ h => (by cases h),
    fun _ _ h => (by cases h), rfl⟩

end EV.TxCache

import EV.Proofs.MerkleBits

/-!
C12, part 1: the loop of `branch_and_root` computes the levels of the tree (`pairs`, `lvl`) and
the siblings along the path (`sib`, `specBranch`), and never hits a list subscript out of range.
-/
namespace EV.Merkle

variable {Node : Type} (H : Node → Node → Node)

/-! ### padding and pairing -/

/-- `if len(hashes) & 1: hashes.append(hashes[-1])` -/
def pad : List Node → List Node
  | [] => []
  | [a] => [a, a]
  | a :: b :: rest => a :: b :: pad rest

theorem pairUp_pad (hs : List Node) : pairUp H (pad hs) = .ok (pairs H hs) := by
  fun_induction pairs H hs with
  | case1 => rfl
  | case2 a => rfl
  | case3 a b rest ih => simp only [pad, pairUp, ih]

theorem pad_even : ∀ (hs : List Node), hs.length % 2 = 0 → pad hs = hs
  | [], _ => rfl
  | [_], h => by simp at h
  | a :: b :: rest, h => by
    simp only [pad]
    rw [pad_even rest (by simp only [List.length_cons] at h; omega)]

theorem pad_odd' : ∀ (hs : List Node), hs.length % 2 = 1 →
    ∃ l, pad hs = hs ++ [l] ∧ hs[hs.length - 1]? = some l
  | [], h => by simp at h
  | [a], _ => ⟨a, by simp [pad]⟩
  | a :: b :: rest, h => by
    obtain ⟨l, h2, h3⟩ := pad_odd' rest (by simp only [List.length_cons] at h; omega)
    have hpos : 0 < rest.length := by
      cases rest with
      | nil => simp at h3
      | cons => simp
    refine ⟨l, ?_, ?_⟩
    · simp [pad, h2]
    · have : (a :: b :: rest).length - 1 = (rest.length - 1) + 2 := by simp only [List.length_cons]; omega
      rw [this]; simpa using h3

theorem pad_odd (hs : List Node) (h : hs.length % 2 = 1) :
    ∃ l, hs.getLast? = some l ∧ pad hs = hs ++ [l] ∧ hs[hs.length - 1]? = some l := by
  obtain ⟨l, h2, h3⟩ := pad_odd' hs h
  exact ⟨l, by rw [List.getLast?_eq_getElem?, h3], h2, h3⟩

/-! ### the sibling at one level -/

/-- element appended to the branch for position `idx` of the level `hs` (junk `star` outside the
    range): the neighbour in the pair; for the last node of an odd level its own duplicate,
    written `*` in TSC format -/
def sib (tsc : Bool) : List Node → Nat → Elt Node
  | [], _ => .star
  | [a], 0 => if tsc then .star else .node a
  | [_], _ + 1 => .star
  | _ :: b :: _, 0 => .node b
  | a :: _ :: _, 1 => .node a
  | _ :: _ :: rest, j + 2 => sib tsc rest j

def eltOf : Option Node → Elt Node
  | some x => .node x
  | none => .star

theorem sib_eq (tsc : Bool) : ∀ (hs : List Node) (idx : Nat), idx < hs.length →
    sib tsc hs idx =
      if idx % 2 = 1 then eltOf hs[idx - 1]?
      else if idx + 1 < hs.length then eltOf hs[idx + 1]?
      else if tsc then .star else eltOf hs[idx]?
  | [], _, h => by simp at h
  | [a], 0, _ => by simp [sib, eltOf]
  | [a], j + 1, h => by simp at h
  | a :: b :: rest, 0, _ => by simp [sib, eltOf]
  | a :: b :: rest, 1, _ => by simp [sib, eltOf]
  | a :: b :: rest, j + 2, h => by
    have ih := sib_eq tsc rest j (by simpa using h)
    simp only [sib, ih, List.length_cons]
    have e1 : (j + 2) % 2 = j % 2 := by omega
    rw [e1]
    by_cases hj : j % 2 = 1
    · have : j + 2 - 1 = (j - 1) + 2 := by omega
      simp only [hj, if_true, this, List.getElem?_cons_succ]
    · simp only [hj, if_false, List.getElem?_cons_succ]
      have : (j + 1 < rest.length) ↔ (j + 2 + 1 < rest.length + 1 + 1) := by omega
      simp only [this]

theorem barStep_eq (tsc : Bool) (hs : List Node) (idx : Nat) (h : idx < hs.length) :
    barStep tsc hs idx = .ok (pad hs, sib tsc hs idx) := by
  rw [sib_eq tsc hs idx h]
  unfold barStep
  by_cases hp : hs.length % 2 = 1
  · obtain ⟨l, h1, h2, h3⟩ := pad_odd hs hp
    simp only [hp, if_true, h1, h2]
    have hlen : (hs ++ [l]).length - 1 = hs.length := by simp
    rw [hlen]
    by_cases hi : idx % 2 = 1
    · rw [xor_one_odd hi]
      have hc : (idx - 1 == hs.length) = false := by rw [beq_eq_false_iff_ne]; omega
      have hlt : idx - 1 < hs.length := by omega
      rw [hc, Bool.and_false]
      simp only [Bool.false_eq_true, if_false, hi, if_true]
      rw [List.getElem?_append_left hlt, List.getElem?_eq_getElem hlt]
      simp [eltOf]
    · have hi0 : idx % 2 = 0 := by omega
      rw [xor_one_even hi0]
      simp only [hi, if_false]
      by_cases hl : idx + 1 < hs.length
      · have hc : (idx + 1 == hs.length) = false := by rw [beq_eq_false_iff_ne]; omega
        rw [hc, Bool.and_false]
        simp only [Bool.false_eq_true, if_false, hl, if_true]
        rw [List.getElem?_append_left hl, List.getElem?_eq_getElem hl]
        simp [eltOf]
      · have heq : idx + 1 = hs.length := by omega
        have hc : (idx + 1 == hs.length) = true := by rw [beq_iff_eq]; exact heq
        rw [hc, Bool.and_true]
        simp only [hl, if_false]
        cases tsc with
        | true => simp
        | false =>
          simp only [Bool.false_eq_true, if_false]
          rw [← heq] at h3
          simp only [Nat.add_sub_cancel] at h3
          rw [heq, List.getElem?_append_right (Nat.le_refl _)]
          simp [h3, eltOf]
  · have hp0 : hs.length % 2 = 0 := by omega
    simp only [hp, if_false, pad_even hs hp0]
    by_cases hi : idx % 2 = 1
    · rw [xor_one_odd hi]
      have hlt : idx - 1 < hs.length := by omega
      simp [hi, List.getElem?_eq_getElem hlt, eltOf]
    · have hi0 : idx % 2 = 0 := by omega
      rw [xor_one_even hi0]
      have hl : idx + 1 < hs.length := by omega
      simp [hi, hl, List.getElem?_eq_getElem hl, eltOf]

/-! ### the loop -/

/-- the branch: siblings along the path, `n` levels up -/
def specBranch (tsc : Bool) : Nat → List Node → Nat → List (Elt Node)
  | 0, _, _ => []
  | n + 1, hs, idx => sib tsc hs idx :: specBranch tsc n (pairs H hs) (idx / 2)

theorem specBranch_length (tsc : Bool) : ∀ (n : Nat) (hs : List Node) (idx : Nat),
    (specBranch H tsc n hs idx).length = n
  | 0, _, _ => rfl
  | n + 1, hs, idx => by simp [specBranch, specBranch_length tsc n]

theorem half_lt_pairs {hs : List Node} {idx : Nat} (h : idx < hs.length) :
    idx / 2 < (pairs H hs).length := by
  rw [pairs_length]; omega

/-- **the loop is total on valid input** (no `IndexError`) and computes `specBranch` and the head
    of the `n`-th level -/
theorem barLoop_eq (tsc : Bool) : ∀ (n : Nat) (hs : List Node) (idx : Nat) (br : List (Elt Node)),
    idx < hs.length →
    ∃ r, (lvl H n hs).head? = some r ∧
      barLoop H tsc n hs idx br = .ok (br ++ specBranch H tsc n hs idx, r)
  | 0, hs, idx, br, h => by
    cases hs with
    | nil => simp at h
    | cons a rest => exact ⟨a, by simp [lvl], by simp [barLoop, specBranch]⟩
  | n + 1, hs, idx, br, h => by
    obtain ⟨r, h1, h2⟩ := barLoop_eq tsc n (pairs H hs) (idx / 2) (br ++ [sib tsc hs idx])
      (half_lt_pairs H h)
    refine ⟨r, by simpa [lvl] using h1, ?_⟩
    simp only [barLoop, barStep_eq tsc hs idx h, pairUp_pad, shiftRight_one', h2, specBranch,
      List.append_assoc, List.singleton_append]

/-! ### the root -/

theorem lvl_singleton : ∀ (n : Nat) (a : Node), lvl H n [a] = [dupN H n a]
  | 0, _ => rfl
  | n + 1, a => by simp only [lvl, pairs, dupN, lvl_singleton n]

theorem lvl_add : ∀ (m n : Nat) (hs : List Node), lvl H (m + n) hs = lvl H n (lvl H m hs)
  | 0, n, hs => by simp [lvl]
  | m + 1, n, hs => by
    have : m + 1 + n = (m + n) + 1 := by omega
    rw [this]; simp only [lvl]; exact lvl_add m n _

theorem ceil_half (L p : Nat) : ((L + 1) / 2 + p - 1) / p = (L + 2 * p - 1) / (2 * p) := by
  rw [← Nat.div_div_eq_div_mul]
  congr 1
  omega

theorem lvl_length : ∀ (n : Nat) (hs : List Node), (lvl H n hs).length = (hs.length + 2 ^ n - 1) / 2 ^ n
  | 0, hs => by simp [lvl]
  | n + 1, hs => by
    rw [lvl, lvl_length n, pairs_length, Nat.pow_succ, Nat.mul_comm (2 ^ n) 2, ceil_half]

/-- the head of level `n ≥ ⌈log₂ len⌉` is the merkle root, hashed with itself once per extra level -/
theorem lvl_head (hs : List Node) (hne : hs ≠ []) : ∀ (n : Nat), Nat.clog 2 hs.length ≤ n →
    (lvl H n hs).head? = some (dupN H (n - Nat.clog 2 hs.length) (merkleRoot H hs hne)) := by
  fun_induction merkleRoot H hs hne with
  | case1 a _ _ =>
    intro n _
    simp [lvl_singleton]
  | case2 a b rest _ _ ih =>
    intro n hn
    have hlen : 2 ≤ (a :: b :: rest).length := by simp
    rw [clog_step hlen] at hn ⊢
    obtain ⟨m, rfl⟩ : ∃ m, n = m + 1 := ⟨n - 1, by omega⟩
    have hm : Nat.clog 2 (pairs H (a :: b :: rest)).length ≤ m := by rw [pairs_length]; omega
    have := ih m hm
    rw [pairs_length] at this
    rw [lvl, this]
    congr 2
    omega

/-! ### folding a branch -/

/-- one step of (TSC-aware) proof verification -/
def stepElt (h : Node) (e : Elt Node) (i : Nat) : Node :=
  match e with
  | .star => H h h
  | .node x => if i % 2 = 1 then H x h else H h x

/-- hashing a node with its sibling gives its parent -/
theorem pairs_getElem (tsc : Bool) : ∀ (hs : List Node) (idx : Nat) (h : Node), hs[idx]? = some h →
    (pairs H hs)[idx / 2]? = some (stepElt H h (sib tsc hs idx) idx)
  | [], _, _, hh => by simp at hh
  | [a], 0, h, hh => by
    simp at hh; subst hh
    cases tsc <;> simp [pairs, sib, stepElt]
  | [a], j + 1, h, hh => by simp at hh
  | a :: b :: rest, 0, h, hh => by simp at hh; subst hh; simp [pairs, sib, stepElt]
  | a :: b :: rest, 1, h, hh => by simp at hh; subst hh; simp [pairs, sib, stepElt]
  | a :: b :: rest, j + 2, h, hh => by
    have ih := pairs_getElem tsc rest j h (by simpa using hh)
    have e1 : (j + 2) / 2 = j / 2 + 1 := by omega
    have e2 : (j + 2) % 2 = j % 2 := by omega
    simp only [pairs, sib, e1, List.getElem?_cons_succ, ih]
    simp only [stepElt, e2]

theorem rfpTscLoop_step (h : Node) (e : Elt Node) (rest : List (Elt Node)) (i : Nat) :
    rfpTscLoop H h (e :: rest) (i : Int) = rfpTscLoop H (stepElt H h e i) rest ((i / 2 : Nat) : Int) := by
  have e1 : ((i : Int) % 2 = 1) ↔ (i % 2 = 1) := by omega
  have e2 : (i : Int) / 2 = ((i / 2 : Nat) : Int) := by omega
  cases e with
  | star => simp only [rfpTscLoop, stepElt, e2]
  | node x => simp only [rfpTscLoop, stepElt, e1, e2]

/-- folding `specBranch` from a leaf reaches the node above it at level `n` -/
theorem fold_specBranch (tsc : Bool) : ∀ (n : Nat) (hs : List Node) (idx : Nat) (h : Node),
    hs[idx]? = some h →
    ∃ r, (lvl H n hs)[idx / 2 ^ n]? = some r ∧
      rfpTscLoop H h (specBranch H tsc n hs idx) (idx : Int) = (r, ((idx / 2 ^ n : Nat) : Int))
  | 0, hs, idx, h, hh => ⟨h, by simpa [lvl] using hh, by simp [specBranch, rfpTscLoop]⟩
  | n + 1, hs, idx, h, hh => by
    obtain ⟨r, h1, h2⟩ := fold_specBranch tsc n (pairs H hs) (idx / 2) _ (pairs_getElem H tsc hs idx h hh)
    have e : idx / 2 / 2 ^ n = idx / 2 ^ (n + 1) := by
      rw [Nat.div_div_eq_div_mul, Nat.pow_succ, Nat.mul_comm]
    rw [e] at h1 h2
    exact ⟨r, by simpa [lvl] using h1, by rw [specBranch, rfpTscLoop_step, h2]⟩

/-- a classic branch contains no marker -/
def nodesOf : List (Elt Node) → List Node
  | [] => []
  | .node x :: rest => x :: nodesOf rest
  | .star :: rest => nodesOf rest

theorem sib_false_node : ∀ (hs : List Node) (idx : Nat), idx < hs.length →
    ∃ x, sib false hs idx = .node x
  | [], _, h => by simp at h
  | [a], 0, _ => ⟨a, by simp [sib]⟩
  | [a], j + 1, h => by simp at h
  | a :: b :: rest, 0, _ => ⟨b, rfl⟩
  | a :: b :: rest, 1, _ => ⟨a, rfl⟩
  | a :: b :: rest, j + 2, h => by
    obtain ⟨x, hx⟩ := sib_false_node rest j (by simpa using h)
    exact ⟨x, by simp [sib, hx]⟩

theorem specBranch_false : ∀ (n : Nat) (hs : List Node) (idx : Nat), idx < hs.length →
    specBranch H false n hs idx = (nodesOf (specBranch H false n hs idx)).map .node
  | 0, _, _, _ => rfl
  | n + 1, hs, idx, h => by
    obtain ⟨x, hx⟩ := sib_false_node hs idx h
    have ih := specBranch_false n (pairs H hs) (idx / 2) (half_lt_pairs H h)
    simp only [specBranch, hx, nodesOf, List.map_cons]
    rw [← ih]

theorem rfpTscLoop_nodes : ∀ (br : List Node) (h : Node) (i : Int),
    rfpTscLoop H h (br.map .node) i = rfpLoop H h br i
  | [], _, _ => rfl
  | e :: rest, h, i => by simp only [List.map_cons, rfpTscLoop, rfpLoop, rfpTscLoop_nodes rest]

/-! ### TSC format -/

theorem sib_tsc : ∀ (hs : List Node) (idx : Nat), idx < hs.length →
    sib true hs idx = if hs.length % 2 = 1 ∧ idx = hs.length - 1 then .star else sib false hs idx
  | [], _, h => by simp at h
  | [a], 0, _ => by simp [sib]
  | [a], j + 1, h => by simp at h
  | a :: b :: rest, 0, _ => by simp [sib]
  | a :: b :: rest, 1, _ => by
    have : ¬ ((a :: b :: rest).length % 2 = 1 ∧ 1 = (a :: b :: rest).length - 1) := by
      simp only [List.length_cons]; omega
    simp only [this, if_false]; rfl
  | a :: b :: rest, j + 2, h => by
    have hj : j < rest.length := by simpa using h
    rw [sib, sib, sib_tsc rest j hj]
    have : (rest.length % 2 = 1 ∧ j = rest.length - 1) ↔
        ((a :: b :: rest).length % 2 = 1 ∧ j + 2 = (a :: b :: rest).length - 1) := by
      simp only [List.length_cons]; omega
    simp only [this]

theorem isDup_succ (hs : List Node) (idx k : Nat) :
    isDup H hs idx (k + 1) ↔ isDup H (pairs H hs) (idx / 2) k := by
  unfold isDup
  rw [lvl, Nat.div_div_eq_div_mul, Nat.pow_succ, Nat.mul_comm]

/-- the TSC branch is the classic branch with `*` exactly at the duplicate positions -/
theorem specBranch_tsc : ∀ (n : Nat) (hs : List Node) (idx : Nat), idx < hs.length → ∀ k, k < n →
    (specBranch H true n hs idx)[k]? =
      if isDup H hs idx k then some .star else (specBranch H false n hs idx)[k]?
  | 0, _, _, _, k, hk => by omega
  | n + 1, hs, idx, h, 0, _ => by
    simp only [specBranch, List.getElem?_cons_zero, sib_tsc hs idx h, isDup, lvl, Nat.pow_zero, Nat.div_one]
    split <;> rfl
  | n + 1, hs, idx, h, k + 1, hk => by
    simp only [specBranch, List.getElem?_cons_succ, isDup_succ]
    exact specBranch_tsc n (pairs H hs) (idx / 2) (half_lt_pairs H h) k (by omega)

/-! ### `branch_and_root` as a whole -/

theorem lvl_ne_nil : ∀ (n : Nat) (hs : List Node), hs ≠ [] → lvl H n hs ≠ []
  | 0, _, h => h
  | n + 1, hs, h => by
    rw [lvl]; apply lvl_ne_nil n
    intro h'
    have := congrArg List.length h'
    rw [pairs_length] at this
    have : 0 < hs.length := List.length_pos_iff.mpr h
    simp at *; omega

theorem branchAndRoot_none (tsc : Bool) (hs : List Node) (idx : Nat) (h : idx < hs.length) :
    branchAndRoot H hs (.int idx) none tsc =
      .ok (specBranch H tsc (Nat.clog 2 hs.length) hs idx,
           merkleRoot H hs (List.ne_nil_of_length_pos (by omega))) := by
  have hne : hs ≠ [] := List.ne_nil_of_length_pos (by omega)
  obtain ⟨r, h1, h2⟩ := barLoop_eq H tsc (Nat.clog 2 hs.length) hs idx [] h
  rw [lvl_head H hs hne _ (Nat.le_refl _)] at h1
  simp only [Nat.sub_self, dupN, Option.some.injEq] at h1
  have hc : ¬ ¬ (0 ≤ (idx : Int) ∧ (idx : Int) < hs.length) := by omega
  simp only [branchAndRoot, hc, if_false, Int.toNat_natCast,
    branchLengthNat_eq_clog (by omega : 1 ≤ hs.length), h2, List.nil_append, h1]

theorem branchAndRoot_some (tsc : Bool) (hs : List Node) (idx l : Nat) (h : idx < hs.length)
    (hl : Nat.clog 2 hs.length ≤ l) :
    branchAndRoot H hs (.int idx) (some (.int l)) tsc =
      .ok (specBranch H tsc l hs idx,
           dupN H (l - Nat.clog 2 hs.length) (merkleRoot H hs (List.ne_nil_of_length_pos (by omega)))) := by
  have hne : hs ≠ [] := List.ne_nil_of_length_pos (by omega)
  obtain ⟨r, h1, h2⟩ := barLoop_eq H tsc l hs idx [] h
  rw [lvl_head H hs hne _ hl] at h1
  simp only [Option.some.injEq] at h1
  have hc : ¬ ¬ (0 ≤ (idx : Int) ∧ (idx : Int) < hs.length) := by omega
  have hc2 : ¬ ((l : Int) < (Nat.clog 2 hs.length : Nat)) := by omega
  simp only [branchAndRoot, hc, if_false, Int.toNat_natCast,
    branchLengthNat_eq_clog (by omega : 1 ≤ hs.length), hc2, h2, List.nil_append, h1]

/-! ### the returned branch verifies -/

theorem div_pow_eq_zero {idx n l : Nat} (h : idx < n) (hl : n ≤ 2 ^ l) : idx / 2 ^ l = 0 :=
  Nat.div_eq_of_lt (by omega)

/-- folding the branch (either format; `*` stands for the running hash) from the leaf gives the
    head of level `l`, and the index is used up -/
theorem fold_root_tsc (tsc : Bool) (hs : List Node) (idx l : Nat) (h : idx < hs.length)
    (hl : hs.length ≤ 2 ^ l) :
    rootFromProofTsc H hs[idx] (specBranch H tsc l hs idx) idx =
      .ok (dupN H (l - Nat.clog 2 hs.length) (merkleRoot H hs (List.ne_nil_of_length_pos (by omega)))) := by
  have hne : hs ≠ [] := List.ne_nil_of_length_pos (by omega)
  have hcl : Nat.clog 2 hs.length ≤ l := (Nat.clog_le_iff_le_pow (by omega)).mpr hl
  obtain ⟨r, h1, h2⟩ := fold_specBranch H tsc l hs idx hs[idx] (List.getElem?_eq_getElem h)
  rw [div_pow_eq_zero h hl] at h1 h2
  rw [← List.head?_eq_getElem?, lvl_head H hs hne l hcl] at h1
  simp only [Option.some.injEq] at h1
  simp only [rootFromProofTsc, h2, h1]
  simp

theorem fold_root (hs : List Node) (idx l : Nat) (h : idx < hs.length) (hl : hs.length ≤ 2 ^ l) :
    rootFromProof H hs[idx] (nodesOf (specBranch H false l hs idx)) idx =
      .ok (dupN H (l - Nat.clog 2 hs.length) (merkleRoot H hs (List.ne_nil_of_length_pos (by omega)))) := by
  have := fold_root_tsc H false hs idx l h hl
  rw [specBranch_false H l hs idx h] at this
  simp only [rootFromProofTsc, rfpTscLoop_nodes] at this
  exact this

end EV.Merkle

import EV.Proofs.IndexLogic

/-!
`backup_block`'s loop over a plain map inverts `advance_block`'s loop: run on a map representing
the UTXO set *after* a valid block, with that block's undo list, it yields a map representing the
UTXO set *before* the block and consumes exactly the undo list.
-/
namespace EV.Index
open EV.Spec

/-! ### spendAll partitions the UTXO list -/

theorem spendAll_perm (U : List Utxo) (ins : List TxIn) :
    U.Perm ((spendAll U ins).1 ++ (spendAll U ins).2) := by
  induction ins generalizing U with
  | nil => simp [spendAll]
  | cons i r ih =>
    simp only [spendAll]
    by_cases hg : i.isGen
    · simp only [hg, if_true]; exact ih U
    · simp only [hg]
      have h1 : U.Perm (U.filter (fun u => !names i u) ++ U.filter (names i)) := by
        have := List.filter_append_perm (fun u => names i u) U
        exact (this.symm.trans List.perm_append_comm)
      have h2 := ih (U.filter (fun u => !names i u))
      refine h1.trans ?_
      refine (List.Perm.append_right _ h2).trans ?_
      simp only [List.append_assoc, Bool.false_eq_true, if_false]
      exact List.Perm.append_left _ List.perm_append_comm

/-! ### spending the outputs again -/

theorem filter_ne_append_cons {U R : List Utxo} {u : Utxo}
    (hn : ((U ++ u :: R).map opOf).Nodup) :
    (U ++ u :: R).filter (fun x => !decide (opOf x = opOf u)) = U ++ R := by
  have hn' := hn
  rw [List.map_append, List.map_cons, List.nodup_append] at hn'
  obtain ⟨_, hR, hdis⟩ := hn'
  rw [List.nodup_cons] at hR
  rw [List.filter_append, List.filter_cons]
  simp only [decide_true, Bool.not_true, Bool.false_eq_true, if_false]
  congr 1
  · apply List.filter_eq_self.mpr
    intro x hx
    simp only [Bool.not_eq_true', decide_eq_false_iff_not]
    intro heq
    exact hdis (opOf x) (List.mem_map.mpr ⟨x, hx, rfl⟩) (opOf u) (by simp) heq
  · apply List.filter_eq_self.mpr
    intro x hx
    simp only [Bool.not_eq_true', decide_eq_false_iff_not]
    intro heq
    exact hR.1 (heq ▸ List.mem_map.mpr ⟨x, hx, rfl⟩)

theorem spendOutputs_rep {σ : Type} {ops : UOps σ} {RepS : σ → List Utxo → Prop}
    (I : RepIface ops RepS) (cfg : Cfg) (height : Nat) (txid : Hash) (n : Nat) (outs : List TxOut)
    (idx : Nat) (U : List Utxo) (a : Acc σ)
    (hrep : RepS a.s (U ++ newUtxos cfg.act height n txid outs idx)) :
    ∃ s', RepS s' U ∧
      spendOutputs ops cfg height txid outs idx a =
        .ok { a with s := s',
                     touched := a.touched ++ (newUtxos cfg.act height n txid outs idx).map (·.hx),
                     delta := a.delta - ((newUtxos cfg.act height n txid outs idx).length : Int) } := by
  induction outs generalizing idx a with
  | nil =>
    refine ⟨a.s, by simpa [newUtxos] using hrep, by simp [spendOutputs, newUtxos]⟩
  | cons o r ih =>
    by_cases hun : unspendable cfg.act height o.kind
    · simp only [newUtxos, hun, if_true] at hrep
      obtain ⟨s', h1, h2⟩ := ih (idx + 1) a hrep
      exact ⟨s', h1, by simp only [spendOutputs, hun, if_true, newUtxos]; exact h2⟩
    · simp only [newUtxos, hun, Bool.false_eq_true, if_false] at hrep
      have hmem : (⟨txid, idx, n, height, o.value, o.hx⟩ : Utxo) ∈
          U ++ ⟨txid, idx, n, height, o.value, o.hx⟩ :: newUtxos cfg.act height n txid r (idx + 1) := by
        simp
      obtain ⟨s1, hsp, hrep1⟩ := I.spend hrep hmem
      have hsp' : ops.spend a.s txid idx = .ok (⟨o.hx, n, o.value⟩, s1) := hsp
      have hrep' : RepS s1 (U ++ newUtxos cfg.act height n txid r (idx + 1)) := by
        rw [filter_ne_append_cons (I.nodup hrep)] at hrep1
        exact hrep1
      obtain ⟨s', h1, h2⟩ := ih (idx + 1)
        { a with s := s1, touched := a.touched ++ [o.hx], delta := a.delta - 1 } hrep'
      refine ⟨s', h1, ?_⟩
      simp only [spendOutputs, hun, hsp', newUtxos, Bool.false_eq_true, if_false]
      rw [h2]
      simp only [List.map_cons, List.length_cons, List.append_assoc, List.singleton_append]
      have harith : a.delta - 1 - ((newUtxos cfg.act height n txid r (idx + 1)).length : Int)
          = a.delta - (((newUtxos cfg.act height n txid r (idx + 1)).length + 1 : Nat) : Int) := by omega
      rw [harith]

/-! ### restoring the inputs -/

theorem restoreInputs_append {σ : Type} (ops : UOps σ) (A B : List TxIn) (undo : List CacheVal)
    (a : Acc σ) :
    restoreInputs ops (A ++ B) undo a =
      match restoreInputs ops A undo a with
      | none => none
      | some (a1, u1) => restoreInputs ops B u1 a1 := by
  induction A generalizing undo a with
  | nil => simp [restoreInputs]
  | cons i r ih =>
    simp only [List.cons_append, restoreInputs]
    by_cases hg : i.isGen
    · simp only [hg, if_true]; exact ih undo a
    · simp only [hg]
      cases hl : undo.getLast? with
      | none => simp
      | some cv => simp only [Bool.false_eq_true, if_false]; exact ih _ _

theorem restoreInputs_rep {σ : Type} {ops : UOps σ} {RepS : σ → List Utxo → Prop}
    (I : RepIface ops RepS) (ins : List TxIn) (U : List Utxo) (hU : (U.map opOf).Nodup)
    (hok : InputsOK U ins)
    (undo0 : List CacheVal) (a : Acc σ) (W : List Utxo)
    (hrep : RepS a.s W)
    (hn : ((W ++ (spendAll U ins).2).map opOf).Nodup) :
    ∃ M', RepS M' (W ++ (spendAll U ins).2.reverse) ∧
      restoreInputs ops ins.reverse (undo0 ++ (spendAll U ins).2.map cvOf) a =
        some ({ a with s := M',
                       touched := a.touched ++ ((spendAll U ins).2.reverse).map (·.hx),
                       delta := a.delta + ((spendAll U ins).2.length : Int) }, undo0) := by
  induction ins generalizing U undo0 a with
  | nil => exact ⟨a.s, by simpa [spendAll] using hrep, by simp [restoreInputs, spendAll]⟩
  | cons i r ih =>
    simp only [InputsOK] at hok
    by_cases hg : i.isGen
    · simp only [hg, if_true] at hok
      simp only [spendAll, hg, if_true] at hn ⊢
      obtain ⟨M', h1, h2⟩ := ih U hU hok undo0 a hrep hn
      refine ⟨M', h1, ?_⟩
      rw [List.reverse_cons, restoreInputs_append, h2]
      simp [restoreInputs, hg]
    · simp only [hg] at hok
      obtain ⟨⟨u, hu, hop⟩, hrest⟩ := hok
      have hnames : (fun x => names i x) = (fun x => decide (opOf x = opOf u)) := by
        funext x; rw [names_eq, hop]
      have hfilt : U.filter (names i) = [u] := by
        show U.filter (fun x => names i x) = [u]
        rw [hnames]; exact filter_eq_singleton hU hu
      have hU' : ((U.filter (fun x => !names i x)).map opOf).Nodup :=
        List.Nodup.sublist (List.Sublist.map _ List.filter_sublist) hU
      simp only [spendAll, hg, Bool.false_eq_true, if_false, hfilt, List.singleton_append] at hn ⊢
      -- nodup facts
      have hn1 : ((W ++ (spendAll (U.filter (fun x => !names i x)) r).2).map opOf).Nodup := by
        refine List.Nodup.sublist (List.Sublist.map _ ?_) hn
        exact List.Sublist.append_left (List.sublist_cons_self _ _) _
      obtain ⟨M1, h1, h2⟩ := ih (U.filter (fun x => !names i x)) hU' hrest (undo0 ++ [cvOf u]) a hrep hn1
      have hfresh : ∀ x ∈ W ++ (spendAll (U.filter (fun x => !names i x)) r).2.reverse,
          opOf x ≠ opOf u := by
        intro x hx heq
        rw [List.map_append, List.map_cons, List.nodup_append] at hn
        obtain ⟨_, hR, hdis⟩ := hn
        rw [List.nodup_cons] at hR
        rcases List.mem_append.mp hx with hx | hx
        · exact hdis (opOf x) (List.mem_map.mpr ⟨x, hx, rfl⟩) (opOf u) (by simp) heq
        · exact hR.1 (heq ▸ List.mem_map.mpr ⟨x, List.mem_reverse.mp hx, rfl⟩)
      have h3 := I.add u h1 hfresh
      refine ⟨ops.add M1 u.txid u.idx (cvOf u), by
        simpa [List.reverse_cons, List.append_assoc] using h3, ?_⟩
      rw [List.reverse_cons, restoreInputs_append]
      have hundo : undo0 ++ cvOf u :: (spendAll (U.filter (fun x => !names i x)) r).2.map cvOf
          = (undo0 ++ [cvOf u]) ++ (spendAll (U.filter (fun x => !names i x)) r).2.map cvOf := by simp
      rw [List.map_cons, hundo, h2]
      simp only [restoreInputs, hg, Bool.false_eq_true, if_false, List.getLast?_append, List.getLast?_singleton,
        Option.some_or, List.dropLast_concat]
      have hp1 : i.prev = u.txid := (congrArg Prod.fst hop).symm
      have hp2 : i.idx = u.idx := (congrArg Prod.snd hop).symm
      rw [hp1, hp2]
      have harith : a.delta + ((spendAll (U.filter (fun x => !names i x)) r).2.length : Int) + 1
          = a.delta + (((u :: (spendAll (U.filter (fun x => !names i x)) r).2).length : Nat) : Int) := by
        simp only [List.length_cons]; omega
      rw [harith]
      simp [cvOf, List.reverse_cons, List.append_assoc]

/-! ### nodup is preserved by a valid tx -/

theorem spendAll_sublist (U : List Utxo) (ins : List TxIn) : (spendAll U ins).1.Sublist U := by
  induction ins generalizing U with
  | nil => simp [spendAll]
  | cons i r ih =>
    simp only [spendAll]
    by_cases hg : i.isGen
    · simp only [hg, if_true]; exact ih U
    · simp only [hg, Bool.false_eq_true, if_false]
      exact (ih _).trans List.filter_sublist

theorem newUtxos_mem {act height n : Nat} {txid : Hash} {outs : List TxOut} {idx : Nat} {x : Utxo}
    (hx : x ∈ newUtxos act height n txid outs idx) : x.txid = txid ∧ idx ≤ x.idx := by
  induction outs generalizing idx with
  | nil => simp [newUtxos] at hx
  | cons o r ih =>
    simp only [newUtxos] at hx
    by_cases hun : unspendable act height o.kind
    · simp only [hun, if_true] at hx
      have := ih hx; exact ⟨this.1, by omega⟩
    · simp only [hun, Bool.false_eq_true, if_false, List.mem_cons] at hx
      rcases hx with rfl | hx
      · exact ⟨rfl, Nat.le_refl _⟩
      · have := ih hx; exact ⟨this.1, by omega⟩

theorem newUtxos_nodup (act height n : Nat) (txid : Hash) (outs : List TxOut) (idx : Nat) :
    ((newUtxos act height n txid outs idx).map opOf).Nodup := by
  induction outs generalizing idx with
  | nil => simp [newUtxos]
  | cons o r ih =>
    simp only [newUtxos]
    by_cases hun : unspendable act height o.kind
    · simp only [hun, if_true]; exact ih (idx + 1)
    · simp only [hun, Bool.false_eq_true, if_false, List.map_cons, List.nodup_cons]
      refine ⟨?_, ih (idx + 1)⟩
      intro hmem
      obtain ⟨x, hx, heq⟩ := List.mem_map.mp hmem
      have := newUtxos_mem hx
      simp only [opOf, Prod.mk.injEq] at heq
      omega

theorem applyTx_nodup {act height : Nat} {S : St} {tx : Tx} (hS : (S.utxos.map opOf).Nodup)
    (hfresh : ∀ u ∈ S.utxos, u.txid ≠ tx.id) :
    ((applyTx act height S tx).utxos.map opOf).Nodup := by
  rw [applyTx_eq]
  simp only [List.map_append, List.nodup_append]
  refine ⟨List.Nodup.sublist (List.Sublist.map _ (spendAll_sublist _ _)) hS, newUtxos_nodup _ _ _ _ _ _, ?_⟩
  intro a ha b hb heq
  obtain ⟨x, hx, rfl⟩ := List.mem_map.mp ha
  obtain ⟨y, hy, rfl⟩ := List.mem_map.mp hb
  have h1 := hfresh x ((spendAll_sublist _ _).subset hx)
  have h2 := (newUtxos_mem hy).1
  simp only [opOf, Prod.mk.injEq] at heq
  exact h1 (heq.1.trans h2)

theorem foldl_applyTx_nodup {act height : Nat} (txs : List Tx) {S : St}
    (hS : (S.utxos.map opOf).Nodup) (hv : ValidTxs act height S txs) :
    ((txs.foldl (applyTx act height) S).utxos.map opOf).Nodup := by
  induction txs generalizing S with
  | nil => simpa using hS
  | cons tx r ih =>
    obtain ⟨_, hfresh, hrest⟩ := hv
    exact ih (applyTx_nodup hS hfresh) hrest

/-! ### the whole block -/

theorem backupTxs_append {σ : Type} (ops : UOps σ) (cfg : Cfg) (height : Nat) (A B : List Tx)
    (undo : List CacheVal) (a : Acc σ) :
    backupTxs ops cfg height (A ++ B) undo a =
      match backupTxs ops cfg height A undo a with
      | .error e => .error e
      | .ok (a1, u1) => backupTxs ops cfg height B u1 a1 := by
  induction A generalizing undo a with
  | nil => simp [backupTxs]
  | cons tx r ih =>
    simp only [List.cons_append, backupTxs]
    cases h1 : spendOutputs ops cfg height tx.id tx.outs 0 a with
    | error e => simp
    | ok a1 =>
      simp only
      cases h2 : restoreInputs ops tx.ins.reverse undo a1 with
      | none => simp
      | some p => obtain ⟨a2, u2⟩ := p; simp only; exact ih _ _

/-- **Undo is exact.**  `backup_block`'s loop, run on a map representing the UTXO set after a valid
block with that block's undo list appended to any `undo0`, succeeds, leaves exactly `undo0`, and
yields a map representing the UTXO set before the block. -/
theorem backupTxs_inverts {σ : Type} {ops : UOps σ} {RepS : σ → List Utxo → Prop}
    (I : RepIface ops RepS) (cfg : Cfg) (height : Nat) (txs : List Tx) (S : St)
    (hS : (S.utxos.map opOf).Nodup) (hv : ValidTxs cfg.act height S txs)
    (undo0 : List CacheVal) (a : Acc σ)
    (hrep : RepS a.s (txs.foldl (applyTx cfg.act height) S).utxos) :
    ∃ a', backupTxs ops cfg height txs.reverse (undo0 ++ blockUndo cfg.act height S txs) a
            = .ok (a', undo0) ∧
      RepS a'.s S.utxos ∧ a'.txNum = a.txNum + txs.length ∧
      a'.delta = a.delta - blockDelta cfg.act height S txs ∧
      (∀ hx, hx ∈ a.touched ∨ hx ∈ (blockTouched cfg.act height S txs).flatten → hx ∈ a'.touched) := by
  induction txs generalizing S a undo0 with
  | nil =>
    exact ⟨a, by simp [backupTxs, blockUndo], by simpa using hrep, by simp, by simp [blockDelta],
      by intro hx h; simpa [blockTouched] using h⟩
  | cons tx r ih =>
    obtain ⟨hin, hfresh, hrest⟩ := hv
    have hS1 := applyTx_nodup (act := cfg.act) (height := height) hS hfresh
    rw [List.foldl_cons] at hrep
    obtain ⟨a1, hb1, hrep1, hn1, hd1, ht1⟩ := ih (applyTx cfg.act height S tx) hS1 hrest
      (undo0 ++ (spendAll S.utxos tx.ins).2.map cvOf) a hrep
    -- now undo the tx itself
    have hrep1' : RepS a1.s ((spendAll S.utxos tx.ins).1 ++
        newUtxos cfg.act height S.txs.length tx.id tx.outs 0) := by
      rw [applyTx_eq] at hrep1; exact hrep1
    obtain ⟨M2, hrep2, hso⟩ := spendOutputs_rep I cfg height tx.id S.txs.length tx.outs 0
      (spendAll S.utxos tx.ins).1 a1 hrep1'
    have hperm := spendAll_perm S.utxos tx.ins
    have hnod : (((spendAll S.utxos tx.ins).1 ++ (spendAll S.utxos tx.ins).2).map opOf).Nodup :=
      (hperm.map opOf).nodup_iff.mp hS
    obtain ⟨M3, hrep3, hri⟩ := restoreInputs_rep I tx.ins S.utxos hS hin undo0
      { a1 with s := M2,
                touched := a1.touched ++ (newUtxos cfg.act height S.txs.length tx.id tx.outs 0).map (·.hx),
                delta := a1.delta - ((newUtxos cfg.act height S.txs.length tx.id tx.outs 0).length : Int) }
      (spendAll S.utxos tx.ins).1 hrep2 hnod
    have hfinal : RepS M3 S.utxos := by
      refine I.perm hrep3 ?_
      exact (List.Perm.append_left _ (List.reverse_perm _)).trans hperm.symm
    refine ⟨{ a1 with
        s := M3,
        touched := a1.touched ++ (newUtxos cfg.act height S.txs.length tx.id tx.outs 0).map (·.hx)
                     ++ ((spendAll S.utxos tx.ins).2.reverse).map (·.hx),
        delta := a1.delta - ((newUtxos cfg.act height S.txs.length tx.id tx.outs 0).length : Int)
                     + ((spendAll S.utxos tx.ins).2.length : Int),
        txNum := a1.txNum + 1 }, ?_, ?_, ?_, ?_, ?_⟩
    · rw [List.reverse_cons, backupTxs_append]
      have hundo : undo0 ++ blockUndo cfg.act height S (tx :: r)
          = (undo0 ++ (spendAll S.utxos tx.ins).2.map cvOf) ++ blockUndo cfg.act height (applyTx cfg.act height S tx) r := by
        simp [blockUndo, List.append_assoc]
      rw [hundo, hb1]
      simp only [backupTxs, hso, hri]
    · exact hfinal
    · simp only [hn1, List.length_cons]; omega
    · simp only [hd1, blockDelta]; omega
    · intro hx h
      simp only [List.mem_append, List.mem_map, List.mem_reverse]
      rcases h with h | h
      · exact Or.inl (Or.inl (ht1 hx (Or.inl h)))
      · simp only [blockTouched, List.flatten_cons, List.mem_append, List.mem_map] at h
        rcases h with (⟨x, hx1, rfl⟩ | ⟨x, hx1, rfl⟩) | h
        · exact Or.inr ⟨x, hx1, rfl⟩
        · exact Or.inl (Or.inr ⟨x, hx1, rfl⟩)
        · exact Or.inl (Or.inl (ht1 hx (Or.inr h)))

end EV.Index

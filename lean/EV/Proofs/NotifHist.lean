import EV.Proofs.Notif
import EV.Proofs.ListX

/-! History-indexed invariants of `Notifications` (what was reported so far). -/
namespace EV.Notif

def Op.height : Op → Int
  | .start h => h
  | .mempool _ h => h
  | .block _ h => h

/-- height of the last `on_block` or `start` in the history, if any -/
def lastBlockLike (ops : List Op) : Option Int :=
  ops.reverse.findSome? fun
    | .start h => some h
    | .block _ h => some h
    | .mempool _ _ => none

/-- height of the last `on_mempool` in the history, if any -/
def lastMempool (ops : List Op) : Option Int :=
  ops.reverse.findSome? fun
    | .mempool _ h => some h
    | _ => none

theorem lastBlockLike_snoc (ops : List Op) (op : Op) :
    lastBlockLike (ops ++ [op]) =
      match op with
      | .start h => some h
      | .block _ h => some h
      | .mempool _ _ => lastBlockLike ops := by
  simp only [lastBlockLike, List.reverse_append, List.reverse_cons, List.reverse_nil,
    List.nil_append, List.singleton_append, List.findSome?_cons]
  cases op <;> simp

theorem lastBlockLike_mem {ops : List Op} {h : Int} (hl : lastBlockLike ops = some h) :
    (∃ t, Op.block t h ∈ ops) ∨ Op.start h ∈ ops := by
  induction ops using List.snoc_induction with
  | nil => simp [lastBlockLike] at hl
  | snoc l a ih =>
    rw [lastBlockLike_snoc] at hl
    cases a with
    | start h' => simp at hl; subst hl; exact Or.inr (by simp)
    | block t h' => simp at hl; subst hl; exact Or.inl ⟨t, by simp⟩
    | mempool t h' =>
      simp at hl
      rcases ih hl with ⟨t', ht'⟩ | hs
      · exact Or.inl ⟨t', by simp [ht']⟩
      · exact Or.inr (by simp [hs])

/-- `start h` only ever follows block reports at heights `≤ h` (the session manager starts
    notifications with the DB height, which is at least every height reported before). -/
def StartOK (ops : List Op) : Prop :=
  ∀ pre h post, ops = pre ++ Op.start h :: post → ∀ t k, Op.block t k ∈ pre → k ≤ h

theorem StartOK_prefix {a b : List Op} (h : StartOK (a ++ b)) : StartOK a := by
  intro pre h' post heq t k hk
  exact h pre h' (post ++ b) (by rw [heq]; simp) t k hk

/-- what a reachable state knows about its history -/
structure HInv (ops : List Op) (s : St) : Prop where
  mpK : ∀ k ∈ keys s.mp, ∃ t, Op.mempool t k ∈ ops
  bpK : ∀ k ∈ keys s.bp, ∃ t, Op.block t k ∈ ops
  hi : s.highest = (lastBlockLike ops).getD (-1)
  pend : ∀ x ∈ pending s, x ∈ handed ops

theorem hinv_init : HInv [] init :=
  ⟨by simp [init, keys], by simp [init, keys], by simp [init, lastBlockLike],
   by simp [init, pending]⟩

theorem maybeNotify_pending_sub (s : St) : ∀ x ∈ pending (maybeNotify s).1, x ∈ pending s := by
  unfold maybeNotify
  split
  · intro x hx; exact hx
  · next h hp =>
    intro x hx
    simp only [pending, List.mem_append] at hx ⊢
    rcases hx with hx | hx
    · exact Or.inl ((mem_flatMap_split _ _ _).mpr (Or.inr hx))
    · exact Or.inr ((mem_flatMap_split _ _ _).mpr (Or.inr hx))

theorem hinv_step {ops : List Op} {s : St} (hs : HInv ops s) (op : Op) :
    HInv (ops ++ [op]) (step s op).1 := by
  cases op with
  | start h =>
    refine ⟨?_, ?_, ?_, ?_⟩
    · intro k hk
      obtain ⟨t, ht⟩ := hs.mpK k (by simpa [step, start] using hk)
      exact ⟨t, by simp [ht]⟩
    · intro k hk
      obtain ⟨t, ht⟩ := hs.bpK k (by simpa [step, start] using hk)
      exact ⟨t, by simp [ht]⟩
    · rw [lastBlockLike_snoc]; simp [step, start]
    · intro x hx
      rw [handed_append]
      exact List.mem_append_left _ (hs.pend x (by simpa [step, start, pending] using hx))
  | mempool t h =>
    simp only [step, onMempool_eq]
    refine ⟨?_, ?_, ?_, ?_⟩
    · intro k hk
      rcases (keys_preMempool s t h k).mp (maybeNotify_keys_mp _ k hk) with rfl | ⟨h1, _⟩
      · exact ⟨t, by simp⟩
      · obtain ⟨t', ht'⟩ := hs.mpK k h1
        exact ⟨t', by simp [ht']⟩
    · intro k hk
      obtain ⟨t', ht'⟩ := hs.bpK k (maybeNotify_keys_bp (preMempool s t h) k hk)
      exact ⟨t', by simp [ht']⟩
    · rw [maybeNotify_highest, lastBlockLike_snoc]; exact hs.hi
    · intro x hx
      rw [handed_append]
      rcases (preMempool_pending s t h x).mp (maybeNotify_pending_sub _ x hx) with h1 | h1
      · exact List.mem_append_right _ (by simp [handed, h1])
      · exact List.mem_append_left _ (hs.pend x h1)
  | block t h =>
    simp only [step, onBlock_eq]
    refine ⟨?_, ?_, ?_, ?_⟩
    · intro k hk
      obtain ⟨h1, _⟩ := (keys_preBlock_mp s t h k).mp (maybeNotify_keys_mp _ k hk)
      obtain ⟨t', ht'⟩ := hs.mpK k h1
      exact ⟨t', by simp [ht']⟩
    · intro k hk
      rcases (keys_preBlock_bp s t h k).mp (maybeNotify_keys_bp _ k hk) with rfl | ⟨h1, _⟩
      · exact ⟨t, by simp⟩
      · obtain ⟨t', ht'⟩ := hs.bpK k h1
        exact ⟨t', by simp [ht']⟩
    · rw [maybeNotify_highest, lastBlockLike_snoc]; rfl
    · intro x hx
      rw [handed_append]
      rcases (preBlock_pending s t h x).mp (maybeNotify_pending_sub _ x hx) with h1 | h1
      · exact List.mem_append_right _ (by simp [handed, h1])
      · exact List.mem_append_left _ (hs.pend x h1)

theorem hinv_run (ops : List Op) : HInv ops (run init ops).1 := by
  induction ops using List.snoc_induction with
  | nil => exact hinv_init
  | snoc l a ih => rw [run_snoc]; exact hinv_step ih a

theorem inv_run (ops : List Op) (hok : StartOK ops) : Inv (run init ops).1 := by
  induction ops using List.snoc_induction with
  | nil => exact inv_init
  | snoc l a ih =>
    rw [run_snoc]
    have ihl := ih (StartOK_prefix hok)
    cases a with
    | start h =>
      refine ⟨ihl.disj, ?_⟩
      intro k hk
      obtain ⟨t, ht⟩ := (hinv_run l).bpK k (by simpa [step, start] using hk)
      exact hok l h [] rfl t k ht
    | mempool t h => exact inv_onMempool ihl t h
    | block t h => exact inv_onBlock _ t h

end EV.Notif

import EV.Proofs.CompactRun

/-!
Indexing on top of a compacted (or partly compacted) history DB: when every existing flush id is
at most `flush_count`, the rows `History.flush` writes under `flush_count + 1` land last for every
hashX.  Core only.
-/
namespace EV.Compact
open EV.Index

/-- every row id is at most the history flush count: the next `History.flush` id is new for every hashX -/
def AllIdsLE (p : Store) : Prop := ∀ e ∈ p.hist, e.1.2 ≤ hF p

/-- no compaction in progress on disk: the ordering hypothesis is `AllIdsLE` -/
theorem allIdsLE_of_idle {maxRow : Nat} {p : Store} (hP : PInv maxRow p) (hc : (hsOf p).compCursor = -1) :
    AllIdsLE p := by
  intro e he
  have ho := hP.ordered e he
  rw [hc] at ho
  have : ¬ ((prefixOf e.1.1 : Int) < -1) := by omega
  rw [if_neg this] at ho
  exact ho

/-- an abandoned compaction, on a database where no hashX needs more rows than the flush count allows -/
theorem allIdsLE_of_fit {maxRow : Nat} {p : Store} (hP : PInv maxRow p) (hfit : RowsFit maxRow p (hF p)) :
    AllIdsLE p := by
  intro e he
  have ho := hP.ordered e he
  by_cases hlt : (prefixOf e.1.1 : Int) < (hsOf p).compCursor
  · have := hP.tight e he hlt
    have := hfit e.1.1
    omega
  · rw [if_neg hlt] at ho; exact ho

/-! ### generic association-list facts (the `unflushed` dict) -/

theorem alookup_some_mem' {κ ν : Type} [DecidableEq κ] {k : κ} {v : ν} {l : List (κ × ν)}
    (h : alookup k l = some v) : (k, v) ∈ l := by
  induction l with
  | nil => simp [alookup] at h
  | cons x xs ih =>
    obtain ⟨k', v'⟩ := x
    simp only [alookup] at h
    split at h
    · next hk => cases h; subst hk; exact List.mem_cons_self
    · exact List.mem_cons_of_mem _ (ih h)

theorem alookup_none_not_mem' {κ ν : Type} [DecidableEq κ] {k : κ} {l : List (κ × ν)}
    (h : alookup k l = none) (v : ν) : (k, v) ∉ l := by
  induction l with
  | nil => simp
  | cons x xs ih =>
    obtain ⟨k', v'⟩ := x
    simp only [alookup] at h
    split at h
    · cases h
    · next hk =>
      intro hm
      rcases List.mem_cons.mp hm with heq | hm'
      · cases heq; exact hk rfl
      · exact ih h hm'

theorem alookup_of_mem' {κ ν : Type} [DecidableEq κ] {k : κ} {v : ν} {l : List (κ × ν)}
    (hn : (l.map (·.1)).Nodup) (h : (k, v) ∈ l) : alookup k l = some v := by
  induction l with
  | nil => cases h
  | cons x xs ih =>
    obtain ⟨k', v'⟩ := x
    simp only [List.map_cons, List.nodup_cons] at hn
    simp only [alookup]
    rcases List.mem_cons.mp h with heq | h'
    · cases heq; simp
    · split
      · next hk =>
        subst hk
        exact absurd (List.mem_map.mpr ⟨(k', v), h', rfl⟩) hn.1
      · exact ih hn.2 h'

/-! ### `History.flush` -/

/-- the rows `History.flush` writes under flush id `fid` -/
def flushPuts (U : List (HashX × List Nat)) (fid : Nat) : List Row :=
  (sortByKey U).map (fun x => ((x.1, fid), x.2))

theorem histFlushEffect_eq (s : Sys) :
    histFlushEffect s = .histBatch [] (flushPuts s.m.unflushed (s.m.histFlush + 1))
      { hstateOf s.m with flushCount := s.m.histFlush + 1 } := rfl

theorem mem_flushPuts {U : List (HashX × List Nat)} {fid : Nat} {e : Row} :
    e ∈ flushPuts U fid ↔ (e.1.1, e.2) ∈ U ∧ e.1.2 = fid := by
  unfold flushPuts sortByKey
  rw [List.mem_map]
  constructor
  · rintro ⟨x, hx, rfl⟩
    exact ⟨List.mem_mergeSort.mp hx, rfl⟩
  · rintro ⟨h1, h2⟩
    exact ⟨(e.1.1, e.2), List.mem_mergeSort.mpr h1, by rw [← h2]⟩

theorem nodupKeys_flushPuts {U : List (HashX × List Nat)} (hu : (U.map (·.1)).Nodup) (fid : Nat) :
    NodupKeys (flushPuts U fid) := by
  unfold NodupKeys flushPuts sortByKey
  rw [List.map_map]
  have h1 : ((U.mergeSort (fun a b => decide (a.1 ≤ b.1))).map (·.1)).Nodup :=
    ((List.mergeSort_perm _ _).map _).nodup_iff.mpr hu
  rw [List.nodup_iff_pairwise_ne, List.pairwise_map] at h1 ⊢
  refine h1.imp ?_
  intro a b hab heq
  apply hab
  simp only [Function.comp] at heq
  exact (Prod.mk.inj heq).1

/-- **`History.flush` on a store whose ids are all `≤ flush_count`**: for every hashX the new tx
    numbers are appended to its history, nothing else changes, and the hypothesis holds again -/
theorem histFlush_appends (s : Sys) (hn : NodupKeys s.p.hist)
    (hle : ∀ e ∈ s.p.hist, e.1.2 ≤ s.m.histFlush) (hu : (s.m.unflushed.map (·.1)).Nodup) :
    NodupKeys (applyEffect s.p (histFlushEffect s)).hist ∧
    (∀ hx, getTxnums (applyEffect s.p (histFlushEffect s)) hx none =
      getTxnums s.p hx none ++ (alookup hx s.m.unflushed).getD []) ∧
    (∀ e ∈ (applyEffect s.p (histFlushEffect s)).hist, e.1.2 ≤ s.m.histFlush + 1) ∧
    (applyEffect s.p (histFlushEffect s)).hstate =
      some { hstateOf s.m with flushCount := s.m.histFlush + 1 } ∧
    (∀ e ∈ (applyEffect s.p (histFlushEffect s)).hist, e ∈ s.p.hist ∨ (e.1.1, e.2) ∈ s.m.unflushed) := by
  rw [histFlushEffect_eq]
  have hW := nodupKeys_flushPuts hu (s.m.histFlush + 1)
  have hN := nodupKeys_histBatch s.p [] (flushPuts s.m.unflushed (s.m.histFlush + 1))
    { hstateOf s.m with flushCount := s.m.histFlush + 1 } hn
  have hmem : ∀ e : Row, e ∈ (applyEffect s.p (.histBatch [] (flushPuts s.m.unflushed (s.m.histFlush + 1))
      { hstateOf s.m with flushCount := s.m.histFlush + 1 })).hist ↔
      (e ∈ flushPuts s.m.unflushed (s.m.histFlush + 1) ∨ e ∈ s.p.hist) := by
    intro e
    rw [mem_histBatch _ _ _ _ hW]
    constructor
    · rintro (h | ⟨h, _, _⟩)
      · exact Or.inl h
      · exact Or.inr h
    · rintro (h | h)
      · exact Or.inl h
      · right
        refine ⟨h, by simp, ?_⟩
        intro hm
        obtain ⟨e', he', hk⟩ := List.mem_map.mp hm
        have h1 := (mem_flushPuts.mp he').2
        have h2 := hle e h
        rw [← hk, h1] at h2
        omega
  refine ⟨hN, ?_, ?_, rfl, ?_⟩
  · intro hx
    rw [getTxnums_eq, getTxnums_eq]
    cases hl : alookup hx s.m.unflushed with
    | none =>
      simp only [Option.getD_none, List.append_nil]
      rw [rowsOf_congr hn hN hx]
      intro e he
      rw [hmem]
      constructor
      · rintro (h | h)
        · have := (mem_flushPuts.mp h).1
          rw [he] at this
          exact absurd this (alookup_none_not_mem' hl _)
        · exact h
      · intro h; exact Or.inr h
    | some nums =>
      simp only [Option.getD_some]
      have hin : (hx, nums) ∈ s.m.unflushed := alookup_some_mem' hl
      have hr : rowsOf (applyEffect s.p (.histBatch [] (flushPuts s.m.unflushed (s.m.histFlush + 1))
          { hstateOf s.m with flushCount := s.m.histFlush + 1 })).hist hx =
          rowsOf s.p.hist hx ++ [((hx, s.m.histFlush + 1), nums)] := by
        apply rowsOf_char hN
        · rw [List.pairwise_append]
          refine ⟨rowsOf_pairwise_lt hn hx, by simp, ?_⟩
          intro a ha b hb
          simp only [List.mem_singleton] at hb
          subst hb
          have := hle a (mem_rowsOf.mp ha).1
          simp only; omega
        · intro e
          rw [List.mem_append, List.mem_singleton, hmem, mem_rowsOf]
          constructor
          · rintro (⟨h1, h2⟩ | h)
            · exact ⟨Or.inr h1, h2⟩
            · subst h
              exact ⟨Or.inl (mem_flushPuts.mpr ⟨hin, rfl⟩), rfl⟩
          · rintro ⟨h | h, h2⟩
            · right
              obtain ⟨g1, g2⟩ := mem_flushPuts.mp h
              rw [h2] at g1
              have := alookup_of_mem' hu g1
              rw [hl] at this
              have hn' : nums = e.2 := Option.some.inj this
              apply Prod.ext
              · apply Prod.ext
                · exact h2
                · exact g2
              · exact hn'.symm
            · exact Or.inl ⟨h, h2⟩
      rw [hr, List.flatMap_append]
      simp
  · intro e he
    rcases (hmem e).mp he with h | h
    · rw [(mem_flushPuts.mp h).2]; exact Nat.le_refl _
    · have := hle e h; omega
  · intro e he
    rcases (hmem e).mp he with h | h
    · exact Or.inr (mem_flushPuts.mp h).1
    · exact Or.inl h

end EV.Compact

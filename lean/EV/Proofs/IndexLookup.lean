import EV.Proofs.IndexRunReorg
import EV.Model.IndexSplit

/-!
What `DB.lookup_utxos` answers (`lookupUtxo`: the `h` rows under `pfx(txid) + idx`, each candidate's
tx number resolved through `fs_tx_hash` and compared with the FULL hash, then the `u` row).

It reads only the persistent rows, the hashes file, `tx_counts` and `DB.state.height`; so the answer
is determined by the list `V` of UTXOs resident in the rows (`RowsOf`):

  * fully flushed invariant state (`FullInv` + `Flushed`): `V` = the specification's UTXO set of the
    chain (`rowsOf_flushed`);
  * ANY state of the extended invariant (`FullInv'`: cache / queued deletes / unflushed blocks
    present, files ahead of `DB.state`): `V` = the specification's UTXO set of the COMMITTED chain
    `chain.take (DB.state.height + 1)` (`rowsOf_committed`).

Also: provenance of the specification's UTXOs (each is a spendable output of a transaction of the
chain, `specChain_outputOf`) — what makes an answer *true* in the sense of the mempool model.
Core only.
-/
namespace EV.Index
open EV.Spec

/-- `DB.lookup_utxos(prevouts)`: one answer per prevout, in order -/
def lookupUtxos (s : Sys) (ps : List (Hash × Nat)) : List (Option (HashX × Nat)) :=
  ps.map (fun p => lookupUtxo s p.1 p.2)

/-- the specification's lookup over a UTXO list (`EV.Spec.lookup S = lookupIn S.utxos`) -/
def lookupIn (V : List Utxo) (txid : Hash) (idx : Nat) : Option (HashX × Nat) :=
  (V.find? (fun u => u.txid == txid && u.idx == idx)).map (fun u => (u.hx, u.value))

theorem lookup_eq_lookupIn (S : St) (txid : Hash) (idx : Nat) :
    EV.Spec.lookup S txid idx = lookupIn S.utxos txid idx := rfl

/-! ### the specification's lookup -/

theorem lookupIn_eq_none_iff {V : List Utxo} {txid : Hash} {idx : Nat} :
    lookupIn V txid idx = none ↔ ∀ u ∈ V, ¬ (u.txid = txid ∧ u.idx = idx) := by
  simp only [lookupIn, Option.map_eq_none_iff, List.find?_eq_none, Bool.and_eq_true, beq_iff_eq]

theorem lookupIn_of_mem {V : List Utxo} (hn : (V.map opOf).Nodup) {u : Utxo} (hu : u ∈ V) :
    lookupIn V u.txid u.idx = some (u.hx, u.value) := by
  have h := find?_of_mem_nodup hn hu
  have hfun : (fun x : Utxo => x.txid == u.txid && x.idx == u.idx) =
      (fun x => decide (opOf x = opOf u)) := by
    funext x
    rw [Bool.eq_iff_iff]
    simp [opOf]
  simp only [lookupIn, hfun, h, Option.map_some]

theorem lookupIn_eq_some_iff {V : List Utxo} (hn : (V.map opOf).Nodup) {txid : Hash} {idx : Nat}
    {hx : HashX} {v : Nat} :
    lookupIn V txid idx = some (hx, v) ↔
      ∃ u ∈ V, u.txid = txid ∧ u.idx = idx ∧ u.hx = hx ∧ u.value = v := by
  constructor
  · intro h
    simp only [lookupIn, Option.map_eq_some_iff, Prod.mk.injEq] at h
    obtain ⟨u, hf, h1, h2⟩ := h
    have hp := List.find?_some hf
    simp only [Bool.and_eq_true, beq_iff_eq] at hp
    exact ⟨u, List.mem_of_find?_eq_some hf, hp.1, hp.2, h1, h2⟩
  · rintro ⟨u, hu, rfl, rfl, rfl, rfl⟩
    exact lookupIn_of_mem hn hu

/-- the answer, when there is one, is an element of the list (no uniqueness needed) -/
theorem lookupIn_some_mem {V : List Utxo} {txid : Hash} {idx : Nat} {r : HashX × Nat}
    (h : lookupIn V txid idx = some r) :
    ∃ u ∈ V, u.txid = txid ∧ u.idx = idx ∧ r = (u.hx, u.value) := by
  simp only [lookupIn, Option.map_eq_some_iff] at h
  obtain ⟨u, hf, h1⟩ := h
  have hp := List.find?_some hf
  simp only [Bool.and_eq_true, beq_iff_eq] at hp
  exact ⟨u, List.mem_of_find?_eq_some hf, hp.1, hp.2, h1.symm⟩

/-! ### what `lookup_utxos` reads -/

/-- `lookup_hashX` + `lookup_utxo`, with `fs_tx_hash` written as `resolve` -/
theorem lookupUtxo_unfold (s : Sys) (txid : Hash) (idx : Nat) :
    lookupUtxo s txid idx =
      match (s.p.h.filter (fun e => e.1.1 == pfx txid && e.1.2.1 == idx)).find?
          (fun e => resolve s e.1.2.2 == some txid) with
      | none => none
      | some (hk, hx) =>
        match alookup (hx, idx, hk.2.2) s.p.u with
        | none => none
        | some v => some (hx, v) := rfl

/-- the answer depends only on the `h`/`u` rows, the hashes file, `tx_counts` and
    `DB.state.height` — not on the UTXO cache, the queued deletes, the unflushed lists, the
    processor's state or any other table -/
theorem lookupUtxo_congr {s s' : Sys} (hh : s'.p.h = s.p.h) (hu : s'.p.u = s.p.u)
    (hf : s'.p.hashes = s.p.hashes) (hc : s'.m.txCounts = s.m.txCounts)
    (hd : s'.m.dbst.height = s.m.dbst.height) (txid : Hash) (idx : Nat) :
    lookupUtxo s' txid idx = lookupUtxo s txid idx := by
  have hr : ∀ n, resolve s' n = resolve s n := by
    intro n
    rw [resolve_eq, resolve_eq, hf, hc, hd]
  simp only [lookupUtxo_unfold, hh, hu, hr]

/-- in particular `spend_utxo` / `put_utxo` (the transaction loop of `advance_block`, which only
    moves the cache and the delete queue) do not change any answer -/
theorem lookupUtxo_sameBut {s s' : Sys} (h : SameBut s s') (txid : Hash) (idx : Nat) :
    lookupUtxo s' txid idx = lookupUtxo s txid idx := by
  obtain ⟨c, d, rfl⟩ := h
  exact lookupUtxo_congr rfl rfl rfl rfl rfl txid idx

/-- The `h`/`u` rows of `s` are exactly the rows of the UTXO list `V` (distinct outpoints), the `u`
table has unique keys, and the tx number of every resident UTXO resolves to its txid. -/
structure RowsOf (s : Sys) (V : List Utxo) : Prop where
  nodup : (V.map opOf).Nodup
  hRows : ∀ e, e ∈ s.p.h ↔ ∃ u ∈ V, e = (hkey u, u.hx)
  uRows : ∀ e, e ∈ s.p.u ↔ ∃ u ∈ V, e = (ukey u, u.value)
  uKeys : (s.p.u.map (·.1)).Nodup
  res : ∀ u ∈ V, resolve s u.txnum = some u.txid

/-- **`lookup_utxos` answers exactly from the resident UTXOs.**  Candidates sharing the 4-byte
prefix and the output index are told apart by the full-hash comparison: every candidate row belongs
to some `x ∈ V` whose tx number resolves to `x.txid`, so the row selected is the one of the UTXO
with the asked txid — which is unique because outpoints are distinct — and its `u` row exists. -/
theorem lookupUtxo_rows {s : Sys} {V : List Utxo} (r : RowsOf s V) (txid : Hash) (idx : Nat) :
    lookupUtxo s txid idx = lookupIn V txid idx := by
  rw [lookupUtxo_unfold]
  have hc : ∀ e ∈ s.p.h.filter (fun e => e.1.1 == pfx txid && e.1.2.1 == idx),
      ∃ x ∈ V, e = (hkey x, x.hx) ∧ x.idx = idx := by
    intro e he
    obtain ⟨he1, he2⟩ := List.mem_filter.mp he
    obtain ⟨x, hx, rfl⟩ := (r.hRows e).mp he1
    refine ⟨x, hx, rfl, ?_⟩
    simp only [hkey, Bool.and_eq_true, beq_iff_eq] at he2
    exact he2.2
  cases hfind : V.find? (fun u => u.txid == txid && u.idx == idx) with
  | none =>
    have hnone : ∀ x ∈ V, ¬ (x.txid = txid ∧ x.idx = idx) := by
      intro x hx
      have := List.find?_eq_none.mp hfind x hx
      simpa using this
    have hf : (s.p.h.filter (fun e => e.1.1 == pfx txid && e.1.2.1 == idx)).find?
        (fun e => resolve s e.1.2.2 == some txid) = none := by
      apply List.find?_eq_none.mpr
      intro e he
      obtain ⟨x, hx, rfl, hidx⟩ := hc e he
      simp only [hkey, r.res x hx, beq_iff_eq, Option.some.injEq]
      intro h
      exact hnone x hx ⟨h, hidx⟩
    rw [hf]
    simp only [lookupIn, hfind, Option.map_none]
  | some u =>
    have hu := List.mem_of_find?_eq_some hfind
    have hp := List.find?_some hfind
    simp only [Bool.and_eq_true, beq_iff_eq] at hp
    obtain ⟨h1, h2⟩ := hp
    have hrow : (hkey u, u.hx) ∈ s.p.h.filter (fun e => e.1.1 == pfx txid && e.1.2.1 == idx) := by
      apply List.mem_filter.mpr
      refine ⟨(r.hRows _).mpr ⟨u, hu, rfl⟩, ?_⟩
      simp [hkey, h1, h2]
    cases hf : (s.p.h.filter (fun e => e.1.1 == pfx txid && e.1.2.1 == idx)).find?
        (fun e => resolve s e.1.2.2 == some txid) with
    | none =>
      exfalso
      have := List.find?_eq_none.mp hf _ hrow
      simp [hkey, r.res u hu, h1] at this
    | some e =>
      have he := List.mem_of_find?_eq_some hf
      have hpe := List.find?_some hf
      obtain ⟨x, hx, rfl, hidx⟩ := hc e he
      have hxt : x.txid = txid := by
        simpa [hkey, r.res x hx] using hpe
      have hxu : x = u :=
        eq_of_mem_nodup r.nodup hx hu (by simp [opOf, hxt, h1, hidx, h2])
      subst hxu
      have hl : alookup (ukey x) s.p.u = some x.value :=
        alookup_of_mem_nodup r.uKeys ((r.uRows _).mpr ⟨x, hx, rfl⟩)
      simp only [ukey, h2] at hl
      simp only [hkey, hl, lookupIn, hfind, Option.map_some]

theorem lookupUtxos_rows {s : Sys} {V : List Utxo} (r : RowsOf s V) (ps : List (Hash × Nat)) :
    lookupUtxos s ps = ps.map (fun p => lookupIn V p.1 p.2) := by
  simp only [lookupUtxos, lookupUtxo_rows r]

/-! ### which UTXOs are resident -/

/-- a fully flushed invariant state holds exactly the rows of the specification's UTXO set -/
theorem rowsOf_flushed {cfg : Cfg} {chain : List Block} {s : Sys} (inv : FullInv cfg chain s)
    (hf : Flushed s) : RowsOf s (specChain cfg.act chain).utxos := by
  obtain ⟨hc, hd, -, -, -⟩ := hf
  obtain ⟨D, Del, w⟩ := inv.rep
  have hDel : Del = [] := by
    apply List.eq_nil_iff_forall_not_mem.mpr
    intro u hu'
    have := (w.dels (.h (hkey u))).mpr ⟨u, hu', Or.inl rfl⟩
    rw [hd] at this
    simp at this
  subst hDel
  have hmem := flushed_mem_iff w hc
  exact {
    nodup := w.uNodup
    hRows := by
      intro e
      rw [w.hRows e]
      constructor
      · rintro ⟨u, hu, rfl⟩; exact ⟨u, (hmem u).mpr hu, rfl⟩
      · rintro ⟨u, hu, rfl⟩; exact ⟨u, (hmem u).mp hu, rfl⟩
    uRows := by
      intro e
      rw [w.uRows e]
      constructor
      · rintro ⟨u, hu, rfl⟩; exact ⟨u, (hmem u).mpr hu, rfl⟩
      · rintro ⟨u, hu, rfl⟩; exact ⟨u, (hmem u).mp hu, rfl⟩
    uKeys := w.uKeys
    res := fun u hu => w.res u ((hmem u).mp hu) }

/-- committed tx numbers index the same transaction in the committed chain and in the whole chain -/
theorem allTxids_take_getD (chain : List Block) (k : Nat) {n : Nat}
    (hn : n < (allTxids (chain.take k)).length) :
    (allTxids (chain.take k)).getD n 0 = (allTxids chain).getD n 0 := by
  rw [allTxids_split chain k, List.getD_eq_getElem?_getD, List.getD_eq_getElem?_getD,
    List.getElem?_append_left hn]

/-- the tx number of every UTXO of the committed chain resolves to its txid, in every state of the
    file invariant (files ahead of `DB.state` or not) -/
theorem resolve_committed {cfg : Cfg} {chain : List Block} {s : Sys} (f : FilesInv chain s)
    {u : Utxo} (hu : u ∈ (specChain cfg.act (chain.take (s.m.dbst.height + 1).toNat)).utxos) :
    resolve s u.txnum = some u.txid := by
  have hu' := (specOK_chain cfg.act (chain.take (s.m.dbst.height + 1).toNat)).utxoTx u hu
  obtain ⟨hid, -⟩ := spec_height_eq_bisect cfg.act _ hu'
  have hlt : u.txnum < (allTxids (chain.take (s.m.dbst.height + 1).toNat)).length := by
    rw [← specChain_txs_length cfg.act]
    exact (List.getElem?_eq_some_iff.mp hu').1
  rw [resolve_of_files f hlt, hid, allTxids_take_getD chain _ hlt]

/-- **ANY state of the extended invariant** — cache, queued deletes and unflushed blocks present,
meta files ahead of `DB.state` — holds exactly the rows of the specification's UTXO set of the
COMMITTED chain (the blocks up to the last UTXO flush): outputs spent since are still resident,
outputs created since are not. -/
theorem rowsOf_committed {cfg : Cfg} {chain : List Block} {K : List Nat} {s : Sys}
    (inv : FullInv' cfg chain K s) :
    RowsOf s (specChain cfg.act (chain.take (s.m.dbst.height + 1).toNat)).utxos := by
  obtain ⟨D, Del, w⟩ := inv.base.rep
  have hvalid : ValidChain cfg (chain.take (s.m.dbst.height + 1).toNat) := by
    apply validChain_prefix (suf := chain.drop (s.m.dbst.height + 1).toNat)
    rw [List.take_append_drop]
    exact inv.valid
  exact {
    nodup := specChain_nodup _ hvalid
    hRows := inv.db.rowsH
    uRows := inv.db.rowsU
    uKeys := w.uKeys
    res := fun u hu => resolve_committed inv.base.files hu }

/-! ### provenance: every UTXO of the specification is a spendable output of a chain transaction -/

/-- `u` is output `u.idx` of a transaction with id `u.txid` in block `u.height` of the chain, with
    `u`'s script hash and value, and spendable at that height -/
def OutputOf (act : Nat) (chain : List Block) (u : Utxo) : Prop :=
  ∃ b tx o, chain[u.height]? = some b ∧ tx ∈ b.txs ∧ tx.id = u.txid ∧ tx.outs[u.idx]? = some o ∧
    o.hx = u.hx ∧ o.value = u.value ∧ unspendable act u.height o.kind = false

theorem newUtxos_output {act height n : Nat} {txid : Hash} {outs : List TxOut} {idx : Nat}
    {x : Utxo} (hx : x ∈ newUtxos act height n txid outs idx) :
    idx ≤ x.idx ∧ x.txid = txid ∧ x.height = height ∧
      ∃ o, outs[x.idx - idx]? = some o ∧ o.hx = x.hx ∧ o.value = x.value ∧
        unspendable act height o.kind = false := by
  induction outs generalizing idx with
  | nil => simp [newUtxos] at hx
  | cons o r ih =>
    simp only [newUtxos] at hx
    by_cases hun : unspendable act height o.kind
    · simp only [hun, if_true] at hx
      obtain ⟨h1, h2, h3, o', h4, h5⟩ := ih hx
      refine ⟨by omega, h2, h3, o', ?_, h5⟩
      have : x.idx - idx = (x.idx - (idx + 1)) + 1 := by omega
      rw [this, List.getElem?_cons_succ]
      exact h4
    · simp only [hun, Bool.false_eq_true, if_false, List.mem_cons] at hx
      rcases hx with rfl | hx
      · refine ⟨Nat.le_refl _, rfl, rfl, o, by simp, rfl, rfl, by simpa using hun⟩
      · obtain ⟨h1, h2, h3, o', h4, h5⟩ := ih hx
        refine ⟨by omega, h2, h3, o', ?_, h5⟩
        have : x.idx - idx = (x.idx - (idx + 1)) + 1 := by omega
        rw [this, List.getElem?_cons_succ]
        exact h4

/-- a predicate that holds of the UTXOs before a block's transactions and of every output they
    create holds of the UTXOs after them -/
theorem foldl_applyTx_all {act height : Nat} {P : Utxo → Prop} (txs : List Tx) {S : St}
    (hS : ∀ u ∈ S.utxos, P u)
    (hnew : ∀ tx ∈ txs, ∀ n, ∀ x ∈ newUtxos act height n tx.id tx.outs 0, P x) :
    ∀ u ∈ (txs.foldl (applyTx act height) S).utxos, P u := by
  induction txs generalizing S with
  | nil => exact hS
  | cons tx r ih =>
    rw [List.foldl_cons]
    apply ih
    · intro u hu
      rw [applyTx_eq] at hu
      simp only [List.mem_append] at hu
      rcases hu with hu | hu
      · exact hS u ((spendAll_sublist _ _).subset hu)
      · exact hnew tx (by simp) _ u hu
    · intro tx' htx'
      exact hnew tx' (List.mem_cons_of_mem _ htx')

theorem OutputOf.snoc {act : Nat} {chain : List Block} {u : Utxo} (h : OutputOf act chain u)
    (b : Block) : OutputOf act (chain ++ [b]) u := by
  obtain ⟨b', tx, o, h1, rest⟩ := h
  have hlt : u.height < chain.length := (List.getElem?_eq_some_iff.mp h1).1
  exact ⟨b', tx, o, by rw [List.getElem?_append_left hlt]; exact h1, rest⟩

/-- **Provenance.**  Every UTXO of the specification of ANY chain is a spendable output of a
transaction of that chain, with that transaction's id, at that output position, with that output's
script hash and value. -/
theorem specChain_outputOf (act : Nat) (chain : List Block) :
    ∀ u ∈ (specChain act chain).utxos, OutputOf act chain u := by
  induction chain using snoc_induction with
  | hnil => intro u hu; simp [specChain, specFrom] at hu
  | hsnoc l b ih =>
    rw [specChain_snoc, applyBlock]
    apply foldl_applyTx_all
    · intro u hu
      exact (ih u hu).snoc b
    · intro tx htx n x hx
      obtain ⟨-, h2, h3, o, h4, h5, h6, h7⟩ := newUtxos_output hx
      simp only [Nat.sub_zero] at h4
      refine ⟨b, tx, o, ?_, htx, h2.symm, h4, h5, h6, by rw [h3]; exact h7⟩
      rw [h3]
      simp

theorem OutputOf.prefix {act : Nat} {c chain : List Block} {u : Utxo} (h : OutputOf act c u)
    (hp : c <+: chain) : OutputOf act chain u := by
  obtain ⟨suf, rfl⟩ := hp
  obtain ⟨b', tx, o, h1, rest⟩ := h
  have hlt : u.height < c.length := (List.getElem?_eq_some_iff.mp h1).1
  exact ⟨b', tx, o, by rw [List.getElem?_append_left hlt]; exact h1, rest⟩

/-! ### the two phases of `lookup_utxos` read in different states

`EV/Model/IndexSplit.lean`: `lookupHashX` (job 1: the `h` rows, `fs_tx_hash`), `lookupValue` (job 2:
the `u` row and — since the fix of F22, flag `recheck` — `fs_tx_hash` once more), `lookupUtxoSplit`
(job 1 read in `s1`, job 2 in `s2`). -/

theorem lookupHashX_unfold (s : Sys) (txid : Hash) (idx : Nat) :
    lookupHashX s txid idx =
      match (s.p.h.filter (fun e => e.1.1 == pfx txid && e.1.2.1 == idx)).find?
          (fun e => resolve s e.1.2.2 == some txid) with
      | none => none
      | some (hk, hx) => some (hx, hk.2.2) := rfl

theorem lookupValue_unfold (b : Bool) (s : Sys) (txid : Hash) (idx : Nat) (hx : HashX) (n : Nat) :
    lookupValue b s txid idx (some (hx, n)) =
      match alookup (hx, idx, n) s.p.u with
      | none => none
      | some v => if b && resolve s n != some txid then none else some (hx, v) := rfl

/-- both jobs read in ONE state are the model's `lookupUtxo` — before the fix and after it (the
    re-check repeats the comparison that selected the row) -/
theorem lookupUtxoSplit_self (b : Bool) (s : Sys) (txid : Hash) (idx : Nat) :
    lookupUtxoSplit b s s txid idx = lookupUtxo s txid idx := by
  rw [lookupUtxo_unfold, lookupUtxoSplit, lookupHashX_unfold]
  cases hf : (s.p.h.filter (fun e => e.1.1 == pfx txid && e.1.2.1 == idx)).find?
      (fun e => resolve s e.1.2.2 == some txid) with
  | none => rfl
  | some e =>
    obtain ⟨hk, hx⟩ := e
    have hp := List.find?_some hf
    simp only [beq_iff_eq] at hp
    simp only [lookupValue_unfold, hp, bne_self_eq_false, Bool.and_false, Bool.false_eq_true,
      if_false]

/-- job 1 answers from the resident UTXOs: script hash and tx number of THE resident output with
    that txid and index -/
theorem lookupHashX_rows {s : Sys} {V : List Utxo} (r : RowsOf s V) (txid : Hash) (idx : Nat) :
    lookupHashX s txid idx =
      (V.find? (fun u => u.txid == txid && u.idx == idx)).map (fun u => (u.hx, u.txnum)) := by
  rw [lookupHashX_unfold]
  have hc : ∀ e ∈ s.p.h.filter (fun e => e.1.1 == pfx txid && e.1.2.1 == idx),
      ∃ x ∈ V, e = (hkey x, x.hx) ∧ x.idx = idx := by
    intro e he
    obtain ⟨he1, he2⟩ := List.mem_filter.mp he
    obtain ⟨x, hx, rfl⟩ := (r.hRows e).mp he1
    refine ⟨x, hx, rfl, ?_⟩
    simp only [hkey, Bool.and_eq_true, beq_iff_eq] at he2
    exact he2.2
  cases hfind : V.find? (fun u => u.txid == txid && u.idx == idx) with
  | none =>
    have hnone : ∀ x ∈ V, ¬ (x.txid = txid ∧ x.idx = idx) := by
      intro x hx
      have := List.find?_eq_none.mp hfind x hx
      simpa using this
    have hf : (s.p.h.filter (fun e => e.1.1 == pfx txid && e.1.2.1 == idx)).find?
        (fun e => resolve s e.1.2.2 == some txid) = none := by
      apply List.find?_eq_none.mpr
      intro e he
      obtain ⟨x, hx, rfl, hidx⟩ := hc e he
      simp only [hkey, r.res x hx, beq_iff_eq, Option.some.injEq]
      intro h
      exact hnone x hx ⟨h, hidx⟩
    rw [hf]
    rfl
  | some u =>
    have hu := List.mem_of_find?_eq_some hfind
    have hp := List.find?_some hfind
    simp only [Bool.and_eq_true, beq_iff_eq] at hp
    obtain ⟨h1, h2⟩ := hp
    have hrow : (hkey u, u.hx) ∈ s.p.h.filter (fun e => e.1.1 == pfx txid && e.1.2.1 == idx) := by
      apply List.mem_filter.mpr
      refine ⟨(r.hRows _).mpr ⟨u, hu, rfl⟩, ?_⟩
      simp [hkey, h1, h2]
    cases hf : (s.p.h.filter (fun e => e.1.1 == pfx txid && e.1.2.1 == idx)).find?
        (fun e => resolve s e.1.2.2 == some txid) with
    | none =>
      exfalso
      have := List.find?_eq_none.mp hf _ hrow
      simp [hkey, r.res u hu, h1] at this
    | some e =>
      have he := List.mem_of_find?_eq_some hf
      have hpe := List.find?_some hf
      obtain ⟨x, hx, rfl, hidx⟩ := hc e he
      have hxt : x.txid = txid := by
        simpa [hkey, r.res x hx] using hpe
      have hxu : x = u :=
        eq_of_mem_nodup r.nodup hx hu (by simp [opOf, hxt, h1, hidx, h2])
      subst hxu
      simp only [hkey, Option.map_some]

theorem lookupHashX_of_mem {s : Sys} {V : List Utxo} (r : RowsOf s V) {u : Utxo} (hu : u ∈ V) :
    lookupHashX s u.txid u.idx = some (u.hx, u.txnum) := by
  rw [lookupHashX_rows r]
  have h := find?_of_mem_nodup r.nodup hu
  have hfun : (fun x : Utxo => x.txid == u.txid && x.idx == u.idx) =
      (fun x => decide (opOf x = opOf u)) := by
    funext x
    rw [Bool.eq_iff_iff]
    simp [opOf]
  simp only [hfun, h, Option.map_some]

theorem lookupHashX_some_mem {s : Sys} {V : List Utxo} (r : RowsOf s V) {txid : Hash} {idx : Nat}
    {hx : HashX} {n : Nat} (h : lookupHashX s txid idx = some (hx, n)) :
    ∃ x ∈ V, x.txid = txid ∧ x.idx = idx ∧ x.hx = hx ∧ x.txnum = n := by
  rw [lookupHashX_rows r] at h
  simp only [Option.map_eq_some_iff, Prod.mk.injEq] at h
  obtain ⟨x, hf, h1, h2⟩ := h
  have hp := List.find?_some hf
  simp only [Bool.and_eq_true, beq_iff_eq] at hp
  exact ⟨x, List.mem_of_find?_eq_some hf, hp.1, hp.2, h1, h2⟩

/-- **Job 2 of the fixed code is sound on its own.**  Whatever job 1 handed over (`ph`: any script
hash and tx number, from any earlier state), if the rows of `s2` hold `V2`, job 2 answers `None` or
exactly what the one-state lookup answers in `s2`: a `u` row `(hashX, idx, n)` belongs to a resident
output `y` with tx number `n`, `n` resolves to `y.txid`, and the re-check makes that the asked
txid. -/
theorem lookupValue_fixed_rows {s2 : Sys} {V2 : List Utxo} (r2 : RowsOf s2 V2) (txid : Hash)
    (idx : Nat) (ph : Option (HashX × Nat)) :
    lookupValue true s2 txid idx ph = none ∨
      lookupValue true s2 txid idx ph = lookupIn V2 txid idx := by
  cases ph with
  | none => exact Or.inl rfl
  | some p =>
    obtain ⟨hx, n⟩ := p
    rw [lookupValue_unfold]
    cases hl : alookup (hx, idx, n) s2.p.u with
    | none => exact Or.inl rfl
    | some v =>
      by_cases hres : resolve s2 n = some txid
      · right
        obtain ⟨y, hy, hrow⟩ := (r2.uRows _).mp (alookup_some_mem hl)
        simp only [ukey, Prod.mk.injEq] at hrow
        obtain ⟨⟨g1, g2, g3⟩, g4⟩ := hrow
        have hyt : y.txid = txid := by
          have := r2.res y hy
          rw [← g3, hres] at this
          exact (Option.some.inj this).symm
        have h2 := lookupIn_of_mem r2.nodup hy
        rw [hyt, ← g2] at h2
        simp only [hres, bne_self_eq_false, Bool.and_false, Bool.false_eq_true, if_false]
        rw [h2, ← g1, ← g4]
      · left
        have : (resolve s2 n != some txid) = true := by simpa using hres
        simp only [this, Bool.and_self, if_true]

/-- **The fixed split lookup, any first state.**  `s1` is unconstrained: whatever happened between
the two jobs, the answer is `None` or the one-state answer in `s2`. -/
theorem lookupUtxoSplit_fixed_rows (s1 : Sys) {s2 : Sys} {V2 : List Utxo} (r2 : RowsOf s2 V2)
    (txid : Hash) (idx : Nat) :
    lookupUtxoSplit true s1 s2 txid idx = none ∨
      lookupUtxoSplit true s1 s2 txid idx = lookupIn V2 txid idx :=
  lookupValue_fixed_rows r2 txid idx _

/-- **Nothing is lost for outputs that stay.**  An output resident in both states (same record, so
same tx number: not backed out and re-created in between) is answered by the split lookup, with or
without the re-check. -/
theorem lookupUtxoSplit_stable (b : Bool) {s1 s2 : Sys} {V1 V2 : List Utxo} (r1 : RowsOf s1 V1)
    (r2 : RowsOf s2 V2) {u : Utxo} (h1 : u ∈ V1) (h2 : u ∈ V2) :
    lookupUtxoSplit b s1 s2 u.txid u.idx = some (u.hx, u.value) := by
  have hl : alookup (u.hx, u.idx, u.txnum) s2.p.u = some u.value :=
    alookup_of_mem_nodup r2.uKeys ((r2.uRows _).mpr ⟨u, h2, rfl⟩)
  rw [lookupUtxoSplit, lookupHashX_of_mem r1 h1, lookupValue_unfold, hl]
  simp only [r2.res u h2, bne_self_eq_false, Bool.and_false, Bool.false_eq_true, if_false]

/-- **The code before the fix** (`recheck = false`) is sound only if no tx number is reused in
between (`hnum`): `lookupUtxoSplit_reorg_hazard` in `EV/Props/C08lookup.lean` shows the failure. -/
theorem lookupUtxoSplit_orig_rows {s1 s2 : Sys} {V1 V2 : List Utxo} (r1 : RowsOf s1 V1)
    (r2 : RowsOf s2 V2) (hnum : ∀ a ∈ V1, ∀ b ∈ V2, a.txnum = b.txnum → a.txid = b.txid)
    (txid : Hash) (idx : Nat) :
    lookupUtxoSplit false s1 s2 txid idx = none ∨
      lookupUtxoSplit false s1 s2 txid idx = lookupIn V2 txid idx := by
  rw [lookupUtxoSplit]
  cases hph : lookupHashX s1 txid idx with
  | none => exact Or.inl rfl
  | some p =>
    obtain ⟨hx, n⟩ := p
    obtain ⟨x, hxV, hxt, hidx, rfl, rfl⟩ := lookupHashX_some_mem r1 hph
    rw [lookupValue_unfold]
    cases hl : alookup (x.hx, idx, x.txnum) s2.p.u with
    | none => exact Or.inl rfl
    | some v =>
      right
      obtain ⟨y, hy, hrow⟩ := (r2.uRows _).mp (alookup_some_mem hl)
      simp only [ukey, Prod.mk.injEq] at hrow
      obtain ⟨⟨g1, g2, g3⟩, g4⟩ := hrow
      have hyt : y.txid = txid := ((hnum x hxV y hy g3).symm).trans hxt
      have h2 := lookupIn_of_mem r2.nodup hy
      rw [hyt, ← g2] at h2
      simp only [Bool.false_and, Bool.false_eq_true, if_false]
      rw [h2, ← g1, ← g4]

/-! #### below the granularity of the model: the two reads of job 2 in different states

Job 2 of the fixed code reads the `u` row and then calls `fs_tx_hash`.  The model (like every other
reader in it) takes one job in one state.  `lookupValue2` splits job 2 once more: the `u` row read
in `sa`, the re-check in `sb`. -/

def lookupValue2 (sa sb : Sys) (txid : Hash) (idx : Nat) :
    Option (HashX × Nat) → Option (HashX × Nat)
  | none => none
  | some (hx, n) =>
    match alookup (hx, idx, n) sa.p.u with
    | none => none
    | some v => if resolve sb n != some txid then none else some (hx, v)

theorem lookupValue2_self (s : Sys) (txid : Hash) (idx : Nat) (ph : Option (HashX × Nat)) :
    lookupValue2 s s txid idx ph = lookupValue true s txid idx ph := by
  cases ph with
  | none => rfl
  | some p =>
    obtain ⟨hx, n⟩ := p
    simp only [lookupValue2, lookupValue_unfold, Bool.true_and]

/-- the get in `sa`, the re-check in `sb`: still sound if a tx number that resolves in `sb` means
    the same transaction as in the rows of `sa` (`hres`: nothing backed out and re-advanced below
    it between the two statements) — whatever job 1 handed over -/
theorem lookupValue2_rows {sa sb : Sys} {Va : List Utxo} (ra : RowsOf sa Va)
    (hres : ∀ y ∈ Va, ∀ t, resolve sb y.txnum = some t → t = y.txid)
    (txid : Hash) (idx : Nat) (ph : Option (HashX × Nat)) :
    lookupValue2 sa sb txid idx ph = none ∨ lookupValue2 sa sb txid idx ph = lookupIn Va txid idx := by
  cases ph with
  | none => exact Or.inl rfl
  | some p =>
    obtain ⟨hx, n⟩ := p
    simp only [lookupValue2]
    cases hl : alookup (hx, idx, n) sa.p.u with
    | none => exact Or.inl rfl
    | some v =>
      by_cases hr : resolve sb n = some txid
      · right
        obtain ⟨y, hy, hrow⟩ := (ra.uRows _).mp (alookup_some_mem hl)
        simp only [ukey, Prod.mk.injEq] at hrow
        obtain ⟨⟨g1, g2, g3⟩, g4⟩ := hrow
        have hyt : y.txid = txid := by
          have := hres y hy txid (by rw [← g3]; exact hr)
          exact this.symm
        have h2 := lookupIn_of_mem ra.nodup hy
        rw [hyt, ← g2] at h2
        simp only [hr, bne_self_eq_false, Bool.false_eq_true, if_false]
        rw [h2, ← g1, ← g4]
      · left
        have : (resolve sb n != some txid) = true := by simpa using hr
        simp only [this, if_true]

/-- the txid of a UTXO of a prefix of `c` is `c`'s transaction with that tx number -/
theorem spec_txid_of_prefix (act : Nat) {c' c : List Block} (hp : c' <+: c) :
    ∀ u ∈ (specChain act c').utxos, u.txid = (allTxids c).getD u.txnum 0 := by
  intro u hu
  have hu' := (specOK_chain act c').utxoTx u hu
  obtain ⟨hid, -⟩ := spec_height_eq_bisect act c' hu'
  have hlt : u.txnum < (allTxids c').length := by
    rw [← specChain_txs_length act]
    exact (List.getElem?_eq_some_iff.mp hu').1
  have htake : c' = c.take c'.length := by
    obtain ⟨suf, rfl⟩ := hp
    simp
  rw [hid]
  rw [htake] at hlt ⊢
  rw [allTxids_take_getD c _ hlt]

/-- UTXOs of two prefixes of one chain: equal tx numbers name the same transaction -/
theorem txnum_txid_of_prefixes (act : Nat) {c1 c2 c : List Block} (h1 : c1 <+: c) (h2 : c2 <+: c) :
    ∀ a ∈ (specChain act c1).utxos, ∀ b ∈ (specChain act c2).utxos, a.txnum = b.txnum →
      a.txid = b.txid := by
  intro a ha b hb hab
  rw [spec_txid_of_prefix act h1 a ha, spec_txid_of_prefix act h2 b hb, hab]

/-- what a tx number resolves to in a state whose committed chain is a prefix of `c` -/
theorem resolve_of_prefix {chain c : List Block} {s : Sys} (f : FilesInv chain s)
    (hp : chain.take (s.m.dbst.height + 1).toNat <+: c) {n : Nat} {t : Hash}
    (h : resolve s n = some t) : t = (allTxids c).getD n 0 := by
  have hlt := resolve_some_lt f h
  rw [resolve_some_eq f h, ← allTxids_take_getD chain _ hlt]
  have htake : chain.take (s.m.dbst.height + 1).toNat =
      c.take (chain.take (s.m.dbst.height + 1).toNat).length := by
    obtain ⟨suf, hs⟩ := hp
    rw [← hs]
    simp
  rw [htake] at hlt ⊢
  rw [allTxids_take_getD c _ hlt]

end EV.Index

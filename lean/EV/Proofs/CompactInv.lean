import EV.Proofs.CompactBatch

/-!
The invariant carried through compaction batches (`SInv`), and its preservation by one
`_compact_history` call (`batch_inv`).  Core only.
-/
namespace EV.Compact
open EV.Index

/-- the ordering hypothesis: rows of hashXs whose prefix is below the compaction cursor carry ids up
    to `comp_flush_count`, all others ids up to `flush_count` (so that the *next* id used for such a
    hashX - by a later batch resp. by `History.flush` - is beyond every existing one) -/
def IdsOrdered (hist : List Row) (F : Nat) (cfc cursor : Int) : Prop :=
  ∀ e ∈ hist, if (prefixOf e.1.1 : Int) < cursor then (e.1.2 : Int) ≤ cfc else e.1.2 ≤ F

/-- hashXs are 11 bytes -/
def HxWidth (hist : List Row) : Prop := ∀ e ∈ hist, e.1.1 < 2 ^ 88

theorem prefix_lt_of_width {hx : HashX} (h : hx < 2 ^ 88) : prefixOf hx < 65536 := by
  unfold prefixOf
  apply Nat.div_lt_of_lt_mul
  have : (2 : Nat) ^ 72 * 65536 = 2 ^ 88 := by decide
  rw [this]; exact h

/-- number of rows the history of `hx` occupies once compacted -/
def nchunks (maxRow : Nat) (p : Store) (hx : HashX) : Nat := (chunks maxRow (getTxnums p hx none)).length

theorem callRows_eq_nchunks (maxRow : Nat) (p : Store) (c : Call) (h : c.2 = rowsOf p.hist c.1) :
    callRows maxRow c = nchunks maxRow p c.1 := by
  unfold callRows nchunks chunksOf fullHist
  rw [h, getTxnums_eq]

/-- compacted hashXs occupy exactly the ids `0 … n-1` -/
def IdsTight (maxRow : Nat) (p : Store) (cursor : Int) : Prop :=
  ∀ e ∈ p.hist, (prefixOf e.1.1 : Int) < cursor → e.1.2 < nchunks maxRow p e.1.1

/-- `comp_flush_count` is never larger than it has to be -/
def CfcTight (maxRow : Nat) (p : Store) (cfc : Int) : Prop :=
  cfc ≤ 1 ∨ ∃ hx, cfc = ((nchunks maxRow p hx - 1 : Nat) : Int)

/-- what holds between any two batches of a compaction process -/
structure SInv (maxRow : Nat) (s : Sys) : Prop where
  nodup : NodupKeys s.p.hist
  width : HxWidth s.p.hist
  ordered : IdsOrdered s.p.hist s.m.histFlush s.m.compFlush s.m.compCursor
  tight : IdsTight maxRow s.p s.m.compCursor
  cfcTight : CfcTight maxRow s.p s.m.compFlush

theorem flushCompaction_final (m : Mem) (cursor : Int) (acc : CAcc) (h : cursor = 65536) :
    (flushCompaction m cursor acc).2 =
      { m with histFlush := acc.cfc.toNat, compFlush := -1, compCursor := -1 } := by
  unfold flushCompaction; rw [if_pos h]

theorem flushCompaction_more (m : Mem) (cursor : Int) (acc : CAcc) (h : cursor ≠ 65536) :
    (flushCompaction m cursor acc).2 = { m with compFlush := acc.cfc, compCursor := cursor } := by
  unfold flushCompaction; rw [if_neg h]

theorem batchStore_ustate (maxRow : Nat) (p : Store) (calls : List Call) (st : HState) :
    (batchStore maxRow p calls st).ustate = p.ustate := rfl

theorem batchStore_hstate (maxRow : Nat) (p : Store) (calls : List Call) (st : HState) :
    (batchStore maxRow p calls st).hstate = some st := rfl

/-- everything but the history table and its state record is untouched by a batch -/
def SameOther (p p' : Store) : Prop :=
  p'.h = p.h ∧ p'.u = p.u ∧ p'.undo = p.undo ∧ p'.ustate = p.ustate ∧ p'.headers = p.headers ∧
  p'.txcounts = p.txcounts ∧ p'.hashes = p.hashes

theorem batchStore_sameOther (maxRow : Nat) (p : Store) (calls : List Call) (st : HState) :
    SameOther p (batchStore maxRow p calls st) := ⟨rfl, rfl, rfl, rfl, rfl, rfl, rfl⟩

/-- **one batch**: histories unchanged for every hashX, invariant re-established -/
theorem batch_inv (maxRow limit : Nat) (hm : 0 < maxRow) (s : Sys) (e : Effect) (s' : Sys)
    (hI : SInv maxRow s) (h : compactHistory maxRow limit s = .ok (e, s')) :
    (∀ hx, getTxnums s'.p hx none = getTxnums s.p hx none) ∧ SInv maxRow s' ∧
    s'.p = applyEffect s.p e ∧ (∃ dels puts, e = .histBatch dels puts (hstateOf s'.m)) ∧
    s'.p.hstate = some (hstateOf s'.m) ∧ SameOther s.p s'.p ∧ s'.m.dbst = s.m.dbst ∧
    ((s'.m.histFlush = s.m.histFlush ∧ s'.m.compCursor ≠ -1 ∨ s.m.compCursor = -1 ∧ s'.m = s.m) ∨
      (s'.m.compCursor = -1 ∧ s'.m.compFlush = -1 ∧ CfcTight maxRow s.p s'.m.histFlush)) := by
  obtain ⟨k, cfc', k1, k2, hok, c1, c2, c3, c4, hmem, hp, he⟩ := compactHistory_ok maxRow limit s e s' hI.nodup h
  obtain ⟨hN, hA, hB⟩ := hist_after_batch maxRow s.p hI.nodup _ _ _ hok (hstateOf s'.m)
  have hsame : ∀ hx, getTxnums s'.p hx none = getTxnums s.p hx none := by
    intro hx; rw [hp]; exact getTxnums_after_batch maxRow hm s.p hI.nodup _ _ _ hok _ hx
  have hnch : ∀ hx, nchunks maxRow s'.p hx = nchunks maxRow s.p hx := by
    intro hx; unfold nchunks; rw [hsame]
  rw [← hp] at hN hA hB
  -- facts about a row of a hashX compacted in this batch
  have hcalled : ∀ e ∈ s'.p.hist, e.1.1 ∈ (callsRange s.p k s.m.compCursor.toNat).map (·.1) →
      (e.1.2 : Int) ≤ cfc' ∧ e.1.2 < nchunks maxRow s.p e.1.1 ∧ e.1.1 < 2 ^ 88 ∧
      0 ≤ s.m.compCursor ∧ s.m.compCursor ≤ (prefixOf e.1.1 : Int) ∧
      (prefixOf e.1.1 : Int) < s.m.compCursor + k := by
    intro e he hc
    obtain ⟨c, hc, hce⟩ := List.mem_map.mp hc
    have hb := newRows_bounds ((hA c hc e hce.symm).mp he)
    obtain ⟨r1, r2, r3, r4⟩ := hok.rows c hc
    have hcr := callRows_eq_nchunks maxRow s.p c r1
    have h4 := c2 c hc
    unfold callRows at hcr h4
    have hk : 0 < k := by omega
    have hc0 := k2 hk
    obtain ⟨e0, he0⟩ := List.exists_mem_of_ne_nil _ r2
    rw [r1] at he0
    have hw := hI.width e0 (mem_rowsOf.mp he0).1
    rw [(mem_rowsOf.mp he0).2] at hw
    rw [← hce]
    refine ⟨by omega, by omega, hw, hc0, by omega, by omega⟩
  -- facts about a row of any other hashX
  have hother : ∀ e ∈ s'.p.hist, e.1.1 ∉ (callsRange s.p k s.m.compCursor.toNat).map (·.1) →
      e ∈ s.p.hist ∧ ¬ ((s.m.compCursor.toNat : Int) ≤ prefixOf e.1.1 ∧
        (prefixOf e.1.1 : Int) < s.m.compCursor.toNat + k) := by
    intro e he hc
    have he0 := (hB e hc).mp he
    refine ⟨he0, ?_⟩
    rintro ⟨g1, g2⟩
    exact hc (hok.complete e he0 (by omega) (by omega))
  have hwidth : HxWidth s'.p.hist := by
    intro e he
    by_cases hc : e.1.1 ∈ (callsRange s.p k s.m.compCursor.toNat).map (·.1)
    · exact (hcalled e he hc).2.2.1
    · exact hI.width e (hother e he hc).1
  have hhs : s'.p.hstate = some (hstateOf s'.m) := by rw [hp]; rfl
  have hso : SameOther s.p s'.p := by rw [hp]; exact batchStore_sameOther _ _ _ _
  have hpe : s'.p = applyEffect s.p e := by
    unfold compactHistory at h
    split at h
    · cases h
    · simp only [Except.ok.injEq, Prod.mk.injEq] at h
      obtain ⟨rfl, rfl⟩ := h; rfl
  by_cases hfin : s.m.compCursor + k = 65536
  · -- the final batch
    have hm' := hmem
    rw [flushCompaction_final _ _ _ hfin] at hm'
    have hF : s'.m.histFlush = cfc'.toNat := by rw [hm']
    have hcf : s'.m.compFlush = -1 := by rw [hm']
    have hcc : s'.m.compCursor = -1 := by rw [hm']
    have hdb : s'.m.dbst = s.m.dbst := by rw [hm']
    refine ⟨hsame, ⟨hN, hwidth, ?_, ?_, ?_⟩, hpe, ?_, hhs, hso, hdb, Or.inr ⟨hcc, hcf, ?_⟩⟩
    · intro e he
      rw [hF, hcf, hcc]
      have hlt : ¬ ((prefixOf e.1.1 : Int) < -1) := by omega
      rw [if_neg hlt]
      by_cases hc : e.1.1 ∈ (callsRange s.p k s.m.compCursor.toNat).map (·.1)
      · have := (hcalled e he hc).1; omega
      · obtain ⟨he0, hr⟩ := hother e he hc
        have ho := hI.ordered e he0
        have hw := prefix_lt_of_width (hI.width e he0)
        have : (prefixOf e.1.1 : Int) < s.m.compCursor := by omega
        rw [if_pos this] at ho
        omega
    · intro e _ hlt; rw [hcc] at hlt; omega
    · left; rw [hcf]; omega
    · rw [he]; unfold flushCompaction; rw [if_pos hfin, hm']; exact ⟨_, _, rfl⟩
    · rw [hF]
      rcases c3 with c3 | ⟨c, hc, c3⟩
      · rcases hI.cfcTight with t | ⟨hx, t⟩
        · left; omega
        · right; exact ⟨hx, by omega⟩
      · right
        refine ⟨c.1, ?_⟩
        rw [← callRows_eq_nchunks maxRow s.p c (hok.rows c hc).1]; omega
  · -- any other batch
    have hm' := hmem
    rw [flushCompaction_more _ _ _ hfin] at hm'
    have hF : s'.m.histFlush = s.m.histFlush := by rw [hm']
    have hcf : s'.m.compFlush = cfc' := by rw [hm']
    have hcc : s'.m.compCursor = s.m.compCursor + k := by rw [hm']
    have hdb : s'.m.dbst = s.m.dbst := by rw [hm']
    refine ⟨hsame, ⟨hN, hwidth, ?_, ?_, ?_⟩, hpe, ?_, hhs, hso, hdb, Or.inl ?_⟩
    · intro e he
      rw [hF, hcf, hcc]
      by_cases hc : e.1.1 ∈ (callsRange s.p k s.m.compCursor.toNat).map (·.1)
      · obtain ⟨g1, _, _, g4, g5, g6⟩ := hcalled e he hc
        rw [if_pos g6]; exact g1
      · obtain ⟨he0, hr⟩ := hother e he hc
        have ho := hI.ordered e he0
        split
        · next hlt =>
          have : (prefixOf e.1.1 : Int) < s.m.compCursor := by
            by_cases hk : 0 < k
            · have := k2 hk; omega
            · omega
          rw [if_pos this] at ho; omega
        · next hlt =>
          have : ¬ (prefixOf e.1.1 : Int) < s.m.compCursor := by omega
          rw [if_neg this] at ho; exact ho
    · intro e he hlt
      rw [hcc] at hlt
      rw [hnch]
      by_cases hc : e.1.1 ∈ (callsRange s.p k s.m.compCursor.toNat).map (·.1)
      · exact (hcalled e he hc).2.1
      · obtain ⟨he0, hr⟩ := hother e he hc
        apply hI.tight e he0
        by_cases hk : 0 < k
        · have := k2 hk; omega
        · omega
    · rw [hcf]
      rcases c3 with c3 | ⟨c, hc, c3⟩
      · rcases hI.cfcTight with t | ⟨hx, t⟩
        · left; omega
        · right; exact ⟨hx, by rw [hnch]; omega⟩
      · right
        refine ⟨c.1, ?_⟩
        rw [hnch, ← callRows_eq_nchunks maxRow s.p c (hok.rows c hc).1]; exact c3
    · rw [he]; unfold flushCompaction; rw [if_neg hfin, hm']; exact ⟨_, _, rfl⟩
    · by_cases hneg : s.m.compCursor = -1
      · right
        refine ⟨hneg, ?_⟩
        have hk0 : k = 0 := by
          by_cases hk : 0 < k
          · have := k2 hk; omega
          · omega
        subst hk0
        rw [hm']
        have : cfc' = s.m.compFlush := by
          rcases c3 with c3 | ⟨c, hc, _⟩
          · exact c3
          · simp [callsRange] at hc
        rw [this]
        simp
      · left
        refine ⟨hF, ?_⟩
        rw [hcc]
        by_cases hk : 0 < k
        · have := k2 hk; omega
        · omega

end EV.Compact

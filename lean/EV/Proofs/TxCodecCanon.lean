import EV.Proofs.TxCodecTrunc

/-! `serialize ∘ read = id` on buffers whose varints are minimal, and: every parsed transaction is
in range of the packers (so `Tx.serialize` does not raise on it). -/
namespace EV.TxCodec

theorem BytesOK_slice {buf : Bytes} (h : BytesOK buf) (a b : Nat) : BytesOK (slice buf a b) :=
  fun x hx => h x (List.mem_of_mem_drop (List.mem_of_mem_take hx))

theorem slice_append (buf : Bytes) {a m b : Nat} (h1 : a ≤ m) (h2 : m ≤ b) :
    slice buf a b = slice buf a m ++ slice buf m b := by
  unfold slice
  have : b - a = (m - a) + (b - m) := by omega
  rw [this, List.take_add, List.drop_drop]
  congr 3; omega

theorem slice_one {buf : Bytes} {c m : Nat} (h : buf[c]? = some m) : slice buf c (c + 1) = [m] := by
  unfold slice
  have hc : c < buf.length := by
    rcases Nat.lt_or_ge c buf.length with h2 | h2
    · exact h2
    · rw [List.getElem?_eq_none h2] at h; cases h
  rw [List.getElem?_eq_getElem hc] at h
  simp only [Option.some.injEq] at h
  rw [Nat.add_sub_cancel_left, List.drop_eq_getElem_cons hc, h]
  simp

theorem getElem?_lt {buf : Bytes} (h : BytesOK buf) {c m : Nat} (hm : buf[c]? = some m) : m < 256 :=
  h m (List.mem_of_getElem? hm)

/-! ### fixed-width fields -/

theorem readLeU_ser {w : Nat} {buf : Bytes} {c v e : Nat} (h : readLeU w buf c = .ok (v, e))
    (hb : BytesOK buf) : leBytes w v = slice buf c e ∧ v < 256 ^ w := by
  obtain ⟨rfl, h2, rfl⟩ := readLeU_inv h
  have hl : (slice buf c (c + w)).length = w := by rw [slice_length _ _ _ h2]; omega
  have hs := BytesOK_slice hb c (c + w)
  have := leBytes_leNat _ hs
  have h3 := leNat_lt _ hs
  rw [hl] at this h3
  exact ⟨this, h3⟩

theorem i32ToNat_natToI32 (m : Nat) (h : m < 4294967296) : i32ToNat (natToI32 m) = m := by
  unfold natToI32 i32ToNat; split <;> omega

theorem i64ToNat_natToI64 (m : Nat) (h : m < 18446744073709551616) : i64ToNat (natToI64 m) = m := by
  unfold natToI64 i64ToNat; split <;> omega

theorem natToI32_range (m : Nat) (h : m < 4294967296) :
    -2147483648 ≤ natToI32 m ∧ natToI32 m < 2147483648 := by
  unfold natToI32; split <;> omega

theorem natToI64_range (m : Nat) (h : m < 18446744073709551616) :
    -9223372036854775808 ≤ natToI64 m ∧ natToI64 m < 9223372036854775808 := by
  unfold natToI64; split <;> omega

theorem readLeI32_ser {buf : Bytes} {c : Nat} {v : Int} {e : Nat} (h : readLeI32 buf c = .ok (v, e))
    (hb : BytesOK buf) :
    leBytes 4 (i32ToNat v) = slice buf c e ∧ -2147483648 ≤ v ∧ v < 2147483648 := by
  obtain ⟨rfl, h2, rfl⟩ := readLeI32_inv h
  have hl : (slice buf c (c + 4)).length = 4 := by rw [slice_length _ _ _ h2]; omega
  have hs := BytesOK_slice hb c (c + 4)
  have h3 := leBytes_leNat _ hs
  have h4 := leNat_lt _ hs
  rw [hl] at h3 h4
  have h5 : leNat (slice buf c (c + 4)) < 4294967296 := by omega
  rw [i32ToNat_natToI32 _ h5]
  exact ⟨h3, natToI32_range _ h5⟩

theorem readLeI64_ser {buf : Bytes} {c : Nat} {v : Int} {e : Nat} (h : readLeI64 buf c = .ok (v, e))
    (hb : BytesOK buf) :
    leBytes 8 (i64ToNat v) = slice buf c e ∧ -9223372036854775808 ≤ v ∧ v < 9223372036854775808 := by
  obtain ⟨rfl, h2, rfl⟩ := readLeI64_inv h
  have hl : (slice buf c (c + 8)).length = 8 := by rw [slice_length _ _ _ h2]; omega
  have hs := BytesOK_slice hb c (c + 8)
  have h3 := leBytes_leNat _ hs
  have h4 := leNat_lt _ hs
  rw [hl] at h3 h4
  have h5 : leNat (slice buf c (c + 8)) < 18446744073709551616 := by omega
  rw [i64ToNat_natToI64 _ h5]
  exact ⟨h3, natToI64_range _ h5⟩

/-! ### varints -/

theorem readVarint_lt {buf : Bytes} {c n e : Nat} (h : readVarint buf c = .ok (n, e)) (hb : BytesOK buf) :
    n < 18446744073709551616 := by
  obtain ⟨m, hm, hcases⟩ := readVarint_inv h
  have := getElem?_lt hb hm
  rcases hcases with ⟨_, rfl, _⟩ | ⟨_, h2⟩ | ⟨_, h2⟩ | ⟨_, h2⟩
  · omega
  all_goals (have := (readLeU_ser h2 hb).2; omega)

theorem packVarint_length_eq (n : Nat) :
    ((packVarint n).length = 1 ↔ n < 253) ∧
    ((packVarint n).length = 3 ↔ 253 ≤ n ∧ n < 65536) ∧
    ((packVarint n).length = 5 ↔ 65536 ≤ n ∧ n < 4294967296) ∧
    ((packVarint n).length = 9 ↔ 4294967296 ≤ n) := by
  rw [packVarint_length]
  split
  · omega
  · split
    · omega
    · split <;> omega

theorem readVarint_ser {buf : Bytes} {c n e : Nat} (h : readVarint buf c = .ok (n, e)) (hb : BytesOK buf)
    (hc : canonVarintAt buf c = true) : packVarint n = slice buf c e := by
  obtain ⟨m, hm, hcases⟩ := readVarint_inv h
  have hm256 := getElem?_lt hb hm
  have hone := slice_one hm
  simp only [canonVarintAt, h, decide_eq_true_eq] at hc
  obtain ⟨q1, q3, q5, q9⟩ := packVarint_length_eq n
  rcases hcases with ⟨h1, rfl, rfl⟩ | ⟨rfl, h2⟩ | ⟨rfl, h2⟩ | ⟨h1, h2⟩
  · rw [hone]; unfold packVarint; rw [if_pos h1]
  · obtain ⟨h3, _⟩ := readLeU_ser h2 hb
    obtain ⟨rfl, _, _⟩ := readLeU_inv h2
    have hn : ¬ n < 253 ∧ n < 65536 := by
      have := q3.mp (by omega); omega
    unfold packVarint
    rw [if_neg hn.1, if_pos hn.2, slice_append buf (by omega : c ≤ c + 1) (by omega), hone, h3]
    rfl
  · obtain ⟨h3, _⟩ := readLeU_ser h2 hb
    obtain ⟨rfl, _, _⟩ := readLeU_inv h2
    have hn : ¬ n < 253 ∧ ¬ n < 65536 ∧ n < 4294967296 := by
      have := q5.mp (by omega); omega
    unfold packVarint
    rw [if_neg hn.1, if_neg hn.2.1, if_pos hn.2.2, slice_append buf (by omega : c ≤ c + 1) (by omega), hone, h3]
    rfl
  · obtain ⟨h3, _⟩ := readLeU_ser h2 hb
    obtain ⟨rfl, _, _⟩ := readLeU_inv h2
    have hm255 : m = 255 := by omega
    subst hm255
    have hn : ¬ n < 253 ∧ ¬ n < 65536 ∧ ¬ n < 4294967296 := by
      have := q9.mp (by omega); omega
    unfold packVarint
    rw [if_neg hn.1, if_neg hn.2.1, if_neg hn.2.2, slice_append buf (by omega : c ≤ c + 1) (by omega), hone, h3]
    rfl

theorem readVarbytes_ser {buf : Bytes} {c : Nat} {s : Bytes} {e : Nat} (h : readVarbytes buf c = .ok (s, e))
    (hb : BytesOK buf) (hc : canonVarintAt buf c = true) (he : e ≤ buf.length) :
    packVarint s.length ++ s = slice buf c e ∧ s.length < 18446744073709551616 := by
  obtain ⟨n, c1, h1, rfl, rfl⟩ := readVarbytes_inv h
  have hbd := readVarint_bounds h1
  have hl : (slice buf c1 (c1 + n)).length = n := by rw [slice_length _ _ _ he]; omega
  rw [hl, readVarint_ser h1 hb hc, ← slice_append buf (by omega) (by omega)]
  exact ⟨rfl, readVarint_lt h1 hb⟩

/-! ### inputs, outputs, lists -/

theorem readInput_ser {buf : Bytes} {c : Nat} {i : TxIn} {e : Nat} (h : readInput buf c = .ok (i, e))
    (hb : BytesOK buf) (hc : canonInput buf c = true) (_he : e ≤ buf.length) :
    serIn i = slice buf c e ∧ WfIn i := by
  obtain ⟨c2, h1, h2, h3, h4⟩ := readInput_inv h
  have m2 := readVarbytes_mono _ _ _ _ h2
  obtain ⟨e3, l3, _⟩ := readLeU_inv h3
  obtain ⟨s1, r1⟩ := readLeU_ser h1 hb
  obtain ⟨s2, r2⟩ := readVarbytes_ser h2 hb hc (by omega)
  obtain ⟨s3, r3⟩ := readLeU_ser h3 hb
  have hl : i.prevHash.length = 32 := by rw [h4, slice_length _ _ _ (by omega)]; omega
  refine ⟨?_, hl, (inRangeIn_iff i).mpr ⟨by omega, r2, by omega⟩⟩
  unfold serIn
  rw [s1, s2, s3, h4, ← slice_append buf (by omega) (by omega), ← slice_append buf (by omega) (by omega),
    ← slice_append buf (by omega) (by omega)]

theorem readOutput_ser {buf : Bytes} {c : Nat} {o : TxOut} {e : Nat} (h : readOutput buf c = .ok (o, e))
    (hb : BytesOK buf) (hc : canonOutput buf c = true) (he : e ≤ buf.length) :
    serOut o = slice buf c e ∧ WfOut o := by
  obtain ⟨h1, h2⟩ := readOutput_inv h
  have m2 := readVarbytes_mono _ _ _ _ h2
  obtain ⟨s1, r1, r1'⟩ := readLeI64_ser h1 hb
  obtain ⟨s2, r2⟩ := readVarbytes_ser h2 hb hc he
  refine ⟨?_, (inRangeOut_iff o).mpr ⟨r1, r1', r2⟩⟩
  unfold serOut
  rw [s1, s2, ← slice_append buf (by omega) (by omega)]

theorem slice_self (buf : Bytes) (c : Nat) : slice buf c c = [] := by simp [slice]

theorem readItems_ser {α : Type} {reader : Bytes → Nat → Except PyExc (α × Nat)} {ser : α → Bytes}
    {canon1 : Bytes → Nat → Bool} {Wf : α → Prop} (hm : Mono reader) {buf : Bytes}
    (h1 : ∀ c x e, reader buf c = .ok (x, e) → canon1 buf c = true → e ≤ buf.length →
      ser x = slice buf c e ∧ Wf x) (k : Nat) :
    ∀ (c : Nat) (xs : List α) (e : Nat), readItems reader buf k c = .ok (xs, e) →
      canonItems reader canon1 buf k c = true → e ≤ buf.length →
      (xs.map ser).flatten = slice buf c e ∧ xs.length = k ∧ ∀ x ∈ xs, Wf x := by
  induction k with
  | zero =>
    intro c xs e h _ _
    simp only [readItems, Except.ok.injEq, Prod.mk.injEq] at h
    obtain ⟨rfl, rfl⟩ := h
    simp [slice_self]
  | succ k ih =>
    intro c ys e h hc he
    obtain ⟨x, xs, c1, rfl, e1, e2⟩ := readItems_succ_inv h
    have m1 := hm _ _ _ _ e1
    have m2 := readItems_mono hm _ _ _ _ _ e2
    simp only [canonItems, e1, Bool.and_eq_true] at hc
    obtain ⟨s1, w1⟩ := h1 c x c1 e1 hc.1 (by omega)
    obtain ⟨s2, l2, w2⟩ := ih c1 xs e e2 hc.2 he
    refine ⟨?_, by simp [l2], ?_⟩
    · simp only [List.map_cons, List.flatten_cons, s1, s2]
      rw [← slice_append buf m1 m2]
    · intro y hy
      rcases List.mem_cons.mp hy with rfl | hy
      · exact w1
      · exact w2 y hy

theorem readMany_ser {α : Type} {reader : Bytes → Nat → Except PyExc (α × Nat)} {ser : α → Bytes}
    {canon1 : Bytes → Nat → Bool} {Wf : α → Prop} (hm : Mono reader) {buf : Bytes} (hb : BytesOK buf)
    (h1 : ∀ c x e, reader buf c = .ok (x, e) → canon1 buf c = true → e ≤ buf.length →
      ser x = slice buf c e ∧ Wf x)
    {c : Nat} {xs : List α} {e : Nat} (h : readMany reader buf c = .ok (xs, e))
    (hc : canonMany reader canon1 buf c = true) (he : e ≤ buf.length) :
    packVarint xs.length ++ (xs.map ser).flatten = slice buf c e ∧
      xs.length < 18446744073709551616 ∧ ∀ x ∈ xs, Wf x := by
  obtain ⟨n, c1, e1, e2⟩ := readMany_inv h
  have hbd := readVarint_bounds e1
  have m2 := readItems_mono hm _ _ _ _ _ e2
  simp only [canonMany, e1, Bool.and_eq_true] at hc
  obtain ⟨s2, l2, w2⟩ := readItems_ser hm h1 n c1 xs e e2 hc.2 he
  have s1 := readVarint_ser e1 hb hc.1
  have := readVarint_lt e1 hb
  refine ⟨?_, by omega, w2⟩
  rw [l2, s1, s2, ← slice_append buf (by omega) m2]

/-- **serialize_read.**  If `read_tx(buf, c)` succeeds on a buffer of bytes all of whose varints on
    the parse path are minimal, then the parsed transaction is in range of every packer and its
    serialisation is exactly `buf[c:e]`. -/
theorem readTx_ser {buf : Bytes} {c : Nat} {t : Tx} {e : Nat} (h : readTx buf c = .ok (t, e))
    (hb : BytesOK buf) (hc : canonTx buf c = true) : serializeRaw t = slice buf c e ∧ WfTx t := by
  obtain ⟨c2, c3, h1, h2, h3, h4⟩ := readTx_inv h
  have m2 := readMany_mono readInput_mono _ _ _ _ h2
  have m3 := readMany_mono readOutput_mono _ _ _ _ h3
  obtain ⟨e4, l4, _⟩ := readLeU_inv h4
  simp only [canonTx, h2, Bool.and_eq_true] at hc
  obtain ⟨s1, r1, r1'⟩ := readLeI32_ser h1 hb
  obtain ⟨s2, n2, w2⟩ := readMany_ser (ser := serIn) (Wf := WfIn) readInput_mono hb
    (fun c x e hx hcx he => readInput_ser hx hb hcx he) h2 hc.1 (by omega)
  obtain ⟨s3, n3, w3⟩ := readMany_ser (ser := serOut) (Wf := WfOut) readOutput_mono hb
    (fun c x e hx hcx he => readOutput_ser hx hb hcx he) h3 hc.2 (by omega)
  obtain ⟨s4, r4⟩ := readLeU_ser h4 hb
  refine ⟨?_, (inRange_iff t).mpr ⟨r1, r1', n2, fun i hi => (w2 i hi).2, n3, fun o ho => w3 o ho, by omega⟩,
    fun i hi => (w2 i hi).1⟩
  unfold serializeRaw
  rw [← List.append_assoc (packVarint t.outputs.length), ← List.append_assoc (packVarint t.inputs.length),
    s1, s2, s3, s4, ← slice_append buf (by omega) (by omega), ← slice_append buf (by omega) (by omega),
    ← slice_append buf (by omega) (by omega)]

end EV.TxCodec

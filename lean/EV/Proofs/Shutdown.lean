import EV.Model.Shutdown

namespace EV.Shutdown

/-- whoever runs a writer job holds the lock -/
def Inv (st : St) : Prop := ∀ t ∈ st.running, st.lock = some t

theorem inv_step {st st' : St} {e : Ev} (h : Inv st) (hs : step st e = some st') : Inv st' := by
  cases e with
  | acquire t =>
    simp only [step] at hs
    split at hs
    · next hl =>
      simp at hs; subst hs
      intro r hr
      have := h r hr
      simp [hl] at this
    · simp at hs
  | release t =>
    simp only [step] at hs
    split at hs
    · next hl =>
      simp at hs; subst hs
      intro r hr
      have := h r hr
      rw [hl.1] at this
      simp at this; subst this
      exact absurd hr hl.2
    · simp at hs
  | jobStart t =>
    simp only [step] at hs
    split at hs
    · next hl =>
      simp at hs; subst hs
      intro r hr
      simp only [List.mem_cons] at hr
      rcases hr with rfl | hr
      · exact hl.1
      · exact h r hr
    · simp at hs
  | jobEnd t =>
    simp only [step] at hs
    split at hs
    · simp at hs; subst hs
      intro r hr
      exact h r (List.mem_of_mem_erase hr)
    · simp at hs

/-- at most one writer job runs, and only one task can have any -/
theorem running_le_one {st : St} (h : Inv st) (hn : st.running.Nodup) : st.running.length ≤ 1 := by
  match hr : st.running with
  | [] => simp
  | [_] => simp
  | a :: b :: r =>
    exfalso
    have ha := h a (by simp [hr])
    have hb := h b (by simp [hr])
    rw [ha] at hb
    simp at hb
    rw [hr] at hn
    simp [hb] at hn

theorem nodup_step {st st' : St} {e : Ev} (hn : st.running.Nodup) (hs : step st e = some st') :
    st'.running.Nodup := by
  cases e with
  | acquire t => simp only [step] at hs; split at hs <;> simp at hs; subst hs; exact hn
  | release t => simp only [step] at hs; split at hs <;> simp at hs; subst hs; exact hn
  | jobStart t =>
    simp only [step] at hs
    split at hs
    · next hl => simp at hs; subst hs; exact List.nodup_cons.mpr ⟨hl.2, hn⟩
    · simp at hs
  | jobEnd t =>
    simp only [step] at hs
    split at hs
    · simp at hs; subst hs; exact hn.erase _
    · simp at hs

theorem run_inv {st st' : St} {es : List Ev} (h : Inv st) (hn : st.running.Nodup)
    (hr : run st es = some st') : Inv st' ∧ st'.running.Nodup := by
  induction es generalizing st with
  | nil => simp [run] at hr; subst hr; exact ⟨h, hn⟩
  | cons e es ih =>
    simp only [run] at hr
    split at hr
    · simp at hr
    · next st1 hs => exact ih (inv_step h hs) (nodup_step hn hs) hr

end EV.Shutdown

import EV.Proofs.CrashRecover
import EV.Proofs.IndexHist
import EV.Spec.Chain

/-!
# Crash layer, part 5: the cuts of `flush_backup` (C05)

* `backupFull_effects`: the effect list of a back-out is exactly `[history batch, UTXO batch]`, so
  its cuts are "nothing", "history batch only", "both".
* the machine-checked witness of finding F8 (`cx…`): two blocks whose coinbases pay script hash 7,
  block 1 backed out, crash between the two batches.
* `histBackup_idem`: `History.backup` run again on already-truncated rows changes no history.
-/
namespace EV.Index

theorem backupFull_effects {cfg : Cfg} {s : Sys} {b : Block} {es : List Effect} {s' : Sys}
    (h : backupFull cfg s b = .ok (es, s')) :
    ∃ e1 e2, es = [e1, e2] ∧ e1.isHistBatch = true ∧ e2.isUtxoBatch = true ∧
      s'.p = applyEffects s.p es := by
  unfold backupFull at h
  split at h
  · simp at h
  · split at h
    · simp at h
    · simp only at h
      split at h
      · simp at h
      · split at h
        · simp at h
        · split at h
          · simp at h
          · simp only [Except.ok.injEq, Prod.mk.injEq] at h
            obtain ⟨rfl, rfl⟩ := h
            exact ⟨_, _, rfl, rfl, rfl, rfl⟩

theorem tornPrefixes_of_histBatch {e : Effect} (h : e.isHistBatch = true) : tornPrefixes e = [] := by
  cases e <;> simp [Effect.isHistBatch] at h <;> rfl

theorem tornPrefixes_of_utxoBatch {e : Effect} (h : e.isUtxoBatch = true) : tornPrefixes e = [] := by
  cases e <;> simp [Effect.isUtxoBatch] at h <;> rfl

/-! ### `History.backup` twice -/

/-- Running `History.backup` again (same `tx_count`, a touched set contained in the first one) on a
    table the first run already truncated changes no history.  `s1`/`s2` are the systems of the two
    runs; only their history tables matter. -/
theorem histBackup_idem (s1 s2 : Sys) (T1 T2 : List HashX) (n : Nat)
    (hkeys : (s1.p.hist.map (·.1)).Nodup)
    (hasc : ∀ hx, (getTxnums s1.p hx none).Pairwise (· < ·))
    (h2 : s2.p.hist = (applyEffect s1.p (histBackupEffect s1 T1 n)).hist)
    (hsub : ∀ hx ∈ T2, hx ∈ T1) (hx : HashX) :
    getTxnums (applyEffect s2.p (histBackupEffect s2 T2 n)) hx none = getTxnums s2.p hx none := by
  have hg2 : ∀ hx, getTxnums s2.p hx none =
      getTxnums (applyEffect s1.p (histBackupEffect s1 T1 n)) hx none := by
    intro hx; simp only [getTxnums, h2]
  have hkeys2 : (s2.p.hist.map (·.1)).Nodup := by
    rw [h2]; exact nodup_keys_histBackup s1 T1 n hkeys
  have h1 := getTxnums_histBackup' s1 T1 n hkeys hx (hasc hx)
  have hasc2 : (getTxnums s2.p hx none).Pairwise (· < ·) := by
    rw [hg2, h1]
    split
    · exact (hasc hx).filter _
    · exact hasc hx
  rw [getTxnums_histBackup' s2 T2 n hkeys2 hx hasc2]
  split
  · next hin =>
    rw [hg2, h1, if_pos (hsub hx hin), List.filter_filter]
    simp
  · rfl

/-! ### the witness of F8 -/

def okSys : Except Err Sys → Option Sys
  | .ok s => some s
  | .error _ => none

/-- activation height 0, reorg limit 10; three blocks, each one coinbase paying script hash 7 -/
def cxCfg : Cfg := ⟨0, 10⟩
def cxGen : TxIn := ⟨0, 4294967295⟩
def cxB0 : Block := { hash := 10, prev := 0, header := 100, size := 1, txs := [{ id := 2^224, ins := [cxGen], outs := [⟨5, 7, .normal⟩] }] }
def cxB1 : Block := { hash := 11, prev := 10, header := 101, size := 1, txs := [{ id := 2^225, ins := [cxGen], outs := [⟨6, 7, .normal⟩] }] }
def cxB2 : Block := { hash := 12, prev := 11, header := 102, size := 1, txs := [{ id := 3 * 2^224, ins := [cxGen], outs := [⟨8, 7, .normal⟩] }] }

/-- blocks 0 and 1 indexed and fully flushed -/
def cxS : Sys :=
  { m := { st := { height := 1, txCount := 2, chainSize := 2, tip := 11, flushCount := 1, utxoCount := 2 },
           dbst := { height := 1, txCount := 2, chainSize := 2, tip := 11, flushCount := 1, utxoCount := 2 },
           fsHeight := 1, fsTxCount := 2, txCounts := [1, 2], histFlush := 1, touched := [7, 7] },
    p := { h := [((1, 0, 0), 7), ((2, 0, 1), 7)], u := [((7, 0, 0), 5), ((7, 0, 1), 6)],
           undo := [(1, []), (0, [])],
           ustate := some { height := 1, txCount := 2, chainSize := 2, tip := 11, flushCount := 1, utxoCount := 2 },
           hist := [((7, 1), [0, 1])], hstate := some { flushCount := 1 },
           headers := [100, 101], txcounts := [1, 2], hashes := [2^224, 2^225] } }

/-- blocks 0 and 1 indexed, nothing flushed yet -/
def cxS2 : Sys :=
  { m := { st := { height := 1, txCount := 2, chainSize := 2, tip := 11, utxoCount := 2 },
           txCounts := [1, 2],
           cache := [((2^225, 0), ⟨7, 1, 6⟩), ((2^224, 0), ⟨7, 0, 5⟩)],
           headersU := [100, 101], txHashesU := [[2^224], [2^225]], undoU := [([], 0), ([], 1)],
           unflushed := [(7, [0, 1])], touched := [7, 7] } }

theorem cx_advance :
    (okSys (advance cxCfg 1 {} cxB0)).bind (fun s => okSys (advance cxCfg 1 s cxB1)) = some cxS2 := by
  decide

theorem cx_flush : flush cxS2 true = .ok cxS := by
  simp [flush, flushDbs, cxS2, cxS, flushFsAsserts, flushFsEffects, histFlushEffect, sortByKey, hstateOf,
    utxoBatchEffect, applyEffects, applyEffect, ainsert, aerase, fileWrite, pfx]

/-- `flush_backup`'s two batches for block 1 -/
def cxE1 : Effect := .histBatch [] [((7, 1), [0])] { flushCount := 2 }
def cxE2 : Effect := .utxoBatch [.h (2, 0, 1), .u (7, 0, 1)] [] [] [] []
  (some { height := 0, txCount := 1, chainSize := 1, tip := 10, flushCount := 1, utxoCount := 1 })

theorem cx_backup : (match backupFull cxCfg cxS cxB1 with | .ok (es, _) => some es | .error _ => none) = some [cxE1, cxE2] := by
  simp [backupFull, cxS, cxB1, cxCfg, assertFlushed, backupTxs, spendOutputs, restoreInputs, sysOps, spendUtxo,
    spendFromDb, unspendable, alookup, histBackupEffect, histRowsDesc, histBackupOne, bisectLeft, hstateOf,
    utxoBatchEffect, cxE1, cxE2, pfx, cxGen, TxIn.isGen, List.eraseDups_cons]

/-- the store left by a crash between the two batches -/
def cxCut : Store := applyEffects cxS.p [cxE1]

/-- the restarted system: height 1, both UTXOs, history of 7 without tx 1 -/
def cxR : Sys :=
  { m := { st := { height := 1, txCount := 2, chainSize := 2, tip := 11, flushCount := 1, utxoCount := 2 },
           dbst := { height := 1, txCount := 2, chainSize := 2, tip := 11, flushCount := 1, utxoCount := 2 },
           fsHeight := 1, fsTxCount := 2, txCounts := [1, 2], histFlush := 1 },
    p := { cxS.p with hist := [((7, 1), [0])], hstate := some { flushCount := 1 } } }

theorem cx_recover : (recover cxCfg cxCut).map (·.2) = some cxR := by
  simp [recover, openDbs, openTxCounts, openStore_eq, openStore1, openState, openHistState, clearExcessEffect,
    undoAfterOpen, clearUndoKeys, cxCut, cxS, cxE1, cxR, cxCfg, applyEffects, applyEffect, ainsert, aerase,
    List.mergeSort]

theorem cx_hist : getTxnums cxR.p 7 none = [0] := by
  simp [getTxnums, cxR, cxS]

theorem cx_limited : limitedHistory cxR 7 none = some [(2^224, 0)] := by
  simp [limitedHistory, getTxnums, cxR, cxS, fsTxHash, bisectRight]

theorem cx_spec : EV.Spec.historyOf (EV.Spec.specChain 0 [cxB0, cxB1]) 7 = [0, 1] := by decide

theorem cx_utxos : allUtxos cxR 7 = some [⟨0, 0, 2^224, 0, 5⟩, ⟨1, 0, 2^225, 1, 6⟩] := by
  simp [allUtxos, cxR, cxS, fsTxHash, bisectRight]

theorem cx_noflush : flushDbs cxR true = some ([], cxR.m) := by
  simp [flushDbs, cxR, cxS, assertFlushed]

/-- old branch: block 2 arrives on top of block 1 -/
theorem cx_old : (((okSys (advance cxCfg 2 cxR cxB2)).bind (fun s => okSys (flush s true))).map
      (fun s => (s.m.dbst.height, getTxnums s.p 7 none))) = some (2, [0, 2]) := by
  simp [okSys, advance, advanceTxs, spendInputs, addOutputs, finishTx, addUnflushed, sysOps, cxR, cxS, cxB2, cxCfg,
    cxGen, TxIn.isGen, unspendable, flush, flushDbs, flushFsAsserts, flushFsEffects, histFlushEffect, sortByKey,
    hstateOf, utxoBatchEffect, applyEffects, applyEffect, ainsert, aerase, fileWrite, pfx, getTxnums,
    List.mergeSort, alookup, List.zipIdx, List.eraseDups_cons]

theorem cx_spec2 : EV.Spec.historyOf (EV.Spec.specChain 0 [cxB0, cxB1, cxB2]) 7 = [0, 1, 2] := by decide

/-- new branch: block 1 is backed out again on the restarted system; on this example the resulting
    store is identical to the one the uninterrupted back-out produces -/
theorem cx_new : (match backupFull cxCfg cxR cxB1, backupFull cxCfg cxS cxB1 with
      | .ok (_, a), .ok (_, b) => decide (a.p = b.p)
      | _, _ => false) = true := by
  simp [backupFull, cxS, cxR, cxB1, cxCfg, assertFlushed, backupTxs, spendOutputs, restoreInputs, sysOps, spendUtxo,
    spendFromDb, unspendable, alookup, histBackupEffect, histRowsDesc, histBackupOne, bisectLeft, hstateOf,
    utxoBatchEffect, pfx, cxGen, TxIn.isGen, List.eraseDups_cons, aerase, ainsert, applyEffects, applyEffect,
    applyDelKey]

end EV.Index

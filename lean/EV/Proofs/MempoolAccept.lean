import EV.Proofs.MempoolBasic

/-!
`_accept_transactions` under a sound environment: every step either defers (KeyError) or accepts
with the *true* funding pairs; never an IndexError; `MpInv` is preserved.  All the facts later
files need about one call are collected in `AcceptFacts`.
-/
namespace EV.Mempool

/-- transactions only name outputs that exist: if the parent is a known transaction, the output
    index is within its outputs.  (What makes the uncaught `IndexError` impossible.) -/
def Valid (W : Hash → Option RawTx) : Prop :=
  ∀ h t, W h = some t → ∀ p ∈ (mkTx t).prevouts, ∀ t', W p.1 = some t' → p.2 < t'.outs.length

/-- the daemon and the index may answer late, early or not at all, but never falsely -/
structure EnvSound (W : Hash → Option RawTx) (fetch : Hash → Option RawTx)
    (lookup : Nat → List Prevout → List (Option Pair)) : Prop where
  /-- a raw transaction delivered for hash `h` is the transaction with id `h` -/
  fetch : ∀ h t, fetch h = some t → W h = some t
  valid : Valid W
  /-- `lookup_utxos` answers `None` or the true `(hashX, value)` of that output -/
  lookup : ∀ k ps p pr, (p, some pr) ∈ List.zip ps (lookup k ps) → truePair W p = some pr

/-! ### resolve -/

theorem resolve_found {W : Hash → Option RawTx} {st : St} {um : UtxoMap} {p : Prevout} {pr : Pair}
    (hinv : MpInv W st) (hum : UmSound W um) (h : resolve st.txs um p = .found pr) :
    truePair W p = some pr := by
  unfold resolve at h
  split at h
  · rename_i pr' h1
    injection h with h; subst h
    exact hum _ _ (umGet_some_mem h1)
  · split at h
    · cases h
    · rename_i tx h2
      split at h
      · cases h
      · rename_i pr' h3
        injection h with h; subst h
        obtain ⟨t, g1, _, g3, _⟩ := hinv.true _ (dget_some_mem h2)
        simp only [truePair, g1]
        rw [← g3]; exact h3

theorem resolve_not_indexErr {W : Hash → Option RawTx} {st : St} {um : UtxoMap} {p : Prevout}
    (hinv : MpInv W st) (hv : ∀ t', W p.1 = some t' → p.2 < t'.outs.length) :
    resolve st.txs um p ≠ .indexErr := by
  unfold resolve
  split
  · intro h; cases h
  · split
    · intro h; cases h
    · rename_i tx h2
      split
      · rename_i h3
        exfalso
        obtain ⟨t, g1, _, g3, _⟩ := hinv.true _ (dget_some_mem h2)
        have := hv t g1
        have h4 : tx.outPairs[p.2]? ≠ none := by
          rw [g3]; intro h5
          have := List.getElem?_eq_none_iff.mp h5
          omega
        exact h4 h3
      · intro h; cases h

/-- a prevout whose funding is at hand resolves -/
theorem resolve_ready {W : Hash → Option RawTx} {st : St} {um : UtxoMap} {p : Prevout}
    (hinv : MpInv W st) (hv : ∀ t', W p.1 = some t' → p.2 < t'.outs.length)
    (hr : (∃ pr, umGet um p = some pr) ∨ p.1 ∈ st.txs.map (·.1)) :
    ∃ pr, resolve st.txs um p = .found pr := by
  cases h : resolve st.txs um p with
  | found pr => exact ⟨pr, rfl⟩
  | indexErr => exact absurd h (resolve_not_indexErr hinv hv)
  | keyErr =>
    exfalso
    unfold resolve at h
    split at h
    · cases h
    · rename_i h1
      split at h
      · rename_i h2
        rcases hr with ⟨pr, h3⟩ | h3
        · rw [h1] at h3; cases h3
        · exact dget_none_iff.mp h2 h3
      · split at h <;> cases h

theorem resolveAll_cases {W : Hash → Option RawTx} {st : St} {um : UtxoMap} (hinv : MpInv W st)
    (hum : UmSound W um) (ps : List Prevout)
    (hv : ∀ p ∈ ps, ∀ t', W p.1 = some t' → p.2 < t'.outs.length) :
    resolveAll st.txs um ps = .error .keyError ∨
      ∃ l, resolveAll st.txs um ps = .ok l ∧ l.map some = ps.map (truePair W) := by
  induction ps with
  | nil => exact Or.inr ⟨[], rfl, rfl⟩
  | cons p ps ih =>
    simp only [resolveAll]
    cases h : resolve st.txs um p with
    | keyErr => exact Or.inl rfl
    | indexErr => exact absurd h (resolve_not_indexErr hinv (hv p (by simp)))
    | found pr =>
      have htp := resolve_found hinv hum h
      rcases ih (fun p' hp' => hv p' (List.mem_cons_of_mem _ hp')) with h1 | ⟨l, h1, h2⟩
      · left; simp only [h1]
      · simp only [h1]
        exact Or.inr ⟨pr :: l, rfl, by simp [h2, htp]⟩

theorem resolveAll_ready {W : Hash → Option RawTx} {st : St} {um : UtxoMap} (hinv : MpInv W st)
    (ps : List Prevout)
    (hv : ∀ p ∈ ps, ∀ t', W p.1 = some t' → p.2 < t'.outs.length)
    (hr : ∀ p ∈ ps, (∃ pr, umGet um p = some pr) ∨ p.1 ∈ st.txs.map (·.1)) :
    ∃ l, resolveAll st.txs um ps = .ok l := by
  induction ps with
  | nil => exact ⟨[], rfl⟩
  | cons p ps ih =>
    simp only [resolveAll]
    obtain ⟨pr, h1⟩ := resolve_ready hinv (hv p (by simp)) (hr p (by simp))
    obtain ⟨l, h2⟩ := ih (fun p' hp' => hv p' (List.mem_cons_of_mem _ hp'))
      (fun p' hp' => hr p' (List.mem_cons_of_mem _ hp'))
    simp only [h1, h2]
    exact ⟨_, rfl⟩

/-! ### one acceptance -/

/-- the state after `txs[h] = tx; hashXs[...].add(h)` -/
def acceptInto (st : St) (h : Hash) (tx : MemPoolTx) : St :=
  { txs := dset st.txs h tx,
    hashXs := hxAddAll st.hashXs h ((tx.inPairs ++ tx.outPairs).map (·.1)) }

theorem mem_dset_true {W : Hash → Option RawTx} {st : St} {h : Hash} {tx : MemPoolTx}
    (hinv : MpInv W st) (ht : TrueTx W h tx) (e' : Hash × MemPoolTx) :
    e' ∈ dset st.txs h tx ↔ e' ∈ st.txs ∨ e' = (h, tx) := by
  obtain ⟨k', v'⟩ := e'
  rw [mem_dset hinv.txKeys]
  constructor
  · rintro (⟨h1, h2⟩ | ⟨_, h2⟩)
    · subst h1; subst h2; exact Or.inr rfl
    · exact Or.inl h2
  · rintro (h1 | h1)
    · by_cases hk : k' = h
      · subst hk
        exact Or.inl ⟨rfl, TrueTx_unique (hinv.true _ h1) ht⟩
      · exact Or.inr ⟨hk, h1⟩
    · injection h1 with h1 h2
      exact Or.inl ⟨h1, h2⟩

theorem MpInv_acceptInto {W : Hash → Option RawTx} {st : St} {h : Hash} {tx : MemPoolTx}
    (hinv : MpInv W st) (ht : TrueTx W h tx) : MpInv W (acceptInto st h tx) := by
  constructor
  · exact nodup_keys_dset h tx hinv.txKeys
  · exact HxWF_hxAddAll h hinv.wf
  · intro x h'
    simp only [acceptInto]
    rw [idx_hxAddAll, hinv.inverse]
    constructor
    · rintro (⟨tx', h1, h2⟩ | ⟨h1, h2⟩)
      · exact ⟨tx', (mem_dset_true hinv ht _).mpr (Or.inl h1), h2⟩
      · subst h1
        exact ⟨tx, (mem_dset_true hinv ht _).mpr (Or.inr rfl), mem_txHashXs.mpr h2⟩
    · rintro ⟨tx', h1, h2⟩
      rcases (mem_dset_true hinv ht _).mp h1 with h3 | h3
      · exact Or.inl ⟨tx', h3, h2⟩
      · injection h3 with h3 h4; subst h3; subst h4
        exact Or.inr ⟨rfl, mem_txHashXs.mp h2⟩
  · intro e' he'
    rcases (mem_dset_true hinv ht _).mp he' with h1 | h1
    · exact hinv.true _ h1
    · subst h1; exact ht

theorem TrueTx_accepted {W : Hash → Option RawTx} {e : Hash × MemPoolTx} {l : List Pair}
    (he : Fetched W e) (hl : l.map some = e.2.prevouts.map (truePair W)) :
    TrueTx W e.1 (accepted e.2 l) := by
  obtain ⟨t, h1, h2⟩ := he
  refine ⟨t, h1, ?_, ?_, ?_, ?_, rfl⟩
  · simp [accepted, h2]
  · simp [accepted, h2, mkTx]
  · simp [accepted, h2, mkTx]
  · simpa [accepted] using hl

/-- the accumulator after a deferral -/
def deferAcc (a : Acc) (e : Hash × MemPoolTx) : Acc :=
  { st := a.st, deferred := a.deferred ++ [e], spent := a.spent, touched := a.touched }

/-- the accumulator after an acceptance with funding pairs `l` -/
def acceptAcc (a : Acc) (e : Hash × MemPoolTx) (l : List Pair) : Acc :=
  { st := acceptInto a.st e.1 (accepted e.2 l), deferred := a.deferred,
    spent := a.spent ++ e.2.prevouts, touched := a.touched ++ (l ++ e.2.outPairs).map (·.1) }

theorem acceptStep_cases {W : Hash → Option RawTx} {um : UtxoMap} {a : Acc} {e : Hash × MemPoolTx}
    (hinv : MpInv W a.st) (hum : UmSound W um) (hval : Valid W) (he : Fetched W e) :
    (resolveAll a.st.txs um e.2.prevouts = .error .keyError ∧ acceptStep um a e = .ok (deferAcc a e)) ∨
    (∃ l, resolveAll a.st.txs um e.2.prevouts = .ok l ∧ TrueTx W e.1 (accepted e.2 l) ∧
      acceptStep um a e = .ok (acceptAcc a e l)) := by
  have hv : ∀ p ∈ e.2.prevouts, ∀ t', W p.1 = some t' → p.2 < t'.outs.length := by
    obtain ⟨t, h1, h2⟩ := he
    intro p hp
    rw [h2] at hp
    exact hval e.1 t h1 p hp
  rcases resolveAll_cases hinv hum e.2.prevouts hv with h1 | ⟨l, h1, h2⟩
  · left
    refine ⟨h1, ?_⟩
    simp only [acceptStep, h1, deferAcc]
  · right
    refine ⟨l, h1, TrueTx_accepted he h2, ?_⟩
    simp only [acceptStep, h1, acceptAcc, acceptInto, accepted]

/-! ### the whole loop -/

/-- a transaction all of whose inputs can be funded right now -/
def ReadyAt (um : UtxoMap) (st : St) (e : Hash × MemPoolTx) : Prop :=
  ∀ p ∈ e.2.prevouts, (∃ pr, umGet um p = some pr) ∨ p.1 ∈ st.txs.map (·.1)

/-- what one run of the `for tx_hash, tx in tx_map.items()` loop over `L` does -/
structure AcceptFacts (W : Hash → Option RawTx) (um : UtxoMap) (a : Acc) (L : TxMap) (a' : Acc)
    (D : TxMap) : Prop where
  inv : MpInv W a'.st
  /-- stored transactions stay, unchanged -/
  mono : ∀ e ∈ a.st.txs, e ∈ a'.st.txs
  newKeys : ∀ e' ∈ a'.st.txs, e' ∈ a.st.txs ∨ e'.1 ∈ L.map (·.1)
  touchedMono : ∀ x ∈ a.touched, x ∈ a'.touched
  /-- every newly stored transaction has all its hashXs in `touched` -/
  touchedNew : ∀ e' ∈ a'.st.txs, e' ∈ a.st.txs ∨ ∀ x ∈ txHashXs e'.2, x ∈ a'.touched
  deferredEq : a'.deferred = a.deferred ++ D
  sub : D.Sublist L
  /-- every transaction of the batch ends up stored or deferred -/
  cover : ∀ e ∈ L, e.1 ∈ a'.st.txs.map (·.1) ∨ e ∈ D
  /-- only prevouts of transactions that were *not* deferred are marked spent -/
  spent : (L.map (·.1)).Nodup →
    ∀ p ∈ a'.spent, p ∈ a.spent ∨ ∃ e ∈ L, p ∈ e.2.prevouts ∧ e.1 ∉ D.map (·.1)
  /-- a transaction that is ready when the loop starts is not deferred: the batch shrinks -/
  progress : (∃ e ∈ L, ReadyAt um a.st e) → D.length < L.length

theorem acceptLoop_facts {W : Hash → Option RawTx} {um : UtxoMap} (hum : UmSound W um)
    (hval : Valid W) (L : TxMap) :
    ∀ (a : Acc), MpInv W a.st → (∀ e ∈ L, Fetched W e) →
      ∃ a' D, acceptLoop um a L = .ok a' ∧ AcceptFacts W um a L a' D := by
  induction L with
  | nil =>
    intro a hinv _
    refine ⟨a, [], rfl, ?_⟩
    exact { inv := hinv, mono := fun _ h => h, newKeys := fun _ h => Or.inl h,
            touchedMono := fun _ h => h, touchedNew := fun _ h => Or.inl h,
            deferredEq := by simp, sub := List.Sublist.refl _, cover := by simp,
            spent := fun _ p hp => Or.inl hp,
            progress := by rintro ⟨e, he, _⟩; simp at he }
  | cons e rest ih =>
    intro a hinv hL
    have he := hL e (by simp)
    have hrest : ∀ e' ∈ rest, Fetched W e' := fun e' h => hL e' (List.mem_cons_of_mem _ h)
    rcases acceptStep_cases hinv hum hval he with ⟨hres, hstep⟩ | ⟨l, hres, htrue, hstep⟩
    · -- deferred
      obtain ⟨a', D, h1, F⟩ := ih (deferAcc a e) hinv hrest
      refine ⟨a', e :: D, ?_, ?_⟩
      · simp only [acceptLoop, hstep]; exact h1
      · exact {
          inv := F.inv
          mono := F.mono
          newKeys := fun e' h => (F.newKeys e' h).imp id (fun h2 => by simp [h2])
          touchedMono := F.touchedMono
          touchedNew := F.touchedNew
          deferredEq := by rw [F.deferredEq]; simp [deferAcc]
          sub := List.Sublist.cons_cons _ F.sub
          cover := by
            intro e' he'
            rcases List.mem_cons.mp he' with h2 | h2
            · subst h2; exact Or.inr (by simp)
            · exact (F.cover e' h2).imp id (fun h3 => List.mem_cons_of_mem _ h3)
          spent := by
            intro hn p hp
            simp only [List.map_cons, List.nodup_cons] at hn
            rcases F.spent hn.2 p hp with h2 | ⟨e2, h2, h3, h4⟩
            · exact Or.inl h2
            · refine Or.inr ⟨e2, List.mem_cons_of_mem _ h2, h3, ?_⟩
              simp only [List.map_cons, List.mem_cons, not_or]
              refine ⟨?_, h4⟩
              intro h5
              exact hn.1 (h5 ▸ List.mem_map.mpr ⟨e2, h2, rfl⟩)
          progress := by
            rintro ⟨e0, he0, hr0⟩
            have hnot : ¬ ReadyAt um a.st e := by
              intro hr
              have hv : ∀ p ∈ e.2.prevouts, ∀ t', W p.1 = some t' → p.2 < t'.outs.length := by
                obtain ⟨t, g1, g2⟩ := he
                intro p hp; rw [g2] at hp; exact hval e.1 t g1 p hp
              obtain ⟨l, h2⟩ := resolveAll_ready hinv e.2.prevouts hv hr
              rw [h2] at hres; cases hres
            rcases List.mem_cons.mp he0 with h2 | h2
            · subst h2; exact absurd hr0 hnot
            · have := F.progress ⟨e0, h2, hr0⟩
              simp only [List.length_cons]; omega }
    · -- accepted
      have hinv1 : MpInv W (acceptAcc a e l).st := MpInv_acceptInto hinv htrue
      obtain ⟨a', D, h1, F⟩ := ih (acceptAcc a e l) hinv1 hrest
      have hmem := mem_dset_true hinv htrue
      refine ⟨a', D, ?_, ?_⟩
      · simp only [acceptLoop, hstep]; exact h1
      · exact {
          inv := F.inv
          mono := fun e' h => F.mono e' ((hmem e').mpr (Or.inl h))
          newKeys := by
            intro e' h
            rcases F.newKeys e' h with h2 | h2
            · rcases (hmem e').mp h2 with h3 | h3
              · exact Or.inl h3
              · subst h3; exact Or.inr (by simp)
            · exact Or.inr (by simp [h2])
          touchedMono := fun x h => F.touchedMono x (by simp [acceptAcc, h])
          touchedNew := by
            intro e' h
            rcases F.touchedNew e' h with h2 | h2
            · rcases (hmem e').mp h2 with h3 | h3
              · exact Or.inl h3
              · subst h3
                refine Or.inr (fun x hx => F.touchedMono x ?_)
                have := mem_txHashXs.mp hx
                simp only [acceptAcc, List.mem_append]
                exact Or.inr (by simpa [accepted] using this)
            · exact Or.inr h2
          deferredEq := by rw [F.deferredEq]; simp [acceptAcc]
          sub := List.Sublist.cons _ F.sub
          cover := by
            intro e' he'
            rcases List.mem_cons.mp he' with h2 | h2
            · subst h2
              left
              have : (e'.1, accepted e'.2 l) ∈ a'.st.txs := F.mono _ ((hmem _).mpr (Or.inr rfl))
              exact List.mem_map.mpr ⟨_, this, rfl⟩
            · exact F.cover e' h2
          spent := by
            intro hn p hp
            simp only [List.map_cons, List.nodup_cons] at hn
            rcases F.spent hn.2 p hp with h2 | ⟨e2, h2, h3, h4⟩
            · simp only [acceptAcc, List.mem_append] at h2
              rcases h2 with h2 | h2
              · exact Or.inl h2
              · refine Or.inr ⟨e, by simp, h2, ?_⟩
                intro h5
                obtain ⟨e3, h6, h7⟩ := List.mem_map.mp h5
                exact hn.1 (h7 ▸ List.mem_map.mpr ⟨e3, F.sub.subset h6, rfl⟩)
            · exact Or.inr ⟨e2, List.mem_cons_of_mem _ h2, h3, h4⟩
          progress := by
            intro _
            have := F.sub.length_le
            simp only [List.length_cons]; omega }

/-- what one call of `_accept_transactions(tx_map, utxo_map, touched)` does -/
structure CallFacts (W : Hash → Option RawTx) (st : St) (L : TxMap) (um : UtxoMap)
    (touched : List HashX) (r : AcceptResult) : Prop where
  inv : MpInv W r.st
  mono : ∀ e ∈ st.txs, e ∈ r.st.txs
  newKeys : ∀ e' ∈ r.st.txs, e' ∈ st.txs ∨ e'.1 ∈ L.map (·.1)
  touchedMono : ∀ x ∈ touched, x ∈ r.touched
  touchedNew : ∀ e' ∈ r.st.txs, e' ∈ st.txs ∨ ∀ x ∈ txHashXs e'.2, x ∈ r.touched
  sub : r.deferred.Sublist L
  cover : ∀ e ∈ L, e.1 ∈ r.st.txs.map (·.1) ∨ e ∈ r.deferred
  /-- the returned map is a part of the given one … -/
  unspentSub : ∀ b ∈ r.unspent, b ∈ um
  /-- … that keeps every binding except those for prevouts of transactions accepted in this call -/
  unspentKeep : (L.map (·.1)).Nodup → ∀ b ∈ um,
    b ∈ r.unspent ∨ ∃ e ∈ L, b.1 ∈ e.2.prevouts ∧ e.1 ∉ r.deferred.map (·.1)
  progress : (∃ e ∈ L, ReadyAt um st e) → r.deferred.length < L.length

theorem acceptTransactions_facts {W : Hash → Option RawTx} {um : UtxoMap} (hum : UmSound W um)
    (hval : Valid W) {st : St} (hinv : MpInv W st) {L : TxMap} (hL : ∀ e ∈ L, Fetched W e)
    (touched : List HashX) :
    ∃ r, acceptTransactions st L um touched = .ok r ∧ CallFacts W st L um touched r := by
  obtain ⟨a', D, h1, F⟩ := acceptLoop_facts hum hval L
    { st := st, deferred := [], spent := [], touched := touched } hinv hL
  refine ⟨{ st := a'.st, deferred := a'.deferred,
            unspent := um.filter (fun e => !a'.spent.contains e.1), touched := a'.touched },
          by simp only [acceptTransactions, h1], ?_⟩
  have hD : a'.deferred = D := by simpa using F.deferredEq
  exact {
    inv := F.inv, mono := F.mono, newKeys := F.newKeys, touchedMono := F.touchedMono,
    touchedNew := F.touchedNew
    sub := by simp only [hD]; exact F.sub
    cover := by simp only [hD]; exact F.cover
    unspentSub := fun b hb => (List.mem_filter.mp hb).1
    unspentKeep := by
      intro hn b hb
      by_cases hs : b.1 ∈ a'.spent
      · rcases F.spent hn _ hs with h2 | h2
        · simp at h2
        · right; simp only [hD]; exact h2
      · left
        exact List.mem_filter.mpr ⟨hb, by simpa using hs⟩
    progress := by simp only [hD]; exact F.progress }

end EV.Mempool

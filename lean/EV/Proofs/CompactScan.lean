import EV.Proofs.CompactHashX

/-!
`_compact_prefix` and the prefix loop of `_compact_history` as a sequence of `_compact_hashX`
calls: which calls are made (`callsP`, `callsRange`), and - for a table without duplicate keys -
that every call gets exactly the rows of its hashX in flush-id order, no hashX is called twice and
no hashX of a scanned prefix is left out.  Core only.
-/
namespace EV.Compact
open EV.Index

abbrev Call := HashX × List Row

/-- the history rows among the scanned items -/
def histRows : List ScanItem → List Row
  | [] => []
  | .row r :: t => r :: histRows t
  | .other :: t => histRows t

/-- the `_compact_hashX` calls the loop of `_compact_prefix` makes -/
def callsP : List ScanItem → Option HashX → List Row → List Call
  | [], none, _ => []
  | [], some hx, pend => [(hx, pend)]
  | .other :: rest, prior, pend => callsP rest prior pend
  | .row r :: rest, none, pend => callsP rest (some r.1.1) (pend ++ [r])
  | .row r :: rest, some hx, pend =>
    if r.1.1 ≠ hx then (hx, pend) :: callsP rest (some r.1.1) [r]
    else callsP rest (some r.1.1) (pend ++ [r])

def foldCalls (maxRow : Nat) : List Call → CAcc → Except CErr CAcc
  | [], acc => .ok acc
  | c :: rest, acc =>
    match compactHashX maxRow c.1 c.2 acc with
    | .error e => .error e
    | .ok (acc', _) => foldCalls maxRow rest acc'

theorem foldCalls_append (maxRow : Nat) (a b : List Call) (acc : CAcc) :
    foldCalls maxRow (a ++ b) acc =
      match foldCalls maxRow a acc with
      | .error e => .error e
      | .ok acc' => foldCalls maxRow b acc' := by
  induction a generalizing acc with
  | nil => rfl
  | cons c cs ih =>
    simp only [List.cons_append, foldCalls]
    cases compactHashX maxRow c.1 c.2 acc with
    | error e => rfl
    | ok r => exact ih r.1

theorem prefixLoop_calls (maxRow : Nat) (items : List ScanItem) (prior : Option HashX) (pend : List Row)
    (acc : CAcc) (ws : Nat) (acc' : CAcc) (ws' : Nat)
    (h : prefixLoop maxRow items prior pend acc ws = .ok (acc', ws')) :
    foldCalls maxRow (callsP items prior pend) acc = .ok acc' := by
  induction items generalizing prior pend acc ws with
  | nil =>
    cases prior with
    | none =>
      simp only [prefixLoop, Except.ok.injEq, Prod.mk.injEq] at h
      simp [callsP, foldCalls, h.1]
    | some hx =>
      simp only [prefixLoop] at h
      simp only [callsP, foldCalls]
      cases hc : compactHashX maxRow hx pend acc with
      | error e => rw [hc] at h; cases h
      | ok r =>
        rw [hc] at h
        simp only [Except.ok.injEq, Prod.mk.injEq] at h
        simp [h.1]
  | cons it rest ih =>
    cases it with
    | other =>
      simp only [prefixLoop] at h
      simp only [callsP]
      exact ih _ _ _ _ h
    | row r =>
      cases prior with
      | none =>
        simp only [prefixLoop] at h
        simp only [callsP]
        exact ih _ _ _ _ h
      | some hx =>
        simp only [prefixLoop] at h
        simp only [callsP]
        split at h
        · next hne =>
          rw [if_pos hne]
          simp only [foldCalls]
          cases hc : compactHashX maxRow hx pend acc with
          | error e => rw [hc] at h; cases h
          | ok r' =>
            rw [hc] at h
            exact ih _ _ _ _ h
        · next hne =>
          rw [if_neg hne]
          exact ih _ _ _ _ h

/-- the calls made for the prefixes `c, c+1, …, c+k-1` -/
def callsRange (p : Store) : Nat → Nat → List Call
  | 0, _ => []
  | k + 1, c => callsP (scanPrefix p c) none [] ++ callsRange p k (c + 1)

theorem histLoop_calls (maxRow limit : Nat) (p : Store) (fuel : Nat) (cursor : Int) (acc : CAcc) (ws : Nat)
    (cursor' : Int) (acc' : CAcc) (ws' : Nat)
    (h : histLoop maxRow limit p fuel cursor acc ws = .ok (cursor', acc', ws')) :
    ∃ k : Nat, cursor' = cursor + k ∧ k ≤ fuel ∧ (0 < k → 0 ≤ cursor) ∧
      foldCalls maxRow (callsRange p k cursor.toNat) acc = .ok acc' := by
  induction fuel generalizing cursor acc ws with
  | zero =>
    simp only [histLoop, Except.ok.injEq, Prod.mk.injEq] at h
    exact ⟨0, by omega, Nat.le_refl _, by omega, by simp [callsRange, foldCalls, h.2.1]⟩
  | succ f ih =>
    simp only [histLoop] at h
    split at h
    · split at h
      · cases h
      · next hc0 =>
        cases hp : compactPrefix maxRow p cursor.toNat acc with
        | error e => rw [hp] at h; cases h
        | ok r =>
          rw [hp] at h
          obtain ⟨k, h1, h2, _, h4⟩ := ih _ _ _ h
          refine ⟨k + 1, by omega, by omega, by omega, ?_⟩
          simp only [callsRange]
          rw [foldCalls_append]
          unfold compactPrefix at hp
          rw [prefixLoop_calls _ _ _ _ _ _ _ _ hp]
          have : (cursor + 1).toNat = cursor.toNat + 1 := by omega
          rw [this] at h4
          exact h4
    · simp only [Except.ok.injEq, Prod.mk.injEq] at h
      exact ⟨0, by omega, by omega, by omega, by simp [callsRange, foldCalls, h.2.1]⟩

/-! ### the calls on a scan in key order -/

theorem callsP_spec (items : List ScanItem) (prior : Option HashX) (pend : List Row)
    (hs : (pend ++ histRows items).Pairwise (fun a b => a.1.1 ≤ b.1.1))
    (hnone : prior = none → pend = [])
    (hsome : ∀ h, prior = some h → pend ≠ [] ∧ ∀ r ∈ pend, r.1.1 = h) :
    (∀ c ∈ callsP items prior pend,
        c.2 = (pend ++ histRows items).filter (fun e => e.1.1 == c.1) ∧ c.2 ≠ []) ∧
    ((callsP items prior pend).map (·.1)).Pairwise (· < ·) ∧
    (∀ r ∈ pend ++ histRows items, r.1.1 ∈ (callsP items prior pend).map (·.1)) := by
  induction items generalizing prior pend with
  | nil =>
    cases prior with
    | none =>
      have := hnone rfl
      subst this
      simp [callsP, histRows]
    | some h =>
      obtain ⟨hne, hall⟩ := hsome h rfl
      simp only [callsP, histRows, List.append_nil, List.mem_singleton, List.map_cons, List.map_nil,
        List.pairwise_cons, List.not_mem_nil, false_imp_iff, implies_true, List.Pairwise.nil, and_self,
        true_and, forall_eq]
      refine ⟨⟨?_, hne⟩, ?_⟩
      · symm
        apply List.filter_eq_self.mpr
        intro r hr
        simp [hall r hr]
      · intro r hr; exact hall r hr
  | cons it rest ih =>
    cases it with
    | other =>
      simp only [callsP, histRows] at *
      exact ih prior pend hs hnone hsome
    | row r =>
      have happ : pend ++ histRows (ScanItem.row r :: rest) = (pend ++ [r]) ++ histRows rest := by
        simp [histRows]
      cases prior with
      | none =>
        simp only [callsP]
        rw [happ] at hs ⊢
        exact ih (some r.1.1) (pend ++ [r]) hs (by intro h; cases h)
          (by
            intro h hh
            cases hh
            have := hnone rfl
            subst this
            simp)
      | some h =>
        obtain ⟨hne, hall⟩ := hsome h rfl
        simp only [callsP]
        by_cases hrh : r.1.1 = h
        · rw [if_neg (by simp [hrh])]
          rw [happ] at hs ⊢
          exact ih (some r.1.1) (pend ++ [r]) hs (by intro h; cases h)
            (by
              intro h' hh
              cases hh
              refine ⟨by simp, ?_⟩
              intro x hx
              rcases List.mem_append.mp hx with hx | hx
              · rw [hall x hx, hrh]
              · simp at hx; rw [hx])
        · rw [if_pos hrh]
          -- `pend` is complete: every later row has a larger hashX
          have hR' : ([r] ++ histRows rest).Pairwise (fun a b => a.1.1 ≤ b.1.1) := by
            simp only [histRows] at hs
            exact (List.pairwise_append.mp hs).2.1
          have hcross : ∀ a ∈ pend, ∀ b ∈ [r] ++ histRows rest, a.1.1 ≤ b.1.1 := by
            simp only [histRows] at hs
            exact (List.pairwise_append.mp hs).2.2
          obtain ⟨a0, ha0⟩ := List.exists_mem_of_ne_nil pend hne
          have hlt : h < r.1.1 := by
            have := hcross a0 ha0 r (by simp)
            rw [hall a0 ha0] at this
            homega
          have hgt : ∀ b ∈ [r] ++ histRows rest, h < b.1.1 := by
            intro b hb
            rcases List.mem_append.mp hb with hb | hb
            · simp at hb; rw [hb]; exact hlt
            · have hR'' : (r :: histRows rest).Pairwise (fun a b => a.1.1 ≤ b.1.1) := hR'
              have := (List.pairwise_cons.mp hR'').1 b hb
              homega
          obtain ⟨i1, i2, i3⟩ := ih (some r.1.1) [r] hR' (by intro h; cases h)
            (by intro h' hh; cases hh; simp)
          have hsplit : pend ++ histRows (ScanItem.row r :: rest) = pend ++ ([r] ++ histRows rest) := by
            simp [histRows]
          rw [hsplit]
          refine ⟨?_, ?_, ?_⟩
          · intro c hc
            rcases List.mem_cons.mp hc with rfl | hc
            · refine ⟨?_, hne⟩
              have h1 : pend.filter (fun e => e.1.1 == h) = pend :=
                List.filter_eq_self.mpr (by intro x hx; simp [hall x hx])
              have h2 : ([r] ++ histRows rest).filter (fun e => e.1.1 == h) = [] := by
                apply List.filter_eq_nil_iff.mpr
                intro b hb
                have := hgt b hb
                simp only [beq_iff_eq]; homega
              rw [List.filter_append, h1, h2, List.append_nil]
            · obtain ⟨j1, j2⟩ := i1 c hc
              refine ⟨?_, j2⟩
              rw [List.filter_append]
              have hmem : ∃ b ∈ [r] ++ histRows rest, b.1.1 = c.1 := by
                rw [j1] at j2
                obtain ⟨b, hb⟩ := List.exists_mem_of_ne_nil _ j2
                have := List.mem_filter.mp hb
                exact ⟨b, this.1, by simpa using this.2⟩
              obtain ⟨b, hb, hbc⟩ := hmem
              have hch : h < c.1 := by rw [← hbc]; exact hgt b hb
              have h1 : pend.filter (fun e => e.1.1 == c.1) = [] := by
                apply List.filter_eq_nil_iff.mpr
                intro x hx
                simp only [beq_iff_eq, hall x hx]; homega
              rw [h1, List.nil_append]; exact j1
          · simp only [List.map_cons, List.pairwise_cons]
            refine ⟨?_, i2⟩
            intro hx' hhx'
            obtain ⟨c, hc, rfl⟩ := List.mem_map.mp hhx'
            obtain ⟨j1, j2⟩ := i1 c hc
            rw [j1] at j2
            obtain ⟨b, hb⟩ := List.exists_mem_of_ne_nil _ j2
            have := List.mem_filter.mp hb
            have hbc : b.1.1 = c.1 := by simpa using this.2
            rw [← hbc]; exact hgt b this.1
          · intro x hx
            rcases List.mem_append.mp hx with hx | hx
            · simp only [List.map_cons, List.mem_cons]
              exact Or.inl (hall x hx)
            · simp only [List.map_cons, List.mem_cons]
              exact Or.inr (i3 x hx)

/-! ### the scan of one prefix -/

/-- the history rows of prefix `c` in key order -/
def sortedScan (hist : List Row) (c : Nat) : List Row :=
  (hist.filter (fun e => prefixOf e.1.1 == c)).mergeSort keyLE

theorem histRows_scanPrefix (p : Store) (c : Nat) : histRows (scanPrefix p c) = sortedScan p.hist c := by
  have h1 : ∀ l : List Row, ∀ t : List ScanItem, histRows (l.map ScanItem.row ++ t) = l ++ histRows t := by
    intro l t
    induction l with
    | nil => rfl
    | cons a r ih => simp [histRows, ih]
  unfold scanPrefix sortedScan
  rw [h1]
  split <;> simp [histRows]

theorem keyLE_trans (a b c : Row) : keyLE a b = true → keyLE b c = true → keyLE a c = true := by
  unfold keyLE
  simp only [Bool.or_eq_true, Bool.and_eq_true, decide_eq_true_eq, beq_iff_eq]
  homega

theorem keyLE_total (a b : Row) : (keyLE a b || keyLE b a) = true := by
  unfold keyLE
  simp only [Bool.or_eq_true, Bool.and_eq_true, decide_eq_true_eq, beq_iff_eq]
  homega

theorem sortedScan_pairwise (hist : List Row) (c : Nat) :
    (sortedScan hist c).Pairwise (fun a b => keyLE a b = true) :=
  List.pairwise_mergeSort keyLE_trans keyLE_total _

theorem mem_sortedScan {hist : List Row} {c : Nat} {e : Row} :
    e ∈ sortedScan hist c ↔ e ∈ hist ∧ prefixOf e.1.1 = c := by
  simp [sortedScan, List.mem_filter]

theorem nodupKeys_sortedScan {hist : List Row} (h : NodupKeys hist) (c : Nat) :
    NodupKeys (sortedScan hist c) := by
  unfold NodupKeys sortedScan
  have h1 : ((hist.filter (fun e => prefixOf e.1.1 == c)).map (·.1)).Nodup :=
    List.Nodup.sublist (List.Sublist.map _ List.filter_sublist) h
  exact ((List.mergeSort_perm _ _).map _).nodup_iff.mpr h1

/-- the rows a hashX of prefix `c` contributes to the scan are its rows in flush-id order -/
theorem sortedScan_filter {hist : List Row} (hn : NodupKeys hist) (hx : HashX) :
    (sortedScan hist (prefixOf hx)).filter (fun e => e.1.1 == hx) = rowsOf hist hx := by
  symm
  apply rowsOf_char hn
  · have h1 := sortedScan_pairwise hist (prefixOf hx)
    have h2 : (sortedScan hist (prefixOf hx)).Pairwise (· ≠ ·) :=
      nodup_of_nodupKeys (nodupKeys_sortedScan hn _)
    have h3 := ((h1.and h2).filter (fun e => e.1.1 == hx))
    refine h3.imp_of_mem ?_
    intro a b ha hb ⟨hle, hne⟩
    have ha' := List.mem_filter.mp ha
    have hb' := List.mem_filter.mp hb
    have hax : a.1.1 = hx := by simpa using ha'.2
    have hbx : b.1.1 = hx := by simpa using hb'.2
    unfold keyLE at hle
    simp only [Bool.or_eq_true, Bool.and_eq_true, decide_eq_true_eq, beq_iff_eq] at hle
    rcases Nat.lt_or_ge a.1.2 b.1.2 with hlt | hge
    · exact hlt
    · exfalso
      apply hne
      apply eq_of_key_eq hn (mem_sortedScan.mp ha'.1).1 (mem_sortedScan.mp hb'.1).1
      apply Prod.ext
      · rw [hax, hbx]
      · homega
  · intro e
    rw [List.mem_filter, mem_sortedScan]
    constructor
    · rintro ⟨⟨h1, _⟩, h3⟩; exact ⟨h1, by simpa using h3⟩
    · rintro ⟨h1, h2⟩; exact ⟨⟨h1, by rw [h2]⟩, by simpa using h2⟩

/-- what is known about the calls of one batch -/
structure CallsOK (hist : List Row) (calls : List Call) (lo hi : Nat) : Prop where
  rows : ∀ c ∈ calls, c.2 = rowsOf hist c.1 ∧ c.2 ≠ [] ∧ lo ≤ prefixOf c.1 ∧ prefixOf c.1 < hi
  nodup : (calls.map (·.1)).Nodup
  complete : ∀ e ∈ hist, lo ≤ prefixOf e.1.1 → prefixOf e.1.1 < hi → e.1.1 ∈ calls.map (·.1)

theorem callsP_ok (p : Store) (hn : NodupKeys p.hist) (c : Nat) :
    CallsOK p.hist (callsP (scanPrefix p c) none []) c (c + 1) := by
  have hs : ([] ++ histRows (scanPrefix p c)).Pairwise (fun (a b : Row) => a.1.1 ≤ b.1.1) := by
    rw [List.nil_append, histRows_scanPrefix]
    refine (sortedScan_pairwise p.hist c).imp ?_
    intro a b h
    unfold keyLE at h
    simp only [Bool.or_eq_true, Bool.and_eq_true, decide_eq_true_eq, beq_iff_eq] at h
    homega
  obtain ⟨h1, h2, h3⟩ := callsP_spec (scanPrefix p c) none [] hs (fun _ => rfl) (by intro h hh; cases hh)
  rw [List.nil_append, histRows_scanPrefix] at h1 h3
  have hpre : ∀ cl ∈ callsP (scanPrefix p c) none [], prefixOf cl.1 = c := by
    intro cl hcl
    obtain ⟨j1, j2⟩ := h1 cl hcl
    rw [j1] at j2
    obtain ⟨b, hb⟩ := List.exists_mem_of_ne_nil _ j2
    have hb' := List.mem_filter.mp hb
    have : b.1.1 = cl.1 := by simpa using hb'.2
    rw [← this]; exact (mem_sortedScan.mp hb'.1).2
  refine ⟨?_, ?_, ?_⟩
  · intro cl hcl
    obtain ⟨j1, j2⟩ := h1 cl hcl
    have hp := hpre cl hcl
    refine ⟨?_, j2, by omega, by omega⟩
    rw [j1, ← hp]; exact sortedScan_filter hn cl.1
  · exact h2.imp (by intro a b h; exact Nat.ne_of_lt h)
  · intro e he hlo hhi
    exact h3 e (mem_sortedScan.mpr ⟨he, by omega⟩)

theorem callsOK_append {hist : List Row} {a b : List Call} {lo mid hi : Nat}
    (ha : CallsOK hist a lo mid) (hb : CallsOK hist b mid hi) (h1 : lo ≤ mid) (h2 : mid ≤ hi) :
    CallsOK hist (a ++ b) lo hi := by
  refine ⟨?_, ?_, ?_⟩
  · intro c hc
    rcases List.mem_append.mp hc with hc | hc
    · obtain ⟨j1, j2, j3, j4⟩ := ha.rows c hc; exact ⟨j1, j2, j3, by omega⟩
    · obtain ⟨j1, j2, j3, j4⟩ := hb.rows c hc; exact ⟨j1, j2, by omega, j4⟩
  · rw [List.map_append, List.nodup_append]
    refine ⟨ha.nodup, hb.nodup, ?_⟩
    intro x hx y hy hxy
    obtain ⟨ca, hca, rfl⟩ := List.mem_map.mp hx
    obtain ⟨cb, hcb, rfl⟩ := List.mem_map.mp hy
    have := (ha.rows ca hca).2.2.2
    have := (hb.rows cb hcb).2.2.1
    rw [hxy] at *
    omega
  · intro e he hlo hhi
    rw [List.map_append, List.mem_append]
    by_cases hm : prefixOf e.1.1 < mid
    · exact Or.inl (ha.complete e he hlo hm)
    · exact Or.inr (hb.complete e he (by omega) hhi)

theorem callsRange_ok (p : Store) (hn : NodupKeys p.hist) (k c : Nat) :
    CallsOK p.hist (callsRange p k c) c (c + k) := by
  induction k generalizing c with
  | zero =>
    refine ⟨by simp [callsRange], by simp [callsRange], ?_⟩
    intro e _ h1 h2; omega
  | succ k ih =>
    simp only [callsRange]
    have := ih (c + 1)
    rw [show c + 1 + k = c + (k + 1) by omega] at this
    exact callsOK_append (callsP_ok p hn c) this (by omega) (by omega)

end EV.Compact

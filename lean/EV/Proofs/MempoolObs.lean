import EV.Proofs.MempoolBasic

/-!
The query methods (`balance_delta`, `transaction_summaries`, `unordered_UTXOs`,
`potential_spends`) go through the by-script-hash index; under `MpInv` they never raise and equal
their specifications, which read the transaction set directly.
-/
namespace EV.Mempool

/-! ### reading the index -/

theorem hxGet_some_mem {hx : HashXs} {x : HashX} {s : List Hash} (h : hxGet hx x = some s) :
    (x, s) ∈ hx := by
  induction hx with
  | nil => simp [hxGet] at h
  | cons e r ih =>
    obtain ⟨k, s'⟩ := e
    simp only [hxGet] at h
    split at h
    · rename_i hk; subst hk; injection h with h; subst h; simp
    · exact List.mem_cons_of_mem _ (ih h)

theorem hxGet_none {hx : HashXs} {x : HashX} (h : hxGet hx x = none) : x ∉ hx.map (·.1) := by
  induction hx with
  | nil => simp
  | cons e r ih =>
    obtain ⟨k, s'⟩ := e
    simp only [hxGet] at h
    split at h
    · cases h
    · rename_i hk
      simp only [List.map_cons, List.mem_cons, not_or]
      exact ⟨fun h1 => hk h1.symm, ih h⟩

theorem mem_hxGet {hx : HashXs} (hw : HxWF hx) (x : HashX) (h : Hash) :
    h ∈ (hxGet hx x).getD [] ↔ idx hx x h := by
  cases hg : hxGet hx x with
  | none =>
    simp only [Option.getD_none, List.not_mem_nil, false_iff]
    intro hi
    exact hxGet_none hg (idx_key hi)
  | some s =>
    simp only [Option.getD_some]
    have hm := hxGet_some_mem hg
    constructor
    · intro hh; exact ⟨s, hm, hh⟩
    · rintro ⟨s', hs', hh⟩
      -- keys are unique, so s' = s
      have : s' = s := by
        have hk := hw.keys
        clear hg hw hh
        induction hx with
        | nil => simp at hm
        | cons e r ih =>
          simp only [List.map_cons, List.nodup_cons] at hk
          rcases List.mem_cons.mp hm with h1 | h1 <;> rcases List.mem_cons.mp hs' with h2 | h2
          · rw [← h1] at h2; injection h2
          · exact absurd (List.mem_map.mpr ⟨(x, s'), h2, rfl⟩) (by rw [← h1] at hk; exact hk.1)
          · exact absurd (List.mem_map.mpr ⟨(x, s), h1, rfl⟩) (by rw [← h2] at hk; exact hk.1)
          · exact ih h1 h2 hk.2
      exact this ▸ hh

theorem nodup_hxGet {hx : HashXs} (hw : HxWF hx) (x : HashX) : ((hxGet hx x).getD []).Nodup := by
  cases hg : hxGet hx x with
  | none => simp
  | some s => exact (hw.sets _ (hxGet_some_mem hg)).2

/-! ### `touching` -/

theorem touchingAux_ok (exc : PyExc) {txs : TxMap} (hn : (txs.map (·.1)).Nodup) (s : List Hash)
    (hs : ∀ h ∈ s, h ∈ txs.map (·.1)) :
    ∃ l, touchingAux exc txs s = .ok l ∧ l.map (·.1) = s ∧ ∀ e ∈ l, e ∈ txs := by
  induction s with
  | nil => exact ⟨[], rfl, rfl, by simp⟩
  | cons h s ih =>
    obtain ⟨l, h1, h2, h3⟩ := ih (fun h' hh' => hs h' (List.mem_cons_of_mem _ hh'))
    obtain ⟨e, he, hk⟩ := List.mem_map.mp (hs h (by simp))
    have hg : dget txs h = some e.2 := mem_dget hn (by rw [← hk]; exact he)
    refine ⟨(h, e.2) :: l, by simp only [touchingAux, hg, h1], by simp [h2], ?_⟩
    intro e' he'
    rcases List.mem_cons.mp he' with h4 | h4
    · rw [h4, ← hk]; exact he
    · exact h3 e' h4

theorem mem_touches {x : HashX} {e : Hash × MemPoolTx} :
    touches x e = true ↔ x ∈ txHashXs e.2 := by
  simp only [touches, List.contains_iff_mem]
  exact mem_txHashXs.symm

theorem nodup_txs {W : Hash → Option RawTx} {st : St} (hinv : MpInv W st) : st.txs.Nodup := by
  have := hinv.txKeys
  generalize st.txs = l at this
  induction l with
  | nil => simp
  | cons a l ih =>
    simp only [List.map_cons, List.nodup_cons] at this
    exact List.nodup_cons.mpr ⟨fun h1 => this.1 (List.mem_map.mpr ⟨a, h1, rfl⟩), ih this.2⟩

/-- the transactions behind `hashXs[x]` are exactly the stored transactions touching `x` -/
theorem touching_ok {W : Hash → Option RawTx} {st : St} (hinv : MpInv W st) (exc : PyExc)
    (x : HashX) :
    ∃ l, touching exc st x = .ok l ∧ l.Perm (st.txs.filter (touches x)) := by
  have hs : ∀ h ∈ (hxGet st.hashXs x).getD [], h ∈ st.txs.map (·.1) := by
    intro h hh
    obtain ⟨tx, h1, _⟩ := (hinv.inverse x h).mp ((mem_hxGet hinv.wf x h).mp hh)
    exact List.mem_map.mpr ⟨(h, tx), h1, rfl⟩
  obtain ⟨l, h1, h2, h3⟩ := touchingAux_ok exc hinv.txKeys _ hs
  refine ⟨l, h1, ?_⟩
  have hln : l.Nodup := by
    have : (l.map (·.1)).Nodup := h2 ▸ nodup_hxGet hinv.wf x
    generalize l = l' at this
    induction l' with
    | nil => simp
    | cons a l' ih =>
      simp only [List.map_cons, List.nodup_cons] at this
      exact List.nodup_cons.mpr ⟨fun h1 => this.1 (List.mem_map.mpr ⟨a, h1, rfl⟩), ih this.2⟩
  apply (List.perm_ext_iff_of_nodup hln ((List.filter_sublist).nodup (nodup_txs hinv))).mpr
  intro e
  rw [List.mem_filter, mem_touches]
  constructor
  · intro he
    refine ⟨h3 e he, ?_⟩
    have : e.1 ∈ (hxGet st.hashXs x).getD [] := h2 ▸ List.mem_map.mpr ⟨e, he, rfl⟩
    obtain ⟨tx, g1, g2⟩ := (hinv.inverse x e.1).mp ((mem_hxGet hinv.wf x e.1).mp this)
    have e1 : dget st.txs e.1 = some tx := mem_dget hinv.txKeys g1
    have e2 : dget st.txs e.1 = some e.2 := mem_dget hinv.txKeys (h3 e he)
    rw [e1] at e2; injection e2 with e2; exact e2 ▸ g2
  · rintro ⟨he, hx⟩
    have : e.1 ∈ (hxGet st.hashXs x).getD [] :=
      (mem_hxGet hinv.wf x e.1).mpr ((hinv.inverse x e.1).mpr ⟨e.2, he, hx⟩)
    rw [← h2] at this
    obtain ⟨e', g1, g2⟩ := List.mem_map.mp this
    have e1 : dget st.txs e.1 = some e'.2 := mem_dget hinv.txKeys (by rw [← g2]; exact h3 e' g1)
    have e2 : dget st.txs e.1 = some e.2 := mem_dget hinv.txKeys he
    rw [e1] at e2; injection e2 with e2
    have : e' = e := Prod.ext g2 e2
    exact this ▸ g1

/-! ### permutation invariance of the specifications -/

theorem balanceOf_perm {x : HashX} {l₁ l₂ : TxMap} (h : l₁.Perm l₂) :
    balanceOf x l₁ = balanceOf x l₂ := by
  induction h with
  | nil => rfl
  | cons a _ ih => simp only [balanceOf, ih]
  | swap a b l => simp only [balanceOf]; omega
  | trans _ _ ih1 ih2 => exact ih1.trans ih2

theorem sumIf_zero {x : HashX} {l : List Pair} (h : x ∉ l.map (·.1)) : sumIf x l = 0 := by
  induction l with
  | nil => rfl
  | cons p r ih =>
    simp only [List.map_cons, List.mem_cons, not_or] at h
    simp only [sumIf]
    rw [if_neg (fun h1 => h.1 h1.symm)]
    exact ih h.2

theorem balanceOf_filter (x : HashX) (l : TxMap) :
    balanceOf x (l.filter (touches x)) = balanceOf x l := by
  induction l with
  | nil => rfl
  | cons e r ih =>
    simp only [List.filter_cons]
    split
    · simp only [balanceOf, ih]
    · rename_i hne
      have hx : x ∉ (e.2.inPairs ++ e.2.outPairs).map (·.1) := by
        simpa [touches] using hne
      simp only [List.map_append, List.mem_append, not_or] at hx
      simp only [balanceOf, ih, sumIf_zero hx.1, sumIf_zero hx.2]
      omega

theorem utxosOfAux_nil {x : HashX} {h : Hash} {l : List Pair} (hx : x ∉ l.map (·.1)) (pos : Nat) :
    utxosOfAux x h pos l = [] := by
  induction l generalizing pos with
  | nil => rfl
  | cons p r ih =>
    simp only [List.map_cons, List.mem_cons, not_or] at hx
    simp only [utxosOfAux]
    rw [if_neg (fun h1 => hx.1 h1.symm)]
    exact ih hx.2 _

theorem flatMap_utxos_filter (x : HashX) (l : TxMap) :
    (l.filter (touches x)).flatMap (utxosOf x) = l.flatMap (utxosOf x) := by
  induction l with
  | nil => rfl
  | cons e r ih =>
    simp only [List.filter_cons]
    split
    · simp only [List.flatMap_cons, ih]
    · rename_i hne
      have hx : x ∉ (e.2.inPairs ++ e.2.outPairs).map (·.1) := by
        simpa [touches] using hne
      simp only [List.map_append, List.mem_append, not_or] at hx
      simp only [List.flatMap_cons, ih, utxosOf, utxosOfAux_nil hx.2, List.nil_append]

/-! ### the four methods equal their specifications -/

theorem balanceDelta_spec {W : Hash → Option RawTx} {st : St} (hinv : MpInv W st) (x : HashX) :
    balanceDelta st x = .ok (specBalance st.txs x) := by
  obtain ⟨l, h1, h2⟩ := touching_ok hinv .keyError x
  simp only [balanceDelta, h1, specBalance, balanceOf_perm h2, balanceOf_filter]

theorem transactionSummaries_spec {W : Hash → Option RawTx} {st : St} (hinv : MpInv W st)
    (x : HashX) :
    ∃ l, transactionSummaries st x = .ok l ∧ l.Perm (specSummaries st.txs x) := by
  obtain ⟨l, h1, h2⟩ := touching_ok hinv .keyError x
  exact ⟨_, by simp only [transactionSummaries, h1], h2.map _⟩

theorem unorderedUTXOs_spec {W : Hash → Option RawTx} {st : St} (hinv : MpInv W st) (x : HashX) :
    ∃ l, unorderedUTXOs st x = .ok l ∧ l.Perm (specUTXOs st.txs x) := by
  obtain ⟨l, h1, h2⟩ := touching_ok hinv .attributeError x
  refine ⟨l.flatMap (utxosOf x), by simp only [unorderedUTXOs, h1], ?_⟩
  have := h2.flatMap_right (utxosOf x)
  rw [flatMap_utxos_filter] at this
  exact this

theorem potentialSpends_spec {W : Hash → Option RawTx} {st : St} (hinv : MpInv W st) (x : HashX) :
    ∃ l, potentialSpends st x = .ok l ∧ l.Perm (specSpends st.txs x) := by
  obtain ⟨l, h1, h2⟩ := touching_ok hinv .keyError x
  exact ⟨_, by simp only [potentialSpends, h1], h2.flatMap_right _⟩

/-! ### the specifications only depend on the pool up to order -/

theorem hasKey_perm {l₁ l₂ : TxMap} (h : l₁.Perm l₂) (k : Hash) : hasKey l₁ k = hasKey l₂ k := by
  have : hasKey l₁ k = true ↔ hasKey l₂ k = true := by
    rw [hasKey_iff, hasKey_iff]; exact (h.map _).mem_iff
  cases h1 : hasKey l₁ k <;> cases h2 : hasKey l₂ k <;> simp_all

theorem summaryOf_perm {l₁ l₂ : TxMap} (h : l₁.Perm l₂) (e : Hash × MemPoolTx) :
    summaryOf l₁ e = summaryOf l₂ e := by
  simp only [summaryOf, hasKey_perm h]

theorem specBalance_perm {l₁ l₂ : TxMap} (h : l₁.Perm l₂) (x : HashX) :
    specBalance l₁ x = specBalance l₂ x := balanceOf_perm h

theorem specSummaries_perm {l₁ l₂ : TxMap} (h : l₁.Perm l₂) (x : HashX) :
    (specSummaries l₁ x).Perm (specSummaries l₂ x) := by
  simp only [specSummaries]
  have h1 : (fun e => summaryOf l₁ e) = (fun e => summaryOf l₂ e) := funext (summaryOf_perm h)
  have : summaryOf l₁ = summaryOf l₂ := h1
  rw [this]
  exact (h.filter _).map _

theorem specUTXOs_perm {l₁ l₂ : TxMap} (h : l₁.Perm l₂) (x : HashX) :
    (specUTXOs l₁ x).Perm (specUTXOs l₂ x) := h.flatMap_right _

theorem specSpends_perm {l₁ l₂ : TxMap} (h : l₁.Perm l₂) (x : HashX) :
    (specSpends l₁ x).Perm (specSpends l₂ x) := (h.filter _).flatMap_right _

end EV.Mempool

import EV.Proofs.TxCacheDB
import EV.Props.C12

/-!
C11 (transaction proofs) / C10 (by-height answers): lemmas about one request of `EV.TxCache` under
the fixed code (`Cfg.fixed thr`, any threshold).

`TxcOK` / `McOK`: every entry of `_tx_hashes_cache` / `_merkle_cache` is the tx-hash list of the block
at that height on the reference chain `ref` (and the `MerkleCache` satisfies the C12 invariant over
that list).  `ReqOK` says what is known at each wait point of a request: a list that has been read is
the list of a block that was visible during the request, and *if `_reorg_count` has not moved since
the read was issued* it is still the list of the reference chain — exactly what the re-read loop
tests before the list is stored.
-/
namespace EV.TxCache
open EV.Merkle

variable {Node : Type} [DecidableEq Node] (H : Node → Node → Node)

omit [DecidableEq Node] in
theorem prefix_getElem? {α : Type} {S T : List α} (hp : S <+: T) {k : Nat} {a : α} (h : S[k]? = some a) :
    T[k]? = some a := by
  obtain ⟨t, rfl⟩ := hp
  obtain ⟨hk, _⟩ := List.getElem?_eq_some_iff.mp h
  rw [List.getElem?_append_left hk]; exact h

def TxcOK (ref : List (Block Node)) (txc : Nat → Option (List Node)) : Prop :=
  ∀ h L, txc h = some L → ∃ b, ref[h]? = some b ∧ L = b.txs

def McOK (ref : List (Block Node)) (mc : Nat → Option (MEntry Node)) : Prop :=
  ∀ h e, mc h = some e → ∃ b, ref[h]? = some b ∧ e.src = b.txs ∧ CacheInv H e.c e.src

omit [DecidableEq Node] in
theorem TxcOK.mono {ref ref' : List (Block Node)} {txc : Nat → Option (List Node)} (h : TxcOK ref txc)
    (hp : ref <+: ref') : TxcOK ref' txc := by
  intro k L hk
  obtain ⟨b, hb, hL⟩ := h k L hk
  exact ⟨b, prefix_getElem? hp hb, hL⟩

omit [DecidableEq Node] in
theorem McOK.mono {ref ref' : List (Block Node)} {mc : Nat → Option (MEntry Node)} (h : McOK H ref mc)
    (hp : ref <+: ref') : McOK H ref' mc := by
  intro k e hk
  obtain ⟨b, hb, hL⟩ := h k e hk
  exact ⟨b, prefix_getElem? hp hb, hL⟩

omit [DecidableEq Node] in
theorem TxcOK.set {ref : List (Block Node)} {txc : Nat → Option (List Node)} (h : TxcOK ref txc) (k : Nat)
    (v : Option (List Node)) (hv : ∀ L, v = some L → ∃ b, ref[k]? = some b ∧ L = b.txs) :
    TxcOK ref (setAt txc k v) := by
  intro j L hj
  simp only [setAt] at hj
  split at hj
  · rename_i e; subst e; exact hv L hj
  · exact h j L hj

omit [DecidableEq Node] in
theorem McOK.set {ref : List (Block Node)} {mc : Nat → Option (MEntry Node)} (h : McOK H ref mc) (k : Nat)
    (v : Option (MEntry Node))
    (hv : ∀ e, v = some e → ∃ b, ref[k]? = some b ∧ e.src = b.txs ∧ CacheInv H e.c e.src) :
    McOK H ref (setAt mc k v) := by
  intro j e hj
  simp only [setAt] at hj
  split at hj
  · rename_i e'; subst e'; exact hv e hj
  · exact h j e hj

/-! ### `_merkle_branch` -/

/-- **`_merkle_branch` returns the from-scratch branch and root of the list it is given**, whichever
path it takes (direct, a `MerkleCache` found in `_merkle_cache`, a new one), provided the list is the
reference chain's list for that height; and it leaves `_merkle_cache` consistent (C12 `cache_init`,
`cache_correct`, `bar_root`). -/
theorem merkleBranch_ok (thr : Nat) (mc : Nat → Option (MEntry Node)) (ref : List (Block Node)) (h : Nat)
    (b : Block Node) (L : List Node) (pos : Nat) (tsc : Bool) (hmc : McOK H ref mc)
    (hb : ref[h]? = some b) (hL : L = b.txs) (hpos : pos < L.length) :
    ∃ br root, branchAndRoot H L (.int pos) none tsc = .ok (br, root) ∧
      (merkleBranch H thr mc h L pos tsc).2 = .ret (br, root) ∧
      McOK H ref (merkleBranch H thr mc h L pos tsc).1 := by
  obtain ⟨br, hbr⟩ := bar_root H L pos tsc hpos
  refine ⟨br, _, hbr, ?_⟩
  have hl0 : (0 : Int) < (L.length : Int) := by omega
  have hi : (pos : Int) < (L.length : Int) := by omega
  unfold merkleBranch
  split
  · split
    · rename_i e he
      obtain ⟨b', hb', hsrc, hci⟩ := hmc h e he
      rw [hb] at hb'
      injection hb' with hb'
      subst hb'
      have hsL : e.src = L := by rw [hsrc, hL]
      have hq := cache_correct H e.c e.src (L.length : Int) (pos : Int) tsc hci hl0 (by simp [hsL]) hi
      have ht : e.src.take (L.length : Int).toNat = L := by rw [Int.toNat_natCast, hsL, List.take_length]
      have h1 := hq.1
      rw [ht, hbr] at h1
      refine ⟨h1, ?_⟩
      apply hmc.set H
      intro e' he'
      injection he' with he'
      subst he'
      exact ⟨b, hb, hsrc, hq.2⟩
    · have hi0 := cache_init H ({} : Cache Node) L L.length (by omega) (Nat.le_refl _)
      have hq := cache_correct H (({} : Cache Node).init H L L.length).1 L (L.length : Int) (pos : Int) tsc
        hi0.2 hl0 (by simp) hi
      rw [Int.toNat_natCast, List.take_length, hbr] at hq
      rw [hi0.1]
      refine ⟨hq.1, ?_⟩
      apply hmc.set H
      intro e' he'
      injection he' with he'
      subst he'
      exact ⟨b, hb, hL, hq.2⟩
  · rw [hbr]
    exact ⟨rfl, hmc⟩

/-! ### what is known about a request -/

structure ReqOK (rc : Nat) (ref V : List (Block Node)) (r : Req Node) : Prop where
  /-- an unfinished request has the current visible chain in its history -/
  head : r.active = true → V ∈ r.seen
  rd : ∀ rc0 x, r.pc = .rd rc0 x → rc0 ≤ rc ∧ ∀ L, x = .got L →
    (∃ S ∈ r.seen, ∃ b, S[r.height]? = some b ∧ L = b.txs) ∧
    (rc0 = rc → ∃ b, ref[r.height]? = some b ∧ L = b.txs)
  hdr : ∀ pos br root x, r.pc = .hdr pos br root x →
    (∃ tx, r.kind = .tsc tx ∧ ∃ S ∈ r.seen, ∃ b, S[r.height]? = some b ∧ pos = b.txs.idxOf tx ∧
      pos < b.txs.length ∧ barOpt H b.txs pos true = some (br, root)) ∧
    ∀ hd, x = .got hd → ∃ S ∈ r.seen, ∃ b, S[r.height]? = some b ∧ b.hdr = hd
  safe : r.Safe H

theorem safe_of_active {r : Req Node} (h : r.active = true) : r.Safe H := by
  unfold Req.Safe
  cases hpc : r.pc with
  | rd rc x => exact True.intro
  | hdr pos br root x => exact True.intro
  | done res => simp [Req.active, hpc] at h

/-! ### monotonicity of `ReqOK` -/

theorem ReqOK.see {rc : Nat} {ref V : List (Block Node)} {r : Req Node} (h : ReqOK H rc ref V r)
    (V' : List (Block Node)) : ReqOK H rc ref V' (r.see V') := by
  unfold Req.see
  split
  · rename_i hact
    refine ⟨fun _ => List.mem_cons_self, ?_, ?_, safe_of_active H hact⟩
    · intro rc0 x hpc
      obtain ⟨h1, h2⟩ := h.rd rc0 x hpc
      refine ⟨h1, fun L hL => ?_⟩
      obtain ⟨⟨S, hS, hb⟩, h4⟩ := h2 L hL
      exact ⟨⟨S, List.mem_cons_of_mem _ hS, hb⟩, h4⟩
    · intro pos br root x hpc
      obtain ⟨⟨tx, hk, S, hS, hb⟩, h2⟩ := h.hdr pos br root x hpc
      refine ⟨⟨tx, hk, S, List.mem_cons_of_mem _ hS, hb⟩, fun hd hx => ?_⟩
      obtain ⟨S2, hS2, hb2⟩ := h2 hd hx
      exact ⟨S2, List.mem_cons_of_mem _ hS2, hb2⟩
  · rename_i hact
    exact ⟨fun h' => absurd h' hact, h.rd, h.hdr, h.safe⟩

theorem ReqOK.mono {rc : Nat} {ref ref' V : List (Block Node)} {r : Req Node} (h : ReqOK H rc ref V r)
    (hp : ref <+: ref') : ReqOK H rc ref' V r := by
  refine ⟨h.head, ?_, h.hdr, h.safe⟩
  intro rc0 x hpc
  obtain ⟨h1, h2⟩ := h.rd rc0 x hpc
  refine ⟨h1, fun L hL => ⟨(h2 L hL).1, fun hrc => ?_⟩⟩
  obtain ⟨b, hb, hl⟩ := (h2 L hL).2 hrc
  exact ⟨b, prefix_getElem? hp hb, hl⟩

/-- `_handle_chain_reorgs` runs: every read in flight is now known to be possibly stale -/
theorem ReqOK.handler {rc : Nat} {ref V : List (Block Node)} {r : Req Node} (h : ReqOK H rc ref V r) :
    ReqOK H (rc + 1) V V r := by
  refine ⟨h.head, ?_, h.hdr, h.safe⟩
  intro rc0 x hpc
  obtain ⟨h1, h2⟩ := h.rd rc0 x hpc
  exact ⟨by omega, fun L hL => ⟨(h2 L hL).1, fun hrc => by omega⟩⟩

/-! ### how a request ends -/

theorem reqOK_done {rc : Nat} {ref V : List (Block Node)} (r : Req Node) (res : Res Node)
    (hs : ({ r with pc := .done res } : Req Node).Safe H) :
    ReqOK H rc ref V { r with pc := .done res } :=
  ⟨fun h => (by simp [Req.active] at h), fun _ _ h => (by cases h), fun _ _ _ _ h => (by cases h), hs⟩

theorem reqOK_refused {rc : Nat} {ref V : List (Block Node)} (r : Req Node) (w : Why) :
    ReqOK H rc ref V { r with pc := .done (.refused w) } :=
  reqOK_done H r _ (by unfold Req.Safe; exact True.intro)

theorem reqOK_error {rc : Nat} {ref V : List (Block Node)} (r : Req Node) (e : Err) :
    ReqOK H rc ref V { r with pc := .done (.error e) } :=
  reqOK_done H r _ (by unfold Req.Safe; exact True.intro)

omit [DecidableEq Node] in
theorem barOpt_of_ok {L : List Node} {pos : Nat} {tsc : Bool} {x : List (Elt Node) × Node}
    (h : branchAndRoot H L (.int pos) none tsc = .ok x) : barOpt H L pos tsc = some x := by
  simp only [barOpt, h]

/-- **the caller of `tx_hashes_at_blockheight` continues with a list that is the reference chain's
list for that height and the list of a block visible during the request**: both caches stay
consistent and whatever the request does next — answer, refusal, the TSC header read — is
justified. -/
theorem afterHashes_ok (thr rc : Nat) (ref V : List (Block Node)) (txc : Nat → Option (List Node))
    (mc : Nat → Option (MEntry Node)) (r : Req Node) (L : List Node)
    (hmc : McOK H ref mc) (hV : V ∈ r.seen)
    (href : ∃ b, ref[r.height]? = some b ∧ L = b.txs)
    (hseen : ∃ S ∈ r.seen, ∃ b, S[r.height]? = some b ∧ L = b.txs) :
    (afterHashes H thr txc mc r L).txc = txc ∧ McOK H ref (afterHashes H thr txc mc r L).mc ∧
      ReqOK H rc ref V (afterHashes H thr txc mc r L).req := by
  obtain ⟨b, hb, hL⟩ := href
  obtain ⟨S, hS, b', hb', hL'⟩ := hseen
  unfold afterHashes
  split
  · -- id_from_pos
    rename_i pos hk
    split
    · exact ⟨rfl, hmc, reqOK_refused H r _⟩
    · rename_i tx htx
      refine ⟨rfl, hmc, reqOK_done H r _ ?_⟩
      unfold Req.Safe
      simp only [hk]
      exact ⟨S, hS, b', Option.mem_def.mpr hb', by rw [← hL']; exact htx⟩
  · -- merkle_branch_for_tx_pos
    rename_i pos hk
    split
    · exact ⟨rfl, hmc, reqOK_refused H r _⟩
    · rename_i tx htx
      have hpos : pos < L.length := (List.getElem?_eq_some_iff.mp htx).1
      obtain ⟨br, root, hbar, hout, hmc'⟩ := merkleBranch_ok H thr mc ref r.height b L pos false hmc hb hL hpos
      refine ⟨rfl, hmc', ?_⟩
      rw [hout]
      refine reqOK_done H r _ ?_
      unfold Req.Safe
      simp only [hk]
      refine ⟨S, hS, b', Option.mem_def.mpr hb', by rw [← hL']; exact htx, ?_⟩
      rw [← hL', branchOnly, barOpt_of_ok H hbar]; rfl
  · -- merkle_branch_for_tx_hash
    rename_i tx hk
    split
    · rename_i hpos
      obtain ⟨br, root, hbar, hout, hmc'⟩ :=
        merkleBranch_ok H thr mc ref r.height b L (L.idxOf tx) false hmc hb hL hpos
      refine ⟨rfl, hmc', ?_⟩
      rw [hout]
      refine reqOK_done H r _ ?_
      unfold Req.Safe
      simp only [hk]
      refine ⟨S, hS, b', Option.mem_def.mpr hb', by rw [← hL'], by rw [← hL']; exact hpos, ?_⟩
      rw [← hL', branchOnly, barOpt_of_ok H hbar]; rfl
    · exact ⟨rfl, hmc, reqOK_refused H r _⟩
  · -- tsc_merkle_proof_for_tx_hash, up to `await self.raw_header(height)`
    rename_i tx hk
    split
    · rename_i hpos
      obtain ⟨br, root, hbar, hout, hmc'⟩ :=
        merkleBranch_ok H thr mc ref r.height b L (L.idxOf tx) true hmc hb hL hpos
      refine ⟨rfl, hmc', ?_⟩
      rw [hout]
      refine ⟨fun _ => hV, fun _ _ h => (by cases h), ?_, safe_of_active H rfl⟩
      intro pos' br' root' x hpc
      injection hpc with h1 h2 h3 h4
      subst h1 h2 h3 h4
      refine ⟨⟨tx, hk, S, hS, b', hb', by rw [← hL'], by rw [← hL']; exact hpos, ?_⟩, fun hd hx => by cases hx⟩
      rw [← hL']; exact barOpt_of_ok H hbar
    · exact ⟨rfl, hmc, reqOK_refused H r _⟩

/-! ### the three request events under the fixed code -/

@[simp] theorem fixed_reread (thr : Nat) : (Cfg.fixed thr).reread = true := rfl
@[simp] theorem fixed_stateBound (thr : Nat) : (Cfg.fixed thr).stateBound = true := rfl
@[simp] theorem fixed_signal (thr : Nat) : (Cfg.fixed thr).signal = true := rfl
@[simp] theorem fixed_hitBound (thr : Nat) : (Cfg.fixed thr).hitBound = true := rfl
@[simp] theorem fixed_sanity (thr : Nat) : (Cfg.fixed thr).sanity = true := rfl
@[simp] theorem fixed_fifo (thr : Nat) : (Cfg.fixed thr).fifo = true := rfl
@[simp] theorem fixed_thr (thr : Nat) : (Cfg.fixed thr).thr = thr := rfl

omit [DecidableEq Node] in
/-- a cache hit of the fixed code: a non-empty entry for a height `DB.state` still has -/
theorem cacheHit_some {thr : Nat} {s : St Node} {h : Nat} {L : List Node}
    (hc : cacheHit (Cfg.fixed thr) s h = some L) : s.txc h = some L ∧ h < s.vis := by
  unfold cacheHit at hc
  split at hc
  · rename_i x xs hx
    simp only [fixed_hitBound, Bool.true_and] at hc
    split at hc
    · cases hc
    · rename_i hd
      injection hc with hc
      subst hc
      exact ⟨hx, by simpa using hd⟩
  · cases hc

theorem newReq_ok (thr : Nat) (s : St Node) (k : Kind Node) (h : Nat) (hdb : DBInv s)
    (hpre : visible s <+: s.ref) (htxc : TxcOK s.ref s.txc) (hmc : McOK H s.ref s.mc) :
    (newReq H (Cfg.fixed thr) s k h).txc = s.txc ∧ McOK H s.ref (newReq H (Cfg.fixed thr) s k h).mc ∧
      ReqOK H s.rc s.ref (visible s) (newReq H (Cfg.fixed thr) s k h).req := by
  unfold newReq
  split
  · rename_i L hc
    obtain ⟨hL, hv⟩ := cacheHit_some hc
    obtain ⟨b, hb, hLb⟩ := htxc h L hL
    have hvb : (visible s)[h]? = some b := by
      have hlt : h < (visible s).length := by rw [visible_length hdb]; exact hv
      have := prefix_getElem? hpre (List.getElem?_eq_getElem hlt)
      rw [hb] at this
      rw [List.getElem?_eq_getElem hlt, this]
    exact afterHashes_ok H thr s.rc s.ref (visible s) s.txc s.mc ⟨k, h, .rd s.rc .issued, [visible s]⟩ L hmc
      List.mem_cons_self ⟨b, hb, hLb⟩ ⟨visible s, List.mem_cons_self, b, hvb, hLb⟩
  · refine ⟨rfl, hmc, fun _ => List.mem_cons_self, ?_, fun _ _ _ _ hpc => (by cases hpc), safe_of_active H rfl⟩
    intro rc0 x hpc
    injection hpc with h1 h2
    subst h1 h2
    exact ⟨Nat.le_refl _, fun L hL => by cases hL⟩

/-- a read is performed by its worker thread: what it returns is the visible chain's block, which
    the reference chain has too -/
theorem performReq_ok (thr : Nat) (s : St Node) (r : Req Node) (hdb : DBInv s)
    (hpre : visible s <+: s.ref) (hr : ReqOK H s.rc s.ref (visible s) r) :
    ReqOK H s.rc s.ref (visible s) (performReq (Cfg.fixed thr) s r) := by
  unfold performReq
  split
  · rename_i rc0 hpc
    have hact : r.active = true := by simp [Req.active, hpc]
    refine ⟨fun _ => hr.head hact, ?_, fun _ _ _ _ h => (by cases h), safe_of_active H rfl⟩
    intro rc1 x hpc1
    injection hpc1 with h1 h2
    subst h1 h2
    refine ⟨(hr.rd _ _ hpc).1, fun L hL => ?_⟩
    obtain ⟨b, hb, hLb⟩ := readTx_got (Cfg.fixed thr) rfl hdb r.height L hL
    exact ⟨⟨visible s, hr.head hact, b, hb, hLb⟩, fun _ => ⟨b, prefix_getElem? hpre hb, hLb⟩⟩
  · rename_i pos br root hpc
    have hact : r.active = true := by simp [Req.active, hpc]
    refine ⟨fun _ => hr.head hact, fun _ _ h => (by cases h), ?_, safe_of_active H rfl⟩
    intro pos' br' root' x hpc1
    injection hpc1 with h1 h2 h3 h4
    subst h1 h2 h3 h4
    refine ⟨(hr.hdr _ _ _ _ hpc).1, fun hd hx => ?_⟩
    obtain ⟨b, hb, hbh⟩ := readHdr_got hdb r.height hd hx
    exact ⟨visible s, hr.head hact, b, hb, hbh⟩
  · exact hr

/-- a read is delivered: the re-read loop stores and uses the list only if `_reorg_count` has not
    moved; the TSC sanity check passes only a header whose root field is the root of the branch -/
theorem deliverReq_ok (thr : Nat) (s : St Node) (r : Req Node)
    (htxc : TxcOK s.ref s.txc) (hmc : McOK H s.ref s.mc) (hr : ReqOK H s.rc s.ref (visible s) r) :
    TxcOK s.ref (deliverReq H (Cfg.fixed thr) s r).txc ∧ McOK H s.ref (deliverReq H (Cfg.fixed thr) s r).mc ∧
      ReqOK H s.rc s.ref (visible s) (deliverReq H (Cfg.fixed thr) s r).req := by
  unfold deliverReq
  split
  · rename_i rc0 L hpc
    have hact : r.active = true := by simp [Req.active, hpc]
    obtain ⟨h1, h2⟩ := hr.rd _ _ hpc
    obtain ⟨hseen, href⟩ := h2 L rfl
    simp only [fixed_reread, if_true, fixed_thr]
    split
    · rename_i hrc
      have ht : TxcOK s.ref (setAt s.txc r.height (some L)) :=
        htxc.set _ _ (fun L' hL' => by injection hL' with hL'; subst hL'; exact href hrc)
      obtain ⟨a1, a2, a3⟩ := afterHashes_ok H thr s.rc s.ref (visible s) (setAt s.txc r.height (some L)) s.mc r L
        hmc (hr.head hact) (href hrc) hseen
      exact ⟨by rw [a1]; exact ht, a2, a3⟩
    · refine ⟨htxc, hmc, fun _ => hr.head hact, ?_, fun _ _ _ _ h => (by cases h), safe_of_active H rfl⟩
      intro rc1 x hpc1
      injection hpc1 with e1 e2
      subst e1 e2
      exact ⟨Nat.le_refl _, fun L hL => by cases hL⟩
  · exact ⟨htxc, hmc, reqOK_refused H r _⟩
  · exact ⟨htxc, hmc, reqOK_error H r _⟩
  · rename_i pos br root hd hpc
    obtain ⟨⟨tx, hk, S, hS, b, hb, hpos, hlt, hbar⟩, h2⟩ := hr.hdr _ _ _ _ hpc
    obtain ⟨S2, hS2, b2, hb2, hbh⟩ := h2 hd rfl
    simp only [fixed_sanity, Bool.true_and]
    split
    · exact ⟨htxc, hmc, reqOK_refused H r _⟩
    · rename_i hne
      have hroot : root = hd.root := by simpa using hne
      refine ⟨htxc, hmc, reqOK_done H r _ ?_⟩
      unfold Req.Safe
      simp only [hk]
      exact ⟨⟨S, hS, b, Option.mem_def.mpr hb, hpos, hlt, by rw [← hroot]; exact hbar⟩,
        ⟨S2, hS2, b2, Option.mem_def.mpr hb2, hbh⟩⟩
  · exact ⟨htxc, hmc, reqOK_refused H r _⟩
  · exact ⟨htxc, hmc, hr⟩

end EV.TxCache

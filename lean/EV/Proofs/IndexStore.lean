import EV.Proofs.IndexLogic

/-!
The concrete store (UTXO cache + `h`/`u` rows + queued deletes, with 4-byte prefix collisions
resolved through the tx-number ↦ hash files) implements the representation interface.
Layer (storage) of the index proof: `spend_utxo` and `put_utxo` on the real layout.
-/
namespace EV.Index
open EV.Spec

def hkey (u : Utxo) : HKey := (pfx u.txid, u.idx, u.txnum)
def ukey (u : Utxo) : UKey := (u.hx, u.idx, u.txnum)

/-- what `fs_tx_hash` resolves a tx number to -/
def resolve (s : Sys) (n : Nat) : Option Hash := (fsTxHash s n).1

/-- `s` represents the UTXO list `U`: witnesses `D` (the UTXOs resident in the rows) and
    `Del ⊆ D` (those queued for deletion). -/
structure RepSysW (s : Sys) (U D Del : List Utxo) : Prop where
  uNodup : (U.map opOf).Nodup
  dNodup : (D.map opOf).Nodup
  hRows : ∀ e, e ∈ s.p.h ↔ ∃ u ∈ D, e = (hkey u, u.hx)
  uRows : ∀ e, e ∈ s.p.u ↔ ∃ u ∈ D, e = (ukey u, u.value)
  hKeys : (s.p.h.map (·.1)).Nodup
  uKeys : (s.p.u.map (·.1)).Nodup
  cacheKeys : (s.m.cache.map (·.1)).Nodup
  res : ∀ u ∈ D, resolve s u.txnum = some u.txid
  delSub : ∀ u ∈ Del, u ∈ D
  dels : ∀ dk, dk ∈ s.m.deletes ↔ ∃ u ∈ Del, dk = .h (hkey u) ∨ dk = .u (ukey u)
  inU : ∀ u ∈ U, alookup (opOf u) s.m.cache = some (cvOf u) ∨
                  (alookup (opOf u) s.m.cache = none ∧ u ∈ D ∧ u ∉ Del)
  cacheU : ∀ op cv, alookup op s.m.cache = some cv → ∃ u ∈ U, opOf u = op ∧ cvOf u = cv
  dbU : ∀ u ∈ D, u ∉ Del → u ∈ U ∧ alookup (opOf u) s.m.cache = none

def RepSys (s : Sys) (U : List Utxo) : Prop := ∃ D Del, RepSysW s U D Del

/-! ### spending from the cache -/

theorem spendUtxo_cache {s : Sys} {txid : Hash} {idx : Nat} {cv : CacheVal}
    (h : alookup (txid, idx) s.m.cache = some cv) :
    spendUtxo s txid idx =
      .ok (cv, { s with m := { s.m with cache := aerase (txid, idx) s.m.cache } }) := by
  simp [spendUtxo, h]

/-! ### spending from the rows -/

/-- the loop finds the row of `u` when more than one candidate is present -/
theorem spendFromDb_multi {s : Sys} {D : List Utxo} (u : Utxo) (hu : u ∈ D)
    (dNodup : (D.map opOf).Nodup)
    (res : ∀ x ∈ D, resolve s x.txnum = some x.txid)
    (uLook : ∀ x ∈ D, alookup (ukey x) s.p.u = some x.value)
    (ncand : Nat) (hn : ncand > 1) (L : List (HKey × HashX))
    (hL : ∀ e ∈ L, ∃ x ∈ D, e = (hkey x, x.hx) ∧ x.idx = u.idx)
    (hin : (hkey u, u.hx) ∈ L) :
    spendFromDb s u.txid u.idx ncand L = .ok (some (cvOf u, hkey u, ukey u)) := by
  induction L with
  | nil => simp at hin
  | cons e L ih =>
    obtain ⟨x, hx, he, hidx⟩ := hL e (by simp)
    subst he
    have hres := res x hx
    simp only [resolve] at hres
    by_cases hxt : x.txid = u.txid
    · -- same txid and idx: it is u itself
      have hxu : x = u := by
        have hop : opOf x = opOf u := by simp [opOf, hxt, hidx]
        have h1 := find?_of_mem_nodup dNodup hx
        have h2 := find?_of_mem_nodup dNodup hu
        rw [hop] at h1
        exact Option.some.inj (h1.symm.trans h2)
      subst hxu
      simp only [spendFromDb, hn, if_true, hkey, hres]
      have := uLook x hx
      simp only [ukey] at this
      simp [this, cvOf, hkey, ukey]
    · have hne : (hkey x, x.hx) ≠ (hkey u, u.hx) := by
        intro heq
        have h1 : x.txnum = u.txnum := by
          have := congrArg (fun p => p.1.2.2) heq
          simpa [hkey] using this
        have h2 := res x hx
        have h3 := res u hu
        rw [h1, h3] at h2
        exact hxt (Option.some.inj h2).symm
      have hin' : (hkey u, u.hx) ∈ L := by
        rcases List.mem_cons.mp hin with h | h
        · exact absurd h.symm hne
        · exact h
      have := ih (fun e he => hL e (List.mem_cons_of_mem _ he)) hin'
      simp only [spendFromDb, hn, if_true, hkey, hres]
      have hneq : (x.txid != u.txid) = true := by simp [hxt]
      simp only [hneq]
      exact this

/-- with a single candidate no hash check is made -/
theorem spendFromDb_single {s : Sys} (u : Utxo) (hlook : alookup (ukey u) s.p.u = some u.value)
    (ncand : Nat) (hn : ¬ ncand > 1) :
    spendFromDb s u.txid u.idx ncand [(hkey u, u.hx)] = .ok (some (cvOf u, hkey u, ukey u)) := by
  simp only [spendFromDb, hn, if_false, hkey]
  simp only [ukey] at hlook
  simp [hlook, cvOf, hkey, ukey]

theorem uLook_of_rows {s : Sys} {D : List Utxo}
    (uRows : ∀ e, e ∈ s.p.u ↔ ∃ u ∈ D, e = (ukey u, u.value))
    (uKeys : (s.p.u.map (·.1)).Nodup) : ∀ x ∈ D, alookup (ukey x) s.p.u = some x.value := by
  intro x hx
  exact alookup_of_mem_nodup uKeys ((uRows _).mpr ⟨x, hx, rfl⟩)

theorem spendUtxo_db {s : Sys} {U D Del : List Utxo} (w : RepSysW s U D Del) {u : Utxo}
    (hc : alookup (opOf u) s.m.cache = none) (hu : u ∈ D) :
    spendUtxo s u.txid u.idx =
      .ok (cvOf u, { s with m := { s.m with deletes := s.m.deletes ++ [.h (hkey u), .u (ukey u)] } }) := by
  have hc' : alookup (u.txid, u.idx) s.m.cache = none := hc
  have uLook := uLook_of_rows w.uRows w.uKeys
  -- the candidate list
  have hcandsL : ∀ e ∈ s.p.h.filter (fun e => e.1.1 == pfx u.txid && e.1.2.1 == u.idx),
      ∃ x ∈ D, e = (hkey x, x.hx) ∧ x.idx = u.idx := by
    intro e he
    obtain ⟨he1, he2⟩ := List.mem_filter.mp he
    obtain ⟨x, hx, rfl⟩ := (w.hRows e).mp he1
    refine ⟨x, hx, rfl, ?_⟩
    simp only [hkey, Bool.and_eq_true, beq_iff_eq] at he2
    exact he2.2
  have hin : (hkey u, u.hx) ∈ s.p.h.filter (fun e => e.1.1 == pfx u.txid && e.1.2.1 == u.idx) := by
    apply List.mem_filter.mpr
    refine ⟨(w.hRows _).mpr ⟨u, hu, rfl⟩, ?_⟩
    simp [hkey]
  have hloop : spendFromDb s u.txid u.idx
      (s.p.h.filter (fun e => e.1.1 == pfx u.txid && e.1.2.1 == u.idx)).length
      (s.p.h.filter (fun e => e.1.1 == pfx u.txid && e.1.2.1 == u.idx))
      = .ok (some (cvOf u, hkey u, ukey u)) := by
    by_cases hn : (s.p.h.filter (fun e => e.1.1 == pfx u.txid && e.1.2.1 == u.idx)).length > 1
    · exact spendFromDb_multi u hu w.dNodup w.res uLook _ hn _ hcandsL hin
    · -- exactly one candidate: it is u's row
      have hlen : (s.p.h.filter (fun e => e.1.1 == pfx u.txid && e.1.2.1 == u.idx)).length = 1 := by
        have : 0 < (s.p.h.filter (fun e => e.1.1 == pfx u.txid && e.1.2.1 == u.idx)).length :=
          List.length_pos_of_mem hin
        omega
      obtain ⟨e, he⟩ := List.length_eq_one_iff.mp hlen
      rw [he] at hin ⊢
      simp only [List.mem_singleton] at hin
      rw [← hin]
      exact spendFromDb_single u (uLook u hu) _ (by simpa [he] using hn)
  simp only [spendUtxo, hc', hloop]

/-! ### the interface -/

theorem repSys_perm {s : Sys} {U U' : List Utxo} (h : RepSys s U) (hp : U.Perm U') : RepSys s U' := by
  obtain ⟨D, Del, w⟩ := h
  refine ⟨D, Del, { w with
    uNodup := (hp.map opOf).nodup_iff.mp w.uNodup
    inU := fun u hu => w.inU u (hp.mem_iff.mpr hu)
    cacheU := ?_
    dbU := ?_ }⟩
  · intro op cv h
    obtain ⟨u, hu, h1, h2⟩ := w.cacheU op cv h
    exact ⟨u, hp.mem_iff.mp hu, h1, h2⟩
  · intro u hu hnd
    obtain ⟨h1, h2⟩ := w.dbU u hu hnd
    exact ⟨hp.mem_iff.mp h1, h2⟩

theorem mem_filter_ne {U : List Utxo} {u x : Utxo} :
    x ∈ U.filter (fun y => !decide (opOf y = opOf u)) ↔ x ∈ U ∧ opOf x ≠ opOf u := by
  simp [List.mem_filter]

theorem eq_of_mem_nodup {U : List Utxo} (hn : (U.map opOf).Nodup) {x y : Utxo}
    (hx : x ∈ U) (hy : y ∈ U) (hop : opOf x = opOf y) : x = y := by
  have h1 := find?_of_mem_nodup hn hx
  have h2 := find?_of_mem_nodup hn hy
  rw [hop] at h1
  exact Option.some.inj (h1.symm.trans h2)

theorem repSys_spend {s : Sys} {U : List Utxo} {u : Utxo} (h : RepSys s U) (hu : u ∈ U) :
    ∃ s', sysOps.spend s u.txid u.idx = .ok (cvOf u, s') ∧
          RepSys s' (U.filter (fun x => !decide (opOf x = opOf u))) := by
  obtain ⟨D, Del, w⟩ := h
  have hnodup' : ((U.filter (fun x => !decide (opOf x = opOf u))).map opOf).Nodup :=
    List.Nodup.sublist (List.Sublist.map _ List.filter_sublist) w.uNodup
  rcases w.inU u hu with hc | ⟨hc, hD, hnDel⟩
  · -- cache hit
    refine ⟨_, spendUtxo_cache (show alookup (u.txid, u.idx) s.m.cache = some (cvOf u) from hc), D, Del, ?_⟩
    refine { w with uNodup := hnodup', cacheKeys := nodup_keys_aerase _ w.cacheKeys,
                    inU := ?_, cacheU := ?_, dbU := ?_ }
    · intro x hx
      obtain ⟨hxU, hne⟩ := mem_filter_ne.mp hx
      have : alookup (opOf x) (aerase (u.txid, u.idx) s.m.cache) = alookup (opOf x) s.m.cache := by
        rw [alookup_aerase, if_neg (fun h => hne h.symm)]
      simp only [this]
      exact w.inU x hxU
    · intro op cv hl
      simp only [alookup_aerase] at hl
      by_cases hop : (u.txid, u.idx) = op
      · simp [hop] at hl
      · simp only [hop, if_false] at hl
        obtain ⟨x, hx, h1, h2⟩ := w.cacheU op cv hl
        exact ⟨x, mem_filter_ne.mpr ⟨hx, by rw [h1]; exact fun h => hop h.symm⟩, h1, h2⟩
    · intro x hx hnd
      obtain ⟨h1, h2⟩ := w.dbU x hx hnd
      have hne : opOf x ≠ opOf u := by
        intro heq
        have := eq_of_mem_nodup w.uNodup h1 hu heq
        subst this
        rw [hc] at h2; simp at h2
      refine ⟨mem_filter_ne.mpr ⟨h1, hne⟩, ?_⟩
      simp only [alookup_aerase]
      rw [if_neg (fun h => hne h.symm)]
      exact h2
  · -- from the rows
    refine ⟨_, spendUtxo_db w hc hD, D, Del ++ [u], ?_⟩
    refine { w with uNodup := hnodup', delSub := ?_, dels := ?_, inU := ?_, cacheU := ?_, dbU := ?_ }
    · intro x hx
      rcases List.mem_append.mp hx with hx | hx
      · exact w.delSub x hx
      · simp at hx; subst hx; exact hD
    · intro dk
      simp only [List.mem_append, List.mem_cons, List.not_mem_nil, or_false, w.dels dk]
      constructor
      · rintro (⟨x, hx, h⟩ | h | h)
        · exact ⟨x, Or.inl hx, h⟩
        · exact ⟨u, Or.inr rfl, Or.inl h⟩
        · exact ⟨u, Or.inr rfl, Or.inr h⟩
      · rintro ⟨x, hx | hx, h⟩
        · exact Or.inl ⟨x, hx, h⟩
        · subst hx; rcases h with h | h
          · exact Or.inr (Or.inl h)
          · exact Or.inr (Or.inr h)
    · intro x hx
      obtain ⟨hxU, hne⟩ := mem_filter_ne.mp hx
      rcases w.inU x hxU with h | ⟨h1, h2, h3⟩
      · exact Or.inl h
      · refine Or.inr ⟨h1, h2, ?_⟩
        intro hmem
        rcases List.mem_append.mp hmem with hm | hm
        · exact h3 hm
        · simp at hm; subst hm; exact hne rfl
    · intro op cv hl
      have hl' : alookup op s.m.cache = some cv := hl
      obtain ⟨x, hx, h1, h2⟩ := w.cacheU op cv hl'
      refine ⟨x, mem_filter_ne.mpr ⟨hx, ?_⟩, h1, h2⟩
      intro heq
      have hxu := eq_of_mem_nodup w.uNodup hx hu heq
      rw [← h1, hxu, hc] at hl'
      simp at hl'
    · intro x hx hnd
      have hnd1 : x ∉ Del := fun h => hnd (List.mem_append_left _ h)
      have hxu : x ≠ u := fun h => hnd (List.mem_append_right _ (by simp [h]))
      obtain ⟨h1, h2⟩ := w.dbU x hx hnd1
      refine ⟨mem_filter_ne.mpr ⟨h1, ?_⟩, h2⟩
      intro heq
      exact hxu (eq_of_mem_nodup w.uNodup h1 hu heq)

theorem repSys_add {s : Sys} {U : List Utxo} (u : Utxo) (h : RepSys s U)
    (hf : ∀ x ∈ U, opOf x ≠ opOf u) :
    RepSys (sysOps.add s u.txid u.idx (cvOf u)) (U ++ [u]) := by
  obtain ⟨D, Del, w⟩ := h
  refine ⟨D, Del, ?_⟩
  have hadd : (sysOps.add s u.txid u.idx (cvOf u)) =
      { s with m := { s.m with cache := ainsert (opOf u) (cvOf u) s.m.cache } } := rfl
  rw [hadd]
  refine { w with uNodup := ?_, cacheKeys := nodup_keys_ainsert _ _ w.cacheKeys,
                  inU := ?_, cacheU := ?_, dbU := ?_ }
  · rw [List.map_append, List.nodup_append]
    refine ⟨w.uNodup, by simp, ?_⟩
    intro a ha b hb
    simp only [List.map_cons, List.map_nil, List.mem_singleton] at hb
    obtain ⟨x, hx, rfl⟩ := List.mem_map.mp ha
    rw [hb]; exact hf x hx
  · intro x hx
    simp only [alookup_ainsert]
    rcases List.mem_append.mp hx with hx | hx
    · rw [if_neg (fun h => hf x hx h.symm)]
      exact w.inU x hx
    · simp at hx; subst hx; simp
  · intro op cv hl
    simp only [alookup_ainsert] at hl
    by_cases hop : opOf u = op
    · simp only [hop, if_true, Option.some.injEq] at hl
      exact ⟨u, by simp, hop, hl⟩
    · simp only [hop, if_false] at hl
      obtain ⟨x, hx, h1, h2⟩ := w.cacheU op cv hl
      exact ⟨x, List.mem_append_left _ hx, h1, h2⟩
  · intro x hx hnd
    obtain ⟨h1, h2⟩ := w.dbU x hx hnd
    refine ⟨List.mem_append_left _ h1, ?_⟩
    simp only [alookup_ainsert]
    rw [if_neg (fun h => hf x h1 h.symm)]
    exact h2

/-- **Storage layer.**  The concrete store implements the representation interface, so every
theorem of the logic layer holds for the real cache/rows/deletes layout. -/
theorem sysIface : RepIface sysOps RepSys where
  nodup := fun ⟨_, _, w⟩ => w.uNodup
  perm := repSys_perm
  spend := repSys_spend
  add := fun u h hf => repSys_add u h hf

end EV.Index

import EV.Proofs.TxCodecTrunc

/-! The streaming loops of `OnDiskBlock` on a well-formed block file: the inner parse loop, the
refill loop of `iter_txs`, `_chunk_offsets`, and the per-chunk loop of `iter_txs_reversed`. -/
namespace EV.TxCodec

/-- concatenated serialisations -/
def stream (txs : List Tx) : Bytes := (txs.map serializeRaw).flatten

/-- what `iter_txs` yields for a transaction: the tx and the bytes that are hashed -/
def itemOf (t : Tx) : Item := (t, serializeRaw t)

@[simp] theorem stream_nil : stream [] = [] := rfl
@[simp] theorem stream_cons (t : Tx) (ts : List Tx) : stream (t :: ts) = serializeRaw t ++ stream ts := by
  simp [stream]
theorem stream_append (a b : List Tx) : stream (a ++ b) = stream a ++ stream b := by
  simp [stream]

theorem serializeRaw_length_ge (t : Tx) : 10 ≤ (serializeRaw t).length := by
  have h1 := packVarint_length_pos t.inputs.length
  have h2 := packVarint_length_pos t.outputs.length
  simp only [serializeRaw, List.length_append, leBytes_length]
  omega

theorem length_le_stream (txs : List Tx) : txs.length ≤ (stream txs).length := by
  induction txs with
  | nil => simp
  | cons t ts ih =>
    have := serializeRaw_length_ge t
    simp only [stream_cons, List.length_cons, List.length_append]; omega

/-- number of whole transactions within the first `k` bytes of `stream txs` -/
def fit : Nat → List Tx → Nat
  | _, [] => 0
  | k, t :: ts => if (serializeRaw t).length ≤ k then fit (k - (serializeRaw t).length) ts + 1 else 0

theorem fit_le (k : Nat) (txs : List Tx) : fit k txs ≤ txs.length := by
  induction txs generalizing k with
  | nil => simp [fit]
  | cons t ts ih =>
    simp only [fit]; split
    · have := ih (k - (serializeRaw t).length); simp only [List.length_cons]; omega
    · omega

theorem fit_length_le (k : Nat) (txs : List Tx) : (stream (txs.take (fit k txs))).length ≤ k := by
  induction txs generalizing k with
  | nil => simp [fit]
  | cons t ts ih =>
    simp only [fit]; split
    · have := ih (k - (serializeRaw t).length)
      simp only [List.take_succ_cons, stream_cons, List.length_append]; omega
    · simp

theorem fit_next (k : Nat) (txs : List Tx) (h : fit k txs < txs.length) :
    k < (stream (txs.take (fit k txs + 1))).length := by
  induction txs generalizing k with
  | nil => simp at h
  | cons t ts ih =>
    simp only [fit] at h ⊢; split
    · rename_i h1
      rw [if_pos h1] at h
      have := ih (k - (serializeRaw t).length) (by simp only [List.length_cons] at h; omega)
      simp only [List.take_succ_cons, stream_cons, List.length_append]; omega
    · simp only [Nat.zero_add, List.take_succ_cons, List.take_zero, stream_cons, stream_nil,
        List.append_nil]; omega

/-- what the streaming proofs need of a reader (`read_tx` and `read_tx_and_hash` both qualify) -/
structure GoodReader {α : Type} (reader : Bytes → Nat → Except PyExc (α × Nat)) (item : Tx → α) : Prop where
  full : ∀ buf c t, At buf c (serializeRaw t) → WfTx t →
    reader buf c = .ok (item t, c + (serializeRaw t).length)
  trunc : ∀ buf c t n, At buf c (serializeRaw t) → WfTx t → n < c + (serializeRaw t).length →
    c + (serializeRaw t).length ≤ B63 → ∃ err, reader (buf.take n) c = .error err ∧ Soft err
  atEnd : ∀ buf c, buf.length ≤ c → c < B63 → ∃ err, reader buf c = .error err ∧ Soft err

theorem readTx_atEnd (buf : Bytes) (c : Nat) (h : buf.length ≤ c) (hc : c < B63) :
    ∃ err, readTx buf c = .error err ∧ Soft err := by
  refine ⟨unpackErr c, ?_, unpackErr_soft hc⟩
  unfold readTx readLeI32; rw [if_neg (by omega)]

theorem goodReader_readTx : GoodReader readTx id where
  full := fun _ _ _ h hw => readTx_at h hw
  trunc := fun _ _ _ _ h hw hn hb => by
    obtain ⟨err, e1, e2⟩ := readTx_truncated (readTx_at h hw) hn
    exact ⟨err, e1, e2 hb⟩
  atEnd := readTx_atEnd

theorem goodReader_readTxAndHash : GoodReader readTxAndHash itemOf where
  full := fun buf c t h hw => by
    unfold readTxAndHash; rw [readTx_at h hw]; simp only [itemOf, h.slice]
  trunc := fun buf c t n h hw hn hb => by
    obtain ⟨err, e1, e2⟩ := readTx_truncated (readTx_at h hw) hn
    exact ⟨err, by unfold readTxAndHash; rw [e1], e2 hb⟩
  atEnd := fun buf c h hc => by
    obtain ⟨err, e1, e2⟩ := readTx_atEnd buf c h hc
    exact ⟨err, by unfold readTxAndHash; rw [e1], e2⟩

/-- the inner loop on a buffer holding the first `k` bytes of the remaining stream reads exactly
    the transactions that fit, and stops with a caught exception at the start of the next one -/
theorem parseRun_spec {α : Type} {reader : Bytes → Nat → Except PyExc (α × Nat)} {item : Tx → α}
    (G : GoodReader reader item) (txs : List Tx) (hw : ∀ t ∈ txs, WfTx t) :
    ∀ (pre : Bytes) (k fuel : Nat), ((stream txs).take k).length < fuel →
      pre.length + (stream txs).length < B63 →
      ∃ err, Soft err ∧ parseRun reader (pre ++ (stream txs).take k) fuel pre.length =
        ⟨(txs.take (fit k txs)).map item, pre.length + (stream (txs.take (fit k txs))).length, err⟩ := by
  induction txs with
  | nil =>
    intro pre k fuel hf hb
    obtain ⟨f, rfl⟩ : ∃ f, fuel = f + 1 := ⟨fuel - 1, by omega⟩
    obtain ⟨err, e1, e2⟩ := G.atEnd pre pre.length (Nat.le_refl _) (by simpa using hb)
    refine ⟨err, e2, ?_⟩
    simp [parseRun, e1, fit]
  | cons t ts ih =>
    intro pre k fuel hf hb
    obtain ⟨f, rfl⟩ : ∃ f, fuel = f + 1 := ⟨fuel - 1, by omega⟩
    have hlen := serializeRaw_length_ge t
    simp only [stream_cons, List.length_append] at hb hf
    by_cases hk : (serializeRaw t).length ≤ k
    · -- the whole of `t` is in the buffer
      have htake : (serializeRaw t ++ stream ts).take k =
          serializeRaw t ++ (stream ts).take (k - (serializeRaw t).length) := by
        rw [List.take_append, List.take_of_length_le hk]
      have hat : At (pre ++ (serializeRaw t ++ (stream ts).take (k - (serializeRaw t).length)))
          pre.length (serializeRaw t) := At.intro _ _ _
      have e1 := G.full _ _ _ hat (hw t (by simp))
      obtain ⟨err, s1, e2⟩ := ih (fun x hx => hw x (by simp [hx])) (pre ++ serializeRaw t)
        (k - (serializeRaw t).length) f
        (by rw [htake] at hf; simp only [List.length_append] at hf; omega)
        (by simp only [List.length_append]; omega)
      refine ⟨err, s1, ?_⟩
      simp only [List.append_assoc, List.length_append] at e2
      simp only [stream_cons, htake, parseRun, e1, e2, Run.cons, fit, if_pos hk, List.take_succ_cons,
        List.map_cons, List.length_append]
      congr 1; omega
    · -- `t` is cut: the buffer is a truncation of a buffer holding all of `t`
      have hat : At (pre ++ (serializeRaw t ++ stream ts)) pre.length (serializeRaw t) := At.intro _ _ _
      obtain ⟨err, e1, s1⟩ := G.trunc _ _ _ (pre.length + k) hat (hw t (by simp)) (by omega) (by omega)
      have htake : (pre ++ (serializeRaw t ++ stream ts)).take (pre.length + k) =
          pre ++ (serializeRaw t ++ stream ts).take k := by
        rw [List.take_append, List.take_of_length_le (by omega)]; simp
      rw [htake] at e1
      refine ⟨err, s1, ?_⟩
      simp [stream_cons, parseRun, e1, fit, hk]


/-! ### list facts used by the loop invariants -/

theorem take_append_ge {α : Type} (a b : List α) (k : Nat) (h : a.length ≤ k) :
    (a ++ b).take k = a ++ b.take (k - a.length) := by
  rw [List.take_append, List.take_of_length_le h]

theorem drop_append_ge {α : Type} (a b : List α) (k : Nat) (h : a.length ≤ k) :
    (a ++ b).drop k = b.drop (k - a.length) := by
  rw [List.drop_append, List.drop_of_length_le h, List.nil_append]

theorem drop_pre_take {α : Type} (pre a b : List α) (k : Nat) (h : a.length ≤ k) :
    (pre ++ (a ++ b).take k).drop (pre.length + a.length) = b.take (k - a.length) := by
  rw [take_append_ge a b k h, ← List.append_assoc,
    drop_append_ge (pre ++ a) _ _ (by simp)]
  simp

theorem take_take_drop {α : Type} (l : List α) (a b : Nat) :
    l.take a ++ (l.drop a).take b = l.take (a + b) := by
  rw [List.take_add]

theorem stream_take_drop (txs : List Tx) (j : Nat) :
    stream txs = stream (txs.take j) ++ stream (txs.drop j) := by
  rw [← stream_append, List.take_append_drop]

theorem caughtIter_of_soft {e : PyExc} (h : Soft e) : caughtIter e = true := by
  rcases h with rfl | rfl <;> decide

theorem caughtOff_of_soft {e : PyExc} (h : Soft e) : caughtOff e = true := by
  rcases h with rfl | rfl <;> decide

/-! ### `iter_txs` -/

/-- loop invariant of `iter_txs`: with `count` transactions yielded so far and `todo` remaining,
    the buffer holds (from the cursor on) the first `k` bytes of the remaining stream and the file
    the rest – then the loop yields exactly `todo`, whatever `chunk ≥ 1` is -/
theorem iterLoop_spec (chunk : Nat) (hc : 1 ≤ chunk) (N : Nat) :
    ∀ (fuel count : Nat) (todo : List Tx) (pre : Bytes) (k : Nat),
      (∀ t ∈ todo, WfTx t) → count + todo.length = N →
      ((stream todo).drop k).length < fuel →
      pre.length + (stream todo).length < B63 →
      iterLoop chunk N fuel (pre ++ (stream todo).take k) pre.length ((stream todo).drop k) count =
        ⟨todo.map itemOf, none⟩ := by
  intro fuel
  induction fuel with
  | zero => intro count todo pre k _ _ hf; omega
  | succ f ih =>
    intro count todo pre k hw hN hf hb
    obtain ⟨err, hs, hrun⟩ := parseRun_spec goodReader_readTxAndHash todo hw pre k
      ((pre ++ (stream todo).take k).length + 1) (by simp only [List.length_append]; omega) hb
    have hj := fit_le k todo
    have hlen : ((todo.take (fit k todo)).map itemOf).length = fit k todo := by
      simp only [List.length_map, List.length_take]; omega
    simp only [iterLoop, hrun, caughtIter_of_soft hs, Bool.not_true, Bool.false_eq_true, if_false, hlen]
    by_cases hdone : count + fit k todo = N
    · have : fit k todo = todo.length := by omega
      rw [if_pos hdone, this, List.take_length]
    · rw [if_neg hdone]
      have hlt : fit k todo < todo.length := by omega
      have hnext := fit_next k todo hlt
      have hL := fit_length_le k todo
      have hsplit := stream_take_drop todo (fit k todo)
      -- the file still has bytes
      have hS : (stream (todo.take (fit k todo + 1))).length ≤ (stream todo).length := by
        rw [stream_take_drop todo (fit k todo + 1)]; simp only [List.length_append]; omega
      have hrest : ((stream todo).drop k).take chunk ≠ [] := by
        intro h0
        have := congrArg List.length h0
        simp only [List.length_take, List.length_drop, List.length_nil] at this
        omega
      rw [if_neg (by simpa using hrest)]
      -- the refilled buffer, in terms of the remaining stream
      have hraw : (pre ++ (stream todo).take k).drop (pre.length + (stream (todo.take (fit k todo))).length) ++
          ((stream todo).drop k).take chunk =
          [] ++ (stream (todo.drop (fit k todo))).take (k - (stream (todo.take (fit k todo))).length + chunk) := by
        rw [hsplit, drop_pre_take _ _ _ _ hL, drop_append_ge _ _ _ hL, take_take_drop, List.nil_append]
      have hrest' : ((stream todo).drop k).drop chunk =
          (stream (todo.drop (fit k todo))).drop (k - (stream (todo.take (fit k todo))).length + chunk) := by
        rw [hsplit, drop_append_ge _ _ _ hL, List.drop_drop]
      rw [hraw, hrest']
      have hfuel : ((stream (todo.drop (fit k todo))).drop
          (k - (stream (todo.take (fit k todo))).length + chunk)).length < f := by
        rw [← hrest']
        have : (((stream todo).drop k).take chunk).length ≠ 0 := fun h => hrest (List.eq_nil_of_length_eq_zero h)
        simp only [List.length_take, List.length_drop] at this hf ⊢
        omega
      have := ih (count + fit k todo) (todo.drop (fit k todo)) []
        (k - (stream (todo.take (fit k todo))).length + chunk)
        (fun t ht => hw t (List.mem_of_mem_drop ht))
        (by simp only [List.length_drop]; omega) hfuel
        (by rw [hsplit] at hb; simp only [List.length_append, List.length_nil] at hb ⊢; omega)
      simp only [List.length_nil] at this
      rw [this]
      simp only [GenRes.prepend, ← List.map_append, List.take_append_drop]

/-- the part of the block file after the header -/
theorem blockFile_parts (hdr : Bytes) (txs : List Tx) (chunk : Nat) (hh : hdr.length = 80)
    (hc : (packVarint txs.length).length ≤ chunk) :
    (blockFile hdr txs).take 80 = hdr ∧
    ((blockFile hdr txs).drop 80).take chunk =
      packVarint txs.length ++ (stream txs).take (chunk - (packVarint txs.length).length) ∧
    ((blockFile hdr txs).drop 80).drop chunk = (stream txs).drop (chunk - (packVarint txs.length).length) := by
  have h1 : (blockFile hdr txs).drop 80 = packVarint txs.length ++ stream txs := by
    unfold blockFile stream; rw [← hh, List.drop_left]
  refine ⟨?_, ?_, ?_⟩
  · unfold blockFile; rw [← hh, List.take_left]
  · rw [h1, take_append_ge _ _ _ hc]
  · rw [h1, drop_append_ge _ _ _ hc]

theorem blockFile_length (hdr : Bytes) (txs : List Tx) :
    (blockFile hdr txs).length = hdr.length + ((packVarint txs.length).length + (stream txs).length) := by
  simp [blockFile, stream]

theorem readVarint_blockFile (txs : List Tx) (X : Bytes) (hn : txs.length < 18446744073709551616) :
    readVarint (packVarint txs.length ++ X) 0 = .ok (txs.length, (packVarint txs.length).length) := by
  have hat : At ([] ++ (packVarint txs.length ++ X)) ([] : Bytes).length (packVarint txs.length) :=
    At.intro _ _ _
  have := readVarint_at hat hn
  simpa using this

theorem iterTxs_blockFile (hdr : Bytes) (txs : List Tx) (chunk : Nat)
    (hh : hdr.length = 80) (hw : ∀ t ∈ txs, WfTx t) (hc : (packVarint txs.length).length ≤ chunk)
    (hb : (blockFile hdr txs).length < B63) :
    iterTxs chunk (blockFile hdr txs) = ⟨txs.map itemOf, none⟩ := by
  obtain ⟨p1, p2, p3⟩ := blockFile_parts hdr txs chunk hh hc
  have hlen := blockFile_length hdr txs
  have hv := packVarint_length_pos txs.length
  have hn : txs.length < 18446744073709551616 := by
    have := length_le_stream txs
    unfold B63 at hb; omega
  have hhdr : hdr ≠ [] := by intro h; rw [h] at hh; simp at hh
  have hV : packVarint txs.length ≠ [] := by intro h; rw [h] at hv; simp at hv
  unfold iterTxs
  rw [p1, p2, p3, if_neg (by simpa using hhdr), if_neg (by simp [hV]), readVarint_blockFile txs _ hn]
  simp only []
  have := iterLoop_spec chunk (by omega) txs.length (blockFile hdr txs).length 0 txs
    (packVarint txs.length) (chunk - (packVarint txs.length).length) hw (by omega)
    (by simp only [List.length_drop]; omega) (by omega)
  exact this

/-! ### `_chunk_offsets` (the code in /repo, after the F3 fix) -/

/-- the offsets appended for consecutive groups of transactions, the first starting at `o` -/
def boundaries : Nat → List (List Tx) → List Nat
  | _, [] => []
  | o, g :: gs => (o + (stream g).length) :: boundaries (o + (stream g).length) gs

/-- loop invariant of `_chunk_offsets`: `base + cursor` is the file offset of the next transaction;
    the loop returns the offsets so far followed by the boundaries of some grouping of `todo` -/
theorem offLoop_spec (chunk : Nat) (hc : 1 ≤ chunk) :
    ∀ (fuel : Nat) (todo : List Tx) (pre : Bytes) (k base : Nat) (offs : List Nat),
      (∀ t ∈ todo, WfTx t) → ((stream todo).drop k).length < fuel →
      pre.length + (stream todo).length < B63 →
      ∃ groups : List (List Tx), groups.flatten = todo ∧
        offLoop true chunk fuel (pre ++ (stream todo).take k) pre.length ((stream todo).drop k) base
          (todo.length : Int) offs = .ok (offs ++ boundaries (base + pre.length) groups) := by
  intro fuel
  induction fuel with
  | zero => intro todo pre k base offs _ hf; omega
  | succ f ih =>
    intro todo pre k base offs hw hf hb
    obtain ⟨err, hs, hrun⟩ := parseRun_spec goodReader_readTx todo hw pre k
      ((pre ++ (stream todo).take k).length + 1) (by simp only [List.length_append]; omega) hb
    have hj := fit_le k todo
    have hlen : ((todo.take (fit k todo)).map id).length = fit k todo := by
      simp only [List.length_map, List.length_take]; omega
    simp only [offLoop, hrun, caughtOff_of_soft hs, Bool.not_true, Bool.false_eq_true, if_false, hlen,
      Bool.true_or, if_true]
    by_cases hdone : fit k todo = todo.length
    · rw [if_pos (by omega)]
      by_cases h0 : fit k todo = 0
      · refine ⟨[], ?_, ?_⟩
        · have : todo.length = 0 := by omega
          simp [List.eq_nil_of_length_eq_zero this]
        · simp [h0, boundaries]
      · refine ⟨[todo], by simp, ?_⟩
        rw [if_pos h0, hdone, List.take_length]
        simp only [boundaries, Nat.add_assoc]
    · rw [if_neg (by omega)]
      have hlt : fit k todo < todo.length := by omega
      have hnext := fit_next k todo hlt
      have hL := fit_length_le k todo
      have hsplit := stream_take_drop todo (fit k todo)
      have hS : (stream (todo.take (fit k todo + 1))).length ≤ (stream todo).length := by
        rw [stream_take_drop todo (fit k todo + 1)]; simp only [List.length_append]; omega
      have hrest : ((stream todo).drop k).take chunk ≠ [] := by
        intro h0
        have := congrArg List.length h0
        simp only [List.length_take, List.length_drop, List.length_nil] at this
        omega
      rw [if_neg (by simpa using hrest)]
      have hraw : (pre ++ (stream todo).take k).drop (pre.length + (stream (todo.take (fit k todo))).length) ++
          ((stream todo).drop k).take chunk =
          [] ++ (stream (todo.drop (fit k todo))).take (k - (stream (todo.take (fit k todo))).length + chunk) := by
        rw [hsplit, drop_pre_take _ _ _ _ hL, drop_append_ge _ _ _ hL, take_take_drop, List.nil_append]
      have hrest' : ((stream todo).drop k).drop chunk =
          (stream (todo.drop (fit k todo))).drop (k - (stream (todo.take (fit k todo))).length + chunk) := by
        rw [hsplit, drop_append_ge _ _ _ hL, List.drop_drop]
      have hcount : (todo.length : Int) - (fit k todo : Int) = ((todo.drop (fit k todo)).length : Int) := by
        simp only [List.length_drop]; omega
      rw [hraw, hrest', hcount]
      have hfuel : ((stream (todo.drop (fit k todo))).drop
          (k - (stream (todo.take (fit k todo))).length + chunk)).length < f := by
        rw [← hrest']
        have : (((stream todo).drop k).take chunk).length ≠ 0 := fun h => hrest (List.eq_nil_of_length_eq_zero h)
        simp only [List.length_take, List.length_drop] at this hf ⊢
        omega
      obtain ⟨groups', hg, hres⟩ := ih (todo.drop (fit k todo)) []
        (k - (stream (todo.take (fit k todo))).length + chunk)
        (base + (pre.length + (stream (todo.take (fit k todo))).length))
        (if fit k todo ≠ 0 then offs ++ [base + (pre.length + (stream (todo.take (fit k todo))).length)] else offs)
        (fun t ht => hw t (List.mem_of_mem_drop ht)) hfuel
        (by rw [hsplit] at hb; simp only [List.length_append, List.length_nil] at hb ⊢; omega)
      simp only [List.length_nil, Nat.add_zero] at hres
      rw [hres]
      by_cases h0 : fit k todo = 0
      · refine ⟨groups', ?_, ?_⟩
        · rw [hg, h0, List.drop_zero]
        · simp [h0]
      · refine ⟨todo.take (fit k todo) :: groups', ?_, ?_⟩
        · rw [List.flatten_cons, hg, List.take_append_drop]
        · simp only [if_pos h0, boundaries, List.append_assoc, List.singleton_append, Nat.add_assoc]

/-! ### `iter_txs_reversed` -/

theorem readAll_spec (g : List Tx) (hw : ∀ t ∈ g, WfTx t) :
    ∀ (pre : Bytes) (fuel : Nat), g.length ≤ fuel →
      readAll (pre ++ stream g) (pre.length + (stream g).length) fuel pre.length = .ok (g.map itemOf) := by
  induction g with
  | nil =>
    intro pre fuel _
    cases fuel <;> simp [readAll]
  | cons t ts ih =>
    intro pre fuel hf
    obtain ⟨f, rfl⟩ : ∃ f, fuel = f + 1 := ⟨fuel - 1, by simp only [List.length_cons] at hf; omega⟩
    have hlen := serializeRaw_length_ge t
    have hat : At (pre ++ (serializeRaw t ++ stream ts)) pre.length (serializeRaw t) := At.intro _ _ _
    have e1 := goodReader_readTxAndHash.full _ _ _ hat (hw t (by simp))
    have e2 := ih (fun x hx => hw x (by simp [hx])) (pre ++ serializeRaw t) f
      (by simp only [List.length_cons] at hf; omega)
    simp only [List.append_assoc, List.length_append, Nat.add_assoc] at e2
    simp only [stream_cons, readAll, List.length_append, e1, e2, List.map_cons]
    rw [if_pos (by omega)]

theorem revChunks_cons_good (data : Bytes) (a b : Nat) (g : List Tx) (ps : List (Nat × Nat))
    (hw : ∀ t ∈ g, WfTx t) (hat : At data a (stream g)) (hb : b = a + (stream g).length) :
    revChunks data ((a, b) :: ps) = (revChunks data ps).prepend (g.map itemOf).reverse := by
  have hs : slice data a b = stream g := hat.slice' hb
  have hsize : b - a = (stream g).length := by omega
  have hr := readAll_spec g hw [] (stream g).length (length_le_stream g)
  simp only [List.nil_append, List.length_nil, Nat.zero_add] at hr
  simp only [revChunks, hs, hsize, hr]
  rw [if_neg (by omega), if_neg (by simp)]

theorem revChunks_append (data : Bytes) (l1 l2 : List (Nat × Nat)) (xs : List Item)
    (h : revChunks data l1 = ⟨xs, none⟩) :
    revChunks data (l1 ++ l2) = (revChunks data l2).prepend xs := by
  induction l1 generalizing xs with
  | nil =>
    simp only [revChunks, GenRes.mk.injEq] at h
    obtain ⟨rfl, _⟩ := h
    simp [GenRes.prepend]
  | cons p ps ih =>
    obtain ⟨a, b⟩ := p
    simp only [List.cons_append, revChunks] at h ⊢
    split
    · rename_i h1; rw [if_pos h1] at h; cases h
    · rename_i h1
      rw [if_neg h1] at h
      split
      · rename_i h2; rw [if_pos h2] at h; cases h
      · rename_i h2
        rw [if_neg h2] at h
        split
        · rename_i e he; rw [he] at h; cases h
        · rename_i ys he
          rw [he] at h
          simp only [GenRes.prepend, GenRes.mk.injEq] at h
          obtain ⟨h3, h4⟩ := h
          have := ih (revChunks data ps).items (by rw [← h4])
          rw [this, ← h3]
          simp [GenRes.prepend]

/-- `(start, stop)` pairs of consecutive groups -/
def ranges : Nat → List (List Tx) → List (Nat × Nat)
  | _, [] => []
  | o, g :: gs => (o, o + (stream g).length) :: ranges (o + (stream g).length) gs

theorem zip_boundaries (o : Nat) (gs : List (List Tx)) :
    (o :: boundaries o gs).zip (boundaries o gs) = ranges o gs := by
  induction gs generalizing o with
  | nil => simp [boundaries, ranges]
  | cons g gs ih => simp only [boundaries, ranges, List.zip_cons_cons, ih]

theorem revChunks_ranges (data : Bytes) (gs : List (List Tx)) :
    ∀ (o : Nat), (∀ t ∈ gs.flatten, WfTx t) → At data o (stream gs.flatten) →
      revChunks data (ranges o gs).reverse = ⟨(gs.flatten.map itemOf).reverse, none⟩ := by
  induction gs with
  | nil => intro o _ _; simp [ranges, revChunks]
  | cons g gs ih =>
    intro o hw hat
    simp only [List.flatten_cons, stream_append] at hat
    have h1 := ih (o + (stream g).length) (fun t ht => hw t (by simp only [List.flatten_cons, List.mem_append]; exact Or.inr ht))
      hat.right
    have h2 := revChunks_cons_good data o (o + (stream g).length) g []
      (fun t ht => hw t (by simp only [List.flatten_cons, List.mem_append]; exact Or.inl ht)) hat.left rfl
    simp only [ranges, List.reverse_cons]
    rw [revChunks_append data _ _ _ h1, h2]
    simp [GenRes.prepend, revChunks]

theorem iterTxsReversed_blockFile (hdr : Bytes) (txs : List Tx) (chunk : Nat)
    (hh : hdr.length = 80) (hw : ∀ t ∈ txs, WfTx t) (hc : (packVarint txs.length).length ≤ chunk)
    (hb : (blockFile hdr txs).length < B63) :
    iterTxsReversed chunk (blockFile hdr txs) = ⟨(txs.map itemOf).reverse, none⟩ := by
  obtain ⟨p1, p2, p3⟩ := blockFile_parts hdr txs chunk hh hc
  have hlen := blockFile_length hdr txs
  have hv := packVarint_length_pos txs.length
  have hn : txs.length < 18446744073709551616 := by
    have := length_le_stream txs
    unfold B63 at hb; omega
  have hhdr : hdr ≠ [] := by intro h; rw [h] at hh; simp at hh
  have hV : packVarint txs.length ≠ [] := by intro h; rw [h] at hv; simp at hv
  obtain ⟨groups, hg, hoff⟩ := offLoop_spec chunk (by omega) (blockFile hdr txs).length txs
    (packVarint txs.length) (chunk - (packVarint txs.length).length) 80 [80 + (packVarint txs.length).length]
    hw (by simp only [List.length_drop]; omega) (by omega)
  have hat : At (blockFile hdr txs) (80 + (packVarint txs.length).length) (stream groups.flatten) := by
    rw [hg]
    refine ⟨hdr ++ packVarint txs.length, [], ?_, by simp [hh]⟩
    simp [blockFile, stream]
  unfold iterTxsReversed iterTxsReversedG chunkOffsetsG
  rw [p1, p2, p3, if_neg (by simpa using hhdr), if_neg (by simp [hh]), if_neg (by simp [hV]),
    readVarint_blockFile txs _ hn]
  simp only []
  rw [hoff]
  simp only [List.singleton_append, List.tail_cons, zip_boundaries]
  rw [revChunks_ranges _ groups _ (by rw [hg]; exact hw) hat, hg]

end EV.TxCodec

import EV.Proofs.ShutdownTaskInv
import EV.Proofs.ShutdownTaskValid

/-!
Task-level shutdown model: what happens after the shutdown request — the section in flight
completes, then the handler's flush runs, then the task returns.
-/
namespace EV.ShutdownTask
open EV.Index

/-- The operations an inner task (the section in flight) may still carry out, as a function of
its state.  An `advance_and_maybe_flush` section: nothing (the block does not connect and no flush
is requested), the advance, the advance and a flush, or only a flush (the block does not connect,
`reorg_count = -1`, but the cache-size loop has requested a flush). -/
def Rem : Option Inner → List IOp2 → Prop
  | none, r => r = []
  | some (.wantLock sec), r =>
    match sec with
    | .adv b => r = [] ∨ (∃ d, r = [.adv b d]) ∨ (∃ d a, r = [.adv b d, .flush a]) ∨ ∃ a, r = [.flush a]
    | .flush => r = [.flush true]
    | .backup b => r = [.backup b]
    | .safe => r = []
  | some (.job _ j), r =>
    match j with
    | .adv b => r = [] ∨ (∃ d, r = [.adv b d]) ∨ (∃ d a, r = [.adv b d, .flush a]) ∨ ∃ a, r = [.flush a]
    | .flush a => r = [.flush a]
    | .backup b => r = [.backup b]
  | some (.jobDone _ j err), r =>
    match j, err with
    | .adv _, none => r = [] ∨ ∃ a, r = [.flush a]
    | _, _ => r = []

theorem rem_innerStart {sec : Sec} {j : JobK} {r : List IOp2}
    (hj : (sec = .flush ∧ j = .flush true) ∨ (∃ b, sec = .adv b ∧ j = .adv b) ∨
      (∃ b, sec = .backup b ∧ j = .backup b))
    (h : Rem (some (.job sec j)) r) : Rem (some (.wantLock sec)) r := by
  rcases hj with ⟨rfl, rfl⟩ | ⟨b, rfl, rfl⟩ | ⟨b, rfl, rfl⟩ <;> exact h

theorem rem_jobEnd (st : St) {sec : Sec} {j : JobK} {e : Option Err} {r : List IOp2} (dH : Int)
    (he : e ≠ none → ∀ b, j = .adv b → ¬ b.prev ≠ st.sys.m.st.tip)
    (h : Rem (some (.jobDone sec j e)) r) : Rem (some (.job sec j)) (jobOps st j dH ++ r) := by
  cases j with
  | adv b =>
    simp only [jobOps]
    cases e with
    | none =>
      simp only [Rem] at h ⊢
      split
      · rcases h with rfl | ⟨a, rfl⟩
        · simp
        · exact Or.inr (Or.inr (Or.inr ⟨a, rfl⟩))
      · rcases h with rfl | ⟨a, rfl⟩
        · exact Or.inr (Or.inl ⟨dH, rfl⟩)
        · exact Or.inr (Or.inr (Or.inl ⟨dH, a, rfl⟩))
    | some e0 =>
      simp only [Rem] at h ⊢
      subst h
      rw [if_neg (he (by simp) b rfl)]
      exact Or.inr (Or.inl ⟨dH, rfl⟩)
  | flush a =>
    simp only [jobOps, Rem] at h ⊢
    subst h; rfl
  | backup b =>
    simp only [jobOps, Rem] at h ⊢
    subst h; rfl

theorem rem_deliver (st : St) (sec : Sec) (j : JobK) (err : Option Err) {r : List IOp2}
    (h : Rem (continueSec st sec j err).inner r) : Rem (some (.jobDone sec j err)) r := by
  unfold continueSec at h
  split at h
  · rw [finish_inner] at h
    simp only [Rem] at h ⊢
    subst h
    first | rfl | (split <;> simp)
  · split at h
    · split at h
      · simp only [Rem] at h ⊢
        exact Or.inr ⟨_, h⟩
      · rw [finish_inner] at h
        simp only [Rem] at h ⊢
        exact Or.inl h
    · rw [finish_inner] at h
      simp only [Rem] at h ⊢
      subst h
      first | rfl | (split <;> simp)

/-! ### the phases after the request -/

def isSafe : Option Inner → Bool
  | some i => decide (i.sec = .safe)
  | none => false

/-- what the log looks like, relative to the log at the request, in each phase of the handler -/
structure AfterCancel (st : St) : Prop where
  /-- the handler waits for the lock: the section in flight goes on -/
  waiting : st.outer = .handler → isSafe st.inner = false →
    ∃ done, att st.log = att st.logAtCancel ++ done ∧
      ∀ r, Rem st.inner r → Rem st.innerAtCancel (done ++ r)
  /-- the handler's flush is in a worker thread -/
  flushing : st.outer = .handler → ∀ j, st.inner = some (.job .safe j) →
    ∃ done, att st.log = att st.logAtCancel ++ done ∧ Rem st.innerAtCancel done
  /-- the handler's flush has returned -/
  flushed : st.outer = .handler → ∀ j e, st.inner = some (.jobDone .safe j e) →
    ∃ done, att st.log = att st.logAtCancel ++ done ++ [.flush true] ∧ Rem st.innerAtCancel done ∧
      (e = none → ∃ pre, st.log = pre ++ [(.flush true, true)])
  /-- the task has returned -/
  returned : st.outer = .returned →
    ∃ done, Rem st.innerAtCancel done ∧
      ((att st.log = att st.logAtCancel ++ done ++ [.flush true] ∧
          ∃ pre, st.log = pre ++ [(.flush true, true)]) ∨
       (st.ok = false ∧ att st.log = att st.logAtCancel ++ done))

theorem afterCancel_init : AfterCancel {} :=
  ⟨by simp, by simp, by simp, by simp⟩

/-- outside the handler only the request leads into it -/
theorem outer_stays_out {cfg : Cfg} {st st' : St} {e : Ev} (w : Shape st)
    (h1 : st.outer ≠ .handler) (h2 : st.outer ≠ .returned) (h : step cfg st e = some st')
    (hc : st'.cancelled = st.cancelled) : st'.outer ≠ .handler ∧ st'.outer ≠ .returned := by
  have w3 := w.outer
  have w4 := w.safe
  cases e <;> simp only [step] at h
  case jobEnd d =>
    split at h <;> simp at h
    subst h
    rename_i sec j hin
    obtain ⟨-, ho, -⟩ := runJob_ctl cfg st sec j d
    rw [ho]; exact ⟨h1, h2⟩
  case deliver =>
    split at h <;> simp at h
    subst h
    rename_i sec j err hin
    have hns : sec ≠ .safe := fun hs => h1 (w4 _ hin (by simp [Inner.sec, hs]))
    unfold continueSec finish
    cases sec <;> simp_all <;> (repeat' split) <;> simp_all
  case cancel =>
    exfalso
    (repeat' split at h) <;> simp_all <;> subst h <;> simp_all
  all_goals
    (repeat' split at h) <;> simp_all <;> (try subst h) <;> (try unfold afterBody) <;>
      (try (repeat' split)) <;> simp_all

theorem finish_ghost (st : St) (sec : Sec) (err : Option Err) :
    (finish st sec err).cancelled = st.cancelled ∧ (finish st sec err).logAtCancel = st.logAtCancel ∧
    (finish st sec err).innerAtCancel = st.innerAtCancel ∧ (finish st sec err).log = st.log ∧
    (finish st sec err).ok = st.ok := by
  unfold finish; cases sec <;> simp

theorem continueSec_ghost (st : St) (sec : Sec) (j : JobK) (err : Option Err) :
    (continueSec st sec j err).cancelled = st.cancelled ∧
    (continueSec st sec j err).logAtCancel = st.logAtCancel ∧
    (continueSec st sec j err).innerAtCancel = st.innerAtCancel ∧
    (continueSec st sec j err).log = st.log ∧ (continueSec st sec j err).ok = st.ok := by
  unfold continueSec
  (repeat' split) <;> first | exact finish_ghost _ _ _ | simp

/-- only the request sets the ghost fields of the request -/
theorem step_ghost {cfg : Cfg} {st st' : St} {e : Ev} (h : step cfg st e = some st')
    (hne : e ≠ .cancel) : st'.cancelled = st.cancelled ∧ st'.logAtCancel = st.logAtCancel ∧
      st'.innerAtCancel = st.innerAtCancel := by
  cases e <;> simp only [step] at h
  case cancel => exact absurd rfl hne
  case jobEnd d =>
    split at h <;> simp at h
    subst h
    obtain ⟨-, -, -, h1, h2, h3, -⟩ := runJob_ctl cfg st _ _ d
    exact ⟨h1, h2, h3⟩
  case deliver =>
    split at h <;> simp at h
    subst h
    obtain ⟨h1, h2, h3, -⟩ := continueSec_ghost st _ _ _
    exact ⟨h1, h2, h3⟩
  all_goals
    (repeat' split at h) <;> simp_all <;> (try subst h) <;> (try unfold afterBody) <;>
      (try (repeat' split)) <;> simp_all

/-- what a job end does to the log and the inner task -/
theorem runJob_spec (cfg : Cfg) (st : St) (sec : Sec) (j : JobK) (dH : Int) :
    ∃ e, (runJob cfg st sec j dH).inner = some (.jobDone sec j e) ∧
      att (runJob cfg st sec j dH).log = att st.log ++ jobOps st j dH ∧
      (e ≠ none → ∀ b, j = .adv b → ¬ b.prev ≠ st.sys.m.st.tip) ∧
      (∀ a, j = .flush a → e = none → (runJob cfg st sec j dH).log = st.log ++ [(.flush a, true)]) := by
  have hatt := att_runJob cfg st sec j dH
  unfold runJob at hatt ⊢
  cases j with
  | adv b =>
    simp only at hatt ⊢
    split
    · rename_i hp; rw [if_pos hp] at hatt; exact ⟨none, rfl, hatt, by simp, by simp⟩
    · rename_i hp
      rw [if_neg hp] at hatt
      split
      · rename_i s' hs; rw [hs] at hatt; exact ⟨none, rfl, hatt, by simp, by simp⟩
      · rename_i e0 hs; rw [hs] at hatt
        exact ⟨some e0, rfl, hatt, by intro _ b' hb; cases hb; exact hp, by simp⟩
  | flush a =>
    simp only at hatt ⊢
    split
    · rename_i s' hs; rw [hs] at hatt
      exact ⟨none, rfl, hatt, by simp, by intro a' ha _; cases ha; rfl⟩
    · rename_i e0 hs; rw [hs] at hatt; exact ⟨some e0, rfl, hatt, by simp, by simp⟩
  | backup b =>
    simp only at hatt ⊢
    split
    · rename_i s' hs; rw [hs] at hatt; exact ⟨none, rfl, hatt, by simp, by simp⟩
    · rename_i e0 hs; rw [hs] at hatt; exact ⟨some e0, rfl, hatt, by simp, by simp⟩

theorem continueSec_safe (st : St) (j : JobK) (err : Option Err) :
    continueSec st .safe j err = finish st .safe err := by
  unfold continueSec
  cases err <;> simp

theorem continueSec_handler {st : St} (ho : st.outer = .handler) {sec : Sec} (hs : sec ≠ .safe)
    (j : JobK) (err : Option Err) :
    (continueSec st sec j err).outer = .handler ∧
    ((continueSec st sec j err).inner = none ∨
      ∃ a, (continueSec st sec j err).inner = some (.job sec (.flush a))) := by
  have hf : ∀ err', (finish st sec err').outer = .handler ∧ (finish st sec err').inner = none := by
    intro err'
    unfold finish
    cases sec <;> simp_all
  unfold continueSec
  split
  · exact ⟨(hf _).1, Or.inl (hf _).2⟩
  · split
    · split
      · exact ⟨ho, Or.inr ⟨_, rfl⟩⟩
      · exact ⟨(hf _).1, Or.inl (hf _).2⟩
    · exact ⟨(hf _).1, Or.inl (hf _).2⟩

theorem afterCancel_of_out {st : St} (h1 : st.outer ≠ .handler) (h2 : st.outer ≠ .returned) :
    AfterCancel st :=
  ⟨fun h => absurd h h1, fun h => absurd h h1, fun h => absurd h h1, fun h => absurd h h2⟩

/-- the request itself -/
theorem afterCancel_cancel {cfg : Cfg} {st st' : St} (w : Shape st)
    (h : step cfg st .cancel = some st') : AfterCancel st' := by
  have w4 := w.safe
  simp only [step] at h
  split at h
  · simp at h
  · split at h <;> simp at h <;> subst h
    · exact afterCancel_of_out (by simp) (by simp)
    all_goals
      refine ⟨?_, ?_, ?_, by simp⟩
      · intro _ _
        exact ⟨[], by simp, fun r hr => by simpa using hr⟩
      · intro _ j hj
        have := w4 _ hj rfl
        simp_all
      · intro _ j e hj
        have := w4 _ hj rfl
        simp_all

/-- events that only touch `force_flush_arg` / `reorg_count` -/
theorem afterCancel_congr {st st' : St} (a : AfterCancel st) (h1 : st'.outer = st.outer)
    (h2 : st'.inner = st.inner) (h3 : st'.log = st.log) (h4 : st'.logAtCancel = st.logAtCancel)
    (h5 : st'.innerAtCancel = st.innerAtCancel) (h6 : st'.ok = st.ok) : AfterCancel st' := by
  obtain ⟨a1, a2, a3, a4⟩ := a
  refine ⟨?_, ?_, ?_, ?_⟩ <;> rw [h1, h3, h4, h5] <;> (try rw [h2]) <;> (try rw [h6]) <;> assumption

/-- in the handler: the events of the inner tasks and the worker -/
theorem afterCancel_handler {cfg : Cfg} {st st' : St} {e : Ev} (w : Shape st) (a : AfterCancel st)
    (ho : st.outer = .handler) (h : step cfg st e = some st') : AfterCancel st' := by
  have hcanc : st.cancelled = true := w.canc1 (Or.inl ho)
  cases e <;> simp only [step] at h
  case pressure b => simp at h; subst h; exact afterCancel_congr a rfl rfl rfl rfl rfl rfl
  case forceReorg n =>
    split at h <;> simp at h
    subst h; exact afterCancel_congr a rfl rfl rfl rfl rfl rfl
  case cancel => simp [hcanc] at h
  case innerStart =>
    split at h
    · simp at h
    · obtain ⟨done, hd1, hd2⟩ := a.waiting ho (by
        split at h <;> simp at h <;> rename_i hin <;> simp [hin, isSafe, Inner.sec])
      split at h <;> simp at h <;> subst h <;> rename_i hin
      all_goals
        refine ⟨?_, by simp [ho], by simp, by simp [ho]⟩
        intro _ _
        refine ⟨done, hd1, ?_⟩
        intro r hr
        apply hd2
        rw [hin]
      · exact rem_innerStart (Or.inr (Or.inl ⟨_, rfl, rfl⟩)) hr
      · exact rem_innerStart (Or.inl ⟨rfl, rfl⟩) hr
      · exact rem_innerStart (Or.inr (Or.inr ⟨_, rfl, rfl⟩)) hr
  case hStart =>
    split at h
    · simp at h
    · split at h
      · rename_i hin
        obtain ⟨done, hd1, hd2⟩ := a.waiting ho (by simp [hin, isSafe])
        have hrem : Rem st.innerAtCancel done := by
          have := hd2 [] (by rw [hin]; rfl)
          simpa using this
        split at h <;> simp at h <;> subst h
        · refine ⟨by simp [isSafe, Inner.sec], ?_, by simp, by simp [ho]⟩
          intro _ j _
          exact ⟨done, hd1, hrem⟩
        · rename_i hok
          refine ⟨by simp, by simp, by simp, ?_⟩
          intro _
          exact ⟨done, hrem, Or.inr ⟨by simpa using hok, hd1⟩⟩
      · simp at h
  case jobEnd d =>
    split at h <;> simp at h
    subst h
    rename_i sec j hin
    obtain ⟨e, he1, he2, he3, he4⟩ := runJob_spec cfg st sec j d
    obtain ⟨-, hout, -, -, hlc, hic, -⟩ := runJob_ctl cfg st sec j d
    by_cases hs : sec = .safe
    · subst hs
      have hj : j = .flush true := w.wf _ hin
      subst hj
      obtain ⟨done, hd1, hd2⟩ := a.flushing ho _ hin
      refine ⟨?_, ?_, ?_, by rw [hout, ho]; simp⟩
      · intro _ hsafe; rw [he1] at hsafe; simp [isSafe, Inner.sec] at hsafe
      · intro _ j' hj'; rw [he1] at hj'; simp at hj'
      · intro _ j' e' hj'
        rw [he1] at hj'
        simp at hj'
        obtain ⟨-, rfl⟩ := hj'
        refine ⟨done, ?_, by rw [hic]; exact hd2, fun hn => ⟨st.log, he4 true rfl hn⟩⟩
        rw [he2, hd1, hlc]; rfl
    · obtain ⟨done, hd1, hd2⟩ := a.waiting ho (by simp [hin, isSafe, Inner.sec, hs])
      refine ⟨?_, ?_, ?_, by rw [hout, ho]; simp⟩
      · intro _ _
        refine ⟨done ++ jobOps st j d, by rw [he2, hd1, hlc, List.append_assoc], ?_⟩
        intro r hr
        rw [hic, List.append_assoc]
        apply hd2
        rw [hin]
        rw [he1] at hr
        exact rem_jobEnd st d he3 hr
      · intro _ j' hj'; rw [he1] at hj'; simp at hj'
      · intro _ j' e' hj'; rw [he1] at hj'; simp at hj'; exact absurd hj'.1 hs
  case deliver =>
    split at h <;> simp at h
    subst h
    rename_i sec j err hin
    obtain ⟨-, hlc, hic, hlog, hok⟩ := continueSec_ghost st sec j err
    by_cases hs : sec = .safe
    · subst hs
      obtain ⟨done, hd1, hd2, hd3⟩ := a.flushed ho _ _ hin
      rw [continueSec_safe] at hlc hic hlog hok ⊢
      cases err with
      | none =>
        have hfo : (finish st .safe none).outer = .returned := rfl
        refine ⟨by rw [hfo]; simp, by rw [hfo]; simp, by rw [hfo]; simp, ?_⟩
        intro _
        refine ⟨done, by rw [hic]; exact hd2, Or.inl ⟨by rw [hlog, hlc]; exact hd1, ?_⟩⟩
        rw [hlog]; exact hd3 rfl
      | some e0 =>
        have hfo : (finish st .safe (some e0)).outer = .died := rfl
        exact afterCancel_of_out (by rw [hfo]; simp) (by rw [hfo]; simp)
    · obtain ⟨done, hd1, hd2⟩ := a.waiting ho (by simp [hin, isSafe, Inner.sec, hs])
      obtain ⟨hout, hinn⟩ := continueSec_handler ho hs j err
      refine ⟨?_, ?_, ?_, by rw [hout]; simp⟩
      · intro _ _
        refine ⟨done, by rw [hlog, hlc]; exact hd1, ?_⟩
        intro r hr
        rw [hic]
        apply hd2
        rw [hin]
        exact rem_deliver st sec j err hr
      · intro _ j' hj'
        rcases hinn with hinn | ⟨a', hinn⟩ <;> rw [hinn] at hj' <;> simp at hj'
        exact absurd hj'.1 hs
      · intro _ j' e' hj'
        rcases hinn with hinn | ⟨a', hinn⟩ <;> rw [hinn] at hj' <;> simp at hj'
  all_goals (repeat' split at h) <;> simp_all

/-- once the task has returned nothing but the environment's flags changes -/
theorem afterCancel_returned {cfg : Cfg} {st st' : St} {e : Ev} (w : Shape st) (a : AfterCancel st)
    (ho : st.outer = .returned) (h : step cfg st e = some st') : AfterCancel st' := by
  have hcanc : st.cancelled = true := w.canc1 (Or.inr ho)
  have hin : st.inner = none := by have := w.outer; rw [ho] at this; exact this
  cases e <;> simp only [step] at h
  case pressure b => simp at h; subst h; exact afterCancel_congr a rfl rfl rfl rfl rfl rfl
  case forceReorg n =>
    split at h <;> simp at h
    subst h; exact afterCancel_congr a rfl rfl rfl rfl rfl rfl
  all_goals (repeat' split at h) <;> simp_all

theorem afterCancel_step {cfg : Cfg} {st st' : St} {e : Ev} (w : Shape st) (a : AfterCancel st)
    (h : step cfg st e = some st') : AfterCancel st' := by
  by_cases h1 : st.outer = .handler
  · exact afterCancel_handler w a h1 h
  · by_cases h2 : st.outer = .returned
    · exact afterCancel_returned w a h2 h
    · by_cases hc : e = .cancel
      · subst hc; exact afterCancel_cancel w h
      · obtain ⟨hg, -, -⟩ := step_ghost h hc
        obtain ⟨o1, o2⟩ := outer_stays_out w h1 h2 h hg
        exact afterCancel_of_out o1 o2

theorem afterCancel_run {cfg : Cfg} {evs : List Ev} {st : St} (h : run cfg {} evs = some st) :
    AfterCancel st := by
  have := run_induct (P := fun s => Shape s ∧ AfterCancel s) (cfg := cfg)
    ⟨shape_init, afterCancel_init⟩
    (fun _ _ _ p hs => ⟨shape_step p.1 hs, afterCancel_step p.1 p.2 hs⟩) evs st h
  exact this.2

/-! ### `ok` is false only after a job has raised -/

def OkInv (st : St) : Prop := st.ok = false → ∃ e ∈ st.log, e.2 = false

theorem okInv_step {cfg : Cfg} {st st' : St} {e : Ev} (a : OkInv st) (h : step cfg st e = some st') :
    OkInv st' := by
  by_cases hj : ∃ d, e = .jobEnd d
  · obtain ⟨d, rfl⟩ := hj
    simp only [step] at h
    split at h <;> simp at h
    subst h
    rename_i sec j hin
    unfold runJob
    cases j with
    | adv b =>
      simp only
      split
      · exact a
      · split
        · intro hok
          obtain ⟨e, he, hf⟩ := a hok
          exact ⟨e, List.mem_append_left _ he, hf⟩
        · intro _; exact ⟨_, List.mem_append_right _ (List.mem_singleton.mpr rfl), rfl⟩
    | flush f =>
      simp only
      split
      · intro hok
        obtain ⟨e, he, hf⟩ := a hok
        exact ⟨e, List.mem_append_left _ he, hf⟩
      · intro hok
        obtain ⟨e, he, hf⟩ := a hok
        exact ⟨e, List.mem_append_left _ he, hf⟩
    | backup b =>
      simp only
      split
      · intro hok
        obtain ⟨e, he, hf⟩ := a hok
        exact ⟨e, List.mem_append_left _ he, hf⟩
      · intro _; exact ⟨_, List.mem_append_right _ (List.mem_singleton.mpr rfl), rfl⟩
  · obtain ⟨-, h2, h3⟩ := step_frame h (by intro d hd; exact hj ⟨d, hd⟩)
    unfold OkInv
    rw [h2, h3]
    exact a

theorem okInv_run {cfg : Cfg} {evs : List Ev} {st : St} (h : run cfg {} evs = some st) : OkInv st :=
  run_induct (P := OkInv) (cfg := cfg) (by intro h; simp at h) (fun _ _ _ p hs => okInv_step p hs) evs st h

/-! ### the surviving chain after the request -/

/-- the block whose back-out was in flight (section created, job not yet returned) -/
def pendingBackup : Option Inner → Option Block
  | some (.wantLock (.backup b)) => some b
  | some (.job _ (.backup b)) => some b
  | _ => none

/-- the effect of the operations still carried out by the section in flight on the surviving chain:
    all blocks stay, unless a back-out was in flight — then exactly the tip goes -/
theorem rem_chain (cfg : Cfg) (t : Track) {i : Option Inner} {done : List IOp2} (h : Rem i done) :
    (pendingBackup i = none → t.chain <+: (t.run cfg done).chain) ∧
    (∀ b, pendingBackup i = some b → (t.run cfg done).chain = t.chain.dropLast) := by
  have hadv : ∀ b (done : List IOp2),
      (done = [] ∨ (∃ d, done = [.adv b d]) ∨ (∃ d a, done = [.adv b d, .flush a]) ∨ ∃ a, done = [.flush a]) →
      t.chain <+: (t.run cfg done).chain := by
    intro b done hd
    rcases hd with rfl | ⟨d, rfl⟩ | ⟨d, a, rfl⟩ | ⟨a, rfl⟩
    · exact List.prefix_refl _
    · exact List.prefix_append _ _
    · exact List.prefix_append _ _
    · exact List.prefix_refl _
  cases i with
  | none => simp only [Rem] at h; subst h; simp [pendingBackup, Track.run]
  | some i =>
    cases i with
    | wantLock sec =>
      cases sec with
      | adv b => exact ⟨fun _ => hadv b done h, by simp [pendingBackup]⟩
      | flush => simp only [Rem] at h; subst h; simp [pendingBackup, Track.run, Track.step]
      | backup b => simp only [Rem] at h; subst h; simp [pendingBackup, Track.run, Track.step]
      | safe => simp only [Rem] at h; subst h; simp [pendingBackup, Track.run]
    | job sec j =>
      cases j with
      | adv b => exact ⟨fun _ => hadv b done h, by simp [pendingBackup]⟩
      | flush a => simp only [Rem] at h; subst h; simp [pendingBackup, Track.run, Track.step]
      | backup b => simp only [Rem] at h; subst h; simp [pendingBackup, Track.run, Track.step]
    | jobDone sec j err =>
      simp only [Rem] at h
      split at h
      · rcases h with rfl | ⟨a, rfl⟩ <;> simp [pendingBackup, Track.run, Track.step]
      · subst h; simp [pendingBackup, Track.run]

/-! ### the section in flight at the request is one of the three sections of the main flow -/

def CancelWf (st : St) : Prop := ∀ i, st.innerAtCancel = some i → InnerWf i ∧ i.sec ≠ .safe

theorem cancelWf_step {cfg : Cfg} {st st' : St} {e : Ev} (w : Shape st) (a : CancelWf st)
    (h : step cfg st e = some st') : CancelWf st' := by
  by_cases hc : e = .cancel
  · subst hc
    have w4 := w.safe
    have w2 := w.wf
    simp only [step] at h
    split at h
    · simp at h
    · split at h <;> simp at h <;> subst h <;> intro i hi <;> simp at hi <;>
        exact ⟨w2 i hi, fun hs => by have := w4 i hi hs; simp_all⟩
  · obtain ⟨-, -, h3⟩ := step_ghost h hc
    intro i hi
    rw [h3] at hi
    exact a i hi

theorem cancelWf_run {cfg : Cfg} {evs : List Ev} {st : St} (h : run cfg {} evs = some st) :
    CancelWf st := by
  have := run_induct (P := fun s => Shape s ∧ CancelWf s) (cfg := cfg)
    ⟨shape_init, by intro i hi; simp at hi⟩
    (fun _ _ _ p hs => ⟨shape_step p.1 hs, cancelWf_step p.1 p.2 hs⟩) evs st h
  exact this.2

"""F24 on the real handlers with the REAL hash (SHA-256d), judged by harness/world/oracle.fold_branch.

    VERIF_REPO=<tree> /venv/bin/python integration/hdrsplit-demo.py        (run from /verif)

The real `ElectrumX.block_header` / `block_headers` coroutines (-> `SessionManager.raw_header` ->
`DB.raw_header` -> `DB.read_headers`, `_merkle_proof` -> `DB.header_branch_and_root` -> `MerkleCache` ->
`DB.fs_block_hashes`) are stepped by hand with the machinery of suite `headercache` (every
`run_in_thread` job is performed / delivered when the schedule says so; the reorganisation is the real
`BlockProcessor.reorg_chain` with its `backup_block` job in a second thread), but on 80-byte headers
hashed with `double_sha256` and a `Merkle()` with its default hash, i.e. what production uses.

Schedule:  block.header(7, cp_height=8) started; its header read PERFORMED (header of the block at
height 7 of chain A); chain reorganised: blocks 8 and 7 backed out, two new blocks appended (chain B,
9 blocks again); the header read DELIVERED; the request runs to its end.  Same for
block.headers(5, 10, cp_height=8).

Exit 1 (unfixed code): the reply's header is A's, branch and root are B's: fold(sha256d(header),
branch, 7) != root.  Exit 0 (fixed code): the handler notices, reads the header again, and the
reply folds to the root of B.
"""
import os
import sys

sys.path.insert(0, os.getcwd())
from harness import common  # noqa: F401,E402  (puts VERIF_REPO on sys.path)
from harness.suites import headercache as hc  # noqa: E402
from harness.world.oracle import fold_branch  # noqa: E402
from harness.world.chaingen import merkle_root  # noqa: E402
from electrumx.lib.hash import double_sha256  # noqa: E402


def header(tag, height):
    h = (b'\x01\x00\x00\x00' + tag.encode().ljust(32, b'.') + bytes([height + 1]) * 32 + b'\xff' * 12)
    assert len(h) == 80
    return h


def run(kind):
    A = [header('A', i) for i in range(9)]
    real = hc.Real(A, 1, 4)
    db = real.db
    db.coin.header_hash = double_sha256                   # block hash = SHA-256d of the header
    db.merkle.hash_func = double_sha256
    real.cache.level = db.merkle.level([double_sha256(h) for h in A[:4]], 1)
    st = db.state.copy()
    st.tip = double_sha256(A[-1])
    db.state = st
    db.last_flush_state = st.copy()

    def block(block_hash):                                # what OnDiskBlock.streamed_block gives reorg_chain
        v = real.visible()
        h = [double_sha256(x.ljust(80, b'\0')) for x in v].index(block_hash)
        return hc.FakeBlock(h, double_sha256(v[h - 1].ljust(80, b'\0')))
    real.block = block
    real._judge_answer = lambda r: None                   # the suite's oracle is for its own hash; judged below
    B78 = [header('B', 7), header('B', 8)]
    start = ('HD', 7, 8) if kind == 'header' else ('HS', 5, 10, 8)
    evs = [start, ('PF', 0), ('BB', 7), ('BE',), ('AP', B78), ('DL', 0)] + [('PF', 0), ('DL', 0)] * 6
    try:
        for e in evs:
            real.ev(e, judge_cache=False)
        res = real.reqs[0]['result']
    finally:
        real.close()
    assert res[0] == 'A', res
    _, hdrs, branch, root = res
    B = A[:7] + B78
    index = (7 if kind == 'header' else 5 + len(hdrs) - 1)
    folded, left = fold_branch(double_sha256(hdrs[-1].ljust(80, b'\0')), branch, index)
    rootB = merkle_root([double_sha256(h) for h in B])
    rootA = merkle_root([double_sha256(h) for h in A])
    which = 'B (the new chain)' if root == rootB else 'A (the old chain)' if root == rootA else 'NO chain'
    from_chain = ['A' if h.ljust(80, b'\0') in A[7:] else 'B' if h.ljust(80, b'\0') in B78 else 'common' for h in hdrs]
    ok = (folded, left) == (root, 0) and root in (rootA, rootB)
    print(f'block.{kind}: header(s) from {from_chain}; root is the root of {which}; '
          f'fold(sha256d(last header), branch, {index}) {"==" if folded == root else "!="} root'
          f' -> {"ok" if ok else "REPLY VERIFIES AGAINST NO CHAIN"}')
    return ok


def main():
    with hc.patched_run_in_thread():
        hc.derive_placement()
        oks = [run('header'), run('headers')]
    sys.exit(0 if all(oks) else 1)


if __name__ == '__main__':
    main()

'''N7 (C11): MerkleCache.truncate() preempted in the worker thread -- deterministic reproduction on a REAL
asyncio event loop with the REAL aiorpcx `run_in_thread` (ThreadPoolExecutor threads).

    cd /verif && VERIF_REPO=<tree> /venv/bin/python integration/n7-eventloop-demo.py        exit 1 = wrong answer

What runs: the unmodified `BlockProcessor.reorg_chain(1)` (with the real `run_with_lock`: asyncio.Lock +
asyncio.shield) -> `run_in_thread(backup_block)` -> `DB.flush_backup` -> ... on the stub DB of suite
`headercache` (bytearray headers file, no-op UTXO/history back ends, 9 block hashes h0..h8, header merkle
cache covering all 9 with depth_higher 1), and the unmodified `ElectrumX._merkle_proof` ->
`DB.header_branch_and_root` -> `MerkleCache.branch_and_root` -> `DB.fs_block_hashes` -> `DB.read_headers` for
the request `blockchain.block.header(0, cp_height=7)`.  Nothing of `run_in_thread` is patched here.

The schedule: `threading.settrace` installs a line tracer in every thread the executor starts (never in the
event-loop thread).  When such a thread is about to execute `self.level[length >> self.depth_higher:] = []`
inside `MerkleCache.truncate` -- i.e. after `self.truncations += 1` and `self.length = length` -- it waits
on a `threading.Event` (what the OS scheduler / the GIL hand-over may do to it at any bytecode).  The event
loop keeps running: the request is served in that gap; then the thread is released and the reorg completes.

Trees where `truncate` runs in the worker thread (DB.flush_backup; /repo up to 0bee6e5): the request's
`_level_for(8)` sees `length == self.length` and returns the un-cut 5-entry level, so the answer is the root
over all 9 old hashes although only h0..h7 are on the chain -> `WRONG ANSWER`, exit 1.
Trees where `truncate` runs on the event-loop thread (fix N7: BlockProcessor.backup_and_truncate): no executor
thread ever executes MerkleCache code, the gate is never reached, the answer is the root of h0..h7, exit 0.
'''
import asyncio
import os
import sys
import threading

sys.path.insert(0, os.path.dirname(os.path.dirname(os.path.abspath(__file__))))
from harness import common                                   # noqa: E402,F401  (puts VERIF_REPO on sys.path)
from harness.suites import headercache as hc                  # noqa: E402

c = hc.classes()
bpmod, MerkleCache = c['bpmod'], c['MerkleCache']
loop_thread = threading.current_thread()
reached, release = threading.Event(), threading.Event()
off_loop_lines = []


def line_tracer(frame, event, arg):
    if event == 'line':
        import linecache
        text = linecache.getline(frame.f_code.co_filename, frame.f_lineno).strip()
        off_loop_lines.append(f'{frame.f_code.co_name}: {text}')
        if frame.f_code is MerkleCache.truncate.__code__ and text.startswith('self.level['):
            reached.set()
            release.wait(10)             # descheduled here, between two statements of truncate()
    return line_tracer


def tracer(frame, event, arg):
    assert threading.current_thread() is not loop_thread
    return line_tracer if frame.f_code in c['cache_codes'] else None


class LoopBP(c['StubBP']):
    run_with_lock = bpmod.BlockProcessor.run_with_lock        # the real one: state lock + shield


async def main():
    real = hc.Real(hc.src_names(9), 1, 9)
    bpmod.OnDiskBlock = c['StubODB']                           # blocks come from the stub chain, not from disk
    c['StubODB'].source = real
    bp = real.block_processor()
    bp.__class__ = LoopBP
    bp.state_lock = asyncio.Lock()
    print(f'before: {real.db.state.height + 1} hashes visible, cache length {real.cache.length}, '
          f'level {len(real.cache.level)} entries')
    threading.settrace(tracer)                                 # for the threads the executor is about to start
    reorg = asyncio.ensure_future(bp.reorg_chain(1))
    while not reached.is_set() and not reorg.done():
        await asyncio.sleep(0.001)
    where = ('worker thread held inside truncate() before the level is cut' if reached.is_set()
             else 'reorg_chain finished; no executor thread executed MerkleCache.truncate')
    print(f'{where}: {real.db.state.height + 1} hashes visible, cache length {real.cache.length}, '
          f'level {len(real.cache.level)} entries, truncations {real.cache.truncations}')
    visible = real.visible()
    answer = await c['ElectrumX']._merkle_proof(real.session, 7, 0)
    release.set()
    await reorg
    threading.settrace(None)
    root = bytes.fromhex(answer['root'])[::-1]
    branch = [bytes.fromhex(x)[::-1] for x in answer['branch']]
    want = hc.plain_branch_root(visible[:8], 0)
    print('block.header(0, cp_height=7) answered root', root.decode())
    print('root of the 8 visible hashes            ', want[1].decode())
    print(f'lines of MerkleCache code executed off the event-loop thread: {len(off_loop_lines)}')
    real.close()
    if (branch, root) != want:
        print('WRONG ANSWER')
        return 1
    print('ok')
    return 0


sys.exit(asyncio.run(main()))

"""Probe (not part of the suite; agent c14pinv): the REAL compaction script `electrumx_compact_history`
started on a store whose history flush_count is AHEAD of the UTXO flush_count - the stores of
`EV.Compact.C14run_counterexample_ahead`:
  backout  : blocks indexed by the real BlockProcessor, full flush, the tip backed out, process stops
             (fully flushed; history flush_count = UTXO flush_count + 1);
  histonly : one more block indexed, history-only flush, "crash" (not fully flushed).
The script is run on what is on disk (its own `_open_dbs` runs `clear_excess`), then a server is
started; the histories of all script hashes must be the committed ones (for `backout`: unchanged).
In the `histonly` cases whose catch-up flush was the early return of `flush_dbs`, `first_sync` is still
set on disk and the script refuses (`assert not db.state.first_sync`): status AssertionError, histories
equal - also what the model says (`compactScript` returns the opened store).

    PYTHONHASHSEED=0 /venv/bin/python integration/c14pinv-probe.py        (about 10 s)
"""
import os, sys, random, json
VERIF = os.environ.get('VERIF_DIR') or os.path.dirname(os.path.dirname(os.path.abspath(__file__)))
sys.path.insert(0, VERIF)
os.chdir(VERIF)
from harness.common import SuiteResult
from harness.suites import compaction as cp
from harness.suites import index as ixs
from harness.world import realindex
from harness.world.chaingen import hashx_of

realindex.SCALE_STORAGE = False
cp.install_hooks()
out = []
for seed in range(6):
    for mode in ('backout', 'histonly'):
        res = SuiteResult(cp.SUITE) if hasattr(SuiteResult, '__call__') else None
        rng = random.Random(seed)
        case = {'kind': 'probe', 'maxrow': rng.choice([2, 3, 4]), 'seed': seed, 'i': 0, 'tier': 'quick'}
        run = cp.Run(res, case, rng, 0, 4, None)
        c = run.c
        try:
            c.open()
            tip = None
            n = rng.randrange(3, 7)
            for k in range(n):
                tip = c.gen.new_block(tip, max_txs=rng.choice([2, 4, 7]))
                assert c.advance(tip, n) == 'ok'
                if rng.random() < 0.6:
                    c.flush(True)
            c.real.bp.state.first_sync = False
            assert c.flush(True) == 'ok'
            watch = [hashx_of(s) for s in ixs.ALL_SCRIPTS]
            if mode == 'backout':
                assert c.backup() == 'ok'
                expect = {hx: cp.txnums(run.real, hx) for hx in watch}     # fully flushed: committed = all
            else:
                expect = {hx: cp.txnums(run.real, hx) for hx in watch}     # committed histories
                tip = c.gen.new_block(tip, max_txs=4)
                assert c.advance(tip, n + 1) == 'ok'
                assert c.flush(False) == 'ok'                               # history-only, then "crash"
            h = run.real.db.history
            before = cp.dumph_open(run.real.db)
            hs_fc, us_fc = h.flush_count, run.real.db.state.flush_count
            import ast
            ufc = ast.literal_eval(run.real.db.utxo_db.get(b'state').decode())['utxo_flush_count']
            st, ctl = cp.run_script(run.real, 8 * 10 ** 6, watch=watch)
            disk = cp.dumph_disk(run.real)
            r = c.open()
            got = {hx: cp.txnums(run.real, hx) for hx in watch}
            same = got == expect
            out.append(dict(seed=seed, mode=mode, maxrow=case['maxrow'], hist_fc=hs_fc, utxo_fc_disk=ufc,
                            script=st, batches=ctl.done, reopen=r, histories_equal=same,
                            nonempty=sum(1 for v in expect.values() if v),
                            hs_after=disk.split('| hs ')[1]))
        finally:
            c.finish()
for o in out:
    print(json.dumps(o))
ok = all(o['histories_equal'] and o['reopen'] == 'ok' and o['script'] in ('complete', 'AssertionError')
         and (o['script'] == 'complete' or o['hs_after'].endswith(',1')) for o in out)
print('ALL HISTORIES EQUAL' if ok else 'MISMATCH')
sys.exit(0 if ok else 1)

#!/usr/bin/env python
"""Replay of finding F20 (suite txcache / EV.TxCache.stale_hit_counterexample) on the REAL server stack.

Real BlockProcessor (`fetch_and_process_blocks` task, real worker threads), real DB (scratch LevelDB under
/dev/shm), real SessionManager (with its `_handle_chain_reorgs` task) and a real ElectrumX session on a fake
transport, against a scripted daemon (server assembly taken from /verif/seeded/C11-1/demo.py).

Chain A has heights 0..12.  A client asks `transaction.id_from_pos` / `transaction.get_merkle` for heights 11
and 12 (the answers are cached per height).  The daemon reorganises to chain B, which replaces heights 11 and 12
and adds 13.  While the block processor is backing the two blocks out -- from the moment `flush_backup` has
lowered `DB.state.height` below 12 until `_handle_chain_reorgs` has run -- a watcher on the event loop asks
again for height 12, and asks for the header of height 12 at the same moment.

Property (C11): "requests outside the chain are refused rather than answered wrongly".
Exit status 0 = every request for a height the DB no longer has was refused; 1 = some were answered
(with data of the block that has been backed out, while `blockchain.block.header` for that height is refused).

    VERIF_REPO=/repo /venv/bin/python /verif/integration/txcache-replay.py
"""
import asyncio
import logging
import os
import shutil
import sys
import tempfile

sys.path.insert(0, os.environ.get('VERIF_REPO', '/repo'))

from aiorpcx import NetAddress, RPCError                              # noqa: E402
from aiorpcx.session import SessionKind                               # noqa: E402

from electrumx.lib.hash import double_sha256, hash_to_hex_str, hex_str_to_hash   # noqa: E402
from electrumx.lib.tx import Tx, TxInput, TxOutput, ZERO, MINUS_1     # noqa: E402
from electrumx.lib.util import pack_varint, pack_le_uint32            # noqa: E402

COINBASE_OUTPUTS = 330


# ---------------------------------------------------------------------------------------
# Independent oracle: plain bitcoin merkle tree code, nothing shared with electrumx.lib.merkle
# ---------------------------------------------------------------------------------------

def oracle_root(hashes):
    hashes = list(hashes)
    while len(hashes) > 1:
        if len(hashes) & 1:
            hashes.append(hashes[-1])
        hashes = [double_sha256(hashes[n] + hashes[n + 1]) for n in range(0, len(hashes), 2)]
    return hashes[0]


def fold(leaf, branch, pos):
    '''Fold a classic electrum branch (list of hex strings) to a root.'''
    h = leaf
    for elt in branch:
        elt = hex_str_to_hash(elt)
        h = double_sha256(elt + h) if pos & 1 else double_sha256(h + elt)
        pos >>= 1
    assert pos == 0, 'branch too short for position'
    return h


def fold_tsc(leaf, nodes, pos):
    h = leaf
    for elt in nodes:
        elt = h if elt == '*' else hex_str_to_hash(elt)
        h = double_sha256(elt + h) if pos & 1 else double_sha256(h + elt)
        pos >>= 1
    assert pos == 0
    return h


# ---------------------------------------------------------------------------------------
# A scripted chain and daemon
# ---------------------------------------------------------------------------------------

class Block:
    def __init__(self, prev_hash, height, n_txs, parent, salt):
        def p2pkh(tag):
            return b'\x76\xa9\x14' + double_sha256(tag)[:20] + b'\x88\xac'

        tag = b'%d/%s' % (height, salt)
        coinbase = Tx(1, [TxInput(ZERO, MINUS_1, b'\x04' + pack_le_uint32(height) + salt, MINUS_1)],
                      [TxOutput(1000 + n, p2pkh(tag + b'/cb/%d' % n))
                       for n in range(COINBASE_OUTPUTS)], 0)
        txs = [coinbase]
        # Every other tx spends one output of the parent block's coinbase
        for n in range(n_txs - 1):
            txs.append(Tx(1, [TxInput(parent.tx_hashes[0], n, b'\x51', MINUS_1)],
                          [TxOutput(900 + n, p2pkh(tag + b'/tx/%d' % n))], 0))
        raw_txs = [tx.serialize() for tx in txs]
        self.tx_hashes = [double_sha256(raw) for raw in raw_txs]
        self.raw_txs = dict(zip(self.tx_hashes, raw_txs))
        self.height = height
        self.merkle_root = oracle_root(self.tx_hashes)
        self.header = b''.join((pack_le_uint32(0x20000000), prev_hash, self.merkle_root,
                                pack_le_uint32(1_600_000_000 + height * 600),
                                pack_le_uint32(0x207fffff), pack_le_uint32(sum(salt))))
        assert len(self.header) == 80
        self.hash = double_sha256(self.header)
        self.hex_hash = hash_to_hex_str(self.hash)
        self.raw = self.header + pack_varint(len(txs)) + b''.join(raw_txs)


def extend(chain, tx_counts, salt):
    chain = list(chain)
    for n_txs in tx_counts:
        parent = chain[-1] if chain else None
        prev_hash = parent.hash if parent else bytes(32)
        chain.append(Block(prev_hash, len(chain), n_txs if parent else 1, parent, salt))
    return chain


class ScriptedDaemon:
    '''The subset of electrumx.server.daemon.Daemon that the server uses here.'''

    def __init__(self):
        self.chain = []
        self.known = {}
        self._height = None

    def set_chain(self, chain):
        self.chain = chain
        self.known.update((block.hex_hash, block) for block in chain)

    async def height(self):
        self._height = len(self.chain) - 1
        return self._height

    def cached_height(self):
        return self._height

    async def block_hex_hashes(self, first, count):
        return [block.hex_hash for block in self.chain[first: first + count]]

    async def get_block(self, hex_hash, filename):
        raw = self.known[hex_hash].raw
        with open(filename, 'wb') as f:
            f.write(raw)
        return len(raw)

    async def getrawtransaction(self, hex_hash, verbose=False):
        tx_hash = hex_str_to_hash(hex_hash)
        for block in self.chain:
            if tx_hash in block.raw_txs:
                return block.raw_txs[tx_hash].hex()
        return None


class FakeTransport:
    kind = SessionKind.SERVER

    def remote_address(self):
        return NetAddress('10.1.2.3', 50001)

    def is_closing(self):
        return False

    async def close(self, force_after=None):
        pass

    async def abort(self):
        pass


# ---------------------------------------------------------------------------------------
# Server assembly (the pieces Controller.serve wires together, minus listening sockets)
# ---------------------------------------------------------------------------------------

class Server:
    async def start(self, db_dir, daemon):
        os.environ.update({
            'DB_DIRECTORY': db_dir, 'DAEMON_URL': 'http://u:p@localhost:1/', 'COIN': 'BitcoinSV',
            'NET': 'regtest', 'SERVICES': '', 'PEER_DISCOVERY': 'off', 'REORG_LIMIT': '20',
            'DB_ENGINE': 'leveldb', 'COST_SOFT_LIMIT': '0', 'COST_HARD_LIMIT': '0',
        })
        from electrumx.server.env import Env
        from electrumx.server.db import DB
        from electrumx.server.block_processor import BlockProcessor
        from electrumx.server.controller import Notifications
        from electrumx.server.session import SessionManager, ElectrumX

        self.env = Env()
        self.daemon = daemon
        await daemon.height()
        self.db = DB(self.env)
        self.bp = BlockProcessor(self.env, self.db, daemon, Notifications())
        self.bp.polling_delay = 0.02
        self.shutdown_event = asyncio.Event()
        caught_up = asyncio.Event()
        self.mgr = SessionManager(self.env, self.db, self.bp, daemon, None, self.shutdown_event)
        self.tasks = [asyncio.ensure_future(
            self.bp.fetch_and_process_blocks(caught_up, self.shutdown_event))]
        await asyncio.wait_for(caught_up.wait(), 60)
        await self.db.populate_header_merkle_cache()
        self.tasks.append(asyncio.ensure_future(self.mgr._handle_chain_reorgs()))
        self.session = ElectrumX(self.mgr, self.db, None, self.mgr.peer_mgr, 'TCP',
                                 FakeTransport())
        return self

    async def wait_for_tip(self, block):
        async def wait():
            while not (self.db.state.height == block.height and self.db.state.tip == block.hash
                       and self.db.fs_height == block.height):
                await asyncio.sleep(0.01)
        await asyncio.wait_for(wait(), 60)

    async def stop(self):
        self.shutdown_event.set()
        for task in self.tasks:
            task.cancel()
        await asyncio.gather(*self.tasks, return_exceptions=True)




async def scenario(db_dir):
    trunk = extend([], [1] + [3] * 10, b'trunk')               # heights 0..10
    chain_a = extend(trunk, [4, 5], b'A')                      # heights 11, 12
    chain_b = extend(trunk, [3, 4, 2], b'B')                   # heights 11, 12, 13
    H = 12
    old = chain_a[H]

    daemon = ScriptedDaemon()
    daemon.set_chain(chain_a)
    server = await Server().start(db_dir, daemon)
    session, mgr, db = server.session, server.mgr, server.db
    await server.wait_for_tip(old)

    # the client's earlier queries: heights 11 and 12 are now cached by height
    for h in (11, 12):
        await session.transaction_id_from_pos(h, 0, False)
        await session.transaction_merkle(hash_to_hex_str(chain_a[h].tx_hashes[1]), h)

    reorgs_before = mgr._reorg_count
    observed = []

    async def ask(name, coro):
        try:
            return name, 'answered', await coro
        except RPCError as e:
            return name, 'refused', e.message

    async def watcher():
        # runs on the event loop between the block processor's steps, like any client request
        while mgr._reorg_count == reorgs_before:
            if db.state.height < H and not observed:
                height_then = db.state.height
                rs = [
                    await ask(f'blockchain.block.header({H})', session.block_header(H)),
                    await ask(f'transaction.id_from_pos({H}, 0)', session.transaction_id_from_pos(H, 0, False)),
                    await ask(f'transaction.id_from_pos({H}, 1, merkle=True)',
                              session.transaction_id_from_pos(H, 1, True)),
                    await ask(f'transaction.get_merkle(old tx 1, {H})',
                              session.transaction_merkle(hash_to_hex_str(old.tx_hashes[1]), H)),
                    await ask(f'transaction.get_tsc_merkle(old tx 1, {H})',
                              session.transaction_tsc_merkle(hash_to_hex_str(old.tx_hashes[1]), H)),
                ]
                observed.append((height_then, mgr._reorg_count, rs))
            await asyncio.sleep(0)

    w = asyncio.ensure_future(watcher())
    daemon.set_chain(chain_b)
    await server.wait_for_tip(chain_b[-1])
    while mgr._reorg_count == reorgs_before:
        await asyncio.sleep(0.01)
    await w

    bad = []
    if not observed:
        print('the watcher did not get to run inside the window (try again)')
        await server.stop()
        return None
    height_then, rc_then, rs = observed[0]
    print(f'during the reorganisation: DB.state.height = {height_then}, _reorg_count = {rc_then} '
          f'(_handle_chain_reorgs has not run); requests for height {H}:')
    for name, what, val in rs:
        if what == 'answered':
            if isinstance(val, dict) and 'tx_hash' in val:
                txid = val['tx_hash']
            elif isinstance(val, str):
                txid = val
            else:
                txid = None
            note = ''
            if txid is not None and len(txid) == 64 and hex_str_to_hash(txid) in old.tx_hashes:
                note = '   <- a tx of the block that has been backed out'
            elif isinstance(val, dict) and 'merkle' in val:
                root = fold(old.tx_hashes[1], val['merkle'], val.get('pos', 1))
                if root == old.merkle_root:
                    note = '   <- folds to the merkle root of the block that has been backed out'
            print(f'   {name}: ANSWERED {str(val)[:100]}{note}')
            if not name.startswith('blockchain.block.header'):
                bad.append(name)
        else:
            print(f'   {name}: refused ({val[:70]})')

    # quiescent again: answers are for chain B
    await asyncio.sleep(0.1)
    r = await session.transaction_id_from_pos(H, 0, False)
    print(f'at quiescence: id_from_pos({H}, 0) is the new block\'s tx: {hex_str_to_hash(r) == chain_b[H].tx_hashes[0]}')
    await server.stop()
    return bad


def main():
    logging.basicConfig(level=getattr(logging, os.environ.get("DEMO_LOG", "CRITICAL")))
    base = '/dev/shm' if os.path.isdir('/dev/shm') else None
    cwd = os.getcwd()
    bad = None
    for _attempt in range(5):
        db_dir = tempfile.mkdtemp(prefix='txcache_replay_', dir=base)
        try:
            loop = asyncio.new_event_loop()
            asyncio.set_event_loop(loop)
            bad = loop.run_until_complete(scenario(db_dir))
            loop.close()
        finally:
            os.chdir(cwd)
            shutil.rmtree(db_dir, ignore_errors=True)
        if bad is not None:
            break
    if bad is None:
        print('window not reached')
        return 2
    if bad:
        print(f'C11 VIOLATED: {len(bad)} requests for a height outside the chain were answered from the by-height cache')
        return 1
    print('C11 holds: every request for the height being backed out was refused')
    return 0


if __name__ == '__main__':
    sys.exit(main())

'''F19 on the real server (BlockProcessor / DB / SessionManager / ElectrumX session in-process, scripted daemon;
harness of /tmp/fix_c11_demo/demo2.py).   RT=<repo worktree> /venv/bin/python f19_demo.py

One request A = block.header(5, cp=68), header merkle cache at 60 (segments of 8):
A's _extend_to(69) completes (cache 69) and A waits for its leaf hashes (0, 8) -- held.
Reorg: blocks 63..70 are replaced by a fork one block longer (back-out to height 62:
truncate(63) cuts the cache to 56 = 7 segments; the chain regrows to height 71).
A resumes: _level_for(69) takes self.level[:8] from the 7-entry level and appends the final partial
segment (64..68, new fork): a root over hashes 0..55 + 64..68.  The leaf check passes (segment 0 intact).
Prints the violations (non-empty on the pinned code, [] with the F19 fix).'''
import asyncio, sys, os, tempfile, shutil, importlib.util
spec = importlib.util.spec_from_file_location('demo2', '/tmp/fix_c11_demo/demo2.py')
d = importlib.util.module_from_spec(spec); spec.loader.exec_module(d)


async def scenario(db_dir):
    trunk = d.extend([], [1] + [2] * 62, b'main')          # heights 0..62
    chain_a = d.extend(trunk, [2] * 8, b'A')               # tip 70
    chain_b = d.extend(trunk, [2] * 9, b'B')               # replaces 63..70, adds 71
    daemon = d.ScriptedDaemon(); daemon.set_chain(chain_a)
    server = await d.Server().start(db_dir, daemon)
    session, db = server.session, server.db
    await server.wait_for_tip(chain_a[-1])
    print('cache length', db.header_mc.length, 'depth_higher', db.header_mc.depth_higher)
    real = db.read_headers
    hold, reached = asyncio.Event(), asyncio.Event()
    seen = set()

    async def gated(start, count):
        r = await real(start, count)
        if (start, count) == (0, 8) and 'leaf' not in seen:
            seen.add('leaf'); reached.set(); await hold.wait()
            r = await real(start, count)        # the held read is performed now (same bytes: below the fork)
        return r
    db.read_headers = gated
    A = asyncio.ensure_future(session.block_header(5, 68))
    await reached.wait()                        # A extended the cache to 69 and waits for its leaves
    print('A waits for its leaf hashes; cache length', db.header_mc.length)
    daemon.set_chain(chain_b)
    await server.wait_for_tip(chain_b[-1])
    await asyncio.sleep(0.2)
    print('reorg done: height', db.state.height, 'cache length', db.header_mc.length,
          'truncations', db.header_mc.truncations)
    hold.set()
    try:
        ra = await A
    except Exception as e:
        print('A failed:', repr(e)); ra = None
    db.read_headers = real
    v = []
    if ra is not None:
        va = d.check_header_proof(chain_a, 5, 68, ra, 'A vs old chain')
        vb = d.check_header_proof(chain_b, 5, 68, ra, 'A vs new chain')
        if va and vb:
            v = ['A block.header(5,68) verifies against neither the chain before nor the chain after the reorg'] + va + vb
    await server.stop()
    return v

db_dir = tempfile.mkdtemp(prefix='hc2_f19_', dir='/dev/shm')
cwd = os.getcwd()
try:
    loop = asyncio.new_event_loop(); asyncio.set_event_loop(loop)
    print(loop.run_until_complete(scenario(db_dir)))
finally:
    os.chdir(cwd); shutil.rmtree(db_dir, ignore_errors=True)

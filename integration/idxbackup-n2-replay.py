"""Replay of the N2 witness of EV/Props/C03run.lean (`C03run_counterexample_stale_undo_row`) on the
real BlockProcessor / DB (read-only use of VERIF_REPO, scratch LevelDB under /dev/shm).

  reorg limit 2.   B0: coinbase-like tx with two outputs o0 (script A, 50) and o1 (script D, 60)
                   B1 : spends o0            (indexed while the daemon shows 1  -> undo row U(1) kept)
                   flush, back out B1        (U(1) is left behind by backup_block: N2)
                   B1': spends o1            (indexed while the daemon shows `d`)
                   flush, back out B1'
  d = 1  : B1' is inside its window, U(1) is overwritten -> o1 comes back as (script D, 60)   [correct]
  d = 10 : B1' is outside its window, no undo list is kept, the STALE U(1) of B1 is consumed:
           o1 comes back with o0's hashX and value -> script D has no UTXO any more, script A has
           two of value 50.                                                                    [wrong]

Run:  VERIF_REPO=/repo /venv/bin/python integration/idxbackup-n2-replay.py     (from the verif dir)
"""
import os
import sys

sys.path.insert(0, os.path.dirname(os.path.dirname(os.path.abspath(__file__))))
from harness import common  # noqa: F401  (puts VERIF_REPO on sys.path)
from harness.world.chaingen import GTx, GBlock, ZERO, MINUS_1, hashx_of
from harness.world.realindex import RealIndex

A, B, C, D = (bytes([0x51, i]) for i in range(4))


def run(d):
    t0 = GTx([(ZERO, MINUS_1)], [(50, A), (60, D)], nonce=1)
    b0 = GBlock(0, None, 0, [t0], 0)
    t1 = GTx([(t0.txid, 0)], [(50, B)], nonce=2)
    b1 = GBlock(1, b0, 1, [t1], 0)
    t1x = GTx([(t0.txid, 1)], [(60, C)], nonce=3)
    b1x = GBlock(2, b0, 1, [t1x], 1)
    ri = RealIndex(act=1, reorg_limit=2)
    try:
        assert ri.open() == 'ok'
        res = [ri.advance(b0, 0), ri.advance(b1, 1), ri.flush(True), ri.backup(b1)]
        rows_after_first_backup = ri.undo_heights()
        res += [ri.advance(b1x, d), ri.flush(True)]
        rows_before_second_backup = ri.undo_heights()
        res += [ri.backup(b1x)]
        return dict(results=res, undo_rows_after_first_backup=rows_after_first_backup,
                    undo_rows_before_second_backup=rows_before_second_backup,
                    utxos_A=ri.q_utxos(hashx_of(A)), utxos_D=ri.q_utxos(hashx_of(D)),
                    state=ri.q_state())
    finally:
        ri.destroy()


if __name__ == '__main__':
    good = run(1)
    bad = run(10)
    print('d=1 :', good)
    print('d=10:', bad)
    ok = (all(r == 'ok' for r in good['results']) and all(r == 'ok' for r in bad['results'])
          and good['utxos_D'] != 'utxos ' and bad['utxos_D'] == 'utxos '
          and 1 in bad['undo_rows_after_first_backup'])
    print('N2 witness reproduced on the real code' if ok else 'NOT reproduced')
    sys.exit(0 if ok else 1)

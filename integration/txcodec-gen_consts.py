# Addition to harness/gen_consts.py for C13 (suite txcodec).
# 1. paste the function below into harness/gen_consts.py (module level);
# 2. add the line `    consts += _txcodec_consts()` to collect(), before `return consts`.


def _txcodec_consts():
    """C13: OnDiskBlock.chunk_size, and the exception classes that the refill loops of
    `iter_txs` / `_chunk_offsets` catch -- observed behaviourally: a stub Deserializer raises one
    instance of each class from the first transaction read; the class is *caught* iff the loop goes
    on to refill (which ends in the RuntimeError of an empty read on the stub file)."""
    import io
    import struct
    from electrumx.server import block_processor as bp

    candidates = [('AssertionError', AssertionError), ('IndexError', IndexError),
                  ('struct.error', struct.error), ('ValueError', ValueError),
                  ('KeyError', KeyError), ('TypeError', TypeError),
                  ('OverflowError', OverflowError), ('LookupError', LookupError),
                  ('ArithmeticError', ArithmeticError), ('EOFError', EOFError),
                  ('MemoryError', MemoryError), ('OSError', OSError)]

    def observe(method):
        caught = []
        for name, cls in candidates:
            class Stub:
                def __init__(self, buf, start=0):
                    self.cursor = start

                def read_varint(self):
                    self.cursor = 1
                    return 1

                def read_tx(self):
                    raise cls('probe')

                def read_tx_and_hash(self):
                    raise cls('probe')

            blk = bp.OnDiskBlock('00' * 32, 0, 90)
            blk.block_file = io.BytesIO(bytes(90))
            blk.block_file.seek(80)
            real = bp.Deserializer
            bp.Deserializer = Stub
            try:
                r = getattr(blk, method)()
                if r is not None and hasattr(r, '__next__'):
                    list(r)
                outcome = 'returned'
            except RuntimeError:
                outcome = 'caught'        # refilled until the file was empty
            except cls:
                outcome = 'escaped'
            finally:
                bp.Deserializer = real
            if outcome == 'caught':
                caught.append(name)
            elif outcome != 'escaped':
                raise RuntimeError(f'{method}: unexpected outcome {outcome} for {name}')
        return caught

    def lean_strs(xs):
        return '[' + ', '.join('"%s"' % x for x in xs) + ']'

    return [
        ('onDiskChunkSize', 'Nat', str(bp.OnDiskBlock.chunk_size),
         'electrumx.server.block_processor.OnDiskBlock.chunk_size'),
        ('iterTxsCaught', 'List String', lean_strs(observe('iter_txs')),
         'exception classes caught by the refill loop of OnDiskBlock.iter_txs (observed)'),
        ('chunkOffsetsCaught', 'List String', lean_strs(observe('_chunk_offsets')),
         'exception classes caught by the refill loop of OnDiskBlock._chunk_offsets (observed)'),
    ]

"""Replay, on the real DB.lookup_utxos / BlockProcessor (read-only use of VERIF_REPO, scratch LevelDB
under /dev/shm), of the examples of lean/EV/Props/C08lookup.lean:

 (1) one-state reading (what the model `lookupUtxo` and the theorems `lookupUtxo_flushed` /
     `lookupUtxo_committed` speak about):
       B0 : tx T1 -> outputs (A,50) (D,60) (OP_FALSE OP_RETURN, 0);  tx T2 -> output (B,70)
       flush(True)                      lookup T1:0 T1:1 T1:2 T1:3 T2:0 unknown:0
       B1 : tx T3 spends T1:0 -> (C,45) ; flush(False)   [unflushed: committed chain = B0]
                                        lookup T1:0 (still answered)  T3:0 (not yet)
       flush(True)                      lookup T1:0 (None)            T3:0 (answered)
 (2) F22, `lookupUtxoSplit_reorg_hazard`: the two run_in_thread jobs of lookup_utxos read in DIFFERENT
     states, with a back-out + advance + UTXO flush in between (electrumx.server.db.run_in_thread is
     rebound for this one call and the coroutine stepped by hand):
       B0, B1a: tx Ta -> (C,10)     flush(True)
       job 1 for Ta:0               finds hashX(C), tx number n
       back out B1a; advance B1b: tx Tb -> (C,20)  (same tx number n); flush(True)
       job 2                        reads u row (hashX(C), 0, n) = 20
     before the fix:  (hashX(C), 20) for Ta:0, whose value is 10          [false pair]
     after the fix :  job 2 calls fs_tx_hash(n) again, gets Tb != Ta  ->  None

Run:  VERIF_REPO=<tree> /venv/bin/python integration/lookup-split-replay.py [--expect hazard|fixed]   (from the verif dir)
      exit 0 iff the one-state examples agree and (with --expect) the split outcome is the expected one.
"""
import os
import sys

sys.path.insert(0, os.path.dirname(os.path.dirname(os.path.abspath(__file__))))
from harness import common  # noqa: F401  (puts VERIF_REPO on sys.path)
from harness.world.chaingen import GTx, GBlock, ZERO, MINUS_1, hashx_of, be
from harness.world.realindex import RealIndex

A, B, C, D = (bytes([0x51, i]) for i in range(4))
GEN = (ZERO, MINUS_1)


def one_state():
    t1 = GTx([GEN], [(50, A), (60, D), (0, b'\x00\x6a')], nonce=1)
    t2 = GTx([GEN], [(70, B)], nonce=2)
    b0 = GBlock(0, None, 0, [t1, t2], 0)
    t3 = GTx([(t1.txid, 0)], [(45, C)], nonce=3)
    b1 = GBlock(1, b0, 1, [t3], 0)
    ri = RealIndex(act=1, reorg_limit=2)
    try:
        assert ri.open() == 'ok'
        assert [ri.advance(b0, 0), ri.flush(True)] == ['ok', 'ok']
        q = lambda l: [ri.q_lookup(t, i) for t, i in l]
        flushed = q([(t2.txid, 0), (t1.txid, 0), (t1.txid, 1), (t1.txid, 2), (t1.txid, 3), (t3.txid, 0)])
        assert [ri.advance(b1, 1), ri.flush(False)] == ['ok', 'ok']
        unflushed = q([(t1.txid, 0), (t3.txid, 0), (t2.txid, 0)])
        assert ri.flush(True) == 'ok'
        after = q([(t1.txid, 0), (t3.txid, 0), (t2.txid, 0)])
        hx = lambda s: str(be(hashx_of(s)))
        want_flushed = [f'{hx(B)}:70', f'{hx(A)}:50', f'{hx(D)}:60', 'none', 'none', 'none']
        want_unflushed = [f'{hx(A)}:50', 'none', f'{hx(B)}:70']
        want_after = ['none', f'{hx(C)}:45', f'{hx(B)}:70']
        print('flushed  :', flushed)
        print('unflushed:', unflushed)
        print('after    :', after)
        return flushed == want_flushed and unflushed == want_unflushed and after == want_after
    finally:
        ri.destroy()


def split_across_reorg():
    t0 = GTx([GEN], [(50, A)], nonce=1)
    b0 = GBlock(0, None, 0, [t0], 0)
    ta = GTx([GEN], [(10, C)], nonce=2)
    b1a = GBlock(1, b0, 1, [ta], 0)
    tb = GTx([GEN], [(20, C)], nonce=3)
    b1b = GBlock(2, b0, 1, [tb], 1)
    ri = RealIndex(act=1, reorg_limit=2)
    try:
        assert ri.open() == 'ok'
        assert [ri.advance(b0, 0), ri.advance(b1a, 1), ri.flush(True)] == ['ok', 'ok', 'ok']
        before = ri.q_lookup(ta.txid, 0)
        calls = []
        real_rit = ri.dbmod.run_in_thread

        class Suspend:
            def __init__(self, func, args):
                self.func, self.args = func, args

            def __await__(self):
                return (yield self)

        async def suspending(func, *args):
            return await Suspend(func, args)
        ri.dbmod.run_in_thread = suspending
        try:
            # the coroutine is stepped by hand: each run_in_thread call is a suspension point
            coro = ri.db.lookup_utxos([(ta.txid, 0)])
            sus = coro.send(None)
            calls.append(sus.func.__name__)
            phase1 = sus.func(*sus.args)                       # lookup_hashXs, read before the reorg
            sus = coro.send(phase1)
            calls.append(sus.func.__name__)
        finally:
            ri.dbmod.run_in_thread = real_rit
        # between the two phases: a complete reorganisation of block 1, flushed
        assert [ri.backup(b1a), ri.advance(b1b, 1), ri.flush(True)] == ['ok', 'ok', 'ok']
        phase2 = sus.func(*sus.args)                           # lookup_utxos, read after it
        try:
            coro.send(phase2)
            raise AssertionError('lookup_utxos did not return')
        except StopIteration as e:
            res, = e.value
        split = 'none' if res is None else f'{be(res[0])}:{res[1]}'
        after_a = ri.q_lookup(ta.txid, 0)
        after_b = ri.q_lookup(tb.txid, 0)
        hx = str(be(hashx_of(C)))
        print('phases   :', calls)
        print('before   :', before, ' split:', split, ' after Ta:0:', after_a, ' after Tb:0:', after_b)
        assert calls == ['lookup_hashXs', 'lookup_utxos'] and before == f'{hx}:10'
        assert after_a == 'none' and after_b == f'{hx}:20'
        return {f'{hx}:20': 'hazard', 'none': 'fixed'}.get(split, 'unexpected: ' + split)
    finally:
        ri.destroy()


if __name__ == '__main__':
    ok1 = one_state()
    print('one-state examples agree with the real code' if ok1 else 'one-state examples DIFFER')
    outcome = split_across_reorg()
    print({'hazard': 'F22: false pair answered across a reorganisation between the two jobs (unfixed code)',
           'fixed': 'F22 fixed: the split lookup answers None across the reorganisation'}.get(outcome, outcome))
    expect = sys.argv[sys.argv.index('--expect') + 1] if '--expect' in sys.argv else None
    sys.exit(0 if ok1 and outcome in ('hazard', 'fixed') and expect in (None, outcome) else 1)

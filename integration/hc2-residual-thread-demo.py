'''Residual hazard OUTSIDE the C11 model (assumption 1 of harness/props/C11.py): bytecode-level preemption of the
worker thread inside MerkleCache.truncate().  Not a failing input of check.py; shown on the real, FIXED code.

    cd /verif && VERIF_REPO=<worktree with the three fixes> /venv/bin/python integration/hc2-residual-thread-demo.py

The worker thread running DB.flush_backup is stopped (sys.settrace) inside truncate() between
`self.length = length` and `self.level[length >> self.depth_higher:] = []`.  A request
block.header(0, cp=5) that starts and finishes in that gap (length 6 == the new self.length) gets
`self.level` -- still the un-cut level of 9 hashes -- from _level_for and is answered with a root over
all 9 hashes; its truncations test passes because the counter was bumped before it started.
Needs the truncating thread to stay descheduled for a whole thread-pool round trip of the request.
Remedy (not part of the three fix commits): confine the cache to the event-loop thread, i.e. call
header_mc.truncate(self.state.height + 1) from BlockProcessor.reorg_chain after each awaited
backup job instead of from DB.flush_backup (same order of effects as the model's boBegin/boEnd, so
the C11 theorems apply unchanged), or take a lock in truncate/_extend_to/_level_for.'''
import linecache
import os
import sys
sys.path.insert(0, os.path.dirname(os.path.dirname(os.path.abspath(__file__))))
from harness import common                                   # noqa: E402
from harness.suites import headercache as hc                  # noqa: E402

with hc.patched_run_in_thread():
    print('flush_backup order:', hc.derive_order())
    real = hc.Real(hc.src_names(9), 1, 9)
    w = hc.worker()
    db = real.db
    st = db.state.copy()
    st.height, st.tx_count = 6, 7
    fd = real.dbmod.FlushData(state=st, headers=[], block_tx_hashes=[], undo_infos=[], adds={}, deletes=[])

    def line_tracer(frame, event, arg):
        if event == 'line' and 'self.level[' in linecache.getline(frame.f_code.co_filename, frame.f_lineno):
            w.to_main.release()          # hand over to the main thread in the middle of truncate()
            w.to_worker.acquire()
        return line_tracer

    def tracer(frame, event, arg):
        if frame.f_code.co_name == 'truncate' and frame.f_code.co_filename.endswith('merkle.py'):
            return line_tracer
        return None

    def job():
        sys.settrace(tracer)
        try:
            real.dbmod.DB.flush_backup(db, fd, set())
        finally:
            sys.settrace(None)

    w.begin(job)                         # held after DB.state was lowered (first effect)
    w.to_worker.release()
    w.to_main.acquire()                  # now held inside truncate(), before the level is cut
    c = real.cache
    print(f'inside truncate(): visible {db.state.height + 1}, cache.length {c.length}, len(level) {len(c.level)}, '
          f'truncations {c.truncations}')
    real.hist.append(real.visible())
    real.pending = None
    for e in (('ST', 5, 0), ('PF', 0), ('DL', 0)):
        r = real.reqs
        try:
            real.ev(e)
        except Exception as ex:
            print('event', e, 'raised', repr(ex))
    print('request:', real.show().split(' | ')[3])
    w.to_worker.release()
    w.to_main.acquire()                  # job finished
    bad = [v for v in real.violations if v[0].startswith('header proof')]
    print('wrong answer:' if bad else 'no wrong answer', bad[:1])
    real.close()

'''N7 (C11), direction L, with FREE-RUNNING threads: no tracer, no gate, only a short switch interval.

    cd /verif && VERIF_REPO=<tree> /venv/bin/python integration/n7-freerun-stress.py [seconds]

Shows that `MerkleCache` (electrumx/lib/merkle.py) is not thread-safe on the interpreter in use: a `truncate()` called
from another thread can run between the test `truncations == self.truncations and cached_length == self.length` and the
two assignments of `_extend_to()` (the thread switch happens at the call of `self._level(hashes)`, which is evaluated
after the test and before the stores).  The extension read before the truncation is then stored, `length` stays 9
although the cache was truncated to 8 and the truncation counter was bumped: outcome (c).  On CPython 3.12.1 in this
sandbox: about 1 round in 1000.  The class is the same before and after the N7 fix; the fix is that nothing calls it
from another thread any more (the header cache is truncated by BlockProcessor.backup_and_truncate on the event-loop
thread; suite `headercache` checks that on every run).  The other direction (T: a request served between
`self.length = length` and the cut of `self.level` inside truncate()) was NOT observed with free-running threads on
CPython 3.12.1 (0 of 4.4 million truncations: that interpreter checks for a thread switch at calls, function entries
and backward jumps only, and there is none between those two statements); it needs an interpreter that can switch
there (older CPythons, free-threaded builds) and is shown by the settrace-based replays.'''
import os
import sys
import threading
import time
sys.path.insert(0, os.path.dirname(os.path.dirname(os.path.abspath(__file__))))
from harness import common                                   # noqa: E402,F401  (puts VERIF_REPO on sys.path)
from electrumx.lib.merkle import Merkle, MerkleCache          # noqa: E402
SECONDS = float(sys.argv[1]) if len(sys.argv) > 1 else 10
sys.setswitchinterval(1e-6)
m = Merkle(hash_func=lambda x: b'(' + x + b')')
hashes = [b'h%d' % i for i in range(9)]
class Wait:
    def __await__(self):
        yield self
        return hashes[4:9]
async def src(start, count):
    return await Wait()
c = MerkleCache(m, src)
go = threading.Event(); done = threading.Event(); quit_ = False
def worker():
    while True:
        go.wait(); go.clear()
        if quit_: return
        c.truncate(8)
        done.set()
threading.Thread(target=worker, daemon=True).start()
out = {'a: truncate before the test (extension dropped)': 0, 'b: truncate after the assignments (cut to 8)': 0,
       'c: truncate BETWEEN test and assignments (length 9 kept, counter bumped)': 0}
t0 = time.time(); n = 0
while time.time() - t0 < SECONDS:
    c.length, c.depth_higher, c.truncations = 4, 1, 0
    c.level = m.level(hashes[:4], 1)
    co = c._extend_to(9)
    co.send(None)                      # read issued
    go.set()                           # the other thread truncates "now"
    try:
        co.send(None)                  # read delivered: test + assignments (+ loop test)
    except StopIteration:
        pass
    else:
        co.close()
    done.wait(); done.clear()
    n += 1
    if c.length == 4: out['a: truncate before the test (extension dropped)'] += 1
    elif c.length == 8: out['b: truncate after the assignments (cut to 8)'] += 1
    elif c.length == 9 and c.truncations == 1: out['c: truncate BETWEEN test and assignments (length 9 kept, counter bumped)'] += 1
    else: out[f'other {c.length} {c.truncations}'] = out.get(f'other {c.length} {c.truncations}', 0) + 1
print(sys.version.split()[0], 'rounds', n)
for k, v in out.items(): print('  ', k, v)
sys.exit(1 if out['c: truncate BETWEEN test and assignments (length 9 kept, counter bumped)'] else 0)

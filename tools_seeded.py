#!/usr/bin/env python3
"""tools_seeded.py <prop> <worktree> <n> : confirm a seeded breaking change produced by an independent
sub-agent (existing tests still pass with it; its demo fails with it and passes without), keep it under
seeded/<prop>-<n>/, then run the property's quick check against /repo with the change applied and record
whether it is detected."""
import json, os, shutil, subprocess, sys, time

prop, wt, n = sys.argv[1], sys.argv[2], sys.argv[3]
out = os.path.join(wt, 'out', n)
patch = os.path.join(out, 'patch.diff')
demo = next(f for f in ('demo.py', 'test_demo.py') if os.path.exists(os.path.join(out, f)))
PY = '/venv/bin/python'


def sh(cmd, cwd=None, timeout=1800):
    p = subprocess.run(cmd, cwd=cwd, shell=True, stdout=subprocess.PIPE, stderr=subprocess.STDOUT, text=True, timeout=timeout)
    return p.returncode, p.stdout


def run_demo():
    if demo.startswith('test_'):
        return sh(f'{PY} -m pytest -q -p no:cacheprovider out/{n}/{demo}', cwd=wt)[0]
    return sh(f'{PY} out/{n}/{demo}', cwd=wt)[0]


meta = {'property': prop, 'source': f'independent sub-agent, worktree {wt}', 'ran': []}
sh('git checkout -- .', cwd=wt)
rc, o = sh(f'git apply out/{n}/patch.diff', cwd=wt)
assert rc == 0, o
rc, o = sh(f'{PY} -m pytest -q -p no:cacheprovider --timeout=900', cwd=wt)
tail = o.strip().splitlines()[-1]
meta['existing_tests_with_change'] = tail
ok_tests = '142 passed' in tail
d1 = run_demo()
sh('git checkout -- .', cwd=wt)
d0 = run_demo()
meta['demo_exit_with_change'] = d1
meta['demo_exit_without_change'] = d0
confirmed = ok_tests and d1 != 0 and d0 == 0
meta['confirmed'] = confirmed
print('confirmed' if confirmed else 'NOT CONFIRMED', tail, d1, d0)
V = os.environ.get('VERIF_DIR', '/verif')      # lanes: a copy of /verif and its own worktree of /repo
R = os.environ.get('VERIF_REPO', '/repo')
dst = os.path.join(V, 'seeded', f'{prop}-{n}')
if confirmed:
    os.makedirs(dst, exist_ok=True)
    shutil.copy(patch, os.path.join(dst, 'patch.diff'))
    shutil.copy(os.path.join(out, demo), os.path.join(dst, demo))
    if os.path.exists(os.path.join(out, 'notes.md')):
        shutil.copy(os.path.join(out, 'notes.md'), os.path.join(dst, 'notes.md'))
        notes = open(os.path.join(out, 'notes.md')).read()
        meta['needs_to_manifest'] = notes[:1500]
    # ---- run our check(s) against /repo with the change
    rc, o = sh(f'git -C {R} apply {patch}')
    assert rc == 0, o
    try:
        for p in sys.argv[4:] or [prop]:
            t0 = time.time()
            rc, o = sh(f'{PY} check.py {p} --tier quick', cwd=V, timeout=3000)
            lines = [l for l in o.splitlines() if 'VIOLATION' in l or 'KNOWN' in l]
            meta['ran'].append({'cmd': f'check.py {p} --tier quick', 'exit': rc, 'lines': lines[:3], 'secs': round(time.time() - t0)})
            print(p, 'exit', rc, lines[:2])
            for l in [x for x in lines if 'replay=' in x][:1]:
                rp = l.split('replay=')[1].split()[0]
                try:
                    meta['replay_excerpt'] = json.load(open(os.path.join(V, rp)))
                    for k in ('events', 'script', 'trace', 'all_failures'):
                        if k in meta['replay_excerpt'] and isinstance(meta['replay_excerpt'][k], list):
                            meta['replay_excerpt'][k] = meta['replay_excerpt'][k][-12:]
                    meta['replay_excerpt'] = json.loads(json.dumps(meta['replay_excerpt'], default=str)[:3000] + '"}') if False else meta['replay_excerpt']
                except Exception:
                    pass
    finally:
        sh(f'git -C {R} checkout -- .')
    meta['detected'] = any(r['exit'] == 1 for r in meta['ran'])
    json.dump(meta, open(os.path.join(dst, 'meta.json'), 'w'), indent=1, default=str)
    print('detected' if meta['detected'] else 'MISSED')

#!/usr/bin/env python3
"""tools_seeded_rerun.py <seeded-dir-name> [checks...] [--tier T]: re-run our checks against /repo with an
already confirmed seeded change (seeded/<name>/patch.diff) applied; update meta.json; always revert /repo."""
import json, os, subprocess, sys, time
args = [a for a in sys.argv[1:] if not a.startswith('--tier=')]
tier = next((a.split('=')[1] for a in sys.argv[1:] if a.startswith('--tier=')), 'quick')
name = args[0]
V = os.environ.get('VERIF_DIR', '/verif')      # lanes: a copy of /verif and its own worktree of /repo
R = os.environ.get('VERIF_REPO', '/repo')
dst = os.path.join(V, 'seeded', name)
meta = json.load(open(os.path.join(dst, 'meta.json')))
checks = args[1:] or [meta['property']]
assert subprocess.run(f'git -C {R} status --porcelain', shell=True, capture_output=True, text=True).stdout.strip() == '', f'{R} not clean'
subprocess.run(f'git -C {R} apply {dst}/patch.diff', shell=True, check=True)
try:
    meta['ran'] = [r for r in meta.get('ran', []) if r['cmd'].split()[1] not in checks]
    for p in checks:
        t0 = time.time()
        r = subprocess.run(f'/venv/bin/python check.py {p} --tier {tier}', cwd=V, shell=True, stdout=subprocess.PIPE,
                           stderr=subprocess.STDOUT, text=True, timeout=6000)
        lines = [l for l in r.stdout.splitlines() if 'VIOLATION' in l or 'KNOWN' in l]
        meta['ran'].append({'cmd': f'check.py {p} --tier {tier}', 'exit': r.returncode, 'lines': lines[:3], 'secs': round(time.time() - t0)})
        print(name, p, 'exit', r.returncode, lines[:2])
        if r.returncode not in (0, 1):
            print(r.stdout[-1500:])
        for l in [x for x in lines if 'replay=' in x][:1]:
            rp = l.split('replay=')[1].split()[0]
            try:
                ex = json.load(open(os.path.join(V, rp)))
                for k in ('events', 'script', 'trace', 'all_failures'):
                    if isinstance(ex.get(k), list):
                        ex[k] = ex[k][-12:]
                s = json.dumps(ex, default=str)
                meta['replay_excerpt'] = ex if len(s) < 6000 else s[:6000]
            except Exception:
                pass
finally:
    subprocess.run(f'git -C {R} checkout -- .', shell=True)
meta['detected'] = any(r['exit'] == 1 for r in meta['ran'])
json.dump(meta, open(os.path.join(dst, 'meta.json'), 'w'), indent=1, default=str)
print('detected' if meta['detected'] else 'MISSED')

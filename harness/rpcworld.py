"""A small real ElectrumX world for the `rpc` / `limits` suites (C16, C17).

Real `DB` (LevelDB under /dev/shm), filled by the real `BlockProcessor.advance_block` from
synthetic blocks; real `SessionManager`, `PeerManager` (discovery ON), `ElectrumX` sessions on a
fake transport.  Stubs: the daemon (deterministic answers) and the mempool (in-memory table with
the query API `ElectrumX` uses).  No source hooks; nothing in /repo is modified.
"""
import asyncio
import logging
import os
import shutil
import socket
import tempfile

from harness import common  # noqa: F401  (puts the repo first on sys.path)

import aiorpcx
from aiorpcx import NetAddress

from electrumx.lib.hash import double_sha256, sha256, hash_to_hex_str, HASHX_LEN
from electrumx.lib.tx import Tx, TxInput, TxOutput, ZERO, MINUS_1
from electrumx.lib.util import pack_varint

ENV_KEYS = ('DB_DIRECTORY', 'DAEMON_URL', 'COIN', 'NET', 'REORG_LIMIT', 'PEER_DISCOVERY', 'SERVICES',
            'REPORT_SERVICES', 'MAX_SEND', 'DROP_CLIENT', 'BANNER_FILE', 'TOR_BANNER_FILE',
            'DONATION_ADDRESS', 'COST_SOFT_LIMIT', 'COST_HARD_LIMIT', 'CACHE_MB', 'DB_ENGINE',
            'MAX_RECV', 'MAX_SESSIONS', 'ANON_LOGS', 'LOG_SESSIONS', 'LOG_LEVEL', 'PEER_ANNOUNCE',
            'FORCE_PROXY', 'TOR_PROXY_HOST', 'TOR_PROXY_PORT', 'BANDWIDTH_UNIT_COST',
            'INITIAL_CONCURRENT', 'REQUEST_SLEEP', 'REQUEST_TIMEOUT', 'SESSION_TIMEOUT',
            'SSL_CERTFILE', 'SSL_KEYFILE', 'EVENT_LOOP_POLICY')


def quiet_logging():
    logging.disable(logging.CRITICAL)


def make_env(db_dir, max_send=None, peer_discovery='on', drop_client='^bad'):
    from electrumx.server.env import Env
    for k in ENV_KEYS:
        os.environ.pop(k, None)
    os.environ.update({
        'DB_DIRECTORY': db_dir, 'DAEMON_URL': 'http://u:p@localhost:1/', 'COIN': 'BitcoinSV',
        'NET': 'regtest', 'REORG_LIMIT': '10', 'PEER_DISCOVERY': peer_discovery, 'SERVICES': '',
        'COST_SOFT_LIMIT': '0', 'COST_HARD_LIMIT': '0', 'PEER_ANNOUNCE': '',
    })
    if max_send is not None:
        os.environ['MAX_SEND'] = str(max_send)
    if drop_client:
        os.environ['DROP_CLIENT'] = drop_client
    return Env()


def script_for(tag):
    """A spendable 25-byte P2PKH-like script determined by a small integer tag."""
    return bytes([0x76, 0xa9, 0x14]) + sha256(b'script%d' % tag)[:20] + bytes([0x88, 0xac])


def scripthash_hex(script):
    """The protocol's script hash (hex of the reversed sha256)."""
    return sha256(script)[::-1].hex()


def hashX_of(script):
    return sha256(script)[:HASHX_LEN]


class FakeDaemon:
    """Deterministic daemon: knows the raw txs of the chain; rejects a broadcast whose hex text
    has a length that is not a multiple of four."""

    def __init__(self):
        self.raw_txs = {}        # hex txid -> raw hex
        self._height = 0
        self.broadcasts = []

    def cached_height(self):
        return self._height

    async def height(self):
        return self._height

    async def getrawtransaction(self, hex_hash, verbose=False):
        from electrumx.server.daemon import DaemonError
        raw = self.raw_txs.get(hex_hash) if isinstance(hex_hash, str) else None
        if raw is None:
            raise DaemonError({'code': -5, 'message': 'No such mempool or blockchain transaction'})
        if verbose:
            return {'hex': raw, 'txid': hex_hash}
        return raw

    async def broadcast_transaction(self, raw_tx):
        from electrumx.server.daemon import DaemonError
        if len(raw_tx) % 4:
            raise DaemonError({'code': -22, 'message': 'TX decode failed'})
        self.broadcasts.append(raw_tx)
        return double_sha256(bytes.fromhex(raw_tx))[::-1].hex()

    async def getnetworkinfo(self):
        return {'version': 1010000, 'subversion': '/Fake:1.1.0/'}


class MemTx:
    def __init__(self, tx_hash, has_unconfirmed_inputs=False, fee=100, size=200):
        self.hash = tx_hash
        self.has_unconfirmed_inputs = has_unconfirmed_inputs
        self.fee = fee
        self.size = size


class FakeMemPool:
    """The query API of `MemPool` that sessions use, over an in-memory table."""

    def __init__(self):
        self.txs = {}   # hashX -> [MemTx]

    async def transaction_summaries(self, hashX):
        return list(self.txs.get(hashX, ()))

    async def unordered_UTXOs(self, hashX):
        return []

    async def potential_spends(self, hashX):
        return set()

    async def balance_delta(self, hashX):
        return 0

    async def compact_fee_histogram(self):
        return []


class FakeTransport:
    """What aiorpcx's RPCSession needs from a transport."""
    kind = aiorpcx.session.SessionKind.SERVER

    def __init__(self, host='127.0.0.1', port=50000):
        self.sent = []
        self._closing = False
        self._addr = NetAddress(host, port)

    async def write(self, message):
        self.sent.append(message)

    def remote_address(self):
        return self._addr

    def is_closing(self):
        return self._closing

    async def close(self, force_after=None):
        self._closing = True

    async def abort(self):
        self._closing = True

    def proxy(self):
        return None

    # used by RPCSession._send_message via the framer-less path
    def closing(self):
        return self._closing


class World:
    """Real DB + block processor + session manager."""

    def __init__(self, max_send=None, reorg_limit=10):
        self.dir = tempfile.mkdtemp(prefix='ev_rpc_', dir='/dev/shm' if os.path.isdir('/dev/shm') else None)
        self.max_send = max_send
        self.blocks = []          # list of (hex_hash, raw header, [tx_hash bytes])
        self.history = {}         # hashX -> [(tx_hash, height)]  (independent bookkeeping)
        self.utxo = {}            # script tag -> (tx_hash, idx, value) spendable chain tip of that tag
        self.daemon = FakeDaemon()
        self.mempool = FakeMemPool()
        self.sessions = []
        self._old_cwd = os.getcwd()

    # ---- chain construction -----------------------------------------------------------------
    async def open(self):
        from electrumx.server.db import DB
        from electrumx.server.block_processor import BlockProcessor, OnDiskBlock
        from electrumx.server.session import SessionManager, ElectrumX
        self.env = make_env(self.dir, self.max_send)
        self.coin = self.env.coin
        self.db = DB(self.env)
        self.notifications = None
        self.bp = BlockProcessor(self.env, self.db, self.daemon, self.notifications)
        OnDiskBlock.blocks = {}
        OnDiskBlock.tasks = {}
        self.OnDiskBlock = OnDiskBlock
        state = await self.db.open_for_sync()
        self.bp.state = OnDiskBlock.state = state.copy()
        os.makedirs(os.path.join(self.dir, 'meta', 'blocks'), exist_ok=True)
        self.ElectrumX = ElectrumX
        self.SessionManager = SessionManager

    def _tip(self):
        return self.bp.state.tip

    def _coinbase(self, height, outs):
        script = pack_varint(height + 1) + b'cb%d' % height
        return Tx(1, [TxInput(ZERO, MINUS_1, script, 0xffffffff)],
                  [TxOutput(v, s) for v, s in outs], 0)

    async def add_block(self, txs_spec=()):
        """txs_spec: list of script tags; each produces one tx that spends the previous output of
        that tag (or is funded by a coinbase output when the tag is new) and pays to the tag's
        script again, so the tag's hashX history grows by one per tx."""
        height = self.bp.state.height + 1
        utxo_before = dict(self.utxo)
        cb_outs = [(50_0000_0000, script_for(0))]
        new_tags = []
        for tag in txs_spec:
            if tag not in self.utxo and tag not in new_tags:
                new_tags.append(tag)
        for tag in new_tags:
            cb_outs.append((1_0000_0000, script_for(tag)))
        cb = self._coinbase(height, cb_outs)
        raw_cb = cb.serialize()
        cb_hash = double_sha256(raw_cb)
        raws = [raw_cb]
        tx_hashes = [cb_hash]
        touched = {hashX_of(script_for(0)): True}
        self._note(hashX_of(script_for(0)), cb_hash, height)
        for i, tag in enumerate(new_tags):
            self.utxo[tag] = (cb_hash, 1 + i, 1_0000_0000)
            self._note(hashX_of(script_for(tag)), cb_hash, height)
            touched[hashX_of(script_for(tag))] = True
        for tag in txs_spec:
            prev_hash, prev_idx, value = self.utxo[tag]
            tx = Tx(1, [TxInput(prev_hash, prev_idx, b'\x51', 0xffffffff)],
                    [TxOutput(value - 1, script_for(tag))], 0)
            raw = tx.serialize()
            h = double_sha256(raw)
            raws.append(raw)
            tx_hashes.append(h)
            self.utxo[tag] = (h, 0, value - 1)
            self._note(hashX_of(script_for(tag)), h, height)
            touched[hashX_of(script_for(tag))] = True
        merkle_root = self.db.merkle.root(tx_hashes)
        header = (b'\x01\x00\x00\x00' + self._tip() + merkle_root
                  + (1_600_000_000 + height).to_bytes(4, 'little') + b'\xff\xff\x7f\x20'
                  + height.to_bytes(4, 'little'))
        assert len(header) == 80
        hex_hash = hash_to_hex_str(self.coin.header_hash(header))
        raw_block = header + pack_varint(len(raws)) + b''.join(raws)
        path = os.path.join(self.dir, 'meta', 'blocks', f'{height:d}-{hex_hash}')
        with open(path, 'wb') as f:
            f.write(raw_block)
        self.OnDiskBlock.blocks[hex_hash] = (height, len(raw_block))
        self.daemon._height = height
        blk = await self.OnDiskBlock.streamed_block(hex_hash)
        self.bp.advance_block(blk)
        assert self.bp.ok and self.bp.state.height == height
        os.unlink(path)
        del self.OnDiskBlock.blocks[hex_hash]
        self.blocks.append((hex_hash, header, tx_hashes))
        if not hasattr(self, 'undo_book'):
            self.undo_book = []
        self.undo_book.append((hex_hash, raw_block, height, utxo_before))
        for raw, h in zip(raws, tx_hashes):
            self.daemon.raw_txs[hash_to_hex_str(h)] = raw.hex()
        return set(touched)

    async def remove_block(self):
        """Back the tip block out with the real `BlockProcessor.backup_block` (undo information must exist:
        the world keeps `reorg_limit` blocks).  The index must be fully flushed.  Returns the touched hashXs."""
        hex_hash, raw_block, height, utxo_before = self.undo_book.pop()
        assert height == self.bp.state.height
        path = os.path.join(self.dir, 'meta', 'blocks', f'{height:d}-{hex_hash}')
        with open(path, 'wb') as f:
            f.write(raw_block)
        self.OnDiskBlock.blocks[hex_hash] = (height, len(raw_block))
        blk = await self.OnDiskBlock.streamed_block(hex_hash)
        self.bp.touched = set()
        self.bp.backup_block(blk)
        assert self.bp.ok and self.bp.state.height == height - 1
        if getattr(self.db, 'header_mc', None) is not None:
            self.db.header_mc.truncate(self.bp.state.height + 1)
        if os.path.exists(path):
            os.unlink(path)
        self.OnDiskBlock.blocks.pop(hex_hash, None)
        self.blocks.pop()
        self.utxo = utxo_before
        for lst in self.history.values():
            lst[:] = [e for e in lst if e[1] != height]
        self.daemon._height = height - 1
        touched = set(self.bp.touched)
        self.bp.touched = set()
        return touched

    def _note(self, hashX, tx_hash, height):
        lst = self.history.setdefault(hashX, [])
        if not lst or lst[-1] != (tx_hash, height):
            lst.append((tx_hash, height))

    def flush(self):
        self.db.flush_dbs(self.bp.flush_data(), True, 0)

    async def serve(self):
        """Flush, switch the DB to serving mode, build the session manager."""
        self.flush()
        await self.db.open_for_serving()
        self.bp.state = self.OnDiskBlock.state = self.db.state.copy()
        await self.db.populate_header_merkle_cache()
        self.shutdown_event = asyncio.Event()
        self.mgr = self.SessionManager(self.env, self.db, self.bp, self.daemon, self.mempool,
                                       self.shutdown_event)
        self.ElectrumX.cost_soft_limit = 0
        self.ElectrumX.cost_hard_limit = 0
        self.ElectrumX.cost_decay_per_sec = 0
        self.ElectrumX.processing_timeout = 1000
        await self.mgr._refresh_hsub_results(self.db.state.height)
        self.mgr.notified_height = self.db.state.height

    def new_session(self, host='127.0.0.1'):
        t = FakeTransport(host)
        s = self.ElectrumX(self.mgr, self.db, self.mempool, self.mgr.peer_mgr, 'TCP', t)
        self.sessions.append(s)
        return s

    @property
    def height(self):
        return self.db.state.height

    def close(self):
        try:
            if self.db.utxo_db:
                self.db.utxo_db.close()
                self.db.utxo_db = None
            self.db.history.close_db()
        except Exception:
            pass
        os.chdir('/')
        shutil.rmtree(self.dir, ignore_errors=True)
        try:
            os.chdir(self._old_cwd)
        except OSError:
            pass


_real_getaddrinfo = socket.getaddrinfo


def offline_getaddrinfo(host, port, family=0, type=0, proto=0, flags=0):
    """The real getaddrinfo with AI_NUMERICHOST added: identical argument processing (IDNA encoding,
    which is where UnicodeError comes from) but never a DNS lookup."""
    return _real_getaddrinfo(host, port, family, type, proto, flags | socket.AI_NUMERICHOST)


def patch_getaddrinfo():
    socket.getaddrinfo = offline_getaddrinfo

"""Constants for EV/Model/Rpc.lean, observed on the real modules (never parsed from source).

`collect()` returns (name, lean type, lean value, comment) tuples for harness/gen_consts.py.
Everything is obtained by *running* the real code:
  * the tuple of exception classes each validator converts to RPCError: one probe per class;
  * the handler table: `ElectrumX.set_request_handlers(ptuple)` + `aiorpcx.util.signature_info`;
  * the history limit's floor and divisor: `SessionManager.limited_history` against a recording DB;
  * whether `block_headers` charges for the requested or for the clamped count, whether
    `transaction_tsc_merkle` refuses an unknown `target_type`: one call each on a stub session;
  * which `getaddrinfo` failures `PeerManager.on_add_peer` turns into a refusal.
"""
import asyncio
import os
import socket

from harness import common  # noqa: F401

# the vocabulary of exception classes of EV.Rpc.PyExc (name in Lean = Python class name)
EXC_CLASSES = [ValueError, TypeError, OverflowError, AttributeError, IndexError, KeyError,
               UnicodeError, socket.gaierror, OSError, RecursionError, AssertionError,
               ZeroDivisionError]


def _lean_str(s):
    assert '"' not in s and '\\' not in s
    return f'"{s}"'


def _lean_list(items):
    return '[' + ', '.join(items) + ']'


def _caught(probe):
    """Names of the classes for which probe(cls) ends in RPCError (True) rather than cls (False)."""
    from aiorpcx import RPCError
    out = []
    for cls in EXC_CLASSES:
        try:
            probe(cls)
            raise RuntimeError(f'probe for {cls.__name__} returned normally')
        except RPCError:
            out.append(cls.__name__)
        except cls:
            pass
    return out


def _validator_tuples():
    from electrumx.server import session as S

    class IntRaises:
        def __init__(self, cls):
            self.cls = cls

        def __int__(self):
            raise self.cls('probe')

        def __str__(self):
            return 'probe'

    res = {}
    res['nonNegIntCaught'] = _caught(lambda cls: S.non_negative_integer(IntRaises(cls)))

    def with_hex(func):
        def probe(cls):
            saved = S.hex_str_to_hash

            def raising(_x):
                raise cls('probe')
            S.hex_str_to_hash = raising
            try:
                return func('00' * 32)
            finally:
                S.hex_str_to_hash = saved
        return probe
    res['scripthashCaught'] = _caught(with_hex(S.scripthash_to_hashX))
    res['txHashCaught'] = _caught(with_hex(S.assert_tx_hash))

    def raw_probe(cls):
        class FakeBytes:
            @staticmethod
            def fromhex(_x):
                raise cls('probe')
        S.bytes = FakeBytes          # module global shadows the builtin for assert_raw_bytes only
        try:
            return S.assert_raw_bytes('00')
        finally:
            del S.bytes
    res['rawBytesCaught'] = _caught(raw_probe)
    return res


def _protocol_tuple_caught():
    from electrumx.lib import util

    class SplitRaises:
        def __init__(self, cls):
            self.cls = cls

        def split(self, _sep):
            raise self.cls('probe')

    out = []
    for cls in EXC_CLASSES:
        try:
            if util.protocol_tuple(SplitRaises(cls)) == (0, ):
                out.append(cls.__name__)
        except cls:
            pass
    return out


def _make_env(max_send=None):
    from harness.rpcworld import make_env
    saved = dict(os.environ)
    try:
        return make_env('/nonexistent-ev-gen', max_send=max_send)
    finally:
        os.environ.clear()
        os.environ.update(saved)


def _handler_tables():
    from aiorpcx.util import signature_info
    from electrumx.server.session import ElectrumX
    sess = ElectrumX.__new__(ElectrumX)

    def table(ptuple):
        sess.set_request_handlers(ptuple)
        rows = []
        for name in sorted(sess.request_handlers):
            info = signature_info(sess.request_handlers[name])
            if info.max_args is None or info.other_names is None or info.other_names is any:
                raise RuntimeError(f'handler {name}: *args/**kwargs/positional-only parameters '
                                   f'are outside the model of handler_invocation')
            rows.append((name, info.min_args, info.max_args, list(info.required_names),
                         list(info.other_names)))
        return rows

    pmin, pmax = ElectrumX.PROTOCOL_MIN, ElectrumX.PROTOCOL_MAX
    tmin, tmax = table(pmin), table(pmax)
    # the version from which the bigger table is installed: least probe tuple with table == tmax
    third = pmax[2] if len(pmax) > 2 else 0
    probes = sorted({pmin, pmax, (pmax[0], pmax[1] + 1)}
                    | {pmax[:2] + (k, ) for k in range(0, third + 3)}
                    | {pmax[:2] + (k, 9) for k in range(0, third + 3)})
    since = None
    for p in probes:
        t = table(p)
        if t not in (tmin, tmax):
            raise RuntimeError(f'a third handler table appears at protocol {p}')
        if t == tmax and since is None and tmax != tmin:
            since = p
        if since is not None and t != tmax:
            raise RuntimeError('handler table is not monotone in the protocol version')
    if since is None:
        since = pmax + (0, ) if tmax == tmin else pmax
    return pmin, pmax, tmin, tmax, since


def _history_limit():
    """floor F and divisor d with limit(max_send) == max(F, max_send) // d."""
    from electrumx.server.session import SessionManager

    class RecDB:
        def __init__(self):
            self.limits = []

        async def limited_history(self, hashX, *, limit):
            self.limits.append(limit)
            return []

    def observe(max_send):
        env = _make_env(max_send)
        db = RecDB()

        async def go():
            mgr = SessionManager(env, db, None, None, None, asyncio.Event())
            try:
                await mgr.limited_history(b'x' * 11)
            except Exception:
                pass
            return env.max_send
        eff = asyncio.run(go())
        if len(db.limits) != 1:
            raise RuntimeError('limited_history did not query the DB exactly once')
        return eff, db.limits[0]

    floor, l0 = observe(0)
    probes = [10 ** 6, 10 ** 6 + 1, 999_983, 1_234_567, 87_654_321, floor + 1, floor + 98, floor + 99]
    obs = [(m, observe(m)[1]) for m in probes]
    ds = [d for d in range(1, 100_000) if all(max(floor, m) // d == lim for m, lim in obs) and floor // d == l0]
    if len(ds) != 1:
        raise RuntimeError(f'history limit is not max(F, max_send) // d for a unique d: {ds[:5]}')
    return floor, ds[0]


class _StubMgr:
    def __init__(self):
        self.costs = []

    async def raw_header(self, height):
        return bytes(80)

    async def tsc_merkle_proof_for_tx_hash(self, height, tx_hash, txid_or_tx, target_type):
        return {'index': 0, 'txid_or_tx': '', 'target': '', 'nodes': []}, 0.0


def _handler_probes():
    from aiorpcx import RPCError
    from electrumx.server.session import ElectrumX

    class StubDB:
        class state:
            height = 10 ** 9

        async def read_headers(self, start, count):
            return b'', 0

    sess = ElectrumX.__new__(ElectrumX)
    costs = []
    sess.bump_cost = costs.append
    sess.db = StubDB()
    sess.session_mgr = _StubMgr()
    cap = ElectrumX.MAX_CHUNK_SIZE

    async def go():
        await sess.block_headers(0, cap * 3)
        c3 = sum(costs)
        costs.clear()
        await sess.block_headers(0, cap)
        c1 = sum(costs)
        unclamped = abs(c3 - c1) > 1e-9
        try:
            await sess.transaction_tsc_merkle('00' * 32, 0, 'txid', 'no-such-target')
            checked = False
        except RPCError:
            checked = True
        for good in ('block_hash', 'block_header', 'merkle_root'):
            await sess.transaction_tsc_merkle('00' * 32, 0, 'txid', good)
        return unclamped, checked
    return asyncio.run(go())


def _add_peer_caught():
    from electrumx.server.peers import PeerManager
    from aiorpcx import NetAddress
    env = _make_env()
    out = []

    async def go():
        loop = asyncio.get_event_loop()
        for cls in EXC_CLASSES:
            pm = PeerManager(env, None)

            async def raising(*_a, _cls=cls, **_kw):
                raise _cls('probe')
            loop.getaddrinfo = raising
            try:
                r = await pm.on_add_peer({'hosts': {'probe.example.com': {}}}, NetAddress('1.2.3.4', 5))
                if r is False:
                    out.append(cls.__name__)
            except cls:
                pass
            finally:
                del loop.getaddrinfo
    import logging
    prev = logging.root.manager.disable
    logging.disable(logging.CRITICAL)
    try:
        asyncio.run(go())
    finally:
        logging.disable(prev)
    return out


def _invalidate_always():
    """Does `_notify_sessions` drop touched script hashes from the history cache when the height
    did not change?  One call on a manager without sessions."""
    from electrumx.server.session import SessionManager
    env = _make_env()
    key = b'k' * 11

    class NoDB:
        class state:
            height = 5

        async def raw_header(self, height):
            return bytes(80)

    async def go():
        mgr = SessionManager(env, NoDB(), None, None, None, asyncio.Event())
        await mgr._refresh_hsub_results(5)
        mgr._history_cache[key] = []
        await mgr._notify_sessions(5, {key})
        same_height_drops = key not in mgr._history_cache
        mgr._history_cache[key] = []
        await mgr._notify_sessions(4, {key})
        if key in mgr._history_cache:
            raise RuntimeError('_notify_sessions keeps a touched cache entry across a height change')
        return same_height_drops
    return asyncio.run(go())


def collect():
    from aiorpcx import JSONRPC
    from electrumx.server import session as S
    consts = []

    def add(name, ty, val, comment):
        consts.append((name, ty, val, comment))

    def ints(t):
        return _lean_list(str(x) for x in t)

    add('badRequest', 'Int', str(S.BAD_REQUEST), 'electrumx.server.session.BAD_REQUEST')
    add('daemonError', 'Int', str(S.DAEMON_ERROR), 'electrumx.server.session.DAEMON_ERROR')
    add('invalidArgs', 'Int', f'({JSONRPC.INVALID_ARGS})', 'aiorpcx.JSONRPC.INVALID_ARGS')
    add('methodNotFound', 'Int', f'({JSONRPC.METHOD_NOT_FOUND})', 'aiorpcx.JSONRPC.METHOD_NOT_FOUND')
    add('maxChunkSize', 'Nat', str(S.SessionBase.MAX_CHUNK_SIZE), 'SessionBase.MAX_CHUNK_SIZE')
    floor, div = _history_limit()
    add('maxSendFloor', 'Nat', str(floor),
        'env.max_send after SessionManager.__init__ with MAX_SEND=0 (observed)')
    add('histDiv', 'Nat', str(div),
        'd with limit == max(floor, MAX_SEND) // d, observed through a recording DB')
    for name, classes in _validator_tuples().items():
        add(name, 'List String', _lean_list(_lean_str(c) for c in classes),
            'exception classes converted to RPCError (observed: one probe per class)')
    add('protocolTupleCaught', 'List String',
        _lean_list(_lean_str(c) for c in _protocol_tuple_caught()),
        'classes util.protocol_tuple turns into (0,) (observed)')
    add('addPeerCaught', 'List String', _lean_list(_lean_str(c) for c in _add_peer_caught()),
        'getaddrinfo failures PeerManager.on_add_peer turns into a refusal (observed)')
    unclamped, checked = _handler_probes()
    add('headersCostUnclamped', 'Bool', str(unclamped).lower(),
        'block_headers computes its cost from the requested count, before min(count, MAX_CHUNK_SIZE) (observed)')
    add('tscTargetChecked', 'Bool', str(checked).lower(),
        'transaction_tsc_merkle refuses a target_type outside the three documented values (observed)')
    add('invalidateAlways', 'Bool', str(_invalidate_always()).lower(),
        '_notify_sessions drops touched script hashes from the history cache also when the height is '
        'unchanged (observed)')
    pmin, pmax, tmin, tmax, since = _handler_tables()
    add('protocolMin', 'List Int', ints(pmin), 'ElectrumX.PROTOCOL_MIN')
    add('protocolMax', 'List Int', ints(pmax), 'ElectrumX.PROTOCOL_MAX')
    add('unsubscribeSince', 'List Int', ints(since),
        'least protocol tuple for which set_request_handlers installs the larger table (observed)')
    row_ty = 'List (String × Nat × Nat × List String × List String)'

    def rows(t):
        return '[\n  ' + ',\n  '.join(
            f'({_lean_str(n)}, {mn}, {mx}, {_lean_list(_lean_str(x) for x in req)}, '
            f'{_lean_list(_lean_str(x) for x in oth)})' for n, mn, mx, req, oth in t) + ']'
    add('handlersMin', row_ty, rows(tmin),
        'set_request_handlers(PROTOCOL_MIN): (method, min_args, max_args, required names, other names) '
        'from aiorpcx.util.signature_info')
    add('handlersMax', row_ty, rows(tmax), 'set_request_handlers(PROTOCOL_MAX)')
    return consts

"""Shared plumbing for the correspondence / direct-oracle suites.

Everything here runs under /venv/bin/python with /repo's *working tree* first on sys.path, so the
real ElectrumX classes that are exercised are the ones currently in /repo.
"""
import fcntl
import hashlib
import json
import os
import random
import subprocess
import sys
import time

VERIF = os.path.dirname(os.path.dirname(os.path.abspath(__file__)))
REPO = os.environ.get('VERIF_REPO', '/repo')
LEAN_DIR = os.environ.get('VERIF_LEAN_DIR', os.path.join(VERIF, 'lean'))
EVDRV = os.path.join(LEAN_DIR, '.lake', 'build', 'bin', 'evdrv')
# The guard for in-source hooks (none exist at present; see MANIFEST.hooks)
os.environ.setdefault('ELECTRUMX_VERIF', '1')

import logging
logging.disable(logging.CRITICAL)   # the real classes log a lot; nothing is compared from logs

if sys.path[0] != REPO:
    sys.path.insert(0, REPO)


class SuiteResult:
    """What one suite run reports back to check.py."""

    def __init__(self, name):
        self.name = name
        self.evaluations = 0            # cases / ops executed on the real code
        self.nontrivial = set()         # hashes of distinct non-trivial canonical cases
        self.samples = []               # a few cases written out in full
        self.stats = {}                 # generator / branch histograms
        self.disagreements = []         # model != code  (dicts with a replayable case)
        self.violations = []            # direct oracle: property fails on the real code
        self.known = []                 # known findings that still reproduce
        self.exhaustive = False
        self.harness_errors = []        # coverage targets missed etc.
        self.rule = ''

    def bump(self, key, n=1):
        self.stats[key] = self.stats.get(key, 0) + n

    def note_case(self, canon, nontrivial=True):
        self.evaluations += 1
        if nontrivial:
            self.nontrivial.add(hashlib.blake2b(canon.encode(), digest_size=8).digest())

    def sample(self, obj, limit=4):
        if len(self.samples) < limit:
            self.samples.append(obj)


def rng_for(seed, *labels):
    """All randomness derives from VERIF_SEED; each case gets its own sub-seed."""
    h = hashlib.sha256(repr((seed,) + labels).encode()).digest()
    return random.Random(int.from_bytes(h[:8], 'big'))


def run_evdrv(suite, lines, timeout=3600):
    """Feed op lines to the Lean driver, return its output lines."""
    data = ('\n'.join(lines) + '\n').encode()
    proc = subprocess.run([EVDRV, suite], input=data, stdout=subprocess.PIPE,
                          stderr=subprocess.PIPE, timeout=timeout)
    if proc.returncode != 0:
        raise RuntimeError(f'evdrv {suite} failed: {proc.stderr.decode()[:500]}')
    out = proc.stdout.decode().split('\n')
    if out and out[-1] == '':
        out.pop()
    if len(out) != len(lines):
        raise RuntimeError(f'evdrv {suite}: {len(lines)} lines in, {len(out)} lines out')
    return out


def drive(coro):
    """Run a coroutine that never really suspends (used for the pure async classes)."""
    try:
        coro.send(None)
    except StopIteration as e:
        return e.value
    raise RuntimeError('coroutine suspended unexpectedly')


class Lock:
    """Serialise lake / generated-file access between concurrently running checks."""

    def __init__(self, name='lake'):
        self.path = os.path.join(LEAN_DIR, f'.{name}.lock')

    def __enter__(self):
        self.f = open(self.path, 'w')
        fcntl.flock(self.f, fcntl.LOCK_EX)
        return self

    def __exit__(self, *a):
        fcntl.flock(self.f, fcntl.LOCK_UN)
        self.f.close()


def ddmin(items, fails):
    """Delta-debugging: minimal sublist of items on which fails(sublist) is still true."""
    n = 2
    items = list(items)
    while len(items) >= 2:
        chunk = max(1, len(items) // n)
        subsets = [items[i:i + chunk] for i in range(0, len(items), chunk)]
        reduced = False
        for i in range(len(subsets)):
            complement = [x for j, s in enumerate(subsets) if j != i for x in s]
            if complement and fails(complement):
                items = complement
                n = max(n - 1, 2)
                reduced = True
                break
        if not reduced:
            if n >= len(items):
                break
            n = min(len(items), n * 2)
    return items


def out_of_time():
    """True once the budget check.py set for the extended failing-input search (VERIF_DEADLINE, epoch
    seconds) is used up; suites with long main loops stop generating new cases then."""
    import time
    d = os.environ.get('VERIF_DEADLINE')
    return bool(d) and time.time() > float(d)

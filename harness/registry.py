"""Which Lean module / theorems / suites decide each property."""

TRUSTED_COMMON = [
    'Lean 4.33.0 kernel; axioms limited to propext, Classical.choice, Quot.sound (audited per run with #print axioms)',
    'the statements of the property theorems in lean/EV/Props and of the specs in lean/EV/Spec',
    'the correspondence harness (harness/), the evdrv line-protocol driver and the canonicalisers',
    'harness/gen_consts.py (introspection of the real modules into EV/Gen/Consts.lean)',
    'CPython 3.12 semantics of the builtins the modelled code uses',
]

import importlib
import os
import re

PROPS = {}
_dir = os.path.join(os.path.dirname(__file__), 'props')
for _f in sorted(os.listdir(_dir)):
    _m = re.fullmatch(r'(C\d+)\.py', _f)
    if _m:
        PROPS[_m.group(1)] = importlib.import_module(f'harness.props.{_m.group(1)}').SPEC

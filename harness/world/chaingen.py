"""Type-directed generator of real serialised blocks and transactions.

A `Gen` owns a block *tree* (so reorg histories can be generated); every block keeps the naive UTXO
view at its end so that children only spend outputs that exist and are spendable on that branch.
All randomness comes from the `random.Random` passed in.
"""
import hashlib
import struct

from electrumx.lib.hash import double_sha256, hash_to_hex_str
from electrumx.lib.tx import Tx, TxInput, TxOutput
from electrumx.lib.util import pack_varint

ZERO = bytes(32)
MINUS_1 = 4294967295


def script_kind(script):
    """Independent classification used for the model's `Kind` (0 normal, 1 OP_RETURN, 2 OP_FALSE OP_RETURN)."""
    if len(script) >= 2 and script[0] == 0x00 and script[1] == 0x6a:
        return 2
    if len(script) >= 1 and script[0] == 0x6a:
        return 1
    return 0


def hashx_of(script):
    return hashlib.sha256(script).digest()[:11]


def be(b):
    return int.from_bytes(b, 'big')


# script universe: a few ordinary scripts (two of them sharing the 2-byte hashX prefix is not
# controllable with real SHA-256; compaction has its own synthetic suite), the unspendable shapes,
# the empty script and near-misses of the unspendable patterns
NORMAL_SCRIPTS = [bytes([0x51, i]) for i in range(6)] + [b'', b'\x00', b'\x00\x51', b'\x51\x6a']
UNSPENDABLE_SCRIPTS = [b'\x6a', b'\x6a\x02\x1c\x32', b'\x00\x6a', b'\x00\x6a\x04abcd']


class GTx:
    __slots__ = ('raw', 'txid', 'ins', 'outs')

    def __init__(self, ins, outs, nonce=0):
        self.ins = ins      # list of (prev_hash, prev_idx)
        self.outs = outs    # list of (value, script)
        tx = Tx(1, [TxInput(ph, pi, b'', nonce & 0xffffffff) for ph, pi in ins] or [],
                [TxOutput(v, s) for v, s in outs], (nonce >> 32) & 0xffffffff)
        self.raw = tx.serialize()
        self.txid = double_sha256(self.raw)

    def is_gen(self, n):
        ph, pi = self.ins[n]
        return pi == MINUS_1 and ph == ZERO

    def model_words(self):
        w = [str(be(self.txid)), str(len(self.ins))]
        for ph, pi in self.ins:
            w += [str(be(ph)), str(pi)]
        w.append(str(len(self.outs)))
        for v, s in self.outs:
            w += [str(v), str(be(hashx_of(s))), str(script_kind(s))]
        return ' '.join(w)


class GBlock:
    def __init__(self, gen_id, parent, height, txs, nonce):
        self.id = gen_id
        self.parent = parent
        self.height = height
        self.txs = txs
        prev = parent.hash if parent else ZERO
        merkle = merkle_root([t.txid for t in txs])
        self.header = (struct.pack('<I', 1) + prev + merkle + struct.pack('<III', 1_600_000_000 + height,
                                                                          0x207fffff, nonce))
        self.hash = double_sha256(self.header)
        self.hex_hash = hash_to_hex_str(self.hash)
        self.raw = self.header + pack_varint(len(txs)) + b''.join(t.raw for t in txs)
        self.size = len(self.raw)
        self.utxos = None   # naive view at the end of this block: {(txid, idx): (value, script)}

    def model_line(self):
        prev = self.parent.hash if self.parent else ZERO
        return (f'BLK {self.id} {be(self.hash)} {be(prev)} {be(self.header)} {self.size} ; '
                + ' ; '.join(t.model_words() for t in self.txs))

    def chain(self):
        out = []
        b = self
        while b is not None:
            out.append(b)
            b = b.parent
        return out[::-1]


def merkle_root(hashes):
    """Independent Bitcoin merkle root (duplicate the last node of an odd level)."""
    level = list(hashes)
    while len(level) > 1:
        if len(level) & 1:
            level.append(level[-1])
        level = [double_sha256(level[i] + level[i + 1]) for i in range(0, len(level), 2)]
    return level[0]


def unspendable(act, height, script):
    k = script_kind(script)
    return k == 2 or (k == 1 and height < act)


def grind_collisions(rng, want_groups=3, variants=120_000):
    """Birthday search for generation-only transactions whose txids share the first 4 bytes.
    Returns a list of groups; each group is a list of GTx with a common 4-byte prefix and the same
    output layout (so they collide on (prefix, idx) for every idx)."""
    outs = [(rng.randrange(1, 1000), rng.choice(NORMAL_SCRIPTS[:4])),
            (rng.randrange(1, 1000), rng.choice(NORMAL_SCRIPTS[:4]))]
    base = GTx([(ZERO, MINUS_1)], outs, 0)
    # serialised layout: version(4) varint(1) prev(32) idx(4) scriptlen(1) sequence(4) ... locktime(4)
    raw = bytearray(base.raw)
    seq_off = 4 + 1 + 32 + 4 + 1
    seen = {}
    groups = {}
    start = rng.randrange(1 << 30)
    # the first output's script and value vary with the nonce, so that colliding transactions pay
    # DIFFERENT script hashes / values at the same output index (a wrong candidate then shows in
    # histories and balances, not only in the tx number)
    out0 = 4 + 1 + 32 + 4 + 1 + 4 + 1           # offset of output 0: value(8) scriptlen(1) script(2)
    assert raw[out0 + 8] == 2 and raw[out0 + 9] == 0x51

    def outs_of(n):
        return [(1 + n % 200, NORMAL_SCRIPTS[n % 4]), outs[1]]
    for n in range(start, start + variants):
        raw[seq_off:seq_off + 4] = struct.pack('<I', n)
        raw[out0:out0 + 8] = struct.pack('<Q', 1 + n % 200)
        raw[out0 + 10] = n % 4
        p = hashlib.sha256(hashlib.sha256(raw).digest()).digest()[:4]
        if p in seen:
            groups.setdefault(p, [seen[p]]).append(n)
        else:
            seen[p] = n
    out = []
    for p, nonces in groups.items():
        g = [GTx([(ZERO, MINUS_1)], outs_of(n), n) for n in nonces]
        assert len({t.txid[:4] for t in g}) == 1
        out.append(g)
        if len(out) >= want_groups:
            break
    return out


class Gen:
    def __init__(self, rng, act, collisions=None):
        self.rng = rng
        self.act = act
        self.blocks = []          # all blocks of the tree, index = id
        self.collisions = list(collisions or [])   # groups of pre-ground generation-only txs
        self.stats = {}
        self.hot = []             # outputs of colliding-prefix txs: preferred inputs
        self.value_pool = [0, 1, 5, 50, 546, 10_000, 2_100_000_000_000_000]

    def bump(self, k, n=1):
        self.stats[k] = self.stats.get(k, 0) + n

    def _outs(self, height, n):
        rng = self.rng
        outs = []
        for _ in range(n):
            r = rng.random()
            if r < 0.72:
                s = rng.choice(NORMAL_SCRIPTS)
            else:
                s = rng.choice(UNSPENDABLE_SCRIPTS)
                self.bump('unspendable_shape_outputs')
                if script_kind(s) == 1:
                    self.bump('op_return_before_activation' if height < self.act
                              else 'op_return_at_or_after_activation')
            v = rng.choice(self.value_pool) if rng.random() < 0.5 else rng.randrange(0, 100_000)
            if v == 0:
                self.bump('zero_value_outputs')
            outs.append((v, s))
        if len({s for _v, s in outs}) < len(outs):
            self.bump('txs_with_duplicate_script_outputs')
        return outs

    def new_tx(self, utxos, pool_outs=(), max_in=2, prefer=None):
        """A fresh transaction spending from `utxos` (confirmed view: {(txid, idx): (value, script)})
        and/or `pool_outs` (list of ((txid, idx), (value, script)) of unconfirmed parents)."""
        rng = self.rng
        ins = []
        cands = list(utxos.keys())
        pool = list(pool_outs)
        for _ in range(rng.randrange(1, max_in + 1)):
            if prefer and rng.random() < 0.7:
                k = rng.choice(prefer)
            elif pool and rng.random() < 0.4:
                k = rng.choice(pool)[0]
            elif cands:
                k = rng.choice(cands)
            else:
                k = (ZERO, MINUS_1)
            if k not in ins:
                ins.append(k)
        if not ins:
            ins = [(ZERO, MINUS_1)]
        return GTx(ins, self._outs(10 ** 9, rng.choice([1, 1, 2, 3])), nonce=rng.getrandbits(64))

    def block_with(self, parent, txs):
        """A block on `parent` containing a fresh coinbase and exactly the given transactions
        (already valid, in order, on top of the parent's UTXO view)."""
        rng = self.rng
        height = parent.height + 1 if parent else 0
        utxos = dict(parent.utxos) if parent else {}
        created = []
        cb = GTx([(ZERO, MINUS_1)], self._outs(height, rng.choice([1, 2])), nonce=rng.getrandbits(64))
        all_txs = [cb] + list(txs)
        for t in all_txs:
            self._apply(t, height, utxos, created)
        b = GBlock(len(self.blocks), parent, height, all_txs, rng.getrandbits(32))
        b.utxos = utxos
        self.blocks.append(b)
        self.bump('blocks')
        self.bump('txs', len(all_txs))
        return b

    def new_block(self, parent, max_txs=6, min_txs=0):
        rng = self.rng
        height = parent.height + 1 if parent else 0
        utxos = dict(parent.utxos) if parent else {}
        created_here = []
        txs = []
        ntx = rng.randrange(min_txs, max_txs + 1)
        # coinbase
        if self.collisions and (height < 3 or rng.random() < 0.3):
            group = self.collisions[0]
            cb = group.pop()
            if not group:
                self.collisions.pop(0)
            self.bump('colliding_prefix_txs_placed')
            self.hot += [(cb.txid, i) for i in range(len(cb.outs))]
        else:
            cb = GTx([(ZERO, MINUS_1)], self._outs(height, rng.choice([1, 1, 2, 3])),
                     nonce=rng.getrandbits(64))
        pending = [cb]
        for _ in range(ntx):
            spendable = list(utxos.keys())
            nin = rng.choice([0, 1, 1, 1, 2, 3])
            ins = []
            chosen = set()
            for _j in range(nin):
                if not spendable or rng.random() < 0.08:
                    ins.append((ZERO, MINUS_1))       # generation-like input in any position
                    self.bump('generation_like_inputs_in_noncoinbase')
                    continue
                # prefer outputs created in this block sometimes (same-block spend chains)
                here = [k for k in created_here if k in utxos and k not in chosen]
                hot = [k for k in self.hot if k in utxos and k not in chosen and k not in created_here]
                if hot and rng.random() < 0.5:
                    k = rng.choice(hot)
                elif here and rng.random() < 0.4:
                    k = rng.choice(here)
                    self.bump('same_block_spends')
                else:
                    k = rng.choice(spendable)
                if k in chosen:
                    continue
                chosen.add(k)
                ins.append(k)
            # apply pending txs first so that `utxos` reflects everything before this tx
            for t in pending:
                self._apply(t, height, utxos, created_here)
                txs.append(t)
            pending = []
            # re-validate the chosen inputs (all still unspent: chosen from the current view)
            ins = [k for k in ins if k == (ZERO, MINUS_1) or k in utxos]
            if not ins and rng.random() < 0.5:
                ins = [(ZERO, MINUS_1)]
            nout = rng.choice([0, 1, 1, 2, 2, 3, 4])
            tx = GTx(ins, self._outs(height, nout), nonce=rng.getrandbits(64))
            hxs = [hashx_of(utxos[k][1]) for k in ins if k != (ZERO, MINUS_1)] + \
                  [hashx_of(s) for _v, s in tx.outs if not unspendable(self.act, height, s)]
            if len(set(hxs)) < len(hxs):
                self.bump('txs_touching_one_hashX_several_times')
            pending.append(tx)
        for t in pending:
            self._apply(t, height, utxos, created_here)
            txs.append(t)
        b = GBlock(len(self.blocks), parent, height, txs, rng.getrandbits(32))
        b.utxos = utxos
        self.blocks.append(b)
        self.bump('blocks')
        self.bump('txs', len(txs))
        return b

    def _apply(self, tx, height, utxos, created_here):
        for n, k in enumerate(tx.ins):
            if not tx.is_gen(n):
                del utxos[k]
        for idx, (v, s) in enumerate(tx.outs):
            if not unspendable(self.act, height, s):
                utxos[(tx.txid, idx)] = (v, s)
                created_here.append((tx.txid, idx))

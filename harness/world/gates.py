"""Gates at every persistent effect (DESIGN.md §7.2/§7.3): wraps, from outside the package, the
storage objects and meta files a DB uses so that a worker job pauses before and after each file
write, batch commit and direct put until the scheduler grants the next step."""
from harness.world.loop import gate


class _Batch:
    def __init__(self, inner, name):
        self._inner = inner
        self._name = name

    def __enter__(self):
        gate(f'{self._name}:batch-begin')
        return self._inner.__enter__()

    def __exit__(self, et, ev, tb):
        r = self._inner.__exit__(et, ev, tb)
        gate(f'{self._name}:batch-committed')
        return r


class _Storage:
    def __init__(self, inner, name):
        object.__setattr__(self, '_inner', inner)
        object.__setattr__(self, '_name', name)

    def __getattr__(self, attr):
        return getattr(self._inner, attr)

    def __setattr__(self, attr, value):
        setattr(self._inner, attr, value)

    def put(self, key, value):
        gate(f'{self._name}:put')
        self._inner.put(key, value)
        gate(f'{self._name}:put-done')

    def write_batch(self):
        return _Batch(self._inner.write_batch(), self._name)


def gate_db(db):
    real_class = db.db_class

    def factory(name, for_sync):
        return _Storage(real_class(name, for_sync), name)
    db.db_class = factory
    for fname in ('headers_file', 'tx_counts_file', 'hashes_file'):
        f = getattr(db, fname)
        orig = f.write

        def write(start, b, orig=orig, fname=fname):
            gate(f'{fname}:write')
            orig(start, b)
            gate(f'{fname}:written')
        f.write = write

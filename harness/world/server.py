"""The server under test, assembled as `Controller.serve` does but without sockets:
real DB, BlockProcessor, Notifications (+ MemPoolAPI wiring), MemPool, SessionManager and
ElectrumX sessions on fake transports, against a `SimDaemon`, inside a `VLoop`."""
import asyncio
import os
import shutil

import aiorpcx
from aiorpcx import Request

from harness.world import loop as vloop
from harness.world.realindex import make_env

_counter = [0]


class FakeTransport:
    """What RPCSession needs from a transport."""
    kind = aiorpcx.session.SessionKind.SERVER

    def __init__(self, n):
        self.n = n
        self.sent = []       # decoded JSON messages written by the session
        self.closing = False

    async def write(self, message):
        import json
        self.sent.append(json.loads(message.decode()))

    def remote_address(self):
        return aiorpcx.NetAddress(f'9.9.9.{self.n % 250 + 1}', 5000 + self.n)

    def is_closing(self):
        return self.closing

    async def close(self, _force_after=None):
        self.closing = True

    async def abort(self):
        self.closing = True

    def proxy(self):
        return None


class World:
    def __init__(self, daemon, act, reorg_limit, sched, base='/dev/shm', gated_storage=False, extra_env=None, dir=None):
        import electrumx.server.block_processor as bpmod
        import electrumx.server.db as dbmod
        import electrumx.server.mempool as mpmod
        import electrumx.server.session as sessmod
        import electrumx.server.controller as ctlmod
        self.mods = (bpmod, dbmod, mpmod, sessmod)
        self.bpmod, self.dbmod, self.mpmod, self.sessmod, self.ctlmod = bpmod, dbmod, mpmod, sessmod, ctlmod
        _counter[0] += 1
        if dir is None:
            self.dir = os.path.join(base, f'evw_{os.getpid()}_{_counter[0]}')
            shutil.rmtree(self.dir, ignore_errors=True)
            os.makedirs(self.dir)
        else:
            self.dir = dir           # a restart on an existing database directory
        self.env = make_env(self.dir, reorg_limit, extra_env)
        self.env.coin = type('VerifCoin', (self.env.coin,), {'GENESIS_ACTIVATION': act})
        self.daemon = daemon
        self.sched = sched
        self.loop = vloop.VLoop(sched)
        asyncio.set_event_loop(self.loop)
        vloop.install([bpmod, dbmod, mpmod])
        import aiorpcx
        dbmod.sleep = aiorpcx.sleep      # RealIndex (run earlier in the same process) rebinds it
        self.gated_storage = gated_storage
        self.sessions = []
        self.tasks = {}
        self.errors = []
        self.shutdown_event = None
        self.caught_up_event = None

    # -- construction (mirrors Controller.serve)
    def build(self):
        bpmod, dbmod, mpmod, sessmod, ctlmod = self.bpmod, self.dbmod, self.mpmod, self.sessmod, self.ctlmod
        OnDiskBlock = bpmod.OnDiskBlock
        OnDiskBlock.blocks = {}
        OnDiskBlock.tasks = {}
        OnDiskBlock.log_block = False
        self.shutdown_event = asyncio.Event()
        self.caught_up_event = asyncio.Event()
        self.mempool_event = asyncio.Event()
        env = self.env
        self.notifications = notifications = ctlmod.Notifications()
        self.db = db = dbmod.DB(env)
        # scaled-down storage parameters (see realindex.scale_storage): split files of 3 headers / 5 counts / 7 hashes
        from harness.world.realindex import scale_storage
        scale_storage(db, self.dir, _counter[0])
        bpmod.OnDiskBlock.chunk_size = [25_000_000, 131, 25_000_000, 257, 25_000_000, 1031][_counter[0] % 6]
        if self.gated_storage:
            from harness.world.gates import gate_db
            gate_db(db)
        self.bp = bp = bpmod.BlockProcessor(env, db, self.daemon, notifications)
        daemon = self.daemon
        # what the daemon's cached height was while each block was indexed (classification of F21)
        self.adv_log = {}
        orig_advance = bp.advance_block

        def advance_block(block, *args, **kwargs):
            self.adv_log[block.height] = (block.hex_hash, daemon.cached_height())
            return orig_advance(block, *args, **kwargs)
        bp.advance_block = advance_block
        notifications.height = daemon.height
        notifications.db_height = lambda: db.state.height
        self.loop.on_iteration = lambda _loop: self.max_db_height()
        notifications.cached_height = daemon.cached_height
        notifications.mempool_hashes = daemon.mempool_hashes
        notifications.raw_transactions = daemon.getrawtransactions
        notifications.lookup_utxos = db.lookup_utxos
        mpmod.MemPoolAPI.register(ctlmod.Notifications)
        self.mempool = mpmod.MemPool(env.coin, notifications)
        # which daemon state the last completed mempool refresh was taken from (for `quiescent`)
        self.mp_synced = None
        orig_on_mempool = notifications.on_mempool

        # C20's "a mempool refresh was received at h": the height a refresh is handed over at must be the
        # height its snapshot of the daemon's mempool was taken at (the refresh loop's own guard: it lists,
        # then reads the height again and starts over unless it is unchanged)
        self.mp_height_mismatch = []

        async def on_mempool(touched, height):
            if daemon.listing_height is not None and height != daemon.listing_height:
                self.mp_height_mismatch.append((height, daemon.listing_height))
            await orig_on_mempool(touched, height)
            self.mp_synced = (daemon.listing_version, height)
        notifications.on_mempool = on_mempool
        self.session_mgr = sessmod.SessionManager(env, db, bp, daemon, self.mempool, self.shutdown_event)

    def spawn(self, name, coro):
        task = self.loop.create_task(coro)
        self.tasks[name] = task

        def done(t, name=name):
            if not t.cancelled() and t.exception() is not None:
                self.errors.append((name, t.exception()))
        task.add_done_callback(done)
        return task

    async def _serve_part(self):
        """The part of SessionManager.serve that matters: start notifications once the mempool
        is synchronised, then run the reorg-cache task."""
        await self.mempool_event.wait()
        await self.notifications.start(self.db.state.height, self.session_mgr._notify_sessions)
        self.serving = True
        await self.session_mgr._handle_chain_reorgs()

    async def _wait_for_catchup(self):
        await self.caught_up_event.wait()
        self.spawn('header_mc', self.db.populate_header_merkle_cache())
        self.spawn('mempool', self.mempool.keep_synchronized(self.mempool_event))

    def start(self):
        self.serving = False
        self.run(self.daemon.height())   # as Controller.serve: ensure a cached height
        self.spawn('serve', self._serve_part())
        self.spawn('bp', self.bp.fetch_and_process_blocks(self.caught_up_event, self.shutdown_event))
        self.spawn('catchup', self._wait_for_catchup())

    # -- driving
    def run(self, coro):
        return self.loop.run_until_complete(coro)

    def run_until(self, pred, max_iter=200000):
        """Spin the loop until pred() holds."""
        async def waiter():
            n = 0
            while not pred():
                n += 1
                if n > max_iter:
                    raise TimeoutError('run_until: predicate never held')
                await asyncio.sleep(0.01)
        self.run(waiter())

    def advance_time(self, secs):
        self.run(asyncio.sleep(secs))

    def new_session(self):
        t = FakeTransport(len(self.sessions))
        s = self.sessmod.ElectrumX(self.session_mgr, self.db, self.mempool, self.session_mgr.peer_mgr, 'TCP', t)
        s.transport_rec = t
        self.sessions.append(s)
        return s

    async def request(self, session, method, args=()):
        """Through the real handle_request -> handler_invocation path; returns ('ok', result) or
        ('rpc_error', code, message) or ('internal', ClassName)."""
        try:
            r = await session.handle_request(Request(method, list(args)))
            return ('ok', r)
        except aiorpcx.RPCError as e:
            return ('rpc_error', e.code, e.message)
        except aiorpcx.ReplyAndDisconnect as e:
            return ('disconnect', repr(e.result))
        except asyncio.CancelledError:
            raise
        except Exception as e:   # noqa
            return ('internal', type(e).__name__, str(e)[:200])

    def quiescent(self):
        """Index at the daemon's height, mempool refreshed at that height after the last change,
        notifications delivered: judged by the harness from the outside."""
        return (self.db.state.height == self.daemon.tip.height
                and self.bp.state.height == self.daemon.tip.height
                and self.db.state.tip == self.daemon.tip.hash
                and self.bp.reorg_count is None
                and not self.loop.pending_jobs()
                and ('mempool' not in self.tasks
                     or self.mp_synced == (self.daemon.version, self.daemon.tip.height)))

    def stale_block_outside_window(self, exc):
        """F21: the processing task died with "no undo information found for height H" and the block it had
        at H was indexed while the daemon's cached height was already more than the reorg limit above H
        (so it was taken for buried) - the shape of the known finding; anything else is a new violation."""
        import re
        if type(exc).__name__ != 'ChainError':
            return False
        m = re.search(r'no undo information found for height (\d+)', str(exc))
        if not m:
            return False
        h = int(m.group(1))
        rec = self.adv_log.get(h)
        return rec is not None and rec[1] is not None and h < rec[1] - self.env.reorg_limit + 1

    def max_db_height(self):
        if self.db.state is not None:
            self._max_db_height = max(getattr(self, '_max_db_height', -1), self.db.state.height)
        return getattr(self, '_max_db_height', -1)

    def settle(self, rounds=4):
        """Let several polling (5 s) and refresh (5 s) intervals pass in virtual time."""
        for _ in range(rounds):
            self.advance_time(6)

    def stop(self):
        """Shut the processing task down the way the server does, then cancel the rest."""
        async def _stop():
            self.shutdown_event.set()
            for name, t in self.tasks.items():
                t.cancel()
            for name, t in self.tasks.items():
                try:
                    await t
                except (asyncio.CancelledError, Exception):
                    pass
            # let worker jobs drain
            while self.loop.pending_jobs():
                await asyncio.sleep(0.01)
        self.run(_stop())

    def destroy(self, keep_dir=False):
        try:
            if self.db.utxo_db:
                self.db.utxo_db.close()
                self.db.utxo_db = None
            self.db.history.close_db()
        except Exception:
            pass
        try:
            self.loop.close()
        except Exception:
            pass
        os.chdir('/')
        if not keep_dir:
            shutil.rmtree(self.dir, ignore_errors=True)

"""Independent expectations for the session-level properties (C07, C10, C11), computed from the
simulated daemon's chain and mempool only (never from the server's own state)."""
import hashlib

from electrumx.lib.hash import hash_to_hex_str, double_sha256

from harness.world.chaingen import ZERO, MINUS_1, hashx_of, unspendable, merkle_root


def scripthash_of(script):
    return hashlib.sha256(script).digest()[::-1].hex()


class ChainView:
    """Naive index of the daemon's best chain (what a fresh server would report)."""

    def __init__(self, daemon):
        self.act = daemon.gen.act
        self.chain = daemon.tip.chain()
        self.pool = dict(daemon.pool)
        self.utxos = {}          # (txid, idx) -> (value, script, height, txnum)
        self.hist = {}           # script -> [(txid, height)] in chain order, each tx once
        self.outs = {}           # (txid, idx) -> (value, script) for every output ever (for input lookups)
        n = 0
        for b in self.chain:
            for t in b.txs:
                touched = []
                for i, k in enumerate(t.ins):
                    if t.is_gen(i):
                        continue
                    v, s, _h, _n = self.utxos.pop(k)
                    touched.append(s)
                for idx, (v, s) in enumerate(t.outs):
                    self.outs[(t.txid, idx)] = (v, s)
                    if not unspendable(self.act, b.height, s):
                        self.utxos[(t.txid, idx)] = (v, s, b.height, n)
                        touched.append(s)
                for s in dict.fromkeys(touched):
                    self.hist.setdefault(s, []).append((t.txid, b.height))
                n += 1
        for t in self.pool.values():
            for idx, (v, s) in enumerate(t.outs):
                self.outs[(t.txid, idx)] = (v, s)

    # -- confirmed
    def history(self, script):
        return list(self.hist.get(script, []))

    def confirmed_utxos(self, script):
        return sorted((n, k[1], k[0], h, v) for k, (v, s, h, n) in self.utxos.items() if s == script)

    # -- mempool
    def pool_touching(self, script):
        """{txid: (fee, has_unconfirmed_inputs)} for pool txs paying to / spending from script.
        NB (DESIGN N1): the mempool tracker indexes every output's script, also unspendable ones."""
        out = {}
        for t in self.pool.values():
            ins = [k for i, k in enumerate(t.ins) if not t.is_gen(i)]
            in_scripts = [self.outs[k][1] for k in ins if k in self.outs]
            out_scripts = [s for _v, s in t.outs]
            if script in in_scripts or script in out_scripts:
                vin = sum(self.outs[k][0] for k in ins if k in self.outs)
                vout = sum(v for v, _s in t.outs)
                out[t.txid] = (max(0, vin - vout), any(k[0] in self.pool for k in ins))
        return out

    def unconfirmed_delta(self, script):
        d = 0
        for t in self.pool.values():
            for i, k in enumerate(t.ins):
                if not t.is_gen(i) and k in self.outs and self.outs[k][1] == script:
                    d -= self.outs[k][0]
            for v, s in t.outs:
                if s == script:
                    d += v
        return d

    def listunspent(self, script):
        """Confirmed UTXOs sorted, then mempool outputs paying to script, minus everything spent by a
        mempool tx that touches the script."""
        touching = self.pool_touching(script)
        spends = set()
        for txid in touching:
            t = self.pool[txid]
            spends.update(k for i, k in enumerate(t.ins) if not t.is_gen(i))
        conf = [{'tx_hash': hash_to_hex_str(txid), 'tx_pos': pos, 'height': h, 'value': v}
                for (_n, pos, txid, h, v) in self.confirmed_utxos(script) if (txid, pos) not in spends]
        unconf = []
        for txid in touching:
            t = self.pool[txid]
            for pos, (v, s) in enumerate(t.outs):
                if s == script and (txid, pos) not in spends:
                    unconf.append({'tx_hash': hash_to_hex_str(txid), 'tx_pos': pos, 'height': 0, 'value': v})
        return conf, unconf

    def status(self, script, mempool_order):
        """Protocol status; the unconfirmed part in the given order of txids (the protocol leaves
        that order unspecified)."""
        touching = self.pool_touching(script)
        s = ''.join(f'{hash_to_hex_str(txid)}:{h:d}:' for txid, h in self.history(script))
        s += ''.join(f'{hash_to_hex_str(txid)}:{-touching[txid][1]:d}:' for txid in mempool_order)
        return hashlib.sha256(s.encode()).hexdigest() if s else None

    # -- by height
    def tx_hashes(self, height):
        return [t.txid for t in self.chain[height].txs]

    def header(self, height):
        return self.chain[height].header

    def header_root(self, cp_height):
        return merkle_root([b.hash for b in self.chain[:cp_height + 1]])


def fold_branch(leaf, branch, index):
    h = leaf
    for elt in branch:
        h = double_sha256(elt + h) if index & 1 else double_sha256(h + elt)
        index >>= 1
    return h, index


def fold_tsc(leaf, nodes, index):
    h = leaf
    for elt in nodes:
        sib = h if elt == '*' else bytes.fromhex(elt)[::-1]
        h = double_sha256(sib + h) if index & 1 else double_sha256(h + sib)
        index >>= 1
    return h, index

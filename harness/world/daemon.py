"""Simulated daemon: the surface of `electrumx.server.daemon.Daemon` the server uses, over a block
tree (real serialised blocks from chaingen) and a scripted mempool."""
import asyncio

from electrumx.lib.hash import hash_to_hex_str, hex_str_to_hash
from electrumx.server.daemon import DaemonError

from harness.world.chaingen import ZERO, MINUS_1, unspendable, script_kind


class SimDaemon:
    def __init__(self, gen, rng, latency=(0, 0, 0.01, 0.05), latency_raw=None):
        self.gen = gen
        self.rng = rng
        self.latency = latency
        self.latency_raw = latency_raw      # getrawtransactions only (a mempool refresh spanning blocks)
        self.version = 0                    # bumped by every change of chain or mempool
        self.listing_version = None         # version at the last getrawmempool
        self.listing_height = None
        self.tip = None                 # GBlock
        self.pool = {}                  # txid -> GTx, insertion ordered
        self._height = None
        self.calls = 0
        self.broadcasts = []

    # -- scripting
    def extend(self, n=1, mine_from_pool=0.0, max_txs=3):
        for _ in range(n):
            picked = []
            if self.pool and mine_from_pool > 0:
                # confirm a dependency-closed prefix of the pool (insertion order is topological)
                for txid, tx in list(self.pool.items()):
                    if self.rng.random() < mine_from_pool and all(
                            (k == (ZERO, MINUS_1)) or (k[0] not in self.pool) or (k[0] in {t.txid for t in picked})
                            for k in tx.ins):
                        picked.append(tx)
                for tx in picked:
                    del self.pool[tx.txid]
                self.tip = self.gen.block_with(self.tip, picked)
            else:
                self.tip = self.gen.new_block(self.tip, max_txs=max_txs)
            self._evict_invalid()
            self.version += 1
        return self.tip

    def switch(self, block, readd=True):
        """The daemon's best chain becomes the one ending in `block` (any branch).  As a real
        daemon does, the transactions of the orphaned blocks that are still valid on the new
        chain go back into the mempool (ahead of what is there: they may be its ancestors)."""
        old = self.tip.chain() if self.tip else []
        new_ids = {b.id for b in block.chain()}
        new_txids = {t.txid for b in block.chain() for t in b.txs}
        self.tip = block
        if readd:
            back = {}
            for b in old:
                if b.id in new_ids:
                    continue
                for t in b.txs[1:]:
                    if t.txid in new_txids or t.txid in self.pool:
                        continue
                    ok = True
                    for n, k in enumerate(t.ins):
                        if t.is_gen(n) or k in block.utxos:
                            continue
                        # an output of another returning tx: only ordinary scripts (whether an
                        # unspendable-shaped output is a UTXO depends on the height it is mined at)
                        parent = back.get(k[0])
                        if parent is None or script_kind(parent.outs[k[1]][1]) != 0:
                            ok = False
                            break
                    if ok:
                        back[t.txid] = t
            if back:
                back.update(self.pool)
                self.pool = back
                self.readded = getattr(self, 'readded', 0) + len(back)
        self._evict_invalid()
        self.version += 1

    def _evict_invalid(self):
        """Drop pool txs whose inputs are neither confirmed-unspent on the tip nor in the pool."""
        changed = True
        while changed:
            changed = False
            for txid, tx in list(self.pool.items()):
                for n, k in enumerate(tx.ins):
                    if tx.is_gen(n):
                        continue
                    if k not in self.tip.utxos and k[0] not in self.pool:
                        del self.pool[txid]
                        changed = True
                        break
            # double spends among pool txs
            spent = set()
            for txid, tx in list(self.pool.items()):
                ks = [k for n, k in enumerate(tx.ins) if not tx.is_gen(n)]
                if any(k in spent for k in ks):
                    del self.pool[txid]
                    changed = True
                else:
                    spent.update(ks)

    def pool_outs(self):
        spent = {k for tx in self.pool.values() for n, k in enumerate(tx.ins) if not tx.is_gen(n)}
        out = []
        for tx in self.pool.values():
            for idx, (v, s) in enumerate(tx.outs):
                # never spend an unspendable-shaped output from the pool: whether it becomes a
                # UTXO depends on the height it is mined at
                if (tx.txid, idx) not in spent and script_kind(s) == 0:
                    out.append(((tx.txid, idx), (v, s)))
        return out

    def mp_add(self, n=1, prefer=None):
        added = []
        for _ in range(n):
            spent = {k for tx in self.pool.values() for i, k in enumerate(tx.ins) if not tx.is_gen(i)}
            confirmed = {k: v for k, v in self.tip.utxos.items() if k not in spent}
            tx = self.gen.new_tx(confirmed, self.pool_outs(), prefer=[k for k in (prefer or []) if k in confirmed])
            self.pool[tx.txid] = tx
            added.append(tx)
        self._evict_invalid()
        self.version += 1
        return added

    def mp_evict(self, n=1):
        for _ in range(n):
            if self.pool:
                txid = self.rng.choice(list(self.pool))
                del self.pool[txid]
        self._evict_invalid()
        self.version += 1

    # -- the Daemon surface
    async def _lat(self, choices=None):
        self.calls += 1
        d = self.rng.choice(choices or self.latency)
        await asyncio.sleep(d)

    def logged_url(self):
        return 'sim'

    def cached_height(self):
        return self._height

    async def height(self):
        await self._lat()
        self._height = self.tip.height
        return self._height

    async def block_hex_hashes(self, first, count):
        await self._lat()
        chain = self.tip.chain()
        if count > 0 and first + count - 1 > self.tip.height:
            raise DaemonError({'code': -8, 'message': 'Block height out of range'})
        return [chain[h].hex_hash for h in range(first, first + count)]

    async def get_block(self, hex_hash, filename):
        await self._lat()
        for b in self.gen.blocks:
            if b.hex_hash == hex_hash:
                with open(filename, 'wb') as f:
                    f.write(b.raw)
                return b.size
        raise DaemonError({'code': -5, 'message': 'Block not found'})

    async def mempool_hashes(self):
        await self._lat()
        self.listing_version = self.version
        self.listing_height = self.tip.height      # the height this mempool snapshot belongs to
        return [hash_to_hex_str(txid) for txid in self.pool]

    async def getrawtransactions(self, hex_hashes, replace_errs=True):
        hex_hashes = list(hex_hashes)
        await self._lat(self.latency_raw)
        out = []
        for hh in hex_hashes:
            tx = self.pool.get(hex_str_to_hash(hh))
            out.append(tx.raw if tx else None)
        return out

    async def getrawtransaction(self, hex_hash, verbose=False):
        await self._lat()
        txid = hex_str_to_hash(hex_hash)
        tx = self.pool.get(txid)
        if tx is None:
            for b in self.tip.chain():
                for t in b.txs:
                    if t.txid == txid:
                        tx = t
        if tx is None:
            raise DaemonError({'code': -5, 'message': 'No such mempool or blockchain transaction'})
        return tx.raw.hex()

    async def broadcast_transaction(self, raw_tx):
        await self._lat()
        self.broadcasts.append(raw_tx)
        return '00' * 32

    async def getnetworkinfo(self):
        await self._lat()
        return {'version': 1010000, 'subversion': '/sim/'}

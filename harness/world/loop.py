"""Deterministic scheduling for the real asyncio code (DESIGN.md §7.2).

* `VLoop`: an asyncio event loop with *virtual time*: when nothing is ready the clock jumps to the
  next timer, so `sleep(5)` polling loops cost nothing and every run is a function of the seed.
* worker-thread jobs (`run_in_thread`) are taken over by the loop: a job either runs inline at a
  scheduler-chosen later turn (atomic mode) or in a real thread that blocks at every *gate*
  (storage effects) until the scheduler grants the next step (gated mode).  Only one of
  {event loop, one worker} runs at any time.
* every scheduling decision is drawn from one `random.Random` and logged, so a run replays from its
  decision list.
"""
import asyncio
import heapq
import threading


class Job:
    """A `run_in_thread(func, *args)` call taken over by the scheduler."""
    _tls = threading.local()

    def __init__(self, loop, func, args, gated):
        self.loop = loop
        self.func = func
        self.args = args
        self.name = getattr(func, '__name__', repr(func))
        self.future = loop.create_future()
        self.submitted = loop.time()
        self.finished = False
        self.delivered = False
        self.started = False
        self.gated = gated
        self.result = None
        self.exc = None
        self.steps = 0
        self.at_gate = None
        self._resume = threading.Event()
        self._paused = threading.Event()
        self._thread = None

    # -- called on the job's own thread
    def _run(self):
        Job._tls.job = self
        try:
            self.result = self.func(*self.args)
        except BaseException as e:   # delivered to the awaiting coroutine
            self.exc = e
        self.finished = True
        self._paused.set()

    def gate(self, label):
        self.at_gate = label
        self._paused.set()
        self._resume.wait()
        self._resume.clear()

    # -- called by the scheduler on the loop thread
    def step(self):
        """Run the job up to its next gate (or to completion)."""
        self.steps += 1
        if not self.gated:
            self.started = True
            try:
                self.result = self.func(*self.args)
            except BaseException as e:
                self.exc = e
            self.finished = True
        else:
            self._paused.clear()
            if not self.started:
                self.started = True
                self._thread = threading.Thread(target=self._run, daemon=True)
                self._thread.start()
            else:
                self._resume.set()
            self._paused.wait()

    def deliver(self):
        """The worker's completion reaches the event loop (call_soon_threadsafe in the real
        executor): a separate schedulable event, so that other jobs can run in between."""
        self.delivered = True
        if not self.future.done():
            if self.exc is not None:
                self.future.set_exception(self.exc)
            else:
                self.future.set_result(self.result)


def current_job():
    return getattr(Job._tls, 'job', None)


def gate(label):
    """Called from wrapped storage / file objects: pauses the calling worker job (no-op on the
    loop thread and in atomic mode)."""
    job = current_job()
    if job is not None and job.gated and threading.current_thread() is job._thread:
        job.gate(label)


class Scheduler:
    """Seeded random scheduler.  `weights` bias towards letting the loop run first."""

    # a worker job never lags more than this much (virtual seconds) behind the timers: the
    # properties do not speak about workers that are starved for longer than the 30 s notify timeout
    MAX_JOB_LATENCY = 2.0

    def __init__(self, rng, job_bias=0.5, gated=False, record=None):
        self.rng = rng
        self.job_bias = job_bias
        self.gated = gated
        self.log = []
        self.replay = list(record) if record else None
        self.hold = set()     # job names that must not be stepped for now (harness-controlled)

    def choose(self, n_ready, jobs, next_timer_in, now=0.0):
        """Returns ('loop',) | ('job', index) | ('time',)."""
        jobs = [(i, j) for i, j in enumerate(jobs) if j.name not in self.hold and id(j) not in self.hold]
        if jobs and next_timer_in is not None:
            oldest = min(j.submitted for _i, j in jobs)
            if now + next_timer_in - oldest > self.MAX_JOB_LATENCY:
                next_timer_in = None
        options = []
        if n_ready:
            options.append(('loop',))
        for i, j in jobs:
            options.append(('deliver', i) if j.finished else ('job', i))
        if not n_ready and next_timer_in is not None:
            options.append(('time',))
        if not options:
            return None
        if self.replay is not None and self.replay:
            choice = tuple(self.replay.pop(0))
            if choice in options:
                self.log.append(choice)
                return choice
        if len(options) == 1:
            choice = options[0]
        else:
            r = self.rng.random()
            job_opts = [o for o in options if o[0] in ('job', 'deliver')]
            other = [o for o in options if o[0] not in ('job', 'deliver')]
            if job_opts and (not other or r < self.job_bias):
                choice = self.rng.choice(job_opts)
            else:
                choice = other[0]
        self.log.append(choice)
        return choice


class Deadlock(Exception):
    pass


class VLoop(asyncio.SelectorEventLoop):
    def __init__(self, sched):
        super().__init__()
        self._vt = 0.0
        self.sched = sched
        self.jobs = []
        self.iterations = 0
        self.on_iteration = None     # harness hook: called before every iteration

    def time(self):
        return self._vt

    def submit(self, func, *args):
        job = Job(self, func, args, self.sched.gated)
        self.jobs.append(job)
        return job.future

    def pending_jobs(self):
        self.jobs = [j for j in self.jobs if not j.delivered]
        return self.jobs

    def _run_once(self):
        self.iterations += 1
        if self.on_iteration is not None:
            self.on_iteration(self)
        while self._scheduled and self._scheduled[0]._cancelled:
            self._timer_cancelled_count -= 1
            handle = heapq.heappop(self._scheduled)
            handle._scheduled = False
        # I/O is not used by the harness, but keep the selector drained (self-pipe wake-ups)
        event_list = self._selector.select(0)
        self._process_events(event_list)
        jobs = self.pending_jobs()
        next_in = (self._scheduled[0]._when - self._vt) if self._scheduled else None
        choice = self.sched.choose(len(self._ready), jobs, next_in, self._vt)
        if choice is None:
            if self._stopping:
                return
            raise Deadlock('nothing ready, no timers, no worker jobs')
        if choice[0] == 'job':
            jobs[choice[1]].step()
            return
        if choice[0] == 'deliver':
            jobs[choice[1]].deliver()
            return
        if choice[0] == 'time':
            self._vt = max(self._vt, self._scheduled[0]._when)
        end_time = self._vt + 1e-9
        while self._scheduled and self._scheduled[0]._when < end_time:
            handle = heapq.heappop(self._scheduled)
            handle._scheduled = False
            self._ready.append(handle)
        ntodo = len(self._ready)
        for _ in range(ntodo):
            handle = self._ready.popleft()
            if handle._cancelled:
                continue
            handle._run()
        handle = None


async def run_in_thread(func, *args):
    """Replacement bound to the modules' `run_in_thread` names."""
    loop = asyncio.get_event_loop()
    if not hasattr(loop, 'submit'):
        # a suite that runs later in the same process on an ordinary loop (the rebinding of the real
        # modules outlives the world that made it)
        import aiorpcx
        return await aiorpcx.run_in_thread(func, *args)
    return await loop.submit(func, *args)


def install(modules):
    """Rebind `run_in_thread` (and `sleep` where imported from aiorpcx/asyncio: they already use the
    running loop's timers, which are virtual) in the given modules."""
    for m in modules:
        if hasattr(m, 'run_in_thread'):
            m.run_in_thread = run_in_thread

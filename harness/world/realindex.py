"""Drives the *real* BlockProcessor / DB / History of /repo in-process on a real LevelDB.

Nothing is patched inside the package: the fake daemon is an object with `cached_height()`,
`electrumx.server.db.sleep` is rebound so that the retry loops of limited_history / all_utxos
surface as a 'retry' outcome instead of spinning.
"""
import ast
import asyncio
import os
import shutil
import struct

from harness.world.chaingen import be

_loop = None


def loop():
    global _loop
    if _loop is None:
        _loop = asyncio.new_event_loop()
        asyncio.set_event_loop(_loop)
    return _loop


def run(coro):
    return loop().run_until_complete(coro)


class Retry(Exception):
    pass


class FakeDaemon:
    def __init__(self):
        self.h = 0

    def cached_height(self):
        return self.h


_case_counter = [0]


def make_env(db_dir, reorg_limit, extra=None):
    from electrumx.server.env import Env
    os.environ.clear()
    os.environ.update({
        'DB_DIRECTORY': db_dir, 'DAEMON_URL': 'http://u:p@localhost:1/', 'COIN': 'BitcoinSV',
        'NET': 'regtest', 'REORG_LIMIT': str(reorg_limit), 'PEER_DISCOVERY': 'off', 'SERVICES': '',
        'ELECTRUMX_VERIF': '1',
    })
    if extra:
        os.environ.update(extra)
    return Env()


SCALE_STORAGE = True      # suites that run real code which opens the DB by itself (the compaction script) switch it off


def scale_storage(db, dirpath, counter):
    """Small split-file sizes for this database directory: decided once per directory (by the parity of a
    counter) and remembered in a marker file, so that every later open of the directory - by a World, a
    RealIndex or a judge - uses the sizes the files were written with."""
    marker = os.path.join(dirpath, 'verif_small_files')
    fresh = not os.path.exists(os.path.join(dirpath, 'meta', 'headers00'))
    if SCALE_STORAGE and fresh and not os.path.exists(marker) and counter % 2 == 1:
        with open(marker, 'w') as f:
            f.write('1')
    if os.path.exists(marker):
        db.headers_file.file_size = 80 * 3
        db.tx_counts_file.file_size = 8 * 5
        db.hashes_file.file_size = 32 * 7


class RealIndex:
    def __init__(self, act, reorg_limit, base='/dev/shm'):
        import electrumx.server.db as dbmod
        import electrumx.server.block_processor as bpmod
        self.dbmod, self.bpmod = dbmod, bpmod
        _case_counter[0] += 1
        self.dir = os.path.join(base, f'ev_{os.getpid()}_{_case_counter[0]}')
        shutil.rmtree(self.dir, ignore_errors=True)
        os.makedirs(self.dir)
        self.env = make_env(self.dir, reorg_limit)
        self.env.coin = type('VerifCoin', (self.env.coin,), {'GENESIS_ACTIVATION': act})
        self.reorg_limit = reorg_limit
        self.daemon = FakeDaemon()
        self.db = None
        self.bp = None

        async def no_sleep(_secs):
            raise Retry()
        dbmod.sleep = no_sleep
        # a World (virtual-time loop) run earlier in the same process rebinds these; this driver
        # runs on an ordinary loop
        import aiorpcx
        dbmod.run_in_thread = aiorpcx.run_in_thread
        bpmod.run_in_thread = aiorpcx.run_in_thread
        asyncio.set_event_loop(loop())

    # -- lifecycle
    def open(self, keep_process=False):
        """Fresh DB + BlockProcessor objects on the directory (a new process), or, with
        keep_process, `open_for_serving` on the same objects."""
        if keep_process:
            run(self.db.open_for_serving())
            return 'ok'
        self.close_dbs()
        OnDiskBlock = self.bpmod.OnDiskBlock
        OnDiskBlock.blocks = {}
        OnDiskBlock.tasks = {}
        # scaled-down storage parameters on every other case: the split meta files hold 3 headers / 5 tx
        # counts / 7 tx hashes each (so flushes start mid-file and cross file boundaries as they do on a
        # long chain), and block files are read in chunks of a few hundred bytes (so blocks span chunks
        # as 25 MB+ blocks do); the parameters are attributes of the real objects, nothing is replaced
        self.bpmod.OnDiskBlock.chunk_size = [25_000_000, 131, 25_000_000, 257, 25_000_000, 1031][_case_counter[0] % 6]
        try:
            self.db = self.dbmod.DB(self.env)
            scale_storage(self.db, self.dir, _case_counter[0])
            self.bp = self.bpmod.BlockProcessor(self.env, self.db, self.daemon, None)
            state = run(self.db.open_for_sync())
        except AssertionError:
            return 'AssertionError'
        self.bp.state = OnDiskBlock.state = state.copy()
        os.makedirs('meta/blocks', exist_ok=True)
        return 'ok'

    def close_dbs(self):
        if self.db is not None:
            if self.db.utxo_db:
                self.db.utxo_db.close()
                self.db.utxo_db = None
            self.db.history.close_db()

    def destroy(self):
        self.close_dbs()
        os.chdir('/')
        shutil.rmtree(self.dir, ignore_errors=True)

    # -- operations
    def _ondisk(self, blk, height):
        OnDiskBlock = self.bpmod.OnDiskBlock
        fn = OnDiskBlock.filename(blk.hex_hash, height)
        with open(fn, 'wb') as f:
            f.write(blk.raw)
        OnDiskBlock.blocks[blk.hex_hash] = (height, blk.size)
        return run(OnDiskBlock.streamed_block(blk.hex_hash))

    def advance(self, blk, daemon_h):
        self.daemon.h = daemon_h
        height = self.bp.state.height + 1
        ob = self._ondisk(blk, height)
        self.last_multi_candidate_spends = self._count_multi_candidates(blk)
        try:
            self.bp.advance_block(ob)
        except Exception as e:
            return type(e).__name__
        if self.bp.reorg_count == -1:
            self.bp.reorg_count = None
            return 'reorg'
        return 'ok'

    def _count_multi_candidates(self, blk):
        """How many inputs of this block will be spent from the DB with >= 2 rows sharing
        (4-byte prefix, idx) - measured independently, for the generator statistics."""
        n = 0
        cache = self.bp.utxo_cache
        for t in blk.txs:
            for i, (ph, pi) in enumerate(t.ins):
                if t.is_gen(i):
                    continue
                if ph + struct.pack('<I', pi) in cache:
                    continue
                prefix = b'h' + ph[:4] + struct.pack('<I', pi)
                if sum(1 for _ in self.db.utxo_db.iterator(prefix=prefix)) >= 2:
                    n += 1
        return n

    def flush(self, flush_utxos):
        try:
            self.db.flush_dbs(self.bp.flush_data(), flush_utxos, 0)
        except AssertionError:
            return 'AssertionError'
        return 'ok'

    def backup(self, blk):
        height = self.bp.state.height
        ob = self._ondisk(blk, height)
        try:
            self.bp.backup_block(ob)
        except Exception as e:
            return type(e).__name__
        return 'ok'

    # -- queries (canonical strings, same format as the driver)
    def q_utxos(self, hx_bytes):
        try:
            utxos = run(self.db.all_utxos(hx_bytes))
        except Retry:
            return 'retry'
        rows = sorted((u.tx_num, u.tx_pos, be(u.tx_hash), u.height, u.value) for u in utxos)
        return 'utxos ' + ' '.join(':'.join(str(x) for x in r) for r in rows)

    def q_hist(self, hx_bytes, limit):
        try:
            hist = run(self.db.limited_history(hx_bytes, limit=limit))
        except Retry:
            return 'retry'
        return 'hist ' + ' '.join(f'{be(h)}:{ht}' for h, ht in hist)

    def q_lookup(self, txid, idx):
        res, = run(self.db.lookup_utxos([(txid, idx)]))
        if res is None:
            return 'none'
        return f'{be(res[0])}:{res[1]}'

    def q_txhashes(self, height):
        try:
            l = self.db.fs_tx_hashes_at_blockheight(height)
        except self.db.DBError:
            return 'DBError'
        return '[' + ','.join(str(be(h)) for h in l) + ']'

    def q_headers(self, start, count):
        data, n = run(self.db.read_headers(start, count))
        return '[' + ','.join(str(be(data[i * 80:(i + 1) * 80])) for i in range(n)) + ']'

    def q_state(self):
        s = self.db.state
        return f'{s.height},{s.tx_count},{s.chain_size},{be(s.tip)},{s.utxo_count}'

    # -- structural dumps
    @staticmethod
    def _cstate(s):
        return (f'{s.height},{s.tx_count},{s.chain_size},{be(s.tip)},{s.flush_count},'
                f'{s.utxo_count},{1 if s.first_sync else 0}')

    @staticmethod
    def _cv(b):
        return f'{be(b[:11])},{int.from_bytes(b[11:16], "little")},{int.from_bytes(b[16:24], "little")}'

    def undo_heights(self):
        return sorted(struct.unpack('>I', k[1:])[0] for k, _v in self.db.utxo_db.iterator(prefix=b'U')
                      if len(k) == 5)

    def dump(self):
        h, u, U = [], [], []
        us = 'none'
        for k, v in self.db.utxo_db.iterator():
            if k[:1] == b'h' and len(k) == 14:
                h.append((be(k[1:5]), struct.unpack('<I', k[5:9])[0], int.from_bytes(k[9:14], 'little'), be(v)))
            elif k[:1] == b'u' and len(k) == 21:
                u.append((be(k[1:12]), struct.unpack('<I', k[12:16])[0], int.from_bytes(k[16:21], 'little'),
                          struct.unpack('<Q', v)[0]))
            elif k[:1] == b'U' and len(k) == 5:
                U.append((struct.unpack('>I', k[1:])[0],
                          '[' + ';'.join(self._cv(v[i:i + 24]) for i in range(0, len(v), 24)) + ']'))
            elif k == b'state':
                d = ast.literal_eval(v.decode())
                us = (f'{d["height"]},{d["tx_count"]},{d["chain_size"]},{be(d["tip"])},'
                      f'{d["utxo_flush_count"]},{d["utxo_count"]},{1 if d["first_sync"] else 0}')
            else:
                raise RuntimeError(f'unexpected utxo key {k!r}')
        hist = []
        hs = 'none'
        for k, v in self.db.history.db.iterator():
            if k == b'state\0\0':
                d = ast.literal_eval(v.decode())
                hs = f'{d["flush_count"]},{d["comp_flush_count"]},{d["comp_cursor"]}'
            else:
                nums = [int.from_bytes(v[i:i + 5], 'little') for i in range(0, len(v), 5)]
                hist.append((be(k[:11]), struct.unpack('>H', k[11:])[0], nums))
        nh = self.db.fs_height + 1
        ntx = self.db.fs_tx_count
        hdr = self.db.headers_file.read(0, nh * 80)
        txc = self.db.tx_counts_file.read(0, nh * 8)
        hsh = self.db.hashes_file.read(0, ntx * 32)
        F = ('[' + ','.join(str(be(hdr[i:i + 80])) for i in range(0, len(hdr), 80)) + '] ['
             + ','.join(str(struct.unpack('<Q', txc[i:i + 8])[0]) for i in range(0, len(txc), 8)) + '] ['
             + ','.join(str(be(hsh[i:i + 32])) for i in range(0, len(hsh), 32)) + ']')
        return ('h ' + ' '.join(f'{a},{b},{c}={d}' for a, b, c, d in sorted(h))
                + ' | u ' + ' '.join(f'{a},{b},{c}={d}' for a, b, c, d in sorted(u))
                + ' | U ' + ' '.join(f'{a}={b}' for a, b in sorted(U))
                + ' | us ' + us
                + ' | hist ' + ' '.join(f'{a},{b}=[{",".join(map(str, c))}]' for a, b, c in sorted(hist))
                + ' | hs ' + hs
                + ' | F ' + F)

    def dump_mem(self):
        bp, db, hi = self.bp, self.db, self.db.history
        cache = sorted((be(k[:32]), struct.unpack('<I', k[32:])[0], self._cv(v)) for k, v in bp.utxo_cache.items())
        dels = []
        for k in bp.db_deletes:
            if k[:1] == b'h':
                dels.append((0, be(k[1:5]), struct.unpack('<I', k[5:9])[0], int.from_bytes(k[9:14], 'little')))
            else:
                dels.append((1, be(k[1:12]), struct.unpack('<I', k[12:16])[0], int.from_bytes(k[16:21], 'little')))
        unf = sorted((be(k), [int.from_bytes(v[i:i + 5], 'little') for i in range(0, len(v), 5)])
                     for k, v in hi.unflushed.items())
        undoU = ' '.join(f'{h}=[' + ';'.join(self._cv(x) for x in ui) + ']' for ui, h in bp.undo_infos)
        txhu = '[' + ';'.join(','.join(str(be(t[i:i + 32])) for i in range(0, len(t), 32))
                              for t in bp.tx_hashes) + ']'
        touched = sorted(be(x) for x in bp.touched if x is not None)
        return (f'bp {self._cstate(bp.state)} | db {self._cstate(db.state)} | fs {db.fs_height},{db.fs_tx_count}'
                f' | txc [{",".join(str(x) for x in db.tx_counts)}]'
                + ' | cache ' + ' '.join(f'{a},{b}={c}' for a, b, c in cache)
                + ' | del ' + ' '.join(('h' if d[0] == 0 else 'u') + f'{d[1]},{d[2]},{d[3]}' for d in sorted(dels))
                + ' | unf ' + ' '.join(f'{a}=[{",".join(map(str, b))}]' for a, b in unf)
                + ' | undoU ' + undoU
                + f' | hdrU [{",".join(str(be(x)) for x in bp.headers)}] | txhU {txhu}'
                + f' | hist {hi.flush_count},{hi.comp_flush_count},{hi.comp_cursor}'
                + f' | touched [{",".join(map(str, touched))}]')

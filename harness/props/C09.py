SPEC = {
    'module': 'EV.Props.C09',
    'theorems': ['EV.Mempool.C09_inv', 'EV.Mempool.C09_truthful', 'EV.Mempool.C09_recovers',
                 'EV.Mempool.C09_height_guard', 'EV.Mempool.C09_loop',
                 'EV.Mempool.IndexError.C09_counterexample_index_error'],
    'suites': ['mempool', 'system', 'index'],
    'entry': {'mempool': 'run_race', 'system': 'run'},
    # of what the shared suites find, C09 is about the mempool task staying alive, its view, and
    # EnvSound's "DB.lookup_utxos is truthful" (also after back-outs: tx numbers are reused)
    'claims': {'violation_tags': ['task_died', 'mempool_view', 'lookup'], 'disagreement_tags': ['lookup']},
    'assumptions': [
        'EnvSound: a raw transaction delivered for hash h is the transaction with id h (or None, at any time, for '
        'any hash); lookup_utxos answers None or the true (hashX, value) of that output for every prevout of every '
        'chunk, from whatever height the index is at (validated on the real DB.lookup_utxos over LevelDB, incl. '
        'unflushed and backed-out states); the listing and the completion order of the chunk tasks are arbitrary',
        'Valid: transactions only name output indices that exist in their parent transaction - excludes the one '
        'exception _accept_transactions does not catch (IndexError; C09_counterexample_index_error, replayed on the '
        'real class); bitcoind never relays such a transaction',
        'the API coroutines themselves return (daemon/network failures are retried inside Daemon: C18)',
        'placement of suspension points: each chunk task touches shared state only in its final synchronous '
        'segment after the lookup_utxos await - validated on every run by injecting an event at each suspension '
        'point of the real coroutines, not proved',
        'exactness of a view computed while an index flush lands during the refresh is not claimed (nor does the '
        'property claim it); the next quiet refresh is exact (C09_recovers)',
    ],
    'design_ref': 'DESIGN.md §6 C09',
    'level_text': 'proof: under every sound environment (vanished transactions, lookup misses, parents confirmed '
                  'meanwhile, index behind or ahead, any listing, any batch completion order) _process_mempool never '
                  'raises, records only true input pairs / script hashes / fees, keeps hashXs the exact inverse of '
                  'txs (no empty sets), and the next quiet refresh is exact; _refresh_hashes hands a view over only '
                  'when daemon height before = after the listing = DB height; for any sequence of rounds; partial '
                  'only in that the cutting of the coroutines into atomic steps is validated by the race suite '
                  '(event injected at each suspension point of the real code), not proved',
    'level_note': 'trusted: Lean kernel + the three standard axioms; model tied to the class by differential '
                  'execution under a controlled scheduler; EnvSound/Valid about the daemon and DB.lookup_utxos',
    'technique': 'Lean 4 inductive invariant (MpInv) over a literal model with exceptions as data; race injection '
                 'at every suspension point of the real coroutines',
}

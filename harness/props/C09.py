SPEC = {
    'module': 'EV.Props.C08audit',
    'theorems': ['EV.Mempool.C09_inv', 'EV.Mempool.C09_truthful', 'EV.Mempool.C09_recovers',
                 'EV.Mempool.chunkPhase_inv', 'EV.Mempool.C09_inv_every_suspension', 'EV.Mempool.refreshRound_quiet_exact',
                 'EV.Mempool.C09_height_guard', 'EV.Mempool.C09_loop',
                 'EV.Mempool.IndexError.C09_counterexample_index_error',
                 # the index side of EnvSound, proved of the index model (EV/Props/C08lookup.lean)
                 'EV.Index.lookupUtxo_committed', 'EV.Index.lookupUtxo_committed_iff',
                 'EV.Index.lookupUtxos_committed', 'EV.Index.lookupUtxo_during_block',
                 'EV.Index.lookupUtxo_truthful', 'EV.Index.lookupUtxo_unknown_txid',
                 'EV.Index.envSound_lookup_of_index', 'EV.Index.envSound_of_index', 'EV.Index.C09lookup_inv',
                 'EV.Index.lookupUtxos_every_step',
                 # F22: the two run_in_thread jobs of lookup_utxos read in different states
                 'EV.Index.lookupUtxoSplit_fixed_sound', 'EV.Index.lookupUtxoSplit_any_ops',
                 'EV.Index.lookupUtxoSplit_fixed_truthful', 'EV.Index.lookupUtxoSplit_fixed_stable',
                 'EV.Index.lookupUtxoSplit_one_state', 'EV.Index.lookupUtxoSplit_orig_sound',
                 'EV.Index.lookupUtxoSplit_reorg_hazard', 'EV.Index.envSound_of_index_split',
                 'EV.Index.C09lookup_inv_split', 'EV.Index.lookupValue2_sound',
                 'EV.Index.lookupValue2_aba_hazard'],
    'suites': ['mempool', 'system', 'index'],
    'entry': {'mempool': 'run_race', 'system': 'run'},
    # of what the shared suites find, C09 is about the mempool task staying alive, its view, and
    # EnvSound's "DB.lookup_utxos is truthful" (also after back-outs: tx numbers are reused)
    # lookup_split: lookup_utxos with index operations between its two thread jobs (F22)
    'claims': {'violation_tags': ['task_died', 'mempool_view', 'lookup', 'lookup_split'],
               'disagreement_tags': ['lookup', 'lookup_split']},
    'assumptions': [
        'EnvSound: a raw transaction delivered for hash h is the transaction with id h (or None, at any time, for '
        'any hash); the listing and the completion order of the chunk tasks are arbitrary',
        'EnvSound, index clause (lookup_utxos answers None or the true (hashX, value) of that output for every '
        'prevout of every chunk, from whatever height the index is at): no longer assumed of the index but PROVED of '
        'the index model (EV/Props/C08lookup.lean) for every state of the extended whole-run invariant FullInv\' '
        '(UTXO cache, queued deletes and unflushed blocks present, files ahead of DB.state, after back-outs and '
        'restarts; every prevout may be answered in a state of its own): the answer is the specification lookup in '
        'the UTXO set of the COMMITTED chain (lookupUtxo_committed, lookupUtxos_every_step), hence None or an output '
        'of a transaction of that chain (lookupUtxo_truthful, envSound_of_index, C09lookup_inv; needs WorldHas: the '
        'mempool world W contains the transactions of the chain); the two run_in_thread jobs of lookup_utxos '
        '(lookup_hashXs, then lookup_utxos) are modelled separately (EV/Model/IndexSplit.lean) and may be read in '
        'two different states: since the fix of F22 (job 2 calls fs_tx_hash(tx_num) again and answers None unless it '
        'still gives the prevout tx hash) the answer is None or the true pair for ANY sequence of advances, flushes, '
        'back-outs, re-advances and restarts between the two jobs - the state of job 1 is unconstrained '
        '(lookupUtxoSplit_fixed_sound, lookupUtxoSplit_any_ops, envSound_of_index_split, C09lookup_inv_split) - and '
        'outputs that stay are still answered (lookupUtxoSplit_fixed_stable); before the fix a back-out + re-advance '
        '+ UTXO flush between the jobs gave a false pair, because tx numbers are reused '
        '(lookupUtxoSplit_reorg_hazard; found on the real coroutine by suite index, Q_LOOKUP2A / Q_LOOKUP2B, and by '
        'integration/lookup-split-replay.py); assumed, not proved: one thread job reads one state at operation '
        'granularity (as for every reader of the index model) - should another thread commit between the two '
        'statements of job 2 (u row, then fs_tx_hash) the answer is still None or true unless a block is backed out '
        'AND the old branch re-advanced and flushed between those two statements (lookupValue2_sound, '
        'lookupValue2_aba_hazard), and states in the middle of a flush batch belong to C05; the model-to-code tie for '
        'lookup_utxos is suite index (Q_LOOKUP / S_LOOKUP incl. unflushed and backed-out states; Q_LOOKUP2A / '
        'Q_LOOKUP2B: the real coroutine stepped by hand with real advance / flush / back-out operations between its '
        'two jobs, plus the direct oracle "None or the (hashX, value) of that output")',
        'Valid: transactions only name output indices that exist in their parent transaction - excludes the one '
        'exception _accept_transactions does not catch (IndexError; C09_counterexample_index_error, replayed on the '
        'real class); bitcoind never relays such a transaction',
        'the API coroutines themselves return (daemon/network failures are retried inside Daemon: C18)',
        'placement of suspension points: each chunk task touches shared state only in its final synchronous '
        'segment after the lookup_utxos await - validated on every run by injecting an event at each suspension '
        'point of the real coroutines, not proved',
        'exactness of a view computed while an index flush lands during the refresh is not claimed (nor does the '
        'property claim it); the next quiet refresh is exact (C09_recovers)',
        'invariants AT EVERY SUSPENSION POINT inside a refresh (audit; sessions query between chunk completions): C09_inv is about the end of a refresh; chunkPhase_inv / C09_inv_every_suspension (EV/Props/C08audit.lean) prove MpInv after the removal phase and after ANY prefix of chunk completions in any order, under every sound environment (the removal phase and the deferred loop are synchronous); the race suite still calls check_inv only after each round (mempool.py), not between chunk completions',
        'C09_height_guard / C09_loop are of the shape "l\' = l or ...": they also hold of a loop that never emits; the positive direction is refreshRound_quiet_exact',
        '"refresh never raises" is proved for KeyError / IndexError / fuel under Valid; exceptions of read_tx / hashX_from_script (C13) and of the sibling _logging task of the same TaskGroup are outside the model',
        'the db_height() guard and lookup_utxos are unrelated parameters of the model; DB.state is published before the UTXO batch commits (see C08): a view computed in that window is covered by EnvSound (truthful, possibly stale answers), not by EnvQuiet',
    ],
    'design_ref': 'DESIGN.md §6 C09',
    'level_text': 'proof: under every sound environment (vanished transactions, lookup misses, parents confirmed '
                  'meanwhile, index behind or ahead, any listing, any batch completion order) _process_mempool never '
                  'raises, records only true input pairs / script hashes / fees, keeps hashXs the exact inverse of '
                  'txs (no empty sets), and the next quiet refresh is exact; _refresh_hashes hands a view over only '
                  'when daemon height before = after the listing = DB height; for any sequence of rounds; partial '
                  'only in that the cutting of the coroutines into atomic steps is validated by the race suite '
                  '(event injected at each suspension point of the real code), not proved',
    'level_note': 'trusted: Lean kernel + the three standard axioms; model tied to the class by differential '
                  'execution under a controlled scheduler; EnvSound/Valid about the daemon; DB.lookup_utxos truthful: '
                  'proved of the index model in every invariant state (C08lookup), the model tied to the real function by '
                  'suite index',
    'technique': 'Lean 4 inductive invariant (MpInv) over a literal model with exceptions as data; race injection '
                 'at every suspension point of the real coroutines',
}

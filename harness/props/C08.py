SPEC = {
    'module': 'EV.Props.C08audit',
    'theorems': ['EV.Mempool.C08_exact', 'EV.Mempool.C08_observables', 'EV.Mempool.C08_observables_inv',
                 'EV.Mempool.refreshRound_quiet_exact',
                 'EV.Mempool.C08_touched', 'EV.Mempool.C08_touched_handed_over',
                 'EV.Mempool.Conflict.C08_counterexample_conflict',
                 # the index side of EnvQuiet, proved of the index model (EV/Props/C08lookup.lean)
                 'EV.Index.lookupUtxo_flushed', 'EV.Index.lookupUtxo_flushed_iff', 'EV.Index.lookupUtxos_flushed',
                 'EV.Index.envQuiet_lookup_of_index', 'EV.Index.envQuiet_of_index', 'EV.Index.C08lookup_exact',
                 'EV.Index.lookupUtxos_end_to_end', 'EV.Index.lookupUtxos_after_reorgs',
                 'EV.Index.lookupUtxos_told'],
    'suites': ['mempool', 'index'],
    # of the shared index suite, C08 relies on DB.lookup_utxos only (the resolution of prevouts, incl.
    # outputs sharing the 4-byte compressed tx hash and index): EnvQuiet's "lookup_utxos is exact"
    'claims': {'violation_tags': ['lookup'], 'disagreement_tags': ['lookup']},
    'assumptions': [
        'EnvQuiet: during the refresh the daemon mempool M and its height are stable and the index is at that '
        'height: every listed transaction is delivered and is the transaction with that id (txid injectivity: the '
        'world is a function from ids to transactions); transactions only name output indices that exist (Valid)',
        'EnvQuiet, index clauses (lookup_utxos answers from the confirmed UTXO map U, which records true outputs): '
        'no longer assumed of the index but PROVED of the index model (EV/Props/C08lookup.lean): on every fully '
        'flushed state of the whole-run invariant - after any valid run of advances, flushes, back-outs and restarts '
        'followed by a full flush (lookupUtxos_end_to_end, lookupUtxos_after_reorgs) and at every point clients are '
        'told a height (lookupUtxos_told) - lookup_utxos is the specification lookup in the UTXO set of the chain, one '
        'answer per prevout in order, outputs sharing the 4-byte compressed tx hash and index included '
        '(lookupUtxo_flushed); envQuiet_of_index / C08lookup_exact instantiate EnvQuiet with it (U = the '
        'specification UTXO set) given DaemonQuiet (the daemon-side clauses) and WorldHas (the mempool world W '
        'contains the transactions of the chain with their outputs); what remains assumed: the index model '
        'corresponds to DB.lookup_utxos (suite index, Q_LOOKUP / S_LOOKUP lines) and the whole refresh reads the '
        'index in one such state (index at the daemon height, nothing flushed during the refresh)',
        'EnvQuiet: M is closed (every non-generation input is funded by M or U), acyclic and conflict-free (no '
        'output spent by two listed transactions) - a valid bitcoind mempool; without conflict-freedom a listed '
        'transaction can be dropped (C08_counterexample_conflict, replayed on the real class)',
        'the listing is a set (duplicate-free) and the completion order of the chunk tasks is a permutation of the '
        'chunk indices (any permutation)',
        'the tracker state before the refresh satisfies MpInv (proved to be preserved by every refresh under every '
        'race: C09_inv; holds of the initial empty state)',
        'C08_touched only needs EnvSound (answers are None or true), not quietness',
        'reading of "unconfirmed UTXOs": outputs of mempool transactions paying the script hash, including '
        'OP_RETURN-unspendable ones (MemPool does not apply the unspendable rule; DESIGN N1)',
        'the model EV/Model/Mempool.lean is tied to mempool.MemPool by differential execution, not by proof; the '
        'parsing of raw transactions (read_tx, hashX_from_script) is outside the model (C13)',
        "C08_observables: the specification side reuses the model's per-transaction functions (mkTx, feeOf, balanceOf, summaryOf, utxosOf, touches); only the SET of transactions (and their input pairs) is characterised independently, the per-script-hash observables are not checked against an independent definition in Lean (they are, on the real class, by the Python oracle of suite mempool)",
        '_refresh_hashes level (audit): C08_touched_handed_over / C09_height_guard / C09_loop have the shape "nothing emitted or ..." and also hold of a loop that never emits; the positive direction is refreshRound_quiet_exact (EV/Props/C08audit.lean): a round in a quiet environment whose three heights agree DOES emit exactly once, starts a fresh touched, and the view handed over is the exact one of C08_exact; its examples include a NON-EMPTY MpInv state and a second round from it (the in-tree witness of MpInv was the empty tracker)',
        'the db_height() guard and lookup_utxos are unrelated parameters of the model (dbHeight, lookup): that a guard passing at height h implies lookups answered from height h is ASSUMED (EnvQuiet).  In the code DB.state is assigned inside `with utxo_db.write_batch()` in the worker thread (db.py flush_dbs), i.e. before the batch commits, so the guard can pass at h while lookups still answer from h-1; the suite couples the two atomically (code reading, not executed)',
    ],
    'design_ref': 'DESIGN.md §6 C08',
    'level_text': 'proof: exactness of the mempool view after a quiet refresh (transaction set with true input '
                  'pairs and fees, inverse index, the five observables for every script hash) from any invariant '
                  'state, for every completion order of the fetch batches, by a rank induction over the deferred '
                  'fix-point loop; touched covers every script hash that gained or lost a transaction under every '
                  'sound environment; unbounded in pool size, chain depth and number of batches; the model is tied '
                  'to the real MemPool by stepping the real _refresh_hashes suspension point by suspension point '
                  'against the compiled model, and the theorem statements are evaluated on the real class against a '
                  'Python oracle and the Lean specification',
    'level_note': 'trusted: Lean kernel + the three standard axioms; the hand-written model corresponds to the class '
                  'only as far as the mempool suite exercises it; environment predicate EnvQuiet (valid, closed, '
                  'acyclic, conflict-free daemon mempool; index answering from the confirmed UTXO set - the latter '
                  'proved of the index model over whole runs (C08lookup), the model validated on the real '
                  'DB.lookup_utxos over LevelDB on every run)',
    'technique': 'Lean 4 invariant + rank induction over a literal model of _process_mempool; differential '
                 'correspondence under a controlled asyncio scheduler',
}

SPEC = {
    'module': 'EV.Props.C12bind',
    'theorems': ['EV.Merkle.branchLength_spec', 'EV.Merkle.branchLength_errors',
                 'EV.Merkle.bar_root', 'EV.Merkle.root_spec', 'EV.Merkle.bar_fold', 'EV.Merkle.bar_length',
                 'EV.Merkle.bar_padding', 'EV.Merkle.bar_errors', 'EV.Merkle.tsc_spec',
                 'EV.Merkle.level_spec', 'EV.Merkle.from_level', 'EV.Merkle.from_level_of_pow_le',
                 'EV.Merkle.from_level_errors',
                 'EV.Merkle.cache_init', 'EV.Merkle.cache_extend', 'EV.Merkle.cache_truncate',
                 'EV.Merkle.cache_source_change', 'EV.Merkle.cache_correct', 'EV.Merkle.cache_rejects',
                 'EV.Merkle.cache_any_sequence',
                 'EV.Merkle.rfpLoop_inj', 'EV.Merkle.bar_binds', 'EV.Merkle.bar_binds_unique',
                 'EV.Merkle.rfpTscLoop_inj_leaf', 'EV.Merkle.bar_binds_tsc',
                 'EV.Merkle.bar_classic_starfree', 'EV.Merkle.bar_padding_classic'],
    'suites': ['merkle'],
    'assumptions': [
        'no assumption on the hash function: the theorems are generic in H(a, b) = hash_func(a + b) and hold as equalities of terms',
        'exception: the binding theorems (rfpLoop_inj, bar_binds, bar_binds_unique: a verifying classic proof of the natural length '
        'determines the leaf and the branch; rfpTscLoop_inj_leaf, bar_binds_tsc: a verifying TSC proof determines the leaf) carry the explicit hypothesis Collisionless H (H a b = H c d -> a = c and b = d); it is '
        'satisfied by the free term hash of the examples and is NOT claimed for double-SHA256; they go beyond the property text '
        '(soundness of verification, not only completeness) and no check outcome depends on them',
        'cache theorems: requested lengths are within the source (length <= len(src)) and source_func(i, c) returns src[i:i+c]; '
        'initialize is called with 1 <= n <= len(src) (initialize(0) raises after having set length = 0 - outside the claim)',
        'from_level: depth_higher <= ceil(log2 n) (implied by 2^depth_higher <= n, the only case MerkleCache uses); '
        'for a smaller list the assembled branch is longer than branch_and_root\'s by design',
        'Merkle.branch_length is the integer function of the fix for F2; the float version of the pinned commit has no Lean model '
        '(its failing inputs are corpus entries replayed on the real function)',
        'MerkleCache is modelled sequentially (source_func never suspends): interleavings with a re-org are C11 (finding F7)',
        'the model is tied to lib.merkle by differential execution, not by proof',
        'cache_any_sequence fixes the source for the whole operation sequence; a source change after a truncate is covered only by the single-step lemma cache_source_change; bar_padding states the fold through the TSC-aware loop: for tsc = false bar_classic_starfree / bar_padding_classic restate it for the real root_from_proof',
    ],
    'design_ref': 'DESIGN.md §6 C12, §8 F2',
    'level_text': 'proof: for every non-empty list, index, format, length padding, depth and cache operation sequence (no bound), '
                  'Lean theorems show that Merkle.branch_and_root returns the recursive-definition merkle root, that root_from_proof '
                  'of the returned branch gives that root, that the branch has Nat.clog 2 n elements (branch_length = clog for every n >= 1), '
                  'that the TSC branch is the classic one with * exactly at duplicate positions and folds to the same root, that '
                  'level / branch_and_root_from_level agree with the direct computation, and that MerkleCache initialise / extend / '
                  'truncate / query preserve an invariant under which every query equals the from-scratch result; the model is tied to '
                  'the real classes by exhaustive small-scope (all lengths <= 130 x all indices x formats x paddings; all reachable cache '
                  'states x all ops) and seeded differential execution, and the theorem statements are evaluated on the real classes',
    'level_note': 'trusted: Lean kernel + the three standard axioms; the hand-written model EV/Model/Merkle.lean corresponds to '
                  'lib/merkle.py only as far as the merkle suite exercises it; branch_length compared at every 2^k-1, 2^k, 2^k+1 '
                  '(k <= 64) and all n < 2^16 (quick) / 2^20 (thorough); source lengths assumed to cover the requested lengths',
    'technique': 'Lean 4 structural induction over the tree levels + cache invariant; differential correspondence with a free term hash',
}

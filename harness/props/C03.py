SPEC = {
    'module': 'EV.Props.C03',
    'theorems': ['EV.Index.C03_undo_exact', 'EV.Index.C03_advance_backup', 'EV.Index.C03_reorg_range',
                 'EV.Index.C03_reorg_range_forced', 'EV.Index.backupTxs_inverts',
                 'EV.Reorg.calcReorgRange_counterexample_shallow_chain'],
    'claims': {'exclude_tags': ['window'], 'violation_require': ['after_backup']},
    'suites': ['index', 'reorgrange', 'sync'],
    'design_ref': 'DESIGN.md §6 C03',
    'assumptions': [
        'valid chain on every branch; undo rows used are the ones written for the block being backed out (C15 window; a row left behind by an orphaned block is only reachable by a back-out outside the window, DESIGN N2)',
        'the daemon does not switch chain between the calls of one _calc_reorg_range computation',
        'fetch_and_process_blocks loop (reorg detection mid-batch, prefetch) is validated by the e2e harness, not proved',
    ],
    'level_text': 'proof (partial): backup_block\'s loop is proved to invert advance_block\'s loop exactly for every valid block over the real cache/rows layout (representation of the pre-block UTXO set restored, undo list consumed exactly, counters restored, all touched script hashes handed to History.backup); _calc_reorg_range is proved to return exactly the fork point under the property\'s "twice as high as deep" condition (and shown wrong without it); since the representation relation mentions only the specification of the current chain, any interleaving of advances and back-outs ends in a state representing the surviving chain.  History-row and file layers of the equality are validated by the index suite (structural comparison after every back-out), not yet proved.',
    'level_note': 'server-level glue (fetch loop, flush policy under cache pressure, on_caught_up, reorg_chain, clean restarts) is not modelled in Lean: it is judged by suite sync on the real processing task against the Lean specification of the chain at every moment clients are told a height; trusted: Lean kernel + 3 axioms; model/code tie by suites index and reorgrange; LevelDB atomic batches',
    'technique': 'Lean 4 inverse-function proof over a generic store interface + loop-invariant proof of the reorg-range search + differential correspondence',
}

SPEC = {
        'module': 'EV.Props.C20audit',
        'theorems': ['EV.Notif.C20_safety', 'EV.Notif.C20_no_invention', 'EV.Notif.C20_no_loss',
                     'EV.Notif.C20_emitted_at_report', 'EV.Notif.C20_emitted_le_highest', 'EV.Notif.C20_both_reported_not_drained', 'EV.Notif.C20_startok_counterexample',
                     'EV.Notif.C20_complete', 'EV.Notif.C20_complete_block',
                     'EV.Notif.C20_counterexample_drop', 'EV.Notif.C20_counterexample_overwrite_mp',
                     'EV.Notif.C20_counterexample_overwrite_bp'],
        'suites': ['notif', 'system'],
        # of the real-server histories only the hand-over monitor is C20's: the height a mempool refresh is reported
        # at is the height its snapshot was taken at (the CALLER of Notifications.on_mempool, MemPool._refresh_hashes)
        'claims': {'system': {'violation_tags': ['mempool_height'], 'disagreement_tags': ['mempool_height']}},
        'assumptions': [
            'the two callers of the class are outside the Lean model: what BlockProcessor / MemPool._refresh_hashes hand over is judged on the real server (suite system): every on_mempool(touched, h) must carry the height at which the refresh listed the daemon mempool (monitor in harness/world/server.py), added after seeded change C20-8',
            'heights are non-negative (initial _highest_block is -1)',
            'start(h) is called with h >= every block height reported before it (it is called once, with the DB height)',
            'the model is tied to controller.Notifications by differential execution, not by proof',
            'completeness ("by the time both sources have reported at the current height") is proved PER PAIRING EVENT (audit): [start 5, mempool [] 5, block [1] 5] has both last reports at 5, pending = [1] and nothing but start\'s empty notification emitted (the same-height reorganisation / idle poll): C20_both_reported_not_drained (EV/Props/C20audit.lean); the next mempool report at that height releases it; so far stated in DESIGN §11.3 only',
            'correction to the StartOK assumption above (audit): its justification is wrong - start(self.db.state.height) can run while reorg_chain has lowered the DB below an earlier on_block height: [block [1] 8, start 6, mempool [] 6] violates StartOK and leaves [1] pending (C20_startok_counterexample); harmless in practice because before start the notify callback is a no-op and no session exists (sessions subscribing later compute their status from the index), and C20_no_loss still holds (nothing is dropped), but C20_complete does not cover it',
            'emissions before start count as emitted although they go to the no-op notify callback (controller.py): C20_complete is partly satisfied by notifications nobody receives',
            'C20_emitted_at_report / C20_emitted_le_highest: every notification is AT the height of an on_block / start report received by then (or at -1 before any, for a mempool report at -1), hence <= the highest such report - the Notifications part of C07\'s "never before the block is queryable"; the bound cannot be the LAST report (after a start below an earlier block height a notification at the earlier height is possible)',
        ],
        'design_ref': 'DESIGN.md §6 C20',
    'level_text': 'proof: safety, no-invention, no-loss and completeness of controller.Notifications are Lean theorems over every operation list (any length, heights rising/repeating/falling); the model is tied to the real class by exhaustive small-scope and seeded differential execution, and the theorem statements are evaluated on the real class as a direct oracle',
    'level_note': 'trusted: Lean kernel + the three standard axioms; the hand-written model EV/Model/Notif.lean corresponds to the class only as far as the notif suite exercises it; start(h) assumed called with h >= earlier block heights; heights non-negative',
    'technique': 'Lean 4 inductive invariants over operation histories + differential correspondence',
}

SPEC = {
        'module': 'EV.Props.C20',
        'theorems': ['EV.Notif.C20_safety', 'EV.Notif.C20_no_invention', 'EV.Notif.C20_no_loss',
                     'EV.Notif.C20_complete', 'EV.Notif.C20_complete_block',
                     'EV.Notif.C20_counterexample_drop', 'EV.Notif.C20_counterexample_overwrite_mp',
                     'EV.Notif.C20_counterexample_overwrite_bp'],
        'suites': ['notif'],
        'assumptions': [
            'heights are non-negative (initial _highest_block is -1)',
            'start(h) is called with h >= every block height reported before it (it is called once, with the DB height)',
            'the model is tied to controller.Notifications by differential execution, not by proof',
        ],
        'design_ref': 'DESIGN.md §6 C20',
    'level_text': 'proof: safety, no-invention, no-loss and completeness of controller.Notifications are Lean theorems over every operation list (any length, heights rising/repeating/falling); the model is tied to the real class by exhaustive small-scope and seeded differential execution, and the theorem statements are evaluated on the real class as a direct oracle',
    'level_note': 'trusted: Lean kernel + the three standard axioms; the hand-written model EV/Model/Notif.lean corresponds to the class only as far as the notif suite exercises it; start(h) assumed called with h >= earlier block heights; heights non-negative',
    'technique': 'Lean 4 inductive invariants over operation histories + differential correspondence',
}

SPEC = {
    'module': 'EV.Props.C17fresh',
    'theorems': ['EV.Rpc.C17_headers_cap', 'EV.Rpc.C17_headers', 'EV.Rpc.C17_history',
                 'EV.Rpc.C17_invalidate_any',
                 'EV.Rpc.C17_history_cache', 'EV.Rpc.C17_get_history', 'EV.Rpc.C17_subscribe',
                 'EV.Rpc.C17_notify', 'EV.Rpc.C17_invalidate',
                 'EV.Index.C17_retry_attempt', 'EV.Index.C17_retry_bounded', 'EV.Index.C17_retry_whole',
                 'EV.HistFresh.C17_fresh_cache', 'EV.HistFresh.C17_fresh_quiescent', 'EV.HistFresh.C17_fresh_CacheOK',
                 'EV.HistFresh.C17_fresh_answer', 'EV.HistFresh.C17_fresh_answer_current',
                 'EV.HistFresh.C17_fresh_after', 'EV.HistFresh.C17_fresh_after_quiescence', 'EV.HistFresh.C17_fresh_after_run',
                 'EV.HistFresh.C17_fresh_sequential', 'EV.HistFresh.C17_fresh_covering',
                 'EV.HistFresh.Orig.C17_fresh_lastTouched_counterexample',
                 'EV.HistFresh.Orig.C17_fresh_keepRefusals_counterexample'],
    'suites': ['limits', 'system'],
    'entry': {'system': 'run_limits'},
    'assumptions': [
        'the freshness loop of SessionManager.limited_history and the two halves of _notify_sessions (counter increment; cache deletion, with the await of _refresh_hsub_results between them) ARE now modelled (EV/Model/HistFresh.lean, agent c17fresh; not in the differential driver - the limits parts retry_window / stale_read / shrink exercise the same paths on the real server, and the three example traces were replayed on the real SessionManager by the agent): any number of concurrent requests, arbitrary interleaving, LRU eviction, a read returning ANY version between its start and the resumption; hypothesis RunOK only (a block changes the histories of its touched script hashes only).  C17_fresh_cache / _quiescent / _CacheOK: every cache entry is what a miss would compute from the current version unless a notification covering the change is pending; at quiescence the cache satisfies EV.Rpc.CacheOK (the hypothesis of the fixed-index theorems).  C17_fresh_answer(_current): every reply comes from one version current during the request, a list is the whole history and shorter than the limit, the refusal exactly when that version has >= limit entries.  C17_fresh_after*: once a script hash is not pending, every reply matches the current history (a history a reorg shrank is served again, one that grew to the limit is refused).  Counterexamples for the two seeded variants (C17-6: latest-touched check; C10-7: refusals kept) by decide.  Not stated: termination of the loop; RunOK is not derived from the block-processor model',
        'FileOK: the headers file holds height+1 headers of 80 bytes (index invariant, C01) - needed for '
        '"hex length = 160 * count"',
        'DB.limited_history(hashX, limit) returns the first `limit` entries of the confirmed history '
        '(C02); the session layer is proved on top of that',
        'CacheOK: cached histories agree with the index when the request / notification arrives; proved '
        'to hold at start-up, to be preserved by every request and notification, and to be re-established '
        'by the invalidation of _notify_sessions when only touched script hashes changed (C17_invalidate); '
        'a reorg that ends at the already-notified height is F4 (C07/C10), not covered here',
        'the retry loop of DB.limited_history (a request landing between the history commit and the state commit of a flush, or inside a back-out) is modelled as one attempt per database view (EV.Index.limitedHistoryLoop): C17_retry_whole shows a result shorter than the limit is the whole history of the view that answered; on the real server the flush-window part of the limits suite issues get_history for scripts of L-2..L+1 entries inside that window (direct oracle; every request is checked to have been waiting when the flush completed)',
        'the LRU capacity of the caches (1000 entries) is not modelled: eviction only turns hits into misses',
        'the model is tied to session.py / db.py by differential execution, not by proof',
        'the theorems are about one request against a fixed index; that the reported count is the count returned also when a reorganisation lands between request validation and the queued disk read is judged on every block.headers reply of the real server under the seeded scheduler (suite system, entry run_limits), not proved',
        '"would not fit in the maximum reply size" (audit): L = max(floor, MAX_SEND) // div is an ENTRY COUNT; there is no statement about the byte size of a reply anywhere.  Measured on JSONRPCv2.response_message: 95-96 bytes per confirmed entry; get_history appends an UNBOUNDED mempool part (confirmed_and_unconfirmed_history), so about 105 mempool entries on top of L-1 confirmed ones exceed MAX_SEND and the client gets aiorpcx\'s "response too large", not "history too large"',
        'C17_invalidate was stated for height_changed = true only; C17_invalidate_any (EV/Props/C17audit.lean) covers either flag (the mempool-only notification) and comes with a witness in which the world actually changes (history grows from L-1 to L entries)',
        'C17_notify bounds what is sent; that the `null` notification IS sent when a subscription is dropped is not stated (liveness half); the _notify_count re-read loop that maintains CacheOK is outside the model',
    ],
    'design_ref': 'DESIGN.md §6 C17',
    'level_text': 'proof: for every start, count, cp, cap and chain height the headers reply has '
                  "count' = max(0, min(count, cap, height+1-start)) <= cap headers, reports exactly that "
                  "count, 160*count' hex characters, the bytes of heights start..start+count'-1, and a proof "
                  "iff count' != 0 and cp != 0 (for the last returned header) (C17_headers_cap, C17_headers); "
                  'with L = max(floor, MAX_SEND) // div observed from the source (an entry count: no theorem is about the byte size of a reply), limited_history returns the '
                  'whole history iff it has < L entries and the error iff >= L, identically from cache '
                  '(C17_history, C17_history_cache), get_history / subscribe / notifications are computed from '
                  'that result only: never a truncated history, never a status of one, a failing subscribe '
                  'stores nothing, a subscription whose history reached L is dropped with a null status '
                  '(C17_get_history, C17_subscribe, C17_notify, C17_invalidate).  Tied to the real session '
                  'layer over real indexes by the limits suite (chains of height 0/5/2020/4100, histories of '
                  'L-2..L+2 transactions for four MAX_SEND values; cold, warm, subscribe, notifications)',
    'level_note': 'trusted: Lean kernel + the three standard axioms; the hand-written model corresponds to '
                  'the code only as far as the limits and rpc suites exercise it; C01/C02 supply FileOK and '
                  'the semantics of DB.limited_history',
    'technique': 'Lean 4: arithmetic of the caps, cache-coherence invariant, induction over the notification '
                 'loops; differential correspondence on real sessions and indexes',
}

SPEC = {
    'module': 'EV.Props.C15',
    'theorems': ['EV.Index.C15_keep', 'EV.Index.C15_window', 'EV.Index.C15_prune', 'EV.Index.C15_refuse',
                 'EV.Index.C15_counterexample_falling_daemon_height',
                 'EV.Index.C15run_kept', 'EV.Index.C15run_window', 'EV.Index.C15run_window_from',
                 'EV.Index.C03run_backup_refused', 'EV.Index.C03run_reopen', 'EV.Index.C03run_reopen_clean',
                 'EV.Index.C15run_counterexample_falling_daemon_height'],
    'claims': {'violation_tags': ['window']},
    'suites': ['index', 'sync'],
    'design_ref': 'DESIGN.md §6 C15',
    'assumptions': [
        'daemon heights seen while indexing a block do not exceed the height at which the server later catches up (D_b <= H); without it the window has holes (finding F10, machine-checked counterexample)',
        'undo rows are written by the UTXO batch of the flush that follows the block (model flushDbs; tied by suite index)',
    ],
    'level_text': 'proof: the retention rule of advance_block, the window arithmetic for every reorg limit and daemon-height trajectory satisfying D_b <= H, the exact set of undo rows after every start-up (prune below the window, keep inside it), and refusal with ChainError when a row is absent are Lean theorems about the concrete model; undo rows are compared with the real DB after every operation.  Over whole runs (C15run_window): after ANY valid back-out-free run from the empty index (advances with daemon heights <= H, flushes of either kind, restarts anywhere, clean or losing unflushed blocks) that ends caught up at height H, a full flush followed by k consecutive back-outs succeeds for every k <= reorg limit (k <= H) and leaves an index of the first H+1-k blocks; the undo information found for a retained height is proved to be exactly the block\'s.',
    'level_note': 'server-level glue (fetch loop, flush policy under cache pressure, on_caught_up, reorg_chain, clean restarts) is not modelled in Lean: it is judged by suite sync on the real processing task against the Lean specification of the chain at every moment clients are told a height; trusted: Lean kernel + 3 axioms; model/code tie by suite index (reorg limits 1,2,3,4,200; daemon-height modes far/track/jump); LevelDB key order = numeric order of big-endian heights',
    'technique': 'Lean 4 theorems about the concrete index model + differential correspondence',
}

SPEC = {
    'module': 'EV.Props.C16',
    'theorems': ['EV.Rpc.C16_total', 'EV.Rpc.C16_refused_no_effect', 'EV.Rpc.C16_no_effect',
                 'EV.Rpc.C16_others', 'EV.Rpc.C16_wellformed',
                 'EV.Rpc.C16_counterexample_overflow', 'EV.Rpc.C16_counterexample_headers_cost',
                 'EV.Rpc.C16_counterexample_add_peer', 'EV.Rpc.C16_counterexample_tsc_echo'],
    'suites': ['rpc'],
    'assumptions': [
        'loop.getaddrinfo(host, 80) on a str host raises only socket.gaierror or UnicodeError '
        '(ResolverRaises getaddrinfoRaises) - the only hypothesis of C16_total',
        'C16_others: the shared caches are coherent with the index when the first request arrives '
        '(CacheOK; true of the empty caches at start-up and preserved by every request - proved); '
        'cache coherence across blocks / reorgs is C10, the LRU capacity (1000 entries) is not modelled',
        'the handler bodies are modelled as validation prefix -> abstract backend returning a result or '
        'one of the mapped errors; that the real bodies (DB, daemon, mempool, peer manager, aiorpcx) '
        'raise nothing else is validated by differential fuzzing, not proved',
        'values json.loads itself refuses (integer literals of more than 4300 digits, nesting deeper '
        'than ~1490) never reach a handler; aiorpcx 0.22.1 lets those two exceptions escape from its '
        'receive loop (outside /repo; reported, not covered)',
        'the model is tied to session.py / peers.py / util.py / aiorpcx.handler_invocation by '
        'differential execution, not by proof',
        'C16_refused_no_effect is definitional: the model\'s dispatch returns the unchanged state when the pure Parser fails; the real handlers mutate BEFORE validating (bump_cost at the top of scripthash_unsubscribe, server_version, ...): the session\'s cost is not part of the modelled state, so "changes nothing" means: subscriptions and caches',
        'correction to the comment "sessions share only the manager caches" (C16.lean): sessions also share the cost accounting (SessionManager.extra_cost: the cost of one session\'s error replies feeds the group cost of others and can throttle or disconnect them), recent_peer_adds, the peer set and _method_counts; none of these channels is modelled, C16_others is about replies and caches only (so far acknowledged in integration/rpc.md only)',
        'add_peer: the model takes the first host of the features only, the code constructs a Peer for every host (Peer.peers_from_features); not linked to C19_ports (different JSON type); the `if not source_addr` early return of on_add_peer is absent from the model',
        'model mismatch (audit, fidelity 6): the height test of the F20 fix (session.py tx_hashes_at_blockheight) is not ported to Rpc.txHashesAt; unreachable by suite rpc',
    ],
    'design_ref': 'DESIGN.md §6 C16, §8 F11 F12 (+ F13, F14 found by the fuzz)',
    'level_text': 'proof (partial): for every method name and every positional or named JSON argument '
                  'value (all shapes, NaN/Infinity, integers and strings of any size, any nesting) the '
                  'modelled request path - handler table, aiorpcx arity/name checks, every validator, '
                  'every handler body over an abstract backend - ends in a result, an RPCError or '
                  'ReplyAndDisconnect(RPCError) (C16_total); a refused request changes nothing of the modelled state (subscriptions, caches; the session cost bumped before validation is not modelled), no error '
                  'reply alters subscriptions, caches only gain entries that agree with the index, other '
                  'sessions get identical replies - cost accounting, peer set and method counters, which sessions also share, are not modelled - (C16_refused_no_effect, C16_no_effect, C16_others); the '
                  'only echoed argument is a validated string (C16_wellformed).  Caught exception tuples, '
                  'handler table and the repaired behaviours are regenerated from the source, so reverting '
                  'a repair breaks the theorem.  Handler bodies and aiorpcx are covered by differential '
                  'fuzzing of real sessions over a real populated index (exhaustive for all argument '
                  'tuples of arity <= 2 over a 50-value all-shapes alphabet)',
    'level_note': 'trusted: Lean kernel + the three standard axioms; EV/Model/Rpc.lean corresponds to the '
                  'code only as far as the rpc suite exercises it; getaddrinfo raises only gaierror / '
                  'UnicodeError; CPython semantics of int(), bytes.fromhex, tuple comparison',
    'technique': 'Lean 4: totality by case analysis over the generated handler table + validators with '
                 'generated caught-class tuples; differential correspondence on real sessions',
}

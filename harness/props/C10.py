SPEC = {
    'module': 'EV.Props.C10',
    'theorems': ['EV.System.C10_fresh', 'EV.System.C10_invariant', 'EV.System.C10_accepted_reads',
                 'EV.System.C10_counterexample_stale_read',
                 'EV.SyncLoopT.C07carrier_loop', 'EV.SyncLoopT.C07carrier_consecutive', 'EV.SyncLoopT.C07carrier_reads'],
    'suites': ['notifcache', 'system'],
    'entry': {'system': 'run_queries'},
    'design_ref': 'DESIGN.md §6 C10, §11',
    'assumptions': [
        'as C07 for the history cache; get_balance / listunspent are uncached reads (C01 + C08)',
        'by-height caches (tx hashes, merkle) are cleared by the reorg task before a block of the new branch can be advanced: validated end-to-end (id_from_pos and proofs for every height after every phase), not proved',
        'LRU eviction only removes entries (can only help)',
    ],
    'level_text': 'proof (partial): every cached history is current or its script hash is still carried, in every reachable state of the coherence protocol; at rest every cached history is current and a get_history issued then caches the current version; an accepted read is valid; the pinned behaviour (F5) is refuted.  End-to-end: at quiescence after every phase of generated histories, get_history (cold and warm), get_balance, listunspent, get_mempool for every script of the universe and id_from_pos for every (height, position) are compared with values computed from the daemon\'s chain and mempool only, whatever was queried and cached before (cache-populating requests are issued at seeded times before, during and after reorg windows).',
    'level_note': 'trusted: Lean kernel + 3 axioms; suites notifcache and system as the tie',
    'technique': 'Lean 4 inductive invariant + differential correspondence + end-to-end oracle',
}

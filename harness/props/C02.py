SPEC = {
    'module': 'EV.Props.C02',
    'theorems': ['EV.Index.C02_spec_ordered', 'EV.Index.C02_advance', 'EV.Index.C02_flush', 'EV.Index.C02_backup',
                 'EV.Index.C02_history', 'EV.Index.C02_init',
                 'EV.Index.C01run_refinement', 'EV.Index.C01run_observables', 'EV.Index.C01run_resolve', 'EV.Index.C01run_file_readers',
                 'EV.SyncLoop.C01sync_observables'],
    'claims': {'exclude_tags': ['after_backup', 'after_restart', 'window'], 'violation_tags': ['history', 'files']},
    'suites': ['index', 'sync'],
    'design_ref': 'DESIGN.md §6 C02',
    'assumptions': [
        'valid chain; flush ids < 2^16 (pack_be_uint16 raises at 65536; compaction keeps them small)',
        'the per-tx script-hash lists handed to add_unflushed are the specification\'s touched lists (C01_block)',
    ],
    'level_text': 'proof: the invariant "rows of a script hash in flush-id order ++ unflushed tail = specification history (complete, ascending, duplicate-free)" is proved to hold initially and to be preserved by add_unflushed for every block, by every History.flush (history-only or full, any number: a history split over arbitrarily many rows), and by History.backup; get_txnums with any limit is proved to return exactly the specification history or its first limit entries.  The tx-number -> (hash, height) resolution through the tx_counts array and the hashes file is proved for every run of advances and flushes (C01run_resolve, C01run_file_readers), and limited_history = specification history is part of the whole-run theorem C01run_observables.',
    'level_note': 'the forward part of the server glue (advance_blocks with forced flushes, on_caught_up) is modelled (EV.SyncLoop) and tied by trace replay; reorg_chain, the fetch loop and restarts are judged by suite sync on the real processing task against the Lean specification of the chain at every moment clients are told a height; trusted: Lean kernel + 3 axioms; model/code tie by suite index on a real LevelDB; LevelDB key order = (hashX, big-endian flush id) order',
    'technique': 'Lean 4 inductive invariant over flush/advance/backup + differential correspondence',
}

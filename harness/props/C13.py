SPEC = {
    'module': 'EV.Props.C13canon',
    'theorems': ['EV.TxCodec.C13_read_serialize', 'EV.TxCodec.C13_hash_range', 'EV.TxCodec.C13_serialize_read',
                 'EV.TxCodec.C13_truncated_fails', 'EV.TxCodec.C13_iterTxs_correct_sharp',
                 'EV.TxCodec.C13_iterTxs_correct', 'EV.TxCodec.C13_iterTxsReversed_correct',
                 'EV.TxCodec.C13_chunk_size_ok', 'EV.TxCodec.C13_fuel',
                 'EV.TxCodec.C13_noncanonical_example', 'EV.TxCodec.C13_small_chunk_example',
                 'EV.TxCodec.C13_counterexample_F3', 'EV.TxCodec.C13_counterexample_F3_range',
                 'EV.TxCodec.C13_serialize_canon', 'EV.TxCodec.C13_serialize_read_serialize'],
    'suites': ['txcodec'],
    'assumptions': [
        'well-formed transaction (read_serialize, streaming): every integer field in range of its struct format '
        '(version int32, prev_idx/sequence/locktime uint32, value int64, counts and script lengths < 2^64) and every '
        'prev_hash 32 bytes long',
        'serialize_read: the buffer consists of bytes (< 256) and every varint on the parse path is minimal (canonTx); '
        'necessary - the parser accepts non-minimal varints, which re-serialise shorter (C13_noncanonical_example)',
        'streaming: the block file is an 80-byte header, the tx-count varint and the serialised transactions; '
        'chunk size >= 9 (sharp form: >= length of the tx-count varint); file shorter than 2^63 bytes (every CPython '
        'buffer is; from 2^63 on unpack_from raises OverflowError, which the refill loops do not catch)',
        'the reverse-streaming theorem is about the code after the fix: commit for F3; the pinned code is refuted by '
        'C13_counterexample_F3',
        'SHA-256 is not modelled: the model returns the byte string that is hashed and the harness checks the real hash '
        'against hashlib over exactly those bytes',
        'the model is tied to lib/tx.py, lib/util.py and OnDiskBlock by differential execution, not by proof',
        'canonTx (serialize tx) is proved (C13_serialize_canon, C13_serialize_read_serialize in EV/Props/C13canon.lean): the hypothesis of C13_serialize_read is discharged for every output of the serialiser; the log_block branch of OnDiskBlock.iter_txs (outside the try) is not modelled',
    ],
    'design_ref': 'DESIGN.md §6 C13',
    'level_text': 'proof: read-after-serialize, serialize-after-read (canonical varints), failure on every truncation, '
                  'and exact forward / reverse streaming of a block file for every chunk size >= 9, every number, size '
                  'and alignment of transactions (incl. transactions larger than a chunk) are Lean theorems about a '
                  'literal model of lib/tx.py and OnDiskBlock; the loops\' fuel is proved never to run out; the model is '
                  'tied to the real code by exhaustive chunk-size sweeps over generated blocks, every truncation point '
                  'of generated transactions, a varint boundary table and damaged block files; the theorem statements '
                  'are evaluated on the real code as a direct oracle with hashlib double SHA-256 over the exact byte ranges',
    'level_note': 'trusted: Lean kernel + the three standard axioms; the hand-written model EV/Model/TxCodec.lean '
                  'corresponds to the code only as far as the txcodec suite exercises it; SHA-256 itself and CPython\'s '
                  'struct / memoryview / file semantics are modelled, not verified; files < 2^63 bytes',
    'technique': 'Lean 4 structural induction on the parsers + loop invariants for the refill loops + differential '
                 'correspondence',
}

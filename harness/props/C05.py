SPEC = {
    'module': 'EV.Props.C05',
    'theorems': ['EV.Index.C05_cut_harmless', 'EV.Index.C05_counterexample_oldbranch',
                 'EV.Index.C05_newbranch_example', 'EV.Index.C05_newbranch_partial'],
    'suites': ['crash'],
    'entry': {'crash': 'run_backup'},
    'design_ref': 'DESIGN.md §6 C05, §7.3, §8 F8',
    'assumptions': [
        'LevelDB write batches are atomic and durable (as C04)',
        'FlushedB of the state a back-out starts from (what backup_block asserts, plus: UTXO state record = in-memory state, tx_counts = committed file prefix, history table with unique keys / ascending histories / no row above the UTXO flush count, history flush count not behind the UTXO one, reorg limit > 0)',
        'KNOWN FINDING F8: for the cut between History.backup\'s batch and the UTXO batch of flush_backup with the daemon back on (or never having left) the old branch the property is false of the code; the proved statement and the suppression predicate exclude exactly that family',
        'catching up after the restart (re-detection of the fork by the sync loop) is validated on the real code by driving backup_block/advance_block directly, not through fetch_and_process_blocks',
    ],
    'level_text': 'proof (partial) + machine-checked counterexample: flush_backup has exactly two atomic effects (history batch, UTXO batch); cuts before the first and after the second are the clean pre/post stores (proved); for the cut between them, backing the block out again after the restart (daemon on a chain without that block) performs the same UTXO batch and leaves every history as the uninterrupted back-out does (proved for all states satisfying FlushedB, all blocks); with the daemon on the old branch / chain unchanged the restarted index keeps height N with block N\'s history entries missing for good (F8: proved counterexample in the model, reproduced on the real code on every run).',
    'level_note': 'trusted: Lean kernel + 3 axioms; model/code tie by suite crash entry run_backup (every cut of every flush_backup x 3 continuations on the real code); LevelDB batch atomicity',
    'technique': 'Lean 4 theorems (simulation of backup_block\'s loops on the restarted state, idempotence of History.backup) + machine-checked counterexample + exhaustive crash injection into the real code',
}

SPEC = {
    'module': 'EV.Props.C01',
    'theorems': ['EV.Index.C01_block', 'EV.Index.C01_count', 'EV.Index.C01_all_utxos', 'EV.Index.C01_init',
                 'EV.Index.sysIface', 'EV.Index.advanceTxs_spec', 'EV.Index.C01_flush',
                 'EV.Index.C01run_refinement', 'EV.Index.C01run_steps', 'EV.Index.C01run_observables',
                 'EV.Index.C01run_end_to_end', 'EV.Index.C01run_resolve', 'EV.Index.C01run_file_readers'],
    'claims': {'exclude_tags': ['after_backup', 'after_restart', 'window'], 'violation_tags': ['utxo']},
    'suites': ['index', 'sync'],
    'design_ref': 'DESIGN.md §6.0, §6 C01',
    'assumptions': [
        'valid chain: every non-generation input names an output unspent at that point; txids pairwise distinct (BIP30 / SHA-256d collision freedom)',
        'widths: tx numbers < 2^40, values < 2^63, flush ids < 2^16 (beyond them struct.pack raises or truncates; not modelled)',
        'LevelDB batches are atomic and iteration is in key order; the model is tied to BlockProcessor/DB/History by differential execution on a real LevelDB, not by proof',
    ],
    'level_text': 'proof: the transaction loop of advance_block is proved to compute the specification fold for every valid block over ANY store implementing the representation interface, and the real layout (cache + h/u rows with 4-byte prefix collisions + queued deletes, resolved through the tx-number files) is proved to implement it; the UTXO batch of a flush is proved to turn the rows into exactly the represented set; all_utxos on a flushed store is proved to return that set.  These layers are composed into one refinement theorem over whole runs (C01run_refinement / C01run_end_to_end): for EVERY sequence of block advances (any daemon heights) interleaved with history-only and full flushes on a valid chain, no operation fails, the invariant FullInv (UTXO representation + history invariant + file/tx-count layer + flush-state assertions) holds after every step, and after a full flush all_utxos, limited_history (every limit), utxo_count and tx_count equal the specification of the chain; the tx-number files are proved to resolve every tx number to the (hash, height) of the specification.  Back-outs and re-opens are covered by the C03/C04/C15 theorems per operation, not yet as operations of the whole-run theorem.  The index suite compares every table after every operation and every observable with the Lean specification at every fully flushed state.',
    'level_note': 'server-level glue (fetch loop, flush policy under cache pressure, on_caught_up, reorg_chain, clean restarts) is not modelled in Lean: it is judged by suite sync on the real processing task against the Lean specification of the chain at every moment clients are told a height; trusted: Lean kernel + 3 standard axioms; the hand-written concrete model EV/Model/Index.lean corresponds to the code as far as suite index exercises it (real LevelDB, real block files); SHA-256 is not modelled (txid uniqueness is a hypothesis)',
    'technique': 'Lean 4 refinement proof (generic store interface + concrete instance) + differential correspondence',
}

SPEC = {
    'module': 'EV.Props.C01',
    'theorems': ['EV.Index.C01_block', 'EV.Index.C01_count', 'EV.Index.C01_all_utxos', 'EV.Index.C01_init',
                 'EV.Index.sysIface', 'EV.Index.advanceTxs_spec', 'EV.Index.C01_flush',
                 'EV.Index.C01run_refinement', 'EV.Index.C01run_steps', 'EV.Index.C01run_observables',
                 'EV.Index.C01run_end_to_end', 'EV.Index.C01run_resolve', 'EV.Index.C01run_file_readers',
                 'EV.SyncLoop.C01sync_told', 'EV.SyncLoop.C01sync_observables', 'EV.SyncLoop.C01sync_first_catchup_silent'],
    'claims': {'exclude_tags': ['after_backup', 'after_restart', 'window'], 'violation_tags': ['utxo']},
    'suites': ['index', 'sync'],
    'design_ref': 'DESIGN.md §6.0, §6 C01',
    'assumptions': [
        'valid chain: every non-generation input names an output unspent at that point; txids pairwise distinct (BIP30 / SHA-256d collision freedom)',
        'widths: tx numbers < 2^40, values < 2^63, flush ids < 2^16 (beyond them struct.pack raises or truncates; not modelled)',
        'LevelDB batches are atomic and iteration is in key order; the model is tied to BlockProcessor/DB/History by differential execution on a real LevelDB, not by proof',
    ],
    'level_text': 'proof: the transaction loop of advance_block is proved to compute the specification fold for every valid block over ANY store implementing the representation interface, and the real layout (cache + h/u rows with 4-byte prefix collisions + queued deletes, resolved through the tx-number files) is proved to implement it; the UTXO batch of a flush is proved to turn the rows into exactly the represented set; all_utxos on a flushed store is proved to return that set.  These layers are composed into one refinement theorem over whole runs (C01run_refinement / C01run_end_to_end): for EVERY sequence of block advances (any daemon heights) interleaved with history-only and full flushes on a valid chain, no operation fails, the invariant FullInv (UTXO representation + history invariant + file/tx-count layer + flush-state assertions) holds after every step, and after a full flush all_utxos, limited_history (every limit), utxo_count and tx_count equal the specification of the chain; the tx-number files are proved to resolve every tx number to the (hash, height) of the specification.  Server level (EV.SyncLoop, C01sync_told / C01sync_observables): for every batching of the blocks, every placement of history-only / full flushes requested by the cache-size loop and every placement of on_caught_up calls, the processing loop never fails and at every moment clients are told a height the index is fully flushed and all_utxos / limited_history / counts equal the specification of the chain up to exactly that height; the event trace of the real task is replayed on this model by suite sync.  Back-outs and restarts are operations of the whole-run theorem of C03 (C03run_refinement).  The index suite compares every table after every operation and every observable with the Lean specification at every fully flushed state.',
    'level_note': 'the forward part of the server glue (advance_blocks with forced flushes, on_caught_up) is modelled (EV.SyncLoop) and tied by trace replay; reorg_chain, the fetch loop and restarts are judged by suite sync on the real processing task against the Lean specification of the chain at every moment clients are told a height; trusted: Lean kernel + 3 standard axioms; the hand-written concrete model EV/Model/Index.lean corresponds to the code as far as suite index exercises it (real LevelDB, real block files); SHA-256 is not modelled (txid uniqueness is a hypothesis)',
    'technique': 'Lean 4 refinement proof (generic store interface + concrete instance) + differential correspondence',
}

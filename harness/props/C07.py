SPEC = {
    'module': 'EV.Props.C07',
    'theorems': ['EV.System.C07_converge', 'EV.System.C07_invariant', 'EV.System.inv_step',
                 'EV.System.C07_counterexample_stale_subscribe', 'EV.System.C07_counterexample_overtaken',
                 'EV.SyncLoopT.C07carrier_block', 'EV.SyncLoopT.C07carrier_backout', 'EV.SyncLoopT.C07carrier_confState',
                 'EV.SyncLoopT.C07carrier_advance', 'EV.SyncLoopT.C07carrier_backup', 'EV.SyncLoopT.C07carrier_flush',
                 'EV.SyncLoopT.C07carrier_resets', 'EV.SyncLoopT.C07carrier_loop', 'EV.SyncLoopT.C07carrier_consecutive',
                 'EV.SyncLoopT.C07carrier_first', 'EV.SyncLoopT.C07carrier_reads', 'EV.SyncLoopT.C07carrier_forward'],
    'suites': ['notifcache', 'system', 'sync'],
    # of the shared sync suite, C07 relies on the trace replay (touched sets handed to Notifications)
    'claims': {'sync': {'violation_tags': ['glue'], 'disagreement_tags': ['glue']}},
    'design_ref': 'DESIGN.md §6 C07, §11',
    'assumptions': [
        'the change x / carrier abstraction: a change of a script hash\'s true status is modelled as one event that also puts it into the carrier.  Its block side is proved (C07carrier_loop / _consecutive / _first / _reads: at every Notifications.on_block call the touched set handed over contains every script hash whose confirmed history or UTXO set, as readable from the index at that moment, differs from what was readable at the previous call - the first time: when caught_up was set - for every batching, flush placement and admissible reorganisation; tied to the real task by the trace replay of suite sync), Notifications then drops nothing (C20_no_loss / C20_complete), the mempool side is C08_touched.  Still assumed: the composition of these three theorems with the version abstraction is by hand (a status is a function of confirmed state + mempool summaries), restarts lose all sessions, and the unconfirmed->confirmed transition of a tx is covered from both sides (the block\'s touched list contains its script hashes; the mempool refresh that drops it reports them as well)',
        'a script hash\'s status is abstracted to a version number; the mempool part of the status is read without suspension (true of MemPool.transaction_summaries)',
        'TCP back-pressure, the 30 s notify timeout and cost throttling are not modelled (a session closed by them holds no status)',
        'the cutting of limited_history / _notify_inner into atomic steps is validated on the real classes (suite notifcache), not proved',
    ],
    'level_text': 'proof (partial): over the version/carrier abstraction, for every interleaving of history changes, notifications, subscribes, queries, worker reads and read completions, every subscriber\'s held status is current or its script hash is still carried / being recomputed (inductive invariant), hence at rest every held status is current; the pinned behaviours (stale read accepted: F5; batched sends overtaken: F15) are refuted by machine-checked schedules.  The model is tied to the real SessionManager and ElectrumX sessions by exhaustive interleaving with a suspending fake DB (every state compared), and the real server stack is judged end-to-end at quiescence after every phase of generated histories (blocks, natural and forced reorgs incl. same-height siblings, mempool changes, cache-pressure flushes, 1-3 sessions) against statuses computed from the daemon only, tip header included; height-carrying notifications are checked against the heights the DB has held.',
    'level_note': 'trusted: Lean kernel + 3 axioms; abstraction of statuses to versions; suites notifcache and system as the tie; asyncio semantics',
    'technique': 'Lean 4 inductive invariant of an interleaving transition system + differential correspondence on the real session layer + end-to-end oracle under a seeded virtual-time scheduler',
}

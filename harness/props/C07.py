SPEC = {
    'module': 'EV.Props.C07',
    'theorems': ['EV.System.C07_converge', 'EV.System.C07_invariant', 'EV.System.inv_step',
                 'EV.System.C07_counterexample_stale_subscribe', 'EV.System.C07_counterexample_overtaken'],
    'suites': ['notifcache', 'system'],
    'design_ref': 'DESIGN.md §6 C07, §11',
    'assumptions': [
        'every change of a script hash\'s true status travels in a touched set until _notify_sessions receives it (justified by C01-C03, C08, C20; abstracted as the carrier set)',
        'a script hash\'s status is abstracted to a version number; the mempool part of the status is read without suspension (true of MemPool.transaction_summaries)',
        'TCP back-pressure, the 30 s notify timeout and cost throttling are not modelled (a session closed by them holds no status)',
        'the cutting of limited_history / _notify_inner into atomic steps is validated on the real classes (suite notifcache), not proved',
    ],
    'level_text': 'proof (partial): over the version/carrier abstraction, for every interleaving of history changes, notifications, subscribes, queries, worker reads and read completions, every subscriber\'s held status is current or its script hash is still carried / being recomputed (inductive invariant), hence at rest every held status is current; the pinned behaviours (stale read accepted: F5; batched sends overtaken: F15) are refuted by machine-checked schedules.  The model is tied to the real SessionManager and ElectrumX sessions by exhaustive interleaving with a suspending fake DB (every state compared), and the real server stack is judged end-to-end at quiescence after every phase of generated histories (blocks, natural and forced reorgs incl. same-height siblings, mempool changes, cache-pressure flushes, 1-3 sessions) against statuses computed from the daemon only, tip header included; height-carrying notifications are checked against the heights the DB has held.',
    'level_note': 'trusted: Lean kernel + 3 axioms; abstraction of statuses to versions; suites notifcache and system as the tie; asyncio semantics',
    'technique': 'Lean 4 inductive invariant of an interleaving transition system + differential correspondence on the real session layer + end-to-end oracle under a seeded virtual-time scheduler',
}

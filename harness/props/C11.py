SPEC = {
    'module': 'EV.Props.C11',
    'theorems': ['EV.HeaderCache.C11_header_inv', 'EV.HeaderCache.C11_header_proof', 'EV.HeaderCache.inv_step',
                 'EV.Merkle.bar_root', 'EV.Merkle.bar_fold', 'EV.Merkle.tsc_spec', 'EV.Merkle.cache_correct'],
    'suites': ['headercache', 'system'],
    'entry': {'system': 'run_proofs'},
    'design_ref': 'DESIGN.md §6 C11',
    'assumptions': [
        'one extension of the header cache in flight at a time in the Lean model (concurrent extensions are exercised by the suites only)',
        'the header merkle root field of a block is the merkle root of its txids (validity of the daemon\'s blocks); block hashes are SHA-256d of the headers (not modelled)',
        'asyncio delivers a worker thread\'s result only at an await; MerkleCache.truncate runs in the worker thread of the back-out (thread-safety at bytecode granularity is not modelled)',
        'requests overlapping a back-out may be answered for the chain held at some instant of the request, or fail with an error; only quiescent-state answers are judged',
    ],
    'level_text': 'proof (partial): the header merkle cache is proved consistent with the DB\'s block hashes in every state reachable by any interleaving of extension start / worker read / extension finish / back-out with truncate / new blocks (the protocol of the repaired _extend_to), and a header proof answered through it is proved to be the from-scratch branch and Bitcoin merkle root of the current first cp+1 block hashes (composition with C12, whose theorems cover classic and TSC branches, direct and cached paths).  Which tx-hash list a transaction proof folds (tx table + by-height cache clearing) and the cutting of the coroutines into atomic steps are validated by the suites: the real MerkleCache under all interleavings up to a bound, and the real server with every proof of every block folded by an independent verifier after every phase of every generated history (incl. the F7 interleaving).',
    'level_note': 'trusted: Lean kernel + 3 axioms; model/code tie by suites headercache (exhaustive interleavings on the real MerkleCache) and system (real server stack under a seeded virtual-time scheduler)',
    'technique': 'Lean 4 inductive invariant over an interleaving transition system + composition with the C12 theorems + differential correspondence / end-to-end oracle',
}

SPEC = {
    'module': 'EV.Props.C11bind',
    'theorems': ['EV.HeaderCache.C11_header_safe', 'EV.HeaderCache.C11_header_current',
                 'EV.HeaderCache.C11_header_inv', 'EV.HeaderCache.ref_window', 'EV.HeaderCache.C11_header_proof',
                 'EV.HeaderCache.C11_header_refused', 'EV.HeaderCache.C11_header_never_wrong',
                 'EV.HeaderCache.seen_sound', 'EV.HeaderCache.inv_step', 'EV.HeaderCache.deliver_ok',
                 'EV.HeaderCache.s9_init',
                 'EV.HeaderCache.F17_counterexample', 'EV.HeaderCache.F18_counterexample',
                 'EV.HeaderCache.F19_counterexample',
                 'EV.HeaderCache.F24_counterexample',
                 'EV.HeaderCache.C11_reply_safe', 'EV.HeaderCache.C11_reply_header', 'EV.HeaderCache.C11_reply_chunk',
                 'EV.HeaderCache.C11_plain_reply', 'EV.HeaderCache.C11_header_started', 'EV.HeaderCache.rootFromProof_inj',
                 'EV.HeaderCache.C11_header_progress', 'EV.HeaderCache.C11_header_progress_reachable',
                 'EV.Merkle.bar_root', 'EV.Merkle.bar_fold', 'EV.Merkle.tsc_spec', 'EV.Merkle.cache_correct',
                 'EV.TxCache.seen_sound', 'EV.TxCache.C11_tx_safe', 'EV.TxCache.C11_tx_fold', 'EV.TxCache.C11_tx_unchanged',
                 'EV.TxCache.C10_tx_hit_current', 'EV.TxCache.C10_tx_caches', 'EV.TxCache.ref_window',
                 'EV.TxCache.C11_tx_never_wrong', 'EV.TxCache.C11_tx_outside', 'EV.TxCache.C11_tx_refused',
                 'EV.TxCache.inv_step', 'EV.TxCache.dbInv_step', 'EV.TxCache.readTx_got', 'EV.TxCache.readHdr_got',
                 'EV.TxCache.merkleBranch_ok', 'EV.TxCache.ch3_init',
                 'EV.TxCache.stale_hit_counterexample', 'EV.TxCache.stale_hit_counterexample_merkle',
                 'EV.TxCache.C11_1_counterexample', 'EV.TxCache.C10_1_counterexample', 'EV.TxCache.C10_3_counterexample',
                 'EV.TxCache.tsc_sanity_counterexample', 'EV.TxCache.fifo_needed_counterexample',
                 'EV.TxCache.C11_tx_binds', 'EV.HeaderCache.C11_header_binds'],
    'suites': ['headercache', 'txcache', 'system'],
    'entry': {'system': 'run_proofs'},
    'design_ref': 'DESIGN.md §6 C11',
    'assumptions': [
        'C11_tx_binds / C11_header_binds (EV/Props/C11bind.lean: the by-position transaction answer and the header proof are binding - no other tx id or branch of that length verifies at pos against the block\'s merkle root) carries the explicit hypothesis Collisionless H (H a b = H c d -> a = c and b = d), satisfied by the free term hash, NOT claimed for double-SHA256; it goes beyond the property text and no check outcome depends on it',
        'header-proof replies: headers are modelled by their hashes (coin.header_hash, the leaves of the tree); the '
        'statement "the header of the reply IS the header at that height of the chain proven" (C11_reply_header) needs '
        'the hash to have no collision a fold could meet (predicate Cancel: H e a = H e b -> a = b and H a e = H b e -> '
        'a = b; implied by collision-freedom of SHA-256d, witnessed by the free term constructor); without it '
        'C11_reply_safe still gives: the reply folds, and branch and root are those of ONE chain visible during the request',
        'block.headers: the proof is of the LAST header; that the other headers of the reply belong to the same chain '
        '(C11_reply_chunk) needs chains to be linked by their hashes (hypothesis hlink: equal block hash at a height => '
        'equal hashes below; true of real chains - each header contains its predecessor\'s hash - and of the suite\'s '
        'fresh names); MAX_CHUNK_SIZE clamp, argument validation and cost accounting of the two handlers are C16/C17\'s '
        '(EV.Rpc), not modelled here',
        'atomicity granularity of the header-proof model: event-loop code between two awaits is atomic (one thread); a '
        'worker-thread read (DB.read_headers) is one atomic step that sees DB.state.height as it is then; a back-out is cut, '
        'per block, into its two effects on readers - DB.state lowered (one attribute store, in the worker thread of '
        'backup_block / flush_backup) and header_mc.truncate (on the event-loop thread, in BlockProcessor.backup_and_truncate '
        'after the awaited job, under the state lock and inside the shield) - with arbitrary event-loop steps and reads in '
        'between.  That no MerkleCache code runs off the event-loop thread is NOT assumed: suite headercache measures on every '
        'run on which thread each effect happens (derive_placement) and its preemption probe stops either thread before '
        'every line of MerkleCache code it executes (sys.settrace) while the other thread serves a whole request / runs a whole '
        'back-out job; with the truncation in the worker thread both directions give a failing schedule (F23, fixed).  '
        'Still not modelled: thread preemption inside read_headers (state.height sampled, file read later)',
        'the header cache has been initialised consistently with the visible chain (MerkleCache.initialize finished; C12 '
        'cache_init) before the first modelled event; initialize() running concurrently with a back-out below its '
        'length (deeper than REORG_LIMIT) is outside the model',
        'new blocks become visible to readers atomically and only when no back-out is half done: flush_dbs writes the '
        'headers before it raises DB.state, and the block processor awaits each flush job (read off the source; the '
        'suite emulates append in that order, it does not run flush_dbs)',
        'header proofs are always requested with tsc_format=False (DB.header_branch_and_root); cp_height/height are '
        'non-negative ints (session argument validation, C16)',
        'the header merkle root field of a block is the merkle root of its txids (validity of the daemon\'s blocks); '
        'block hashes are SHA-256d of the headers (not modelled)',
        'atomicity granularity of the tx-cache model (EV.TxCache): event-loop code between two awaits is atomic '
        '(_merkle_branch never suspends: tx_hashes_func returns without yielding); a worker-thread read '
        '(DB.fs_tx_hashes_at_blockheight, DB.read_headers) is ONE atomic step that sees DB.state.height, DB.tx_counts and '
        'the files as they are then; backup_block is cut into its two effects on readers (tx_counts.pop(), DB.state '
        'lowered) and flush_dbs into its two (files written, DB.state raised) - orders measured on the source by suite '
        'txcache - with arbitrary event-loop steps and reads in between.  Bytecode-level preemption INSIDE one read '
        '(a complete back-out plus the advance of a new block between two statements of fs_tx_hashes_at_blockheight) '
        'is not modelled',
        'scheduling (Cfg.fifo): the _handle_chain_reorgs task, woken by backed_up_event.set(), runs before the block '
        'processor advances the next block (asyncio ready queue is FIFO and run_with_lock creates a task, so the block '
        'processor needs at least one more loop iteration).  Necessary (fifo_needed_counterexample); validated on a real '
        'event loop with the real reorg_chain / advance_blocks / run_in_thread by the sched check of suite txcache',
        'reorg_chain always reaches backed_up_event.set() after a back-out: its early return ("block ... is not tip") is '
        'unreachable on a consistent DB (the hashes come from the DB\'s own headers) and is not modelled',
        'LRU eviction only removes entries: modelled as evict events at any time (a superset of pylru)',
        'transaction-proof requests are well-typed (height / position non-negative ints, tx hash 32 bytes: C16) and TSC '
        'proofs are requested with txid_or_tx="txid" (with "tx" there is one more await - of the daemon - after the proof '
        'is complete)',
        'the composed fold statement for HEADER proofs (root_from_proof of the hash at `height` with the returned branch gives the returned root) is not a theorem ("by C12" in a docstring); it exists for transaction proofs only (C11_tx_fold)',
        'the blockchain.block.header(h, cp) / block.headers(..., cp) RESPONSE AS A WHOLE is not modelled: Req has no header field; raw_header and _merkle_proof are separate awaits in session.py, so a reorganisation forking at or below h that completes between them gives an orphaned header together with a branch for the new chain (the TSC path has a sanity check against exactly this, the header path has none); suites enter at _merkle_proof / judge the header at rest only (code reading, not executed; a likely defect, not recorded as a finding)',
        'no progress theorem for header requests: Req.Safe is True for .error / .refused / still-active requests, so a model in which every delivery fails satisfies every header theorem; that requests without an overlapping back-out end in an answer is validated by suite headercache only',
        'the ghost field Req.bo (a back-out overlapped the request) has no soundness lemma of the kind seen_sound gives for Req.seen',
    ],
    'level_text': 'proof (both halves; the transaction-proof half on EV.TxCache: any number of id_from_pos / get_merkle / '
                  'get_tsc_merkle requests, each a program counter over its real awaits incl. the _reorg_count re-read loop, the by-height '
                  'caches, LRU evictions, back-outs and advances cut into their effects on readers, the reorg task as a later event: '
                  'C11_tx_safe - every answer is computed from the tx list of a block that was at that height on a chain visible '
                  'between the request\'s start and its answer, composed with C12 in C11_tx_fold; C10_tx_caches at quiescence; '
                  'counterexamples for the unfixed variants incl. F20).  Header half (requests are the WHOLE block.header / block.headers handlers: header read, proof, consistency check and re-read; C11_reply_safe / C11_reply_header: the reply as a whole folds and its header is the header of the chain proven; C11_header_progress; F24 counterexample): the Lean model has ANY NUMBER of '
                  'concurrent block.header(height, cp) requests, each a program counter over every await of '
                  'MerkleCache.branch_and_root/_extend_to/_level_for with each read cut into issue / worker-thread '
                  'perform against the hashes visible then / deliver, back-outs cut, per block, into their two effects (DB.state lowered by the worker thread, header_mc.truncate by the event-loop thread) in the order measured '
                  'from the source, and new blocks.  Proved for all event sequences (unbounded, by an inductive '
                  'invariant): every answer is the from-scratch branch and Bitcoin merkle root of the first cp+1 hashes '
                  'of a chain that was visible at some moment between the request\'s start and its answer and that '
                  'reaches the checkpoint (linearizability; C11_header_safe, seen_sound), it is the chain visible at the '
                  'answer when no back-out overlapped the request (C11_header_current), the cache is consistent with the '
                  'visible chain whenever no back-out is half done and with the pre-back-out chain in the window '
                  '(C11_header_inv), out-of-range requests are refused and no request ends in a wrong answer '
                  '(C11_header_refused, C11_header_never_wrong).  The three defects of the pinned code are machine-checked '
                  'counterexamples under the respective variant flag (F17 concurrent extensions, F18 truncate before the '
                  'state is lowered, F19 truncation between _extend_to and _level_for), replayed on the real code by the '
                  'suite corpus.  Composition with C12 gives fold/length/TSC.  The cutting into atomic steps and the '
                  'literalness of the model are validated by suite headercache: the real _merkle_proof / '
                  'header_branch_and_root / MerkleCache / fs_block_hashes / read_headers coroutines and the real '
                  'flush_backup (second thread, held between its two effects; order measured from the source and fed to '
                  'the model) against the model after every event, exhaustively per scope up to 7..13 events plus seeded '
                  'schedules, with an independent plain-Python oracle for the safety clause.  Transaction proofs: suite '
                  'system (real server, every proof of every block folded by an independent verifier after every phase of '
                  'every generated history).',
    'level_note': 'trusted: Lean kernel + 3 axioms; model/code tie by suites headercache (real coroutines stepped read by '
                  'read, real flush_backup thread) and system (real server stack under a seeded virtual-time scheduler)',
    'technique': 'Lean 4 inductive invariant over an interleaving transition system with unboundedly many request '
                 'program counters and a ghost history (linearizability) + composition with the C12 theorems + '
                 'differential correspondence / independent oracle',
}

SPEC = {
    'module': 'EV.Props.C04',
    'theorems': ['EV.Index.C04_cut_before_utxo_batch', 'EV.Index.C04_cut_before_getTxnums',
                 'EV.Index.C04_cut_before_memory', 'EV.Index.C04_cut_after_utxo_batch', 'EV.Index.C04_crash',
                 'EV.Index.C04_crash_observables', 'EV.Index.C04_recovery_idempotent',
                 'EV.Index.C04_counterexample_after_compaction', 'EV.Index.cutAt_mem_cuts'],
    'suites': ['crash'],
    'entry': {'crash': 'run'},
    'design_ref': 'DESIGN.md §6 C04, §7.3, §8 F9',
    'assumptions': [
        'LevelDB write batches (write_batch(transaction=True, sync=True)) and single puts are atomic and durable; a killed process loses no completed write() (process-crash file semantics, not power loss)',
        'FlushPre of the state a flush starts from: History.flush_count in memory equals the stored one and is not below the UTXO flush count (false exactly after a compaction whose final set_flush_count was lost: finding F9, machine-checked counterexample); no history row above the history flush count; files written ahead of, never behind, the UTXO state and covering the committed height / tx count',
        'the observables of the two endpoint states (restart on the store before the flush, restart on the store of the complete flush) are those of a clean index at their heights: C01/C02 (hypotheses h0/h1 and tx-count monotonicity of C04_crash_observables)',
        'resuming sync after the restart is the ordinary sync from a committed state (C01/C02); validated end to end by the suite on every cut, not separately proved',
    ],
    'level_text': 'proof: for the ordered effect list of DB.flush_dbs (three file writes, history batch, UTXO batch, direct state put) and EVERY cut of it (between effects or inside a file write at any record), restarting with _open_dbs yields the committed state from before the flush (cuts without the UTXO batch: same tables, state records, in-memory state, committed file prefixes, same _read_tx_counts outcome; every read-path answer identical) or the store of the complete flush (cuts containing it); a second crash inside recovery\'s own batches followed by another restart gives the same system; the hypothesis excluded by F9 is shown necessary by a machine-checked counterexample.  Validated, not proved: byte-level torn writes inside a record, LevelDB itself, and the resume-to-the-end equality, all exercised on the real code for every cut of every flush of generated runs.',
    'level_note': 'trusted: Lean kernel + 3 axioms; model/code tie by suite crash (real flush_dbs/open_for_sync on LevelDB with crash injection by wrapping objects from outside) and suite index; LevelDB batch atomicity',
    'technique': 'Lean 4 theorems over an effect/cut model of the flush protocol + exhaustive crash injection into the real code (differential vs model, direct oracle vs specification)',
}

SPEC = {
    'module': 'EV.Props.C06',
    'theorems': ['EV.Shutdown.C06_mutex', 'EV.Shutdown.C06_no_second_job', 'EV.Shutdown.C06_counterexample_unlocked_flush'],
    'suites': ['shutdown'],
    'design_ref': 'DESIGN.md §6 C06',
    'assumptions': [
        'asyncio delivers cancellation only at awaits; asyncio.shield keeps the inner task (and its worker job) running; asyncio.Lock is a mutex; executor threads are joined at interpreter exit',
        'once writer jobs are serialised, the persistent state after each of them is consistent (C01-C04) and the shutdown flush stores every block advanced before it; that composition is judged end-to-end by the suite (reopen + comparison with the Lean specification), not proved',
        'a SIGKILL during the final flush is C04, not C06',
    ],
    'level_text': 'proof (partial): for every event sequence obeying the locking discipline as implemented (writer jobs started by the task that holds state_lock, the lock released only after the job returned, the holder shielded from cancellation) at most one writer job runs and a second one cannot start while it does - so the shutdown flush waits for whatever is in flight; the pinned code (F6) is shown to break the discipline.  The real task is tied to the discipline by trace inclusion (lock and job events of every run must be accepted by the monitor model) with the shutdown request injected at every scheduling point of initial sync / caught-up / natural reorg / forced reorg runs, worker jobs gated at every storage effect; after the task returns the database is reopened by fresh objects and every observable is compared with the Lean specification of the chain at the stored height, which must include every block finished before the request.',
    'level_note': 'trusted: Lean kernel + 3 axioms; the monitor abstracts the task to its lock/job events; asyncio semantics; the end-to-end consistency claim rests on the harness (real LevelDB, real loop)',
    'technique': 'Lean 4 invariant of a monitor automaton + trace inclusion of the real task + exhaustive cancellation-point injection with an end-state oracle',
}

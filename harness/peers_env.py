"""Build a real `PeerManager` (and real `Peer` objects) outside a running server, and call the real
`on_peers_subscribe` with `time.time` / `random.shuffle` under control.  Shared by
`harness/gen_consts.py` (behavioural observation of the caps) and `harness/suites/peers.py`."""
import contextlib
import os

from harness import common  # noqa: F401  (puts VERIF_REPO first on sys.path)

_ENV = {
    'DB_DIRECTORY': '/dev/shm',
    'DAEMON_URL': 'http://u:p@localhost:1/',
    'COIN': 'BitcoinSV',
    'NET': 'regtest',
    'PEER_DISCOVERY': 'off',
    'SERVICES': '',
    'REPORT_SERVICES': 'tcp://verif-self.example.org:50001,ssl://verifselfonionaddr.onion:50002',
}


@contextlib.contextmanager
def _environ(extra=None):
    saved = dict(os.environ)
    os.environ.clear()
    os.environ.update(_ENV)
    if extra:
        os.environ.update(extra)
    try:
        yield
    finally:
        os.environ.clear()
        os.environ.update(saved)


def make_peer_manager(extra_env=None):
    """A real PeerManager(env, db=None); env from os.environ as tests/server/test_env.py does."""
    from electrumx.server.env import Env
    from electrumx.server.peers import PeerManager
    with _environ(extra_env):
        env = Env()
    return PeerManager(env, None)


def make_peer(host, ip_addr=None, last_good=0, bad=False, marker=None, ports=None):
    """A real Peer with the given metadata.  `marker` (an int) is put into protocol_max so that the
    tuple returned by the real `to_tuple()` identifies the object."""
    from electrumx.lib.peer import Peer
    feats = {'hosts': {host: ports if ports is not None else {'tcp_port': 50001}}}
    if marker is not None:
        feats['protocol_max'] = f'1.{marker}'
    p = Peer(host, feats, source='verif', ip_addr=ip_addr, last_good=last_good)
    if bad:
        p.mark_bad()
    return p


def marker_of(tup):
    """Recover the marker from a `to_tuple()` result."""
    for d in tup[2]:
        if d.startswith('v1.'):
            return int(d[3:])
    raise ValueError(f'no marker in {tup!r}')


class OrderedPeerSet(set):
    """A `set` of Peer objects whose iteration order is the given order (a plain set of objects
    iterates in address order, which differs from run to run).  Used as `PeerManager.peers` so that a
    case is a deterministic function of the seed; the code only iterates and tests membership."""

    def __init__(self, items):
        items = list(items)
        super().__init__(items)
        self._order = items
        assert len(self._order) == len(self)

    def __iter__(self):
        return iter(self._order)


class ShuffleLog:
    """Replacement for `random.shuffle` inside electrumx.server.peers: applies a permutation chosen
    by `chooser(list) -> new order` and records (before, after) of every call."""

    def __init__(self, chooser):
        self.chooser = chooser
        self.calls = []

    def shuffle(self, lst):
        before = list(lst)
        after = list(self.chooser(before))
        self.calls.append((before, after))
        lst[:] = after


class _FakeRandom:
    def __init__(self, real, log):
        self._real = real
        self._log = log

    def shuffle(self, lst):
        return self._log.shuffle(lst)

    def __getattr__(self, name):
        return getattr(self._real, name)


class _FakeTime:
    def __init__(self, real, now):
        self._real = real
        self._now = now

    def time(self):
        return self._now

    def __getattr__(self, name):
        return getattr(self._real, name)


def call_on_peers_subscribe(pm, is_tor, now, chooser):
    """Run the real `PeerManager.on_peers_subscribe(is_tor)` at wall-clock `now` with the shuffles
    decided by `chooser`.  Module-level names of electrumx.server.peers are rebound from outside
    (DESIGN.md §3.3) and restored.  Returns (result list, ShuffleLog)."""
    import electrumx.server.peers as mod
    log = ShuffleLog(chooser)
    real_random, real_time = mod.random, mod.time
    mod.random = _FakeRandom(real_random, log)
    mod.time = _FakeTime(real_time, now)
    try:
        return pm.on_peers_subscribe(is_tor), log
    finally:
        mod.random, mod.time = real_random, real_time


def observe_caps():
    """Observe, through the real `on_peers_subscribe` on synthetic populations, the per-bucket cap
    and the three onion-cap parameters `cap_tor if is_tor else max(floor, len(peers) // div)`.
    Raises if the observations are not explained by that shape."""
    now = 10 ** 9

    def run(n_same_bucket, n_distinct_buckets, n_onion, is_tor):
        pm = make_peer_manager()
        pm.myselves = []
        peers = []
        m = 0
        for i in range(n_same_bucket):
            peers.append(make_peer(f'a{i}.example.com', f'11.22.{i // 250}.{i % 250 + 1}', now, marker=m))
            m += 1
        for i in range(n_distinct_buckets):
            peers.append(make_peer(f'b{i}.example.com', f'{20 + i // 250}.{i % 250}.1.1', now, marker=m))
            m += 1
        for i in range(n_onion):
            peers.append(make_peer(f'o{i}.onion', None, now, marker=m))
            m += 1
        pm.peers = set(peers)
        by_marker = {k: p for k, p in enumerate(peers)}
        out, _ = call_on_peers_subscribe(pm, is_tor, now, lambda l: l)
        got = [by_marker[marker_of(t)] for t in out]
        return (sum(1 for p in got if not p.is_tor), sum(1 for p in got if p.is_tor))

    clear, _ = run(40, 0, 0, False)
    bucket_cap = clear
    if not 1 <= bucket_cap < 40:
        raise RuntimeError(f'per-bucket cap not observable: {clear} of 40 same-bucket peers returned')
    _, cap_tor = run(0, 0, 400, True)
    if not 1 <= cap_tor < 400:
        raise RuntimeError(f'tor onion cap not observable: {cap_tor} of 400')
    _, floor = run(0, 0, 400, False)
    if not 0 <= floor < 400:
        raise RuntimeError(f'onion floor not observable: {floor} of 400')
    obs = []
    for c in (0, 7, 39, 40, 41, 43, 44, 100, 399, 400, 401, 403, 404, 1000):
        cl, on = run(0, c, 1500, False)
        if cl != c:
            raise RuntimeError(f'{c} peers in distinct buckets but {cl} returned')
        obs.append((c, on))
    divs = [d for d in range(1, 1001) if all(on == max(floor, c // d) for c, on in obs)]
    if len(divs) != 1:
        raise RuntimeError(f'onion share not of the form max({floor}, n // d): {obs}')
    # the tor cap does not depend on the clearnet part
    _, cap_tor2 = run(0, 1000, 1500, True)
    if cap_tor2 != cap_tor:
        raise RuntimeError(f'tor onion cap varies with the clearnet part: {cap_tor} vs {cap_tor2}')
    return {'bucketCap': bucket_cap, 'onionCapTor': cap_tor, 'onionFloor': floor, 'onionDiv': divs[0]}

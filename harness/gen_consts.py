"""Regenerate lean/EV/Gen/Consts.lean from /repo's working tree by *importing the real modules*
and reading / observing the values the models depend on.  Returns a description of what changed
(or '' when the file is already up to date)."""
import os

from harness import common

OUT = os.path.join(common.LEAN_DIR, 'EV', 'Gen', 'Consts.lean')


def collect():
    consts = []   # (name, lean type, lean value, comment)
    from electrumx.lib.hash import HASHX_LEN
    consts.append(('hashXLen', 'Nat', str(HASHX_LEN), 'electrumx.lib.hash.HASHX_LEN'))
    from electrumx.server.history import History
    consts.append(('maxHistRowEntries', 'Nat', str(History().max_hist_row_entries),
                   'electrumx.server.history.History().max_hist_row_entries'))
    # --- C19 (peers)
    import electrumx.server.peers as _peers_mod
    from harness import peers_env
    consts.append(('staleSecs', 'Int', str(int(_peers_mod.STALE_SECS)), 'electrumx.server.peers.STALE_SECS'))
    try:
        _caps, _caps_note = peers_env.observe_caps(), 'observed'
    except Exception as _e:
        _caps = {'bucketCap': 0, 'onionCapTor': 0, 'onionFloor': 0, 'onionDiv': 1}
        _caps_note = 'NOT OBSERVABLE: ' + str(_e).replace('-/', '- /')[:150]
    consts.append(('peersCapsObserved', 'Bool', 'true' if _caps_note == 'observed' else 'false',
                   f'on_peers_subscribe caps: {_caps_note}'))
    consts.append(('bucketCap', 'Nat', str(_caps['bucketCap']), 'on_peers_subscribe: bucket_peers[:N] (observed)'))
    consts.append(('onionCapTor', 'Nat', str(_caps['onionCapTor']), 'on_peers_subscribe: onion cap for a tor requester (observed)'))
    consts.append(('onionFloor', 'Nat', str(_caps['onionFloor']), 'on_peers_subscribe: onion floor (observed)'))
    consts.append(('onionDiv', 'Nat', str(_caps['onionDiv']), 'on_peers_subscribe: onion divisor (observed)'))
    consts += daemon_consts()
    consts += _txcodec_consts()
    from harness import gen_rpc
    consts += gen_rpc.collect()
    # --- C08/C09 (mempool)
    from harness import mempool_env
    consts.append(('mempoolChunk', 'Nat', str(mempool_env.observe_chunk_size()),
                   'MemPool._process_mempool: size of the raw_transactions batches (observed on 1000 new hashes)'))
    return consts


def daemon_consts():
    """C18: `Daemon.WARMING_UP` and the defaults of `Daemon.__init__(…, init_retry, max_retry)`.
    The two retry times are exact binary fractions; they are expressed as integers over their
    common denominator (`daemonRetryDen` units per second)."""
    import inspect
    from fractions import Fraction
    from math import lcm
    from electrumx.server.daemon import Daemon
    wu = Daemon.WARMING_UP
    if not isinstance(wu, int) or isinstance(wu, bool):
        raise TypeError(f'Daemon.WARMING_UP is not an int: {wu!r}')
    params = inspect.signature(Daemon.__init__).parameters
    init = Fraction(params['init_retry'].default)
    mx = Fraction(params['max_retry'].default)
    if init < 0 or mx < 0:
        raise ValueError('negative retry default')
    den = lcm(init.denominator, mx.denominator)
    return [
        ('daemonWarmingUp', 'Int', str(wu), 'electrumx.server.daemon.Daemon.WARMING_UP'),
        ('daemonRetryDen', 'Nat', str(den),
         'units per second in which the two retry defaults below are integers'),
        ('daemonInitRetry', 'Nat', str(int(init * den)),
         'default of Daemon.__init__(init_retry=…) in units of 1/daemonRetryDen s (inspect.signature)'),
        ('daemonMaxRetry', 'Nat', str(int(mx * den)),
         'default of Daemon.__init__(max_retry=…) in units of 1/daemonRetryDen s (inspect.signature)'),
    ]


def _txcodec_consts():
    """C13: OnDiskBlock.chunk_size, and the exception classes that the refill loops of
    `iter_txs` / `_chunk_offsets` catch -- observed behaviourally: a stub Deserializer raises one
    instance of each class from the first transaction read; the class is *caught* iff the loop goes
    on to refill (which ends in the RuntimeError of an empty read on the stub file)."""
    import io
    import struct
    from electrumx.server import block_processor as bp

    candidates = [('AssertionError', AssertionError), ('IndexError', IndexError),
                  ('struct.error', struct.error), ('ValueError', ValueError),
                  ('KeyError', KeyError), ('TypeError', TypeError),
                  ('OverflowError', OverflowError), ('LookupError', LookupError),
                  ('ArithmeticError', ArithmeticError), ('EOFError', EOFError),
                  ('MemoryError', MemoryError), ('OSError', OSError)]

    def observe(method):
        caught = []
        for name, cls in candidates:
            class Stub:
                def __init__(self, buf, start=0):
                    self.cursor = start

                def read_varint(self):
                    self.cursor = 1
                    return 1

                def read_tx(self):
                    raise cls('probe')

                def read_tx_and_hash(self):
                    raise cls('probe')

            blk = bp.OnDiskBlock('00' * 32, 0, 90)
            blk.block_file = io.BytesIO(bytes(90))
            blk.block_file.seek(80)
            real = bp.Deserializer
            bp.Deserializer = Stub
            try:
                r = getattr(blk, method)()
                if r is not None and hasattr(r, '__next__'):
                    list(r)
                outcome = 'returned'
            except RuntimeError:
                outcome = 'caught'        # refilled until the file was empty
            except cls:
                outcome = 'escaped'
            finally:
                bp.Deserializer = real
            if outcome == 'caught':
                caught.append(name)
            elif outcome != 'escaped':
                raise RuntimeError(f'{method}: unexpected outcome {outcome} for {name}')
        return caught

    def lean_strs(xs):
        return '[' + ', '.join('"%s"' % x for x in xs) + ']'

    return [
        ('onDiskChunkSize', 'Nat', str(bp.OnDiskBlock.chunk_size),
         'electrumx.server.block_processor.OnDiskBlock.chunk_size'),
        ('iterTxsCaught', 'List String', lean_strs(observe('iter_txs')),
         'exception classes caught by the refill loop of OnDiskBlock.iter_txs (observed)'),
        ('chunkOffsetsCaught', 'List String', lean_strs(observe('_chunk_offsets')),
         'exception classes caught by the refill loop of OnDiskBlock._chunk_offsets (observed)'),
    ]


def render(consts):
    lines = ['/- GENERATED by harness/gen_consts.py from the real modules in /repo on every run.',
             '   Do not edit.  Only literal definitions live here. -/',
             'namespace EV.Gen', '']
    for name, ty, val, comment in consts:
        lines.append(f'/-- {comment} -/')
        lines.append(f'def {name} : {ty} := {val}')
        lines.append('')
    lines.append('end EV.Gen')
    return '\n'.join(lines) + '\n'


def regenerate():
    text = render(collect())
    old = open(OUT).read() if os.path.exists(OUT) else None
    if old == text:
        return ''
    os.makedirs(os.path.dirname(OUT), exist_ok=True)
    with open(OUT, 'w') as f:
        f.write(text)
    return 'created' if old is None else 'changed'


if __name__ == '__main__':
    print(regenerate() or 'up to date')

"""Behavioural observation of the constants the mempool model depends on (used by gen_consts.py)."""


def observe_chunk_size():
    """Size of the `raw_transactions` batches of `MemPool._process_mempool`: run the real method on
    1000 new hashes against a stub API that answers None for every raw transaction and read the
    sizes of the calls (expected: k full batches and one remainder)."""
    import asyncio
    from electrumx.server.mempool import MemPool, MemPoolAPI
    from electrumx.lib.coins import BitcoinSV

    sizes = []

    class API(MemPoolAPI):
        async def height(self):
            return 0

        def cached_height(self):
            return 0

        def db_height(self):
            return 0

        async def mempool_hashes(self):
            return []

        async def raw_transactions(self, hex_hashes):
            n = len(list(hex_hashes))
            sizes.append(n)
            return [None] * n

        async def lookup_utxos(self, prevouts):
            return [None for _ in prevouts]

        async def on_mempool(self, touched, height):
            pass

    n = 1000
    mp = MemPool(BitcoinSV, API())
    hashes = {i.to_bytes(32, 'big') for i in range(1, n + 1)}
    loop = asyncio.new_event_loop()
    try:
        loop.run_until_complete(mp._process_mempool(hashes, set(), 0))
    finally:
        loop.close()
    size = max(sizes)
    expect = [size] * (n // size) + ([n % size] if n % size else [])
    if sorted(sizes, reverse=True) != expect or size >= n:
        raise RuntimeError(f'cannot determine the mempool chunk size from batch sizes {sizes}')
    return size

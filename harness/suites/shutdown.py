"""Suite `shutdown` (C06): the real `fetch_and_process_blocks` task, worker jobs gated at every
storage effect, with the shutdown request (`shutdown_event.set()` + task cancellation, as
`Controller` does) injected at every scheduling point of a run; after the task has returned and the
worker jobs have drained, the database is reopened by fresh objects and compared with the Lean
specification of the chain up to the stored height; every block whose processing had completed
before the request must be included.

Direct oracle only for the end state (the protocol model `EV.Shutdown` is tied by the flush/lock
event trace: see `trace`)."""
import asyncio

from harness.common import SuiteResult, rng_for, run_evdrv
from harness.world.chaingen import Gen, be, hashx_of, NORMAL_SCRIPTS, UNSPENDABLE_SCRIPTS
from harness.world.daemon import SimDaemon
from harness.world.loop import Scheduler
from harness.world.realindex import RealIndex
from harness.world.server import World

SCRIPTS = NORMAL_SCRIPTS + UNSPENDABLE_SCRIPTS


def one_run(res, seed, idx, cancel_at, phase, job_bias, pressure=None):
    """Returns (fails, n_iterations, info).  cancel_at = loop iteration at which shutdown is requested
    (None: never; used to measure the length of the run)."""
    rng = rng_for(seed, 'shutdown', idx)
    act = rng.choice([0, 3, 1000])
    gen = Gen(rng, act)
    d = SimDaemon(gen, rng, latency=(0, 0.01))
    d.extend(rng.randrange(6, 9), max_txs=3)     # high enough for a depth-2 reorg (C03 condition)
    srng = rng_for(seed, 'shutdown-sched', idx, cancel_at if cancel_at is not None else -1)
    # cache pressure: what check_cache_size_loop does when the caches grow (its only effect is this
    # assignment; the chains here are far too small for the real thresholds): a history-only or a
    # full flush is requested at arbitrary moments
    prng = rng_for(seed, 'shutdown-pressure', idx, cancel_at if cancel_at is not None else -1)
    w = World(d, act, 5, Scheduler(srng, job_bias=job_bias, gated=True), gated_storage=True)
    fails = []
    completed = [-1]
    info = {}
    try:
        w.build()
        # record block completion (the advance job returned) from outside
        orig_adv = w.bp.advance_block

        def advance_block(block):
            if phase == 'initial_reorg' and state['phase_started'] is None and state.get('switched') \
                    and next(b for b in gen.blocks if b.hex_hash == block.hex_hash).parent.hash != w.bp.state.tip:
                # the block that reveals the reorganisation: the requests of this phase are injected
                # from here on (first of all while this very job is still running / undelivered)
                state['phase_started'] = w.loop.iterations
            orig_adv(block)
            if w.bp.reorg_count is None:
                completed[0] = w.bp.state.height
        w.bp.advance_block = advance_block
        orig_bk = w.bp.backup_block

        def backup_block(block):
            # a block being undone no longer counts as finished work
            completed[0] = min(completed[0], w.bp.state.height - 1)
            orig_bk(block)
        w.bp.backup_block = backup_block
        in_reorg = [False]
        orig_reorg = w.bp.reorg_chain

        async def reorg_chain(count):
            # whilst orphaned blocks are being backed out, "finished work" is what survives the
            # reorganisation: the kept-work clause is judged for forward processing only
            in_reorg[0] = True
            try:
                return await orig_reorg(count)
            finally:
                in_reorg[0] = False
        w.bp.reorg_chain = reorg_chain
        # ---- trace of the locking discipline (for the monitor model EV.Shutdown)
        trace = ['R']
        task_ids = {}

        def tid():
            try:
                t = asyncio.current_task()
            except RuntimeError:
                return 0
            return task_ids.setdefault(t, len(task_ids) + 1)

        class LogLock(asyncio.Lock):
            async def acquire(self):
                r = await super().acquire()
                trace.append(f'A {tid()}')
                return r

            def release(self):
                trace.append(f'L {tid()}')
                super().release()
        w.bp.state_lock = LogLock()
        orig_submit = w.loop.submit

        def submit(func, *args):
            name = getattr(func, '__name__', '')
            if name in ('flush_dbs', 'advance_block', 'backup_block'):
                t = tid()
                trace.append(f'JS {t}')

                def logged(*a, func=func, t=t):
                    try:
                        return func(*a)
                    finally:
                        trace.append(f'JE {t}')
                logged.__name__ = name
                return orig_submit(logged, *args)
            return orig_submit(func, *args)
        w.loop.submit = submit
        info['trace'] = trace
        w.spawn('bp', w.bp.fetch_and_process_blocks(w.caught_up_event, w.shutdown_event))
        w.run(d.height())
        state = {'phase_started': None, 'requested': False}

        def script(loop):
            if phase == 'initial_reorg' and not state.get('switched') and w.bp.state is not None \
                    and w.bp.state.height >= 2 and w.bp.state.height >= d.tip.height - 3:
                # (only once the server's tip is inside the undo window of the daemon's height: a fork
                # below the window during initial sync is fatal by design and outside C03/C15)
                # the daemon reorganises between two polls of the initial catch-up: the first batch is
                # being advanced (nothing flushed yet); the next poll's first block will not connect
                state['switched'] = True
                chain = d.tip.chain()
                # fork just below what the server has advanced so far (advanced, not flushed), and
                # make the new branch the longer one
                b = chain[w.bp.state.height - 1]
                while b.height <= d.tip.height:
                    b = gen.new_block(b, max_txs=3)
                d.switch(b)
            if pressure and w.bp.state is not None and prng.random() < 0.12:
                w.bp.force_flush_arg = {'hist': False, 'full': True}.get(pressure, prng.random() < 0.3)
                info['pressure_events'] = info.get('pressure_events', 0) + 1
            # environment: once caught up, feed the phase's events
            if phase != 'initial_reorg' and w.caught_up_event.is_set() and state['phase_started'] is None:
                state['phase_started'] = loop.iterations
                if phase == 'caught_up':
                    d.extend(2, max_txs=3)
                elif phase == 'reorg':
                    chain = d.tip.chain()
                    b = chain[max(0, d.tip.height - 2)]
                    for _ in range(3):
                        b = gen.new_block(b, max_txs=3)
                    d.switch(b)
                elif phase == 'forced_reorg':
                    w.bp.force_chain_reorg(2)
            start = 0 if phase == 'initial' else state['phase_started']
            if cancel_at is not None and not state['requested'] and start is not None \
                    and loop.iterations >= start + cancel_at:
                state['requested'] = True
                info['completed_at_request'] = -1 if in_reorg[0] else completed[0]
                info['height_at_request'] = w.bp.state.height if w.bp.state else None
                w.shutdown_event.set()
                w.tasks['bp'].cancel()
        w.loop.on_iteration = script

        async def wait_done():
            n = 0
            while not w.tasks['bp'].done():
                n += 1
                if n > 4000:
                    if cancel_at is None:
                        return          # an uninterrupted run: measured long enough
                    raise TimeoutError('the processing task did not return after the shutdown request')
                await asyncio.sleep(0.05)
            while w.loop.pending_jobs():
                await asyncio.sleep(0.01)
        try:
            w.run(wait_done())
        except TimeoutError as e:
            fails.append(('shutdown', str(e)))
        if w.errors:
            fails.append(('shutdown', f'the processing task failed with {w.errors[0][1]!r}'))
        info['iterations'] = w.loop.iterations - (0 if phase == 'initial' else (state['phase_started'] or 0))
        info['requested'] = state['requested']
        # ---- reopen and judge
        w.db.utxo_db.close()
        w.db.utxo_db = None
        w.db.history.close_db()
        if state['requested'] and not fails:
            fails += judge(w, d, gen, act, info)
    finally:
        try:
            for t in w.tasks.values():
                t.cancel()
            w.loop.run_until_complete(asyncio.sleep(0))
        except Exception:
            pass
        w.destroy()
    return fails, info


def judge(w, d, gen, act, info, reorg_limit=5):
    """Fresh DB objects on the directory; compare every observable with the Lean specification of
    the daemon's chain... of the *indexed* chain up to the stored height."""
    fails = []
    ri = RealIndex.__new__(RealIndex)
    import electrumx.server.db as dbmod
    import electrumx.server.block_processor as bpmod
    ri.dbmod, ri.bpmod = dbmod, bpmod
    ri.dir, ri.env, ri.reorg_limit = w.dir, w.env, reorg_limit
    from harness.world.realindex import FakeDaemon, Retry

    async def no_sleep(_s):
        raise Retry()
    dbmod.sleep = no_sleep
    import aiorpcx
    dbmod.run_in_thread = aiorpcx.run_in_thread     # the judge runs on an ordinary loop
    ri.daemon = FakeDaemon()
    ri.db = ri.bp = None
    r = ri.open()
    if r != 'ok':
        return [('reopen', f'the database does not open after shutdown: {r}')]
    h = ri.db.state.height
    if h < info.get('completed_at_request', -1):
        fails.append(('kept_work', f'block {info["completed_at_request"]} had been processed completely before the '
                                   f'shutdown request but the stored height is {h}'))
    # which chain is stored: find the generated block with the stored tip
    tip = next((b for b in gen.blocks if b.hash == ri.db.state.tip), None)
    if h >= 0 and tip is None:
        fails.append(('consistent', f'stored tip at height {h} is not a block of the daemon'))
        ri.close_dbs()
        return fails
    chain = tip.chain() if tip else []
    lines = [f'CFG {act} {reorg_limit}'] + [b.model_line() for b in chain] + ['S_CHAIN ' + ' '.join(str(b.id) for b in chain)]
    expect = ['ok'] * len(lines)
    def ask(fn, *a):
        # a corrupted database may make the read path itself raise: that is an answer, not a harness error
        try:
            return fn(*a)
        except Exception as e:   # noqa
            return f'raised {type(e).__name__}'
    for s in SCRIPTS:
        hx = hashx_of(s)
        lines.append(f'S_UTXOS {be(hx)}')
        expect.append(ask(ri.q_utxos, hx))
        lines.append(f'S_HIST {be(hx)} -')
        expect.append(ask(ri.q_hist, hx, None))
    for hh in range(len(chain)):
        lines.append(f'S_TXHASHES {hh}')
        expect.append(ask(ri.q_txhashes, hh))
    lines.append('S_STATE')
    expect.append(ask(ri.q_state))
    got = run_evdrv('index', lines)
    for l, e, g in zip(lines, expect, got):
        if e != g:
            fails.append(('consistent', f'after shutdown and reopen at height {h}: {l[:60]}: the database says '
                                        f'{e[:200]} but the chain up to that height implies {g[:200]}'))
            break
    ri.close_dbs()
    return fails


def run(tier, seed):
    res = SuiteResult('shutdown')
    res.rule = ('case = (chain, phase in {initial sync, caught up + new blocks, natural reorg, forced reorg}, scheduler seed, '
                'iteration at which shutdown is requested); the request is injected at every scheduling point of the phase '
                '(quick: a stride through them); worker jobs are gated at every storage effect so the request can land while '
                'a flush or a block advance is mid-way; non-trivial = the request lands while a worker job is running or queued')
    phases = ['initial', 'initial_reorg', 'caught_up', 'reorg', 'forced_reorg']
    all_traces = []
    nchains = 6 if tier == 'quick' else 12
    for idx in range(nchains):
        for phase in phases:
            for job_bias in ((0.3,) if tier == 'quick' else (0.2, 0.6)):
                pressure = [None, 'hist', 'mixed', 'full'][idx % 4] if tier != 'quick' else [None, 'hist', 'mixed'][idx % 3]
                # measure the phase length without a request
                _f, info0 = one_run(res, seed, idx, None, phase, job_bias, pressure)
                n = min(info0.get('iterations', 0), 400)
                stride = max(1, n // (16 if tier == 'quick' else 60))
                for k in sorted(set(range(0, min(n, 6))) | set(range(0, n, stride))):
                    fails, info = one_run(res, seed, idx, k, phase, job_bias, pressure)
                    res.note_case(f'{idx},{phase},{job_bias},{k},{pressure}', nontrivial=True)
                    res.bump('cache_pressure_events', info.get('pressure_events', 0))
                    res.bump(f'requests_in_phase_{phase}')
                    for c, dtl in fails:
                        if len(res.violations) < 3:
                            res.violations.append({'suite': 'shutdown', 'clause': c, 'detail': dtl, 'seed': seed,
                                                   'case': [idx, k, phase, job_bias, pressure]})
                    # the real trace must obey the discipline (monitor model) and, judged directly,
                    # never have two writer jobs running
                    trace = info.get('trace', ['R'])
                    running = 0
                    for ev in trace:
                        if ev.startswith('JS'):
                            running += 1
                            if running > 1 and len(res.violations) < 3:
                                res.violations.append({'suite': 'shutdown', 'clause': 'mutex',
                                                       'detail': 'two writer jobs (flush / advance / back-out) ran at the same time',
                                                       'seed': seed, 'case': [idx, k, phase, job_bias, pressure], 'trace': trace[-30:]})
                        elif ev.startswith('JE'):
                            running -= 1
                    all_traces.append(([idx, k, phase, job_bias, pressure], trace))
    lines = [l for _c, t in all_traces for l in t]
    got = run_evdrv('shutdown', lines)
    pos = 0
    for case, t in all_traces:
        out = got[pos:pos + len(t)]
        pos += len(t)
        if any(o == 'reject' for o in out) and len(res.disagreements) < 3:
            i = out.index('reject')
            res.disagreements.append({'suite': 'shutdown', 'case': case, 'seed': seed,
                                      'code': 'real trace: ' + ' '.join(t[max(0, i - 12):i + 1]),
                                      'model': f'rejects event {t[i]} (breaks the locking discipline)'})
    res.bump('trace_events', len(lines))
    res.sample({'phase': 'caught_up', 'request_at_iteration': 7, 'trace': all_traces[0][1][:24] if all_traces else []})
    return res


def replay(case):
    idx, k, phase, job_bias = case['case'][:4]
    pressure = case['case'][4] if len(case['case']) > 4 else None
    res = SuiteResult('x')
    fails, _info = one_run(res, case['seed'], idx, k, phase, job_bias, pressure)
    return [f'{c}: {d}' for c, d in fails]


def known_reproduces(finding):
    return bool(replay(finding['witness']))


def matches_known(violation, finding):
    return False

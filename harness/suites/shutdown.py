"""Suite `shutdown` (C06): the real `fetch_and_process_blocks` task, worker jobs gated at every
storage effect, with the shutdown request (`shutdown_event.set()` + task cancellation, as
`Controller` does) injected at every scheduling point of a run; after the task has returned and the
worker jobs have drained, the database is reopened by fresh objects and compared with the Lean
specification of the chain up to the stored height; every block whose processing had completed
before the request must be included.

Direct oracle for the end state.  Two models are tied to the real task by trace replay:
  * the monitor `EV.Shutdown` by the lock / job trace (`trace`, `evdrv shutdown`);
  * the task-level model `EV.ShutdownTask` by the full event trace of the run (`ttrace`,
    `evdrv shutdowntask`): control points of the outer task, lock acquisitions of the inner tasks,
    job kind and argument at every job end (with the three heights after it), deliveries, cache
    pressure, forced reorgs, the shutdown request, how the task ended - and the model's store after
    `_open_dbs` must equal the dump of the real reopened database row by row (`task_lines`)."""
import asyncio

from harness.common import SuiteResult, rng_for, run_evdrv
from harness.world.chaingen import Gen, be, hashx_of, NORMAL_SCRIPTS, UNSPENDABLE_SCRIPTS
from harness.world.daemon import SimDaemon
from harness.world.loop import Scheduler
from harness.world.realindex import RealIndex
from harness.world.server import World

SCRIPTS = NORMAL_SCRIPTS + UNSPENDABLE_SCRIPTS


def one_run(res, seed, idx, cancel_at, phase, job_bias, pressure=None, defer=None):
    """Returns (fails, n_iterations, info).  cancel_at = loop iteration at which shutdown is requested
    (None: never; used to measure the length of the run)."""
    rng = rng_for(seed, 'shutdown', idx)
    act = rng.choice([0, 3, 1000])
    gen = Gen(rng, act)
    d = SimDaemon(gen, rng, latency=(0, 0.01))
    d.extend(rng.randrange(6, 9), max_txs=3)     # high enough for a depth-2 reorg (C03 condition)
    srng = rng_for(seed, 'shutdown-sched', idx, cancel_at if cancel_at is not None else -1)
    # cache pressure: what check_cache_size_loop does when the caches grow (its only effect is this
    # assignment; the chains here are far too small for the real thresholds): a history-only or a
    # full flush is requested at arbitrary moments
    prng = rng_for(seed, 'shutdown-pressure', idx, cancel_at if cancel_at is not None else -1)
    w = World(d, act, 5, Scheduler(srng, job_bias=job_bias, gated=True), gated_storage=True)
    fails = []
    completed = [-1]
    info = {}
    try:
        w.build()
        # record block completion (the advance job returned) from outside
        orig_adv = w.bp.advance_block

        def advance_block(block, *args, **kwargs):
            if phase == 'initial_reorg' and state['phase_started'] is None and state.get('switched') \
                    and next(b for b in gen.blocks if b.hex_hash == block.hex_hash).parent.hash != w.bp.state.tip:
                # the block that reveals the reorganisation: the requests of this phase are injected
                # from here on (first of all while this very job is still running / undelivered)
                state['phase_started'] = w.loop.iterations
            orig_adv(block, *args, **kwargs)
            if w.bp.reorg_count is None:
                completed[0] = w.bp.state.height
        w.bp.advance_block = advance_block
        orig_bk = w.bp.backup_block

        def backup_block(block):
            # a block being undone no longer counts as finished work
            completed[0] = min(completed[0], w.bp.state.height - 1)
            orig_bk(block)
        w.bp.backup_block = backup_block
        in_reorg = [False]
        orig_reorg = w.bp.reorg_chain

        async def reorg_chain(count):
            # whilst orphaned blocks are being backed out, "finished work" is what survives the
            # reorganisation: the kept-work clause is judged for forward processing only
            in_reorg[0] = True
            try:
                return await orig_reorg(count)
            finally:
                in_reorg[0] = False
        w.bp.reorg_chain = reorg_chain
        # ---- trace of the locking discipline (for the monitor model EV.Shutdown)
        trace = ['R']
        task_ids = {}

        def tid():
            try:
                t = asyncio.current_task()
            except RuntimeError:
                return 0
            return task_ids.setdefault(t, len(task_ids) + 1)

        sec = {'undelivered': False}

        class LogLock(asyncio.Lock):
            async def acquire(self):
                r = await super().acquire()
                trace.append(f'A {tid()}')
                # which section this inner task runs: the coroutine handed to run_with_lock
                c = asyncio.current_task().get_coro().cr_frame.f_locals.get('coro')
                sec['undelivered'] = False
                sec['tev']('HS' if c is not None and c.cr_code.co_name == 'flush_if_safe' else 'IS')
                return r

            def release(self):
                trace.append(f'L {tid()}')
                if sec['undelivered']:
                    sec['undelivered'] = False
                    sec['tev']('DL')
                super().release()
        w.bp.state_lock = LogLock()
        orig_submit = w.loop.submit

        def submit(func, *args):
            name = getattr(func, '__name__', '')
            if name in ('flush_dbs', 'advance_block', 'backup_block'):
                t = tid()
                trace.append(f'JS {t}')

                def logged(*a, func=func, t=t, name=name):
                    try:
                        return func(*a)
                    finally:
                        trace.append(f'JE {t}')
                        if name == 'advance_block':
                            what = f'adv {sec["gid"](a[0].hex_hash)} {d.cached_height()}'
                        elif name == 'backup_block':
                            what = f'backup {sec["gid"](a[0].hex_hash)}'
                        else:
                            what = f'flush {int(bool(a[1]))}'
                        sec['undelivered'] = True
                        sec['tev']('JE ' + what, heights=True)
                logged.__name__ = name
                return orig_submit(logged, *args)
            return orig_submit(func, *args)
        w.loop.submit = submit
        info['trace'] = trace
        # ---- event trace of the task for the task-level model EV.ShutdownTask: [line, expected
        # heights after it or None] (see lean/EV/Drv/ShutdownTask.lean for the line protocol)
        ttrace = []
        info['ttrace'] = ttrace
        info['act'] = act
        info['gen'] = gen
        tstate = {'begun': False, 'sleeping': False}
        sec['w'] = w
        sec['ttrace'] = ttrace
        sec['gid'] = lambda hex_hash: next(b.id for b in gen.blocks if b.hex_hash == hex_hash)

        def tev(line, heights=False):
            ttrace.append([line, f'{w.bp.state.height} {w.db.state.height} {w.db.fs_height}' if heights else None])
        sec['tev'] = tev

        def before_body():
            if not tstate['begun']:
                tstate['begun'] = True
                tev('BG')
            if tstate['sleeping']:
                tstate['sleeping'] = False
                tev('WK')
        orig_nbh = w.bp.next_block_hashes

        async def next_block_hashes():
            before_body()
            hex_hashes, dh = await orig_nbh()
            tev('FE ' + ' '.join(str(sec['gid'](h)) for h in hex_hashes) if hex_hashes else 'FN')
            return hex_hashes, dh
        w.bp.next_block_hashes = next_block_hashes
        orig_advs = w.bp.advance_blocks

        async def advance_blocks(hex_hashes):
            await orig_advs(hex_hashes)
            tev('EB')
        w.bp.advance_blocks = advance_blocks
        orig_cu = w.bp.on_caught_up

        async def on_caught_up():
            await orig_cu()
            tev('CU')
            tstate['sleeping'] = True
        w.bp.on_caught_up = on_caught_up
        orig_rh = w.bp._reorg_hashes

        async def _reorg_hashes(count):
            start, hex_hashes = await orig_rh(count)
            tev('RR ' + ' '.join(str(sec['gid'](h)) for h in reversed(hex_hashes)))
            return start, hex_hashes
        w.bp._reorg_hashes = _reorg_hashes
        orig_reorg2 = w.bp.reorg_chain

        async def reorg_chain(count):
            before_body()
            await orig_reorg2(count)
            tev('ER')
        w.bp.reorg_chain = reorg_chain
        orig_rwl = w.bp.run_with_lock

        async def run_with_lock(coro):
            name = coro.cr_code.co_name
            if name == 'advance_and_maybe_flush':
                tev('NB')
            elif name in ('run_in_thread', 'backup_and_truncate'):
                # the back-out of one block: `run_in_thread(self.backup_block, block)` itself, or (since the
                # fix of N7) the coroutine that awaits it and then truncates the header merkle cache
                tev('NK')
            try:
                r = await orig_rwl(coro)
            except asyncio.CancelledError:
                raise
            except BaseException:
                tev('RS')
                raise
            if name != 'flush_if_safe':
                tev('RS')
            return r
        w.bp.run_with_lock = run_with_lock
        orig_flush = w.bp.flush

        async def flush(arg):
            if sec['undelivered']:       # the second job of advance_and_maybe_flush
                sec['undelivered'] = False
                tev('DL')
            return await orig_flush(arg)
        w.bp.flush = flush
        # (defined before the task starts: the advance_block wrapper above reads it, and a first block
        # can be advanced while the daemon's height is still being fetched below)
        state = {'phase_started': None, 'requested': False}
        w.spawn('bp', w.bp.fetch_and_process_blocks(w.caught_up_event, w.shutdown_event))
        w.run(d.height())

        def script(loop):
            if phase == 'initial_reorg' and not state.get('switched') and w.bp.state is not None \
                    and w.bp.state.height >= 2 and w.bp.state.height >= d.tip.height - 3:
                # (only once the server's tip is inside the undo window of the daemon's height: a fork
                # below the window during initial sync is fatal by design and outside C03/C15)
                # the daemon reorganises between two polls of the initial catch-up: the first batch is
                # being advanced (nothing flushed yet); the next poll's first block will not connect
                state['switched'] = True
                chain = d.tip.chain()
                # fork just below what the server has advanced so far (advanced, not flushed), and
                # make the new branch the longer one
                b = chain[w.bp.state.height - 1]
                while b.height <= d.tip.height:
                    b = gen.new_block(b, max_txs=3)
                d.switch(b)
            if pressure and w.bp.state is not None and prng.random() < 0.12:
                w.bp.force_flush_arg = {'hist': False, 'full': True}.get(pressure, prng.random() < 0.3)
                tev(f'PR {int(w.bp.force_flush_arg)}')
                info['pressure_events'] = info.get('pressure_events', 0) + 1
            # environment: once caught up, feed the phase's events
            if phase != 'initial_reorg' and w.caught_up_event.is_set() and state['phase_started'] is None:
                state['phase_started'] = loop.iterations
                if phase == 'caught_up':
                    d.extend(2, max_txs=3)
                elif phase == 'reorg':
                    chain = d.tip.chain()
                    b = chain[max(0, d.tip.height - 2)]
                    for _ in range(3):
                        b = gen.new_block(b, max_txs=3)
                    d.switch(b)
                elif phase == 'forced_reorg':
                    if w.bp.force_chain_reorg(2):
                        tev('FR 2')
            start = 0 if phase == 'initial' else state['phase_started']
            if cancel_at is not None and not state['requested'] and start is not None \
                    and loop.iterations >= start + cancel_at:
                state['requested'] = True
                info['completed_at_request'] = -1 if in_reorg[0] else completed[0]
                info['height_at_request'] = w.bp.state.height if w.bp.state else None
                w.shutdown_event.set()
                w.tasks['bp'].cancel()
                tev('CN')
        w.loop.on_iteration = script

        async def wait_done():
            n = 0
            while not w.tasks['bp'].done():
                n += 1
                if n > 4000:
                    if cancel_at is None:
                        return          # an uninterrupted run: measured long enough
                    raise TimeoutError('the processing task did not return after the shutdown request')
                await asyncio.sleep(0.05)
            while w.loop.pending_jobs():
                await asyncio.sleep(0.01)
        try:
            w.run(wait_done())
        except TimeoutError as e:
            fails.append(('shutdown', str(e)))
        if w.errors:
            fails.append(('shutdown', f'the processing task failed with {w.errors[0][1]!r}'))
        info['iterations'] = w.loop.iterations - (0 if phase == 'initial' else (state['phase_started'] or 0))
        info['requested'] = state['requested']
        t = w.tasks['bp']
        info['task_end'] = ('running' if not t.done() else 'died' if t.cancelled() or t.exception() is not None
                            else 'returned')
        # ---- reopen and judge
        w.db.utxo_db.close()
        w.db.utxo_db = None
        w.db.history.close_db()
        if state['requested'] and not fails:
            fails += judge(w, d, gen, act, info, defer=defer)
    finally:
        try:
            for t in w.tasks.values():
                t.cancel()
            w.loop.run_until_complete(asyncio.sleep(0))
        except Exception:
            pass
        w.destroy()
    return fails, info


def judge(w, d, gen, act, info, reorg_limit=5, defer=None):
    """Fresh DB objects on the directory; compare every observable with the Lean specification of
    the daemon's chain... of the *indexed* chain up to the stored height."""
    fails = []
    ri = RealIndex.__new__(RealIndex)
    import electrumx.server.db as dbmod
    import electrumx.server.block_processor as bpmod
    ri.dbmod, ri.bpmod = dbmod, bpmod
    ri.dir, ri.env, ri.reorg_limit = w.dir, w.env, reorg_limit
    from harness.world.realindex import FakeDaemon, Retry

    async def no_sleep(_s):
        raise Retry()
    dbmod.sleep = no_sleep
    import aiorpcx
    dbmod.run_in_thread = aiorpcx.run_in_thread     # the judge runs on an ordinary loop
    ri.daemon = FakeDaemon()
    ri.db = ri.bp = None
    r = ri.open()
    if r != 'ok':
        return [('reopen', f'the database does not open after shutdown: {r}')]
    h = ri.db.state.height
    info['reopened'] = [ri.q_state(), ri.dump()]
    if h < info.get('completed_at_request', -1):
        fails.append(('kept_work', f'block {info["completed_at_request"]} had been processed completely before the '
                                   f'shutdown request but the stored height is {h}'))
    # which chain is stored: find the generated block with the stored tip
    tip = next((b for b in gen.blocks if b.hash == ri.db.state.tip), None)
    if h >= 0 and tip is None:
        fails.append(('consistent', f'stored tip at height {h} is not a block of the daemon'))
        ri.close_dbs()
        return fails
    chain = tip.chain() if tip else []
    lines = [f'CFG {act} {reorg_limit}'] + [b.model_line() for b in chain] + ['S_CHAIN ' + ' '.join(str(b.id) for b in chain)]
    expect = ['ok'] * len(lines)
    def ask(fn, *a):
        # a corrupted database may make the read path itself raise: that is an answer, not a harness error
        try:
            return fn(*a)
        except Exception as e:   # noqa
            return f'raised {type(e).__name__}'
    for s in SCRIPTS:
        hx = hashx_of(s)
        lines.append(f'S_UTXOS {be(hx)}')
        expect.append(ask(ri.q_utxos, hx))
        lines.append(f'S_HIST {be(hx)} -')
        expect.append(ask(ri.q_hist, hx, None))
    for hh in range(len(chain)):
        lines.append(f'S_TXHASHES {hh}')
        expect.append(ask(ri.q_txhashes, hh))
    lines.append('S_STATE')
    expect.append(ask(ri.q_state))
    if defer is not None:
        # `run` compares all runs' answers with the specification in one driver process
        info['spec_check'] = (lines, expect, h)
    else:
        fails += spec_mismatch(lines, expect, run_evdrv('index', lines), h)
    ri.close_dbs()
    return fails


def spec_mismatch(lines, expect, got, h):
    for l, e, g in zip(lines, expect, got):
        if e != g:
            return [('consistent', f'after shutdown and reopen at height {h}: {l[:60]}: the database says '
                                   f'{e[:200]} but the chain up to that height implies {g[:200]}')]
    return []


def _mask_first_sync(dump):
    # `state.first_sync` is not modelled (EV.ShutdownTask leaves `on_caught_up`'s assignment out)
    import re
    return re.sub(r'( \| us [^|]*),[01] \| hist ', r'\1,_ | hist ', dump)


def task_lines(info):
    """The run's event trace as `evdrv shutdowntask` lines and what the model must answer: every
    event accepted, the three heights after every worker job, how the task ended, and the reopened
    database (state record and full store dump) as `judge` read it back from the real directory."""
    gen = info['gen']
    lines = [f'CFG {info["act"]} 5'] + [b.model_line() for b in gen.blocks] + ['R']
    expect = ['ok'] * len(lines)
    for line, heights in info['ttrace']:
        lines.append(line)
        expect.append(('heights', heights) if heights else ('accept',))
    lines.append('END')
    expect.append(('end', info['task_end']))
    if 'reopened' in info:
        lines += ['REOPEN', 'DUMP']
        expect += ['ok ' + info['reopened'][0], ('dump', _mask_first_sync(info['reopened'][1]))]
    return lines, expect


def task_mismatch(lines, expect, got):
    """First line on which the model and the real run differ, or None."""
    for i, (l, e, g) in enumerate(zip(lines, expect, got)):
        if isinstance(e, str):
            okay = e == g
        elif e[0] == 'accept':
            okay = g.startswith('ok ')
        elif e[0] == 'heights':
            okay = g.startswith('ok ') and ' '.join(g.split()[2:5]) == e[1]
        elif e[0] == 'end':
            okay = g.split()[:2] == [e[1], 'drained']
        else:
            okay = _mask_first_sync(g) == e[1]
        if not okay:
            return i, l, (e if isinstance(e, str) else ' '.join(str(x) for x in e)), g
    return None


def run(tier, seed):
    res = SuiteResult('shutdown')
    res.rule = ('case = (chain, phase in {initial sync, caught up + new blocks, natural reorg, forced reorg}, scheduler seed, '
                'iteration at which shutdown is requested); the request is injected at every scheduling point of the phase '
                '(quick: a stride through them); worker jobs are gated at every storage effect so the request can land while '
                'a flush or a block advance is mid-way; non-trivial = the request lands while a worker job is running or queued')
    phases = ['initial', 'initial_reorg', 'caught_up', 'reorg', 'forced_reorg']
    all_traces = []
    task_cases = []
    spec_cases = []
    nchains = 6 if tier == 'quick' else 12
    for idx in range(nchains):
        for phase in phases:
            for job_bias in ((0.3,) if tier == 'quick' else (0.2, 0.6)):
                pressure = [None, 'hist', 'mixed', 'full'][idx % 4] if tier != 'quick' else [None, 'hist', 'mixed'][idx % 3]
                # measure the phase length without a request
                _f, info0 = one_run(res, seed, idx, None, phase, job_bias, pressure)
                n = min(info0.get('iterations', 0), 400)
                stride = max(1, n // (16 if tier == 'quick' else 60))
                for k in sorted(set(range(0, min(n, 6))) | set(range(0, n, stride))):
                    fails, info = one_run(res, seed, idx, k, phase, job_bias, pressure, defer=True)
                    if 'spec_check' in info:
                        spec_cases.append(([idx, k, phase, job_bias, pressure], info.pop('spec_check')))
                    res.note_case(f'{idx},{phase},{job_bias},{k},{pressure}', nontrivial=True)
                    res.bump('cache_pressure_events', info.get('pressure_events', 0))
                    res.bump(f'requests_in_phase_{phase}')
                    for c, dtl in fails:
                        if len(res.violations) < 3:
                            res.violations.append({'suite': 'shutdown', 'clause': c, 'detail': dtl, 'seed': seed,
                                                   'case': [idx, k, phase, job_bias, pressure]})
                    # the real trace must obey the discipline (monitor model) and, judged directly,
                    # never have two writer jobs running
                    trace = info.get('trace', ['R'])
                    running = 0
                    for ev in trace:
                        if ev.startswith('JS'):
                            running += 1
                            if running > 1 and len(res.violations) < 3:
                                res.violations.append({'suite': 'shutdown', 'clause': 'mutex',
                                                       'detail': 'two writer jobs (flush / advance / back-out) ran at the same time',
                                                       'seed': seed, 'case': [idx, k, phase, job_bias, pressure], 'trace': trace[-30:]})
                        elif ev.startswith('JE'):
                            running -= 1
                    all_traces.append(([idx, k, phase, job_bias, pressure], trace))
                    if info.get('requested') and 'ttrace' in info and 'task_end' in info:
                        task_cases.append(([idx, k, phase, job_bias, pressure], task_lines(info)))
                        res.bump('task_end_' + info['task_end'])
    # the reopened databases against the Lean specification (one driver process for all runs)
    sl = [l for _c, (ls, _e, _h) in spec_cases for l in ls]
    got = run_evdrv('index', sl) if sl else []
    pos = 0
    for case, (ls, ex, h) in spec_cases:
        out = got[pos:pos + len(ls)]
        pos += len(ls)
        for c, dtl in spec_mismatch(ls, ex, out, h):
            if len(res.violations) < 3:
                res.violations.append({'suite': 'shutdown', 'clause': c, 'detail': dtl, 'seed': seed, 'case': case})
    lines = [l for _c, t in all_traces for l in t]
    got = run_evdrv('shutdown', lines)
    pos = 0
    for case, t in all_traces:
        out = got[pos:pos + len(t)]
        pos += len(t)
        if any(o == 'reject' for o in out) and len(res.disagreements) < 3:
            i = out.index('reject')
            res.disagreements.append({'suite': 'shutdown', 'case': case, 'seed': seed,
                                      'code': 'real trace: ' + ' '.join(t[max(0, i - 12):i + 1]),
                                      'model': f'rejects event {t[i]} (breaks the locking discipline)'})
    res.bump('trace_events', len(lines))
    # ---- second pass: every run replayed on the task-level model EV.ShutdownTask
    tl = [l for _c, (ls, _e) in task_cases for l in ls]
    try:
        run_evdrv('shutdowntask', ['R'])
    except RuntimeError as e:
        if 'usage' not in str(e):
            raise
        # an `evdrv` built before `shutdowntask` was added to lean/Driver.lean: the second pass
        # cannot run (visible in the statistics; see integration/c06task.md)
        res.bump('task_model_driver_missing')
        task_cases, tl = [], []
    got = run_evdrv('shutdowntask', tl) if tl else []
    pos = 0
    for case, (ls, ex) in task_cases:
        out = got[pos:pos + len(ls)]
        pos += len(ls)
        mm = task_mismatch(ls, ex, out)
        res.bump('task_model_replays')
        res.bump('task_model_events', len(ls))
        if any(l in ('NK',) for l in ls):
            res.bump('task_model_replays_with_backup')
        if 'CN' in ls:
            # where the request landed, in the model's terms: control point of the outer task (the
            # state before the request) and the inner task / worker job in flight
            i = ls.index('CN')
            before = out[i - 1].split() if out[i - 1].startswith('ok ') and len(out[i - 1].split()) > 1 else ['ok', 'start']
            at = out[i].split()
            if len(at) >= 6:
                import re
                res.bump('request_at_' + re.sub(r'[0-9]+$', '', before[1]) + '_inner_' + at[5])
        if mm is not None and len(res.disagreements) < 3:
            i, l, e, g = mm
            res.disagreements.append({'suite': 'shutdown', 'case': case, 'seed': seed,
                                      'code': f'real task, event {i} `{l[:60]}`: {e[:300]}',
                                      'model': f'EV.ShutdownTask answers {g[:300]}; preceding events: '
                                               + ' | '.join(x[:24] for x in ls[max(0, i - 14):i] if not x.startswith('BLK'))})
    for case, (ls, _ex) in task_cases:
        if 'NK' in ls and 'CN' in ls and ls.index('CN') > ls.index('NK'):
            ev = [l for l in ls if not l.startswith(('BLK', 'CFG', 'PR '))]
            i = ev.index('CN')
            res.sample({'task_model_replay': case, 'events_around_the_request': ev[max(0, i - 12):i + 10]})
            break
    if tier != 'quick' or task_cases:
        if not res.stats.get('task_model_replays_with_backup'):
            res.harness_errors.append('no replayed run reached a back-out section')
        for want in ('_inner_job-adv', '_inner_job-flush', '_inner_job-backup', '_inner_jobDone-', '_inner_wantLock',
                     'request_at_secReady', 'request_at_start'):
            if not any(want in k for k in res.stats):
                res.harness_errors.append(f'no shutdown request landed in a state matching {want}')
    res.sample({'phase': 'caught_up', 'request_at_iteration': 7, 'trace': all_traces[0][1][:24] if all_traces else []})
    return res


def replay(case):
    idx, k, phase, job_bias = case['case'][:4]
    pressure = case['case'][4] if len(case['case']) > 4 else None
    res = SuiteResult('x')
    fails, _info = one_run(res, case['seed'], idx, k, phase, job_bias, pressure)
    return [f'{c}: {d}' for c, d in fails]


def known_reproduces(finding):
    return bool(replay(finding['witness']))


def matches_known(violation, finding):
    return False

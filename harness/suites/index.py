"""Suite `index` (C01, C02, C03, C15): the real BlockProcessor/DB/History on LevelDB vs the concrete
Lean model `EV.Index` (observable + structural grade) and vs the Lean *specification* `EV.Spec`
(direct oracle: what the chain means, independent of cache/rows/flushes).

One case = a generated block tree + a schedule of ADV / FLUSH 0|1 / BACKUP / OPEN operations.
"""
import os

from harness import common
from harness.common import SuiteResult, rng_for, run_evdrv
from harness.world import chaingen
from harness.world.chaingen import Gen, be, hashx_of, NORMAL_SCRIPTS, UNSPENDABLE_SCRIPTS
from harness.world.realindex import RealIndex

ALL_SCRIPTS = NORMAL_SCRIPTS + UNSPENDABLE_SCRIPTS
_collision_pool = {}

HONOURS_DEADLINE = True      # main loops stop generating when common.out_of_time()


def collision_groups(seed, tier):
    key = (seed, tier)
    if key not in _collision_pool:
        rng = rng_for(seed, 'collisions')
        groups = []
        for _ in range(2 if tier == 'quick' else 6):
            groups += chaingen.grind_collisions(rng, want_groups=4)
        _collision_pool[key] = groups
    # hand out copies (the generator pops from the groups)
    return [list(g) for g in _collision_pool[key]]


class Case:
    """Builds the op script lazily while driving the real index, so that the schedule can depend
    on what the real index says (heights after reopen etc.)."""

    def __init__(self, res, rng, act, reorg_limit, groups):
        self.res = res
        self.rng = rng
        self.act = act
        self.lim = reorg_limit
        self.gen = Gen(rng, act, groups)
        self.real = RealIndex(act, reorg_limit)
        self.lines = [f'CFG {act} {reorg_limit}']
        self.expect = ['ok']
        self.kinds = ['cfg']          # what each line is, for reporting
        self.sent_blocks = set()
        self.chain = []               # blocks currently indexed in memory (bp view)
        self.outpoints = []           # (txid, idx) ever created, for lookups
        self.direct_fail = []
        self.spec_points = 0
        self.undo_mem = {}            # height -> block id: undo kept in memory, not yet UTXO-flushed
        self.undo_disk = {}           # height -> id of the block whose U row is on disk
        self.dh = {}                  # height -> daemon height reported while that block was indexed
        self.truth = {}               # (txid, idx) -> (hashX, value) of that output (for the split lookup oracle)
        self.pending2 = None          # a DB.lookup_utxos call suspended between its two jobs

    # -- plumbing
    def emit(self, line, expect, kind):
        self.lines.append(line)
        self.expect.append(expect)
        self.kinds.append(kind)

    def ensure_block(self, b):
        if b.id not in self.sent_blocks:
            self.sent_blocks.add(b.id)
            self.emit(b.model_line(), 'ok', 'blk')
            for t in b.txs:
                for idx in range(len(t.outs)):
                    self.outpoints.append((t.txid, idx))
                    self.truth[(t.txid, idx)] = (hashx_of(t.outs[idx][1]), t.outs[idx][0])

    def dumps(self):
        self.emit('DUMP', self.real.dump(), 'dump')
        self.emit('DUMPMEM', self.real.dump_mem(), 'dumpmem')

    # -- ops
    def open(self, keep=False):
        r = self.real.open(keep_process=keep)
        self.emit(f'OPEN {1 if keep else 0}', r, 'open')
        if not keep:
            h = self.real.db.state.height
            # blocks above the stored height are gone; their undo rows were never written
            self.undo_mem.clear()
            for k in [k for k in self.undo_disk if k < h - self.lim + 1]:
                del self.undo_disk[k]                         # clear_excess_undo_info
            self.pruned_below = max(getattr(self, 'pruned_below', 0), h - self.lim + 1)
            self.chain = self.chain[:h + 1]
            # C15 (second half), judged on the real DB only: no undo row below the window survives a start
            stale = [k for k in self.real.undo_heights() if k < h - self.lim + 1]
            if stale:
                self.direct_fail.append({
                    'clause': 'C15: undo information older than the window survives start-up',
                    'detail': f'after a start at height {h} with reorg limit {self.lim} the DB still holds undo rows '
                              f'for heights {stale}'})
        self.dumps()
        return r

    def advance(self, b, daemon_h):
        self.ensure_block(b)
        r = self.real.advance(b, daemon_h)
        self.emit(f'ADV {b.id} {daemon_h}', r, 'adv')
        if r == 'ok':
            self.chain.append(b)
            h = len(self.chain) - 1
            self.dh[h] = daemon_h
            if h >= daemon_h - self.lim + 1:
                self.undo_mem[h] = b.id
        self.res.bump('db_spends_with_2plus_candidates', self.real.last_multi_candidate_spends)
        self.dumps()
        return r

    def flush(self, utxos):
        r = self.real.flush(utxos)
        if utxos and r == 'ok':
            self.undo_disk.update(self.undo_mem)
            self.undo_mem.clear()
        self.emit(f'FLUSH {1 if utxos else 0}', r, 'flush')
        self.dumps()
        return r

    def backup(self):
        b = self.chain[-1]
        r = self.real.backup(b)
        self.emit(f'BACKUP {b.id}', r, 'backup')
        if r == 'ok':
            # backup_block leaves the U row of the orphaned block behind (undo_disk unchanged)
            self.chain.pop()
            self.dumps()
        # after an exception the real object is half-updated and the processing task is dead:
        # nothing further is compared on it
        return r

    def queries(self, n=4):
        rng = self.rng
        for s in rng.sample(ALL_SCRIPTS, min(n, len(ALL_SCRIPTS))):
            hx = hashx_of(s)
            self.emit(f'Q_UTXOS {be(hx)}', self.real.q_utxos(hx), 'q')
            lim = rng.choice([None, 0, 1, 2, 3, 1000])
            self.emit(f'Q_HIST {be(hx)} {"-" if lim is None else lim}', self.real.q_hist(hx, lim), 'q')
        for _ in range(n):
            if self.outpoints and rng.random() < 0.9:
                txid, idx = rng.choice(self.outpoints)
                if rng.random() < 0.1:
                    idx += 1
            else:
                txid, idx = bytes(rng.getrandbits(8) for _ in range(32)), 0
            self.emit(f'Q_LOOKUP {be(txid)} {idx}', self.real.q_lookup(txid, idx), 'q')
        if self.chain:
            h = rng.randrange(0, len(self.chain) + 1)
            self.emit(f'Q_TXHASHES {h}', self.real.q_txhashes(h), 'q')
            a = rng.randrange(0, len(self.chain) + 1)
            c = rng.randrange(0, 5)
            self.emit(f'Q_HEADERS {a} {c}', self.real.q_headers(a, c), 'q')

    # -- DB.lookup_utxos suspended between its two run_in_thread jobs (F22)
    def lookup2_begin(self, txid, idx):
        """Job 1 (`lookup_hashXs`) of the real coroutine now; the call stays suspended at job 2."""
        dbmod = self.real.dbmod

        class Suspend:
            def __init__(self, func, args):
                self.func, self.args = func, args

            def __await__(self):
                return (yield self)

        async def suspending(func, *args):
            return await Suspend(func, args)
        saved = dbmod.run_in_thread
        dbmod.run_in_thread = suspending
        try:
            coro = self.real.db.lookup_utxos([(txid, idx)])
            sus = coro.send(None)
            pairs = sus.func(*sus.args)
            sus = coro.send(pairs)
        finally:
            dbmod.run_in_thread = saved
        self.pending2 = (coro, sus, txid, idx, pairs[0])
        hx, suffix = pairs[0]
        r = 'none' if not hx else f'{be(hx)}:{int.from_bytes(suffix[-5:], "little")}'
        self.emit(f'Q_LOOKUP2A {be(txid)} {idx}', r, 'q')

    def lookup2_end(self):
        """Job 2 (`lookup_utxos`) now, whatever was done to the index since job 1.  Direct oracle
        (EnvSound's clause, judged without the model): the answer is None or the (hashX, value) of
        that very output."""
        coro, sus, txid, idx, handed = self.pending2
        self.pending2 = None
        if handed[0] and self.real.db.utxo_db.get(b'u' + handed[0] + handed[1]) is not None \
                and self.real.db.fs_tx_hash(int.from_bytes(handed[1][-5:], 'little'))[0] != txid:
            self.res.bump('split_lookup_job2_saw_row_of_reused_tx_number')
        try:
            out = sus.func(*sus.args)
        except Exception as e:      # noqa: the real second job raised: an outcome (the mempool task would die)
            coro.close()
            self.emit('Q_LOOKUP2B', f'raised {type(e).__name__}', 'q')
            self.direct_fail.append({
                'tags': ['lookup_split', 'lookup'],
                'clause': 'C09: lookup_utxos raised',
                'detail': f'prevout {be(txid)}:{idx}: the second thread job of lookup_utxos raised {e!r} after the index '
                          f'changed between its two jobs (the operations of the script between Q_LOOKUP2A and Q_LOOKUP2B); '
                          f'the exception ends the mempool refresh task'})
            return
        try:
            coro.send(out)
            raise RuntimeError('lookup_utxos did not return after its second job')
        except StopIteration as e:
            got, = e.value
        self.emit('Q_LOOKUP2B', 'none' if got is None else f'{be(got[0])}:{got[1]}', 'q')
        if got is not None:
            self.res.bump('split_lookup_answers')
            if self.truth.get((txid, idx)) != (got[0], got[1]):
                t = self.truth.get((txid, idx))
                self.direct_fail.append({
                    'tags': ['lookup_split', 'F22'],
                    'clause': 'C09: lookup_utxos answered a pair that is not the (hashX, value) of that output',
                    'detail': f'prevout {be(txid)}:{idx} is worth '
                              f'{"nothing (no such output)" if t is None else f"{be(t[0])}:{t[1]}"}; lookup_utxos, with '
                              f'the operations of the script between its two run_in_thread jobs (after Q_LOOKUP2A, '
                              f'before Q_LOOKUP2B), answered {be(got[0])}:{got[1]}'})

    def spec_check(self):
        """Direct oracle at a fully flushed state: real code vs Lean spec of the indexed chain."""
        self.spec_points += 1
        ids = ' '.join(str(b.id) for b in self.chain)
        self.emit(f'S_CHAIN {ids}'.strip(), 'ok', 'spec')
        for s in ALL_SCRIPTS:
            hx = hashx_of(s)
            self.emit(f'S_UTXOS {be(hx)}', self.real.q_utxos(hx), 'spec')
            k = len(self.real.q_hist(hx, None).split()) - 1
            for lim in [None] + sorted({0, 1, max(0, k - 1), k, k + 1}):
                self.emit(f'S_HIST {be(hx)} {"-" if lim is None else lim}', self.real.q_hist(hx, lim), 'spec')
        for txid, idx in self.outpoints:
            self.emit(f'S_LOOKUP {be(txid)} {idx}', self.real.q_lookup(txid, idx), 'spec')
        for h in range(len(self.chain) + 1):
            self.emit(f'S_TXHASHES {h}', self.real.q_txhashes(h), 'spec')
        self.emit('S_STATE', self.real.q_state(), 'spec')
        self.emit(f'S_HEADERS 0 {len(self.chain) + 2}', self.real.q_headers(0, len(self.chain) + 2), 'spec')

    def finish(self):
        self.real.destroy()


def daemon_height(rng, mode, height, final):
    if mode == 'far':
        return final + 1000
    if mode == 'track':
        return height + rng.choice([0, 0, 1, 2])
    if mode == 'jump':
        return height + rng.choice([0, 5, 50])
    if mode == 'fall':
        # the daemon is far ahead at first, then (fail-over to a lagging daemon, invalidateblock) at
        # the server's own height
        return final + 30 if height <= final // 2 else height
    return final


def run_case(res, rng, tier, groups, label):
    act = rng.choice([0, 1, 2, 3, 5, 1000])
    lim = rng.choice([1, 2, 3, 4, 200])
    nblocks = rng.randrange(1, 9 if tier == 'quick' else 16)
    mode = rng.choice(['far', 'track', 'track', 'jump', 'final', 'fall'])
    c = Case(res, rng, act, lim, groups)
    before_refused = {k: v for k, v in res.stats.items() if k.startswith('backup_refused')}
    try:
        c.open()
        tip = None
        for n in range(nblocks):
            tip = c.gen.new_block(tip, max_txs=rng.choice([0, 2, 4, 7]))
            if c.advance(tip, daemon_height(rng, mode, n, nblocks - 1)) != 'ok':
                break
            r = rng.random()
            if groups and n in (1, 2) and c.gen.hot:
                r = 0.5      # colliding outputs must reach the DB before they are spent
            if r < 0.25:
                c.flush(False)
                res.bump('history_only_flushes')
            elif r < 0.55:
                c.flush(True)
                res.bump('full_flushes')
                c.spec_check()
            if rng.random() < 0.3:
                c.queries()
            if rng.random() < 0.08:
                # process restart without a clean flush (anything unflushed is lost)
                res.bump('restarts')
                c.open()
                tip = c.chain[-1] if c.chain else None
                c.queries()
            # reorganisation
            if len(c.chain) >= 2 and rng.random() < 0.2:
                c.flush(True)
                depth = rng.randrange(1, min(len(c.chain) - 1, lim + 1) + 1)
                if rng.random() < 0.35:
                    depth = min(len(c.chain) - 1, lim)       # a fork of depth exactly the limit
                res.bump('reorgs')
                res.bump('reorgs_of_depth_exactly_limit', int(depth == lim))
                ok = True
                tip_h = len(c.chain) - 1
                for _ in range(depth):
                    top = len(c.chain) - 1
                    if top in c.undo_disk and c.undo_disk[top] != c.chain[top].id:
                        # the block was indexed outside its undo window on top of an orphan's
                        # undo row (DESIGN N2): backing it out is outside C03/C15; not generated
                        res.bump('backouts_skipped_stale_undo_row')
                        break
                    r2 = c.backup()
                    if r2 != 'ok':
                        res.bump('backup_refused_' + r2)
                        if top > tip_h - lim and top < getattr(c, 'pruned_below', 0) and r2 == 'ChainError':
                            # the undo row was pruned by a start-up at a HIGHER tip; the chain has since
                            # been reorganised to a lower one (the daemon moved to a shorter chain): the
                            # window slid down onto pruned heights - the falling-height class F10
                            res.bump('lowered_tip_refusals')
                            c.direct_fail.append({
                                'clause': 'C15: a block within the reorg limit of the tip cannot be undone',
                                'tags': ['window', 'F10'],
                                'detail': f'{r2} backing out height {top} (tip {tip_h}, reorg limit {lim}): its undo row was '
                                          f'pruned by a start-up when the tip was at least {c.pruned_below + lim - 1}; the '
                                          f'chain was reorganised to a lower tip since (falling daemon height)'})
                        elif top > tip_h - lim and c.dh.get(top, 1 << 60) <= tip_h:
                            # C15 (first half), judged on the real code only: the block is among the
                            # `limit` most recent ones of a fully flushed tip, and while it was indexed
                            # the daemon was not above that tip (so it was inside its window then)
                            c.direct_fail.append({
                                'clause': 'C15: a block within the reorg limit of the tip cannot be undone',
                                'detail': f'{r2} backing out height {top} (tip {tip_h}, reorg limit {lim}, daemon '
                                          f'height {c.dh.get(top)} while it was indexed, block has '
                                          f'{len(c.chain[top].txs)} txs)'})
                        elif top > tip_h - lim and c.dh.get(tip_h, 1 << 60) <= tip_h and r2 == 'ChainError':
                            # the server is caught up now (the daemon's height when the tip was indexed
                            # was the tip's), but this block was indexed while the daemon reported a
                            # GREATER height: a falling daemon-height trajectory.  The property
                            # quantifies over those too; the code keeps no undo information (F10)
                            res.bump('falling_daemon_height_refusals')
                            c.direct_fail.append({
                                'clause': 'C15: a block within the reorg limit of the tip cannot be undone',
                                'tags': ['window', 'F10'],
                                'detail': f'{r2} backing out height {top} (tip {tip_h}, reorg limit {lim}): it was indexed '
                                          f'while the daemon reported height {c.dh.get(top)}, above the height '
                                          f'{tip_h} at which the server later caught up (falling daemon height)'})
                        ok = False
                        break
                    if rng.random() < 0.3:
                        c.queries(2)
                if not ok:
                    break
                c.spec_check()
                tip = c.chain[-1]
        # a failed back-out ends the case: in the server the exception kills the processing task
        # (ChainError = refusal for lack of undo information; AssertionError only arises when a
        # block is backed out that was indexed outside its undo window - outside C03/C15)
        if c.real.bp is not None and c.chain and not any(
                k.startswith('backup_refused') for k in res.stats if res.stats[k] > before_refused.get(k, 0)):
            if c.flush(True) == 'ok':
                c.spec_check()
                c.queries()
                # re-open for serving in the same process, then a fresh process
                c.open(keep=True)
                c.queries(2)
                c.open()
                c.spec_check()
    finally:
        c.finish()
    for k, v in c.gen.stats.items():
        res.bump('gen_' + k, v)
    res.bump('spec_checkpoints', c.spec_points)
    return c


def compare(res, c, label):
    got = run_evdrv('index', c.lines)
    # first line on which model and code differ (correspondence), and first *specification* line on
    # which the real code differs from the Lean specification of the indexed chain (direct oracle;
    # S_ lines are evaluated from the chain named by S_CHAIN, independently of the model's state)
    bad = None
    bad_spec = {}          # first mismatching specification line per observable class
    for i, (e, g) in enumerate(zip(c.expect, got)):
        if e != g:
            if c.kinds[i] == 'spec':
                bad_spec.setdefault(c.lines[i].split(' ', 1)[0], i)
            elif bad is None:
                bad = i
    ops = [l for l, k in zip(c.lines, c.kinds) if k in ('cfg', 'adv', 'flush', 'backup', 'open')]
    canon = '|'.join(ops)
    nontrivial = any(k in ('flush', 'backup') for k in c.kinds) and any(k == 'spec' for k in c.kinds)
    res.note_case(canon + str(len(c.lines)), nontrivial)
    res.bump('protocol_lines', len(c.lines))
    ops_script = [l for l, k in zip(c.lines, c.kinds)
                  if k not in ('dump', 'dumpmem', 'q', 'spec') or l.startswith('Q_LOOKUP2')]
    def tags_at(i):
        # what had happened in the case when line i was produced: lets each property claim only the
        # failures (and correspondence breaks) in the part of the code its theorems are about
        t = set()
        if 'backup' in c.kinds[:i + 1]:
            t.add('after_backup')
        if c.kinds[:i + 1].count('open') > 1:
            t.add('after_restart')
        cmd = c.lines[i].split(' ', 1)[0]
        t.add({'S_UTXOS': 'utxo', 'S_LOOKUP': 'utxo', 'S_STATE': 'utxo', 'S_HIST': 'history',
               'S_TXHASHES': 'files', 'S_HEADERS': 'files'}.get(cmd, 'op_' + c.kinds[i]))
        if cmd in ('S_LOOKUP', 'Q_LOOKUP'):
            t.add('lookup')          # DB.lookup_utxos: what the mempool resolves prevouts with (C08)
        if cmd in ('Q_LOOKUP2A', 'Q_LOOKUP2B'):
            t.add('lookup_split')    # ... with index operations between its two jobs (C09, F22)
        return sorted(t)

    def case_for(i):
        kind = c.kinds[i]
        return {'suite': 'index', 'where': f'{label} line {i} ({kind})', 'tags': tags_at(i),
                'line': c.lines[i][:300], 'code': c.expect[i][:2000], 'model_or_spec': got[i][:2000],
                'script': [l for l, k in zip(c.lines[:i + 1], c.kinds[:i + 1]) if k not in ('dump', 'dumpmem')][-40:]}
    for d in c.direct_fail[:1]:
        res.violations.append(dict({'tags': ['window']}, **dict(d, suite='index', where=label, script=ops_script[-60:])))
    for _cmd, i in sorted(bad_spec.items(), key=lambda kv: kv[1]):
        case = case_for(i)
        case['clause'] = 'real index differs from the specification of the chain'
        case['detail'] = (f'{c.lines[i][:120]}: code says {c.expect[i][:300]} '
                          f'spec says {got[i][:300]}')
        res.violations.append(case)
    if bad is not None and len(res.disagreements) < 3:
        case = case_for(bad)
        case['grade'] = 'structural' if c.kinds[bad] in ('dump', 'dumpmem') else 'observable'
        case['model'] = got[bad][:2000]
        res.disagreements.append(case)
    return bad is None and not bad_spec and not c.direct_fail


SPLIT_SCENARIOS = ['none', 'flush', 'spend', 'reorg_same', 'reorg_same_noflush', 'backup_only',
                   'reorg_other_script', 'reorg_other_idx', 'reorg_same_value', 'reorg_and_back']


def split_case(res, rng, scen):
    """One `DB.lookup_utxos` call for an outpoint of the tip block A, with real index operations
    between its two run_in_thread jobs.  The reorg scenarios replace A by a block B of the same
    shape, so that B's transaction gets the tx number of A's: `reorg_same` makes it pay the same
    script at the same output index with another value (the row job 2 reads then belongs to the
    OTHER transaction: F22)."""
    GEN = (chaingen.ZERO, chaingen.MINUS_1)
    c = Case(res, rng, 1000, rng.choice([2, 3, 200]), None)
    try:
        c.open()
        tip = None
        for n in range(rng.randrange(1, 3)):
            tip = c.gen.new_block(tip, max_txs=rng.choice([0, 2]))
            c.advance(tip, n)
        h = len(c.chain)
        scripts = NORMAL_SCRIPTS[:6]
        S = rng.choice(scripts)
        pos = rng.choice([0, 0, 1])
        v1 = rng.randrange(1, 100_000)
        v2 = v1 if scen == 'reorg_same_value' else v1 + rng.randrange(1, 1000)
        filler = lambda: [(rng.randrange(1, 1000), rng.choice(scripts)) for _ in range(pos)]
        ta = chaingen.GTx([GEN], filler() + [(v1, S)], nonce=rng.getrandbits(64))
        outs_b = filler() + [(v2, S)]
        if scen == 'reorg_other_script':
            outs_b[pos] = (v2, rng.choice([x for x in scripts if x != S]))
        if scen == 'reorg_other_idx':
            outs_b.insert(pos, (rng.randrange(1, 1000), rng.choice([x for x in scripts if x != S])))
        tb = chaingen.GTx([GEN], outs_b, nonce=rng.getrandbits(64))
        A = c.gen.block_with(tip, [ta])
        c.advance(A, h)
        c.flush(True)
        if rng.random() < 0.8:
            c.lookup2_begin(ta.txid, pos)
        else:
            c.lookup2_begin(*rng.choice(c.outpoints))
        if scen == 'flush':
            c.advance(c.gen.new_block(A, max_txs=2), h + 1)
            c.flush(True)
        elif scen == 'spend':
            c.advance(c.gen.block_with(A, [chaingen.GTx([(ta.txid, pos)], [(v1, rng.choice(scripts))],
                                                        nonce=rng.getrandbits(64))]), h + 1)
            c.flush(True)
        elif scen != 'none':
            c.backup()
            if scen != 'backup_only':
                B = c.gen.block_with(tip, [tb])
                c.advance(B, h)
                if scen != 'reorg_same_noflush':
                    c.flush(True)
                if scen == 'reorg_and_back':
                    c.backup()
                    c.advance(A, h)
                    c.flush(True)
        c.lookup2_end()
        if c.flush(True) == 'ok':
            c.spec_check()
    finally:
        c.finish()
    return c


def remined_case(res, rng):
    """A transaction that is confirmed AGAIN under another tx number: block A = [coinbase, T] is indexed and
    an output of T is looked up (a mempool transaction spends it); the daemon reorganises to B1 = [coinbase, E],
    B2 = [coinbase, T] - T is valid on both branches, as every transaction returned to the mempool by a reorg is;
    then every output of T is looked up (another mempool transaction spends a sibling output).  Anything the
    index remembers per transaction hash across the reorganisation shows here.  Same DB object throughout."""
    GEN = (chaingen.ZERO, chaingen.MINUS_1)
    c = Case(res, rng, 1000, rng.choice([3, 200]), None)
    try:
        c.open()
        tip = None
        for n in range(rng.randrange(1, 3)):
            tip = c.gen.new_block(tip, max_txs=rng.choice([0, 2]))
            c.advance(tip, n)
        h = len(c.chain)
        scripts = NORMAL_SCRIPTS[:6]
        T = chaingen.GTx([GEN], [(rng.randrange(1, 100_000), rng.choice(scripts)) for _ in range(3)],
                         nonce=rng.getrandbits(64))
        E = chaingen.GTx([GEN], [(rng.randrange(1, 1000), rng.choice(scripts))], nonce=rng.getrandbits(64))
        A = c.gen.block_with(tip, [T] if rng.random() < 0.5 else [E, T])
        c.advance(A, h)
        c.flush(True)
        first = rng.randrange(3)
        c.emit(f'Q_LOOKUP {be(T.txid)} {first}', c.real.q_lookup(T.txid, first), 'q')
        c.backup()
        B1 = c.gen.block_with(tip, [chaingen.GTx([GEN], [(5, rng.choice(scripts))], nonce=rng.getrandbits(64)),
                                    chaingen.GTx([GEN], [(6, rng.choice(scripts))], nonce=rng.getrandbits(64))])
        c.advance(B1, h)
        B2 = c.gen.block_with(B1, [T])
        c.advance(B2, h + 1)
        if rng.random() < 0.7:
            c.flush(True)
        for idx in rng.sample(range(3), 3):
            c.emit(f'Q_LOOKUP {be(T.txid)} {idx}', c.real.q_lookup(T.txid, idx), 'q')
        if c.flush(True) == 'ok':
            c.spec_check()
    finally:
        c.finish()
    return c


def remined_probe(res, tier, seed):
    for i in range(6 if tier == 'quick' else 60):
        if common.out_of_time():
            break
        c = remined_case(res, rng_for(seed, 'index-remined', i))
        res.bump('remined_transaction_cases')
        compare(res, c, f're-mined transaction {i} (seed {seed})')


def split_lookup_probe(res, tier, seed):
    """DB.lookup_utxos is two thread jobs with a suspension point in between; the block processor may
    do anything there.  Directed cases (own RNG streams: the generated cases of `run` are unchanged)."""
    for i in range(20 if tier == 'quick' else 200):
        if common.out_of_time():
            break
        scen = SPLIT_SCENARIOS[i % len(SPLIT_SCENARIOS)]
        c = split_case(res, rng_for(seed, 'index-split', i), scen)
        res.bump('split_lookup_' + scen)
        compare(res, c, f'split lookup {i}: {scen} (seed {seed})')


def run(tier, seed):
    res = SuiteResult('index')
    res.rule = ('case = generated block tree (same-block spends, colliding 4-byte txid prefixes, unspendable '
                'outputs around a per-case activation height, zero values, duplicate scripts, generation-like '
                'inputs) + schedule of advance / history-only flush / full flush / restart / back-out, run on '
                'the real BlockProcessor+DB+History (LevelDB) and on the Lean model; every persistent table and '
                'the in-memory caches are compared after every op, and at each fully flushed state every '
                'observable is compared with the Lean specification of the indexed chain; non-trivial = the '
                'case contains a flush or back-out and at least one specification checkpoint')
    tall_chain_probe(res, seed)
    split_lookup_probe(res, tier, seed)
    remined_probe(res, tier, seed)
    groups = collision_groups(seed, tier)
    n_cases = 60 if tier == 'quick' else 1500
    for i in range(n_cases):
        if common.out_of_time():
            break
        rng = rng_for(seed, 'index', i)
        # hand the collision groups to every 3rd case
        g = [list(x) for x in groups] if i % 3 == 0 else None
        c = run_case(res, rng, tier, g, f'case {i}')
        if len(res.samples) < 2:
            res.sample({'ops': [l[:160] for l, k in zip(c.lines, c.kinds) if k in ('cfg', 'adv', 'flush', 'backup', 'open')][:30]})
        ok = compare(res, c, f'case {i} (seed {seed})')
        # a broken correspondence alone does not end the run: keep searching for an input on which
        # the property itself fails (the failing-input search); stop once there are violations
        if not ok and len(res.violations) >= 12:
            break
    need = ['history_only_flushes', 'full_flushes', 'reorgs', 'restarts', 'gen_same_block_spends',
            'gen_colliding_prefix_txs_placed', 'gen_op_return_before_activation',
            'gen_op_return_at_or_after_activation', 'db_spends_with_2plus_candidates',
            'split_lookup_job2_saw_row_of_reused_tx_number', 'split_lookup_answers']
    for k in need:
        # (a run that was cut short by what it found has not covered everything, and that is no harness fault)
        if res.stats.get(k, 0) == 0 and not res.violations and not res.disagreements and not common.out_of_time():
            res.harness_errors.append(f'generator never reached {k}')
    return res


def replay(case):
    import re
    m = re.match(r'split lookup (\d+): (\w+) \(seed (\d+)\)', case.get('where', ''))
    if m:
        # a case of the split-lookup probe: re-run it on the real code and judge it directly
        c = split_case(SuiteResult('index'), rng_for(int(m.group(3)), 'index-split', int(m.group(1))), m.group(2))
        return [f"{d['clause']}: {d['detail']}" for d in c.direct_fail]
    return ['replay of index cases: re-run the check with the same VERIF_SEED; the failing case is '
            + case.get('where', '?')]


def tall_chain_probe(res, seed):
    """Direct C15 oracle on a chain that crosses height 256 (undo keys are ordered by big-endian height;
    the start-up pruning scan relies on key order = height order): restarts at 250, 258 and 264 with
    reorg limit 10 must each leave undo rows for exactly the last 10 heights, and a back-out of
    limit blocks must then succeed.  Real code only (no model lines: 265 blocks of dumps would
    dominate the run)."""
    rng = rng_for(seed, 'index-tall')
    gen = Gen(rng, 1000)
    lim = 10
    real = RealIndex(1000, lim)
    try:
        real.open()
        tip = None
        chain = []
        for stop in (250, 258, 264):
            while len(chain) <= stop:
                tip = gen.new_block(tip, max_txs=0 if len(chain) % 50 else 2)
                if real.advance(tip, len(chain)) != 'ok':
                    res.harness_errors.append('tall chain: advance failed')
                    return
                chain.append(tip)
            real.flush(True)
            real.open()
            got = real.undo_heights()
            want = list(range(stop - lim + 1, stop + 1))
            res.bump('tall_chain_restarts')
            if got != want:
                res.violations.append({
                    'suite': 'index', 'tags': ['window'], 'where': 'tall chain probe',
                    'clause': 'C15: undo information older than the window survives start-up'
                              if set(got) - set(want) else 'C15: a block within the reorg limit of the tip cannot be undone',
                    'detail': f'after a start at height {stop} with reorg limit {lim} the DB holds undo rows for heights '
                              f'{got[:4]}..{got[-3:]} ({len(got)} rows), expected exactly {want[0]}..{want[-1]}'})
                return
        for _ in range(lim):
            r = real.backup(chain[-1])
            if r != 'ok':
                res.violations.append({'suite': 'index', 'tags': ['window'], 'where': 'tall chain probe',
                                       'clause': 'C15: a block within the reorg limit of the tip cannot be undone',
                                       'detail': f'{r} backing out height {len(chain) - 1} of a chain of height 264'})
                return
            chain.pop()
    finally:
        real.destroy()


def known_reproduces(finding):
    """F10 on the real code: limit 2, two blocks indexed while the daemon reports height 10, full flush,
    the daemon then at height 1 (the server is caught up): backing out the tip is refused."""
    if finding.get('witness', {}).get('kind') != 'F10':
        return False
    rng = rng_for(0, 'index-F10')
    gen = Gen(rng, 1000)
    real = RealIndex(1000, 2)
    try:
        real.open()
        b0 = gen.new_block(None, max_txs=0)
        b1 = gen.new_block(b0, max_txs=0)
        if real.advance(b0, 10) != 'ok' or real.advance(b1, 10) != 'ok' or real.flush(True) != 'ok':
            return False
        return real.backup(b1) == 'ChainError'
    finally:
        real.destroy()


def matches_known(violation, finding):
    return finding.get('witness', {}).get('kind') == 'F10' and 'F10' in (violation.get('tags') or [])
